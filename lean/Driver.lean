import Mochi.Driver.Util
import Mochi.Driver.Varint
open Mochi.Driver

/-- input line: `op args…<TAB>implementation output`;
    answer line: `model output<TAB>spec verdict<TAB>signature`; unknown op => `bad-op` -/
def answer (line : String) : String :=
  let (opPart, impl) := match line.splitOn "\t" with
    | [a, b] => (a, b)
    | a :: _ => (a, "")
    | [] => ("", "")
  let ws := words opPart
  let r := (varintOp impl ws)
  match r with
  | some (m, s, g) => m ++ "\t" ++ s ++ "\t" ++ g
  | none => "bad-op"

partial def loop (h : IO.FS.Stream) (out : IO.FS.Stream) : IO Unit := do
  let line ← h.getLine
  if line.isEmpty then return ()
  out.putStrLn (answer ((line.dropEndWhile (fun c => c == '\n' || c == '\r')).toString))
  loop h out

def main : IO Unit := do
  let out ← IO.getStdout
  loop (← IO.getStdin) out
  out.flush
