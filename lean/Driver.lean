import Mochi.Driver.Util
import Mochi.Driver.Varint
import Mochi.Driver.Topics
import Mochi.Driver.Keepalive
import Mochi.Driver.Ledger
import Mochi.Driver.BufPool
import Mochi.Driver.WsConn
import Mochi.Driver.Codec
import Mochi.Driver.Broker
import Mochi.Driver.BrokerSpec
import Mochi.Driver.WriteBuf
import Mochi.Driver.Storage
import Mochi.Driver.Reader
import Mochi.Driver.Hostile
import Mochi.Driver.Restart
import Mochi.Driver.Crash
import Mochi.Driver.Shutdown
import Mochi.Driver.Hooks
import Mochi.Driver.Alias
import Mochi.Driver.InflOrder
import Mochi.Driver.AckFit
open Mochi.Driver

structure DState where
  topics : TState := {}
  ledger : LState := {}
  bufpool : BState := {}
  broker : BkState := {}
  writebuf : WState := {}
  storage : St.StState := {}
  hostile : HState := {}
  restart : St.SrState := {}
  shutdown : SdState := {}
  alias : AlState := {}
  inflorder : IoState := {}

/-- input line: `op args…<TAB>implementation output`;
    answer line: `model output<TAB>spec verdict<TAB>signature`; unknown op => `bad-op` -/
def answer (st : DState) (line : String) : DState × String :=
  let (opPart, impl) := match line.splitOn "\t" with
    | [a, b] => (a, b)
    | a :: _ => (a, "")
    | [] => ("", "")
  let ws := words opPart
  let fmt (r : String × String × String) : String := r.1 ++ "\t" ++ r.2.1 ++ "\t" ++ r.2.2
  match ws with
  | ["reset"] => ({}, "-\tok\t-")
  | _ =>
    match (varintOp impl ws <|> keepaliveOp impl ws <|> wsOp impl ws <|> codecOp impl ws <|> readerOp impl ws <|> hooksOp impl ws <|> ackFitOp impl ws) with
    | some r => (st, fmt r)
    | none =>
      match (topicsOp st.topics impl ws <|> topicsConcOp st.topics impl ws) with
      | some (t', r) => ({ st with topics := t' }, fmt r)
      | none =>
        match ledgerOp st.ledger impl ws with
        | some (l', r) => ({ st with ledger := l' }, fmt r)
        | none =>
          match bufpoolOp st.bufpool impl ws with
          | some (b', r) => ({ st with bufpool := b' }, fmt r)
          | none =>
            match hostileOpV st.broker st.hostile impl ws with
            | some (k', h', r) => ({ st with broker := k', hostile := h' }, fmt r)
            | none =>
              match writebufOp st.writebuf impl ws with
              | some (w', r) => ({ st with writebuf := w' }, fmt r)
              | none =>
                match St.storageOp st.storage impl ws with
                | some (s', r) => ({ st with storage := s' }, fmt r)
                | none =>
                  match (St.crashOp st.restart impl ws <|> St.restartOp st.restart impl ws) with
                  | some (s', r) => ({ st with restart := s' }, fmt r)
                  | none =>
                  match shutdownOp st.shutdown impl ws with
                  | some (d', r) => ({ st with shutdown := d' }, fmt r)
                  | none =>
                  match aliasOp st.alias impl ws with
                  | some (a', r) => ({ st with alias := a' }, fmt r)
                  | none =>
                  match inflOrderOp st.inflorder impl ws with
                  | some (i', r) => ({ st with inflorder := i' }, fmt r)
                  | none => (st, "bad-op")

partial def loop (h : IO.FS.Stream) (out : IO.FS.Stream) (st : DState) : IO Unit := do
  let line ← h.getLine
  if line.isEmpty then return ()
  let (st', a) := answer st ((line.dropEndWhile (fun c => c == '\n' || c == '\r')).toString)
  out.putStrLn a
  loop h out st'

def main : IO Unit := do
  let out ← IO.getStdout
  loop (← IO.getStdin) out {}
  out.flush
