import Mochi.Lemmas.BrokerInv
import Mochi.Lemmas.Refine

namespace Mochi.Broker
open Mochi.Topics

def indexEntries (x : Index) : List (Str × Str) :=
  x.nodes.flatMap fun n =>
    n.subs.map (fun cs => (cs.1, cs.2.filter)) ++
    n.shared.flatMap (fun g => g.2.map (fun cs => (cs.1, cs.2.filter)))

def SyncA (s : Server) : Prop :=
  ∀ e ∈ indexEntries s.topics, ∃ ci ∈ s.clients, ci.1 = e.1 ∧ e.2 ∈ (getObj s ci.2).subs.map (·.1)

instance (s : Server) : Decidable (SyncA s) := by unfold SyncA; infer_instance

def hasEntry (x : Index) (cid f : Str) : Bool :=
  let ls := splitLevels f
  if isShare (isolate ls 0).1 then
    ((getNode x.nodes (pathFrom ls 2)).bind (fun n => sharedGet n.shared (isolate ls 1).1 cid)).isSome
  else ((getNode x.nodes (pathFrom ls 0)).bind (fun n => assocGet n.subs cid)).isSome

def SyncB (s : Server) : Prop :=
  ∀ ci ∈ s.clients, ∀ fs ∈ (getObj s ci.2).subs, hasEntry s.topics ci.1 fs.1 = true

instance (s : Server) : Decidable (SyncB s) := by unfold SyncB; infer_instance

def SyncB' (s : Server) : Prop :=
  ∀ ci ∈ s.clients, ∀ fs ∈ (getObj s ci.2).subs, (ci.1, fs.1) ∈ indexEntries s.topics

instance (s : Server) : Decidable (SyncB' s) := by unfold SyncB'; infer_instance

def X : Str := [120]
def fa : Str := [97]
def fb : Str := [98]
def shareA : Str := [36, 115, 104, 97, 114, 101, 47, 103, 47, 97]   -- $share/g/a
def shareA' : Str := [36, 83, 72, 65, 82, 69, 47, 103, 47, 97]   -- $SHARE/g/a

-- schedule counterexample for (a): dropHold, tick, reconnect, release
def h1 : List Op :=
  [.connect 1 { ver := 5, id := X, sei := some 0 },
   .dropHold 1,
   .tick "clients" (NOW + 1),
   .connect 2 { ver := 5, id := X, sei := some 100 },
   .recv 2 (.subscribe 1 0 [{ filter := fa }]),
   .release 1]

#eval decide (OpsFresh (init {}) h1)
#eval decide (SyncA (run (init {}) h1))
#eval (run (init {}) h1).clients
#eval indexEntries (run (init {}) h1).topics
#eval decide (SyncA (run (init {}) (h1.take 5)))

-- stage-1 hold, then drop on the parked connection
def h2 : List Op :=
  [.connect 1 { ver := 5, id := X, sei := some 100 },
   .recv 1 (.subscribe 1 0 [{ filter := fa }]),
   .connectHold 2 { ver := 5, id := X, sei := some 0 } 1,
   .drop 2]
#eval decide (SyncA (run (init {}) h2))
#eval (run (init {}) h2).clients

-- recv on stage-1 parked
def h3 : List Op :=
  [.connectHold 2 { ver := 5, id := X, sei := some 0 } 1,
   .recv 2 (.subscribe 1 0 [{ filter := fa }])]
#eval decide (SyncA (run (init {}) h3))

-- (b) alias counterexample, sequential
def h4 : List Op :=
  [.connect 1 { ver := 5, id := X, sei := some 100 },
   .recv 1 (.subscribe 1 0 [{ filter := shareA }]),
   .recv 1 (.subscribe 2 0 [{ filter := shareA' }]),
   .recv 1 (.unsubscribe 3 [shareA])]
#eval decide (SyncB (run (init {}) h4))
#eval decide (SyncB' (run (init {}) h4))
#eval decide (SyncB' (run (init {}) (h4.take 3)))
#eval decide (SyncB (run (init {}) (h4.take 3)))
#eval decide (SyncA (run (init {}) h4))
#eval (getObj (run (init {}) h4) 1).subs.map (·.1)
#eval indexEntries (run (init {}) h4).topics

end Mochi.Broker
