import Mochi.Lemmas.BrokerSurvive
namespace Mochi.Broker.Q08
open Mochi.Topics

theorem ite_res_P {P : Server → Prop} {p : Prop} [Decidable p] {a b : HRes}
    (ha : p → P a.1) (hb : ¬ p → P b.1) : P (if p then a else b).1 := by
  by_cases h : p
  · rw [if_pos h]; exact ha h
  · rw [if_neg h]; exact hb h

/-- a PUBLISH of a network client under the packet identifier of an open inbound QoS 2 exchange (a PUBREC record is
    filed under it) changes nothing in the broker but, possibly, closes the publisher's connection: the state after
    `processPublish` is the state before, or the state after `DisconnectClient` -/
theorem processPublish_dup_state (s : Server) (i qos : Nat) (dup retain : Bool) (id : Nat) (topic payload : Str)
    (me : Nat) (al : Option Nat) (pki : Msg) (hin : (getObj s i).inline = false)
    (hrec : flGet (getObj s i) id = some pki) (ht : pki.type = 5) :
    (processPublish s i qos dup retain id topic payload me al).1 = s ∨
    ∃ code, (processPublish s i qos dup retain id topic payload me al).1 = (disconnectClient s i code).1 := by
  unfold processPublish
  extract_lets +onlyGivenNames c
  have early : ∀ code, (fun x => x = s ∨ ∃ code, x = (disconnectClient s i code).1)
      (if (qos == 0) = true then ((s, [], none) : HRes)
        else if (c.ver != 5) = true then
          match disconnectClient s i code with
          | (s, o) => (s, o, some code)
        else ackRes s i (if (qos == 2) = true then 5 else 4) id code).1 := by
    intro code
    split
    · exact Or.inl rfl
    · split
      · split
        rename_i s' o heq
        exact Or.inr ⟨code, by rw [heq]⟩
      · rw [ackRes_fst]; exact Or.inl rfl
  refine ite_res_P (P := fun x => x = s ∨ ∃ code, x = (disconnectClient s i code).1) (fun _ => early _) (fun _ => ?_)
  refine ite_res_P (P := fun x => x = s ∨ ∃ code, x = (disconnectClient s i code).1) (fun _ => ?_) (fun _ => ?_)
  · split
    rename_i s' o heq
    exact Or.inr ⟨0x93, by rw [heq]⟩
  refine ite_res_P (P := fun x => x = s ∨ ∃ code, x = (disconnectClient s i code).1) (fun _ => early _) (fun _ => ?_)
  extract_lets +onlyGivenNames e pk pre
  have hin' : c.inline = false := hin
  have hrec' : flGet c id = some pki := hrec
  have ht' : (pki.type == 5) = true := by rw [ht]; rfl
  have hpre : pre = some (ackRes s i 5 id 0x91) := by
    simp only [pre, hin', hrec', ht', Bool.false_eq_true, if_false, if_true]
  generalize pre = pre' at hpre
  subst hpre
  left
  exact ackRes_fst s i 5 id 0x91

end Mochi.Broker.Q08
#print axioms Mochi.Broker.Q08.processPublish_dup_state
