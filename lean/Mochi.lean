import Mochi.Props.C29
