/-
M2 — the topic index of topics.go, with the particle trie *flattened*: a `Trie` is the list of its
non-root particles, each carrying its path from the root.  `particles.get/getAll` of the particle at
path `p` are the entries whose path is `p ++ [k]`.

Strings are byte lists (`List Nat`, bytes < 256): Go's `string`.
-/
namespace Mochi.Topics

abbrev Str := List Nat
abbrev Level := Str
abbrev Path := List Level

def slash : Nat := 47   -- '/'
def plus : Nat := 43    -- '+'
def hash : Nat := 35    -- '#'
def dollar : Nat := 36  -- '$'

/-- `strings.Split(s, "/")` : always non-empty -/
def splitLevels : Str → Path
  | [] => [[]]
  | c :: rest =>
    if c = slash then [] :: splitLevels rest
    else match splitLevels rest with
      | [] => [[c]]            -- unreachable (splitLevels is never empty)
      | l :: ls => (c :: l) :: ls

/-- `strings.Join(ls, "/")` -/
def joinLevels : Path → Str
  | [] => []
  | [l] => l
  | l :: ls => l ++ slash :: joinLevels ls

/-- `isolateParticle(filter, d)` on the levels of `filter` (d ≥ 0): the d-th level and whether a
    further level follows; past the end the Go loop yields the last level. -/
def isolate : Path → Nat → Level × Bool
  | [], _ => ([], false)
  | [l], _ => (l, false)
  | l :: _ :: _, 0 => (l, true)
  | _ :: l2 :: rest, d + 1 => isolate (l2 :: rest) d

/-- ASCII upper-casing of one byte -/
def upper (c : Nat) : Nat := if 97 ≤ c ∧ c ≤ 122 then c - 32 else c

/-- `strings.EqualFold(s, "$SHARE")`. Besides ASCII case the only rune that simple-folds to a letter
    of "$SHARE" is U+017F (ſ, bytes C5 BF), which folds to 'S'. -/
def foldShare : Str → Str
  | 0xC5 :: 0xBF :: rest => 83 :: foldShare rest
  | c :: rest => upper c :: foldShare rest
  | [] => []

def shareUpper : Str := [36, 83, 72, 65, 82, 69]  -- "$SHARE"
def sysUpper : Str := [36, 83, 89, 83]            -- "$SYS"

def isShare (l : Level) : Bool := foldShare l == shareUpper

/-- `IsSharedFilter` -/
def isSharedFilter (f : Str) : Bool := isShare (isolate (splitLevels f) 0).1

/-- the per-level wildcard loop of `IsValidFilter` -/
def levelsOK : Path → Bool
  | [] => true
  | [l] => (!l.contains hash || l.length == 1) && (!l.contains plus || l.length == 1)
  | l :: rest => !l.contains hash && (!l.contains plus || l.length == 1) && levelsOK rest

/-- `IsValidFilter(filter, forPublish)` -/
def isValidFilter (f : Str) (forPublish : Bool) : Bool :=
  if !forPublish && f.isEmpty then false
  else if forPublish && (f.length ≥ 4 && (f.take 4).map upper == sysUpper) then false
  else if forPublish && (f.contains plus || f.contains hash) then false
  else if forPublish then true
  else if !levelsOK (splitLevels f) then false
  else
    let ph := isolate (splitLevels f) 0
    if !ph.2 && isShare ph.1 then false
    else if ph.2 && isShare ph.1 then
      let gh := isolate (splitLevels f) 1
      if !gh.2 then false
      else if gh.1.isEmpty || gh.1.contains plus || gh.1.contains hash then false
      else if f.length ≤ ph.1.length + gh.1.length + 2 then false
      else true
    else true

/-! ## Subscriptions -/

structure Sub where
  filter : Str
  qos : Nat := 0
  noLocal : Bool := false
  rap : Bool := false          -- RetainAsPublished
  rh : Nat := 0                -- RetainHandling
  ident : Nat := 0             -- Identifier
  idents : Option (List (Str × Nat)) := none   -- Identifiers (nil = none)
deriving DecidableEq, Repr

/-- association-list update (Go map assignment) -/
def assocSet {α β} [DecidableEq α] (m : List (α × β)) (k : α) (v : β) : List (α × β) :=
  match m with
  | [] => [(k, v)]
  | (k', v') :: rest => if k' = k then (k, v) :: rest else (k', v') :: assocSet rest k v

def assocGet {α β} [DecidableEq α] (m : List (α × β)) (k : α) : Option β :=
  match m with
  | [] => none
  | (k', v') :: rest => if k' = k then some v' else assocGet rest k

def assocDel {α β} [DecidableEq α] (m : List (α × β)) (k : α) : List (α × β) :=
  m.filter (fun kv => kv.1 ≠ k)

/-- `Subscription.Merge` -/
def Sub.merge (s n : Sub) : Sub :=
  let ids := match s.idents with
    | none => [(s.filter, s.ident)]
    | some m => m
  let ids := if n.ident > 0 then assocSet ids n.filter n.ident else ids
  { s with idents := some ids, qos := if n.qos > s.qos then n.qos else s.qos,
           noLocal := if n.noLocal then true else s.noLocal }

/-! ## The flattened trie -/

structure Node where
  path : Path
  subs : List (Str × Sub) := []                  -- client id ↦ subscription
  shared : List (Str × List (Str × Sub)) := []    -- group ↦ client id ↦ subscription
  inline : List (Nat × Sub) := []                 -- inline identifier ↦ subscription
  retainPath : Str := []
deriving DecidableEq, Repr

structure Retained where
  topic : Str
  payload : Str
  retain : Bool
deriving DecidableEq, Repr

structure Index where
  nodes : List Node := []
  retained : List (Str × Retained) := []   -- packets.Packets keyed by topic
deriving Repr

def getNode (ns : List Node) (p : Path) : Option Node := ns.find? (fun n => n.path == p)

def hasNode (ns : List Node) (p : Path) : Bool := ns.any (fun n => n.path == p)

/-- replace the node at its path -/
def putNode (ns : List Node) (n : Node) : List Node :=
  ns.map (fun m => if m.path == n.path then n else m)

def sharedLen (sh : List (Str × List (Str × Sub))) : Nat := (sh.map (fun g => g.2.length)).sum

/-- number of child particles of the particle at `p` -/
def childCount (ns : List Node) (p : Path) : Nat :=
  (ns.filter (fun n => n.path.length == p.length + 1 && n.path.dropLast == p)).length

def children (ns : List Node) (p : Path) : List Node :=
  ns.filter (fun n => n.path.length == p.length + 1 && n.path.dropLast == p)

/-- all non-empty prefixes of a path, shortest first -/
def prefixes : Path → List Path
  | [] => []
  | l :: rest => [l] :: (prefixes rest).map (l :: ·)

/-- `set`: create every missing particle along the path -/
def setPath (ns : List Node) (p : Path) : List Node :=
  (prefixes p).foldl (fun acc q => if hasNode acc q then acc else acc ++ [{ path := q }]) ns

/-- `seek`: walk down; nil as soon as a particle is missing -/
def seek (ns : List Node) (p : Path) : Option Node :=
  if (prefixes p).all (hasNode ns) then getNode ns p else none

def nodeEmpty (ns : List Node) (n : Node) : Bool :=
  n.retainPath.isEmpty && childCount ns n.path + n.subs.length + sharedLen n.shared + n.inline.length == 0

/-- `trim`: remove empty particles upwards (fuel = path length) -/
def trim (ns : List Node) : Path → Nat → List Node
  | _, 0 => ns
  | p, fuel + 1 =>
    if p.isEmpty then ns else
    match getNode ns p with
    | none => ns
    | some n =>
      if nodeEmpty ns n then trim (ns.filter (fun m => m.path != p)) p.dropLast fuel
      else ns

/-- the particle path `set(filter, d)`/`seek(filter, d)` address -/
def pathFrom (ls : Path) (d : Nat) : Path :=
  if d < ls.length then ls.drop d else [ (isolate ls d).1 ]

/-- `SharedSubscriptions.Add` -/
def sharedAdd (sh : List (Str × List (Str × Sub))) (g c : Str) (s : Sub) : List (Str × List (Str × Sub)) :=
  match assocGet sh g with
  | none => sh ++ [(g, [(c, s)])]
  | some m => assocSet sh g (assocSet m c s)

/-- `SharedSubscriptions.Delete` -/
def sharedDel (sh : List (Str × List (Str × Sub))) (g c : Str) : List (Str × List (Str × Sub)) :=
  match assocGet sh g with
  | none => sh
  | some m =>
    let m' := assocDel m c
    if m'.isEmpty then assocDel sh g else assocSet sh g m'

def sharedGet (sh : List (Str × List (Str × Sub))) (g c : Str) : Option Sub :=
  match assocGet sh g with
  | none => none
  | some m => assocGet m c

/-- `TopicsIndex.Subscribe(client, subscription)` → (index, isNew) -/
def subscribe (x : Index) (client : Str) (s : Sub) : Index × Bool :=
  let ls := splitLevels s.filter
  if isShare (isolate ls 0).1 then
    let group := (isolate ls 1).1
    let p := pathFrom ls 2
    let ns := setPath x.nodes p
    match getNode ns p with
    | none => (x, false)   -- unreachable: setPath creates p
    | some n =>
      let existed := (sharedGet n.shared group client).isSome
      ({ x with nodes := putNode ns { n with shared := sharedAdd n.shared group client s } }, !existed)
  else
    let p := pathFrom ls 0
    let ns := setPath x.nodes p
    match getNode ns p with
    | none => (x, false)
    | some n =>
      let existed := (assocGet n.subs client).isSome
      ({ x with nodes := putNode ns { n with subs := assocSet n.subs client s } }, !existed)

/-- `TopicsIndex.Unsubscribe(filter, client)` → (index, existed) -/
def unsubscribe (x : Index) (filter client : Str) : Index × Bool :=
  let ls := splitLevels filter
  let share := isShare (isolate ls 0).1
  -- "$share" or "$share/group": no topic filter follows, nothing can be subscribed under it
  if share && !(isolate ls 1).2 then (x, false) else
  let p := pathFrom ls (if share then 2 else 0)
  match seek x.nodes p with
  | none => (x, false)
  | some n =>
    if share then
      let group := (isolate ls 1).1
      let existed := (sharedGet n.shared group client).isSome
      let ns := putNode x.nodes { n with shared := sharedDel n.shared group client }
      ({ x with nodes := trim ns p p.length }, existed)
    else
      let existed := (assocGet n.subs client).isSome
      let ns := putNode x.nodes { n with subs := assocDel n.subs client }
      ({ x with nodes := trim ns p p.length }, existed)

/-- `TopicsIndex.InlineSubscribe` -/
def inlineSubscribe (x : Index) (id : Nat) (s : Sub) : Index × Bool :=
  let p := pathFrom (splitLevels s.filter) 0
  let ns := setPath x.nodes p
  match getNode ns p with
  | none => (x, false)
  | some n =>
    let existed := (assocGet n.inline id).isSome
    ({ x with nodes := putNode ns { n with inline := assocSet n.inline id s } }, !existed)

/-- `TopicsIndex.InlineUnsubscribe(id, filter)` -/
def inlineUnsubscribe (x : Index) (id : Nat) (filter : Str) : Index × Bool :=
  let p := pathFrom (splitLevels filter) 0
  match seek x.nodes p with
  | none => (x, false)
  | some n =>
    let existed := (assocGet n.inline id).isSome
    let inl := assocDel n.inline id
    let ns := putNode x.nodes { n with inline := inl }
    ({ x with nodes := if inl.isEmpty then trim ns p p.length else ns }, existed)

/-- `TopicsIndex.RetainMessage(pk)` → (index, +1 / 0 / -1 as 1 / 0 / 2) -/
def retainMessage (x : Index) (topic payload : Str) (retainFlag : Bool) : Index × Int :=
  let p := pathFrom (splitLevels topic) 0
  let ns := setPath x.nodes p
  match getNode ns p with
  | none => (x, 0)
  | some n =>
    if payload.length > 0 then
      ({ nodes := putNode ns { n with retainPath := topic },
         retained := assocSet x.retained topic { topic := topic, payload := payload, retain := retainFlag } }, 1)
    else
      let out : Int := match assocGet x.retained topic with
        | some pke => if pke.payload.length > 0 && pke.retain then -1 else 0
        | none => 0
      let ns := putNode ns { n with retainPath := [] }
      ({ nodes := trim ns p p.length, retained := assocDel x.retained topic }, out)

/-! ## Queries -/

/-- what `scanSubscribers` gathers, in order: (particle path, which of the three gathers) -/
inductive Gather where
  | subs (p : Path)     -- gatherSubscriptions
  | shared (p : Path)   -- gatherSharedSubscriptions
  | inline (p : Path)   -- gatherInlineSubscriptions
deriving DecidableEq, Repr

def gatherAll (p : Path) : List Gather := [.subs p, .shared p, .inline p]

/-- the recursion of `scanSubscribers(topic, d, n, subs)`; `cur` = path of `n`, `rest` = levels d… -/
def scanVisits (ns : List Node) : (cur : Path) → (rest : Path) → List Gather
  | _, [] => []
  | cur, [key] =>
    let forKey (k : Level) : List Gather :=
      if hasNode ns (cur ++ [k]) then
        gatherAll (cur ++ [k]) ++
          (if hasNode ns (cur ++ [k, [hash]]) then gatherAll (cur ++ [k, [hash]]) else [])
      else []
    forKey key ++ forKey [plus] ++
      (if hasNode ns (cur ++ [[hash]]) then gatherAll (cur ++ [[hash]]) else [])
  | cur, key :: r2 :: rest =>
    (if hasNode ns (cur ++ [key]) then scanVisits ns (cur ++ [key]) (r2 :: rest) else []) ++
    (if hasNode ns (cur ++ [[plus]]) then scanVisits ns (cur ++ [[plus]]) (r2 :: rest) else []) ++
    (if hasNode ns (cur ++ [[hash]]) then gatherAll (cur ++ [[hash]]) else [])

structure Subscribers where
  subs : List (Str × Sub) := []                    -- client ↦ merged subscription
  shared : List (Str × List (Str × Sub)) := []      -- filter ↦ client ↦ subscription
  inline : List (Nat × Sub) := []
deriving Repr

/-- the `$` test of `gatherSubscriptions`: `topic[0] == '$' && (sub.Filter[0] == '+' || sub.Filter[0] == '#')` -/
def dollarExcluded (filter topic : Str) : Bool :=
  match filter, topic with
  | f0 :: _, t0 :: _ => t0 == dollar && (f0 == plus || f0 == hash)
  | _, _ => false

/-- `particle.wildStart()`: the first level of the particle's address is `+` or `#` -/
def wildStart (p : Path) : Bool := p.head? == some [plus] || p.head? == some [hash]

def topicDollar (topic : Str) : Bool := topic.head? == some dollar

/-- loop body of `gatherSubscriptions` -/
def gatherSubOne (topic : Str) (m : List (Str × Sub)) (cs : Str × Sub) : List (Str × Sub) :=
  if dollarExcluded cs.2.filter topic then m
  else match assocGet m cs.1 with
    | none => assocSet m cs.1 (cs.2.merge cs.2)
    | some cls => assocSet m cs.1 (cls.merge cs.2)

/-- inner loop body of `gatherSharedSubscriptions`: `subs.Shared[sub.Filter][client] = sub` -/
def gatherSharedOne (m : List (Str × List (Str × Sub))) (cs : Str × Sub) : List (Str × List (Str × Sub)) :=
  match assocGet m cs.2.filter with
  | none => m ++ [(cs.2.filter, [(cs.1, cs.2)])]
  | some mm => assocSet m cs.2.filter (assocSet mm cs.1 cs.2)

/-- loop body of `gatherInlineSubscriptions` -/
def gatherInlineOne (m : List (Nat × Sub)) (is : Nat × Sub) : List (Nat × Sub) := assocSet m is.1 is.2

def gatherStep (ns : List Node) (topic : Str) (acc : Subscribers) : Gather → Subscribers
  | .subs p =>
    match getNode ns p with
    | none => acc
    | some n => { acc with subs := n.subs.foldl (gatherSubOne topic) acc.subs }
  | .shared p =>
    match getNode ns p with
    | none => acc
    | some n =>
      if topicDollar topic && wildStart p then acc else
      { acc with shared := n.shared.foldl (fun m g => g.2.foldl gatherSharedOne m) acc.shared }
  | .inline p =>
    match getNode ns p with
    | none => acc
    | some n =>
      if topicDollar topic && wildStart p then acc else
      { acc with inline := n.inline.foldl gatherInlineOne acc.inline }

/-- `TopicsIndex.Subscribers(topic)` -/
def subscribers (x : Index) (topic : Str) : Subscribers :=
  if topic.isEmpty then {} else
  (scanVisits x.nodes [] (splitLevels topic)).foldl (gatherStep x.nodes topic) {}

/-- `scanMessages(filter, d, n, pks)`: returns the retainPaths collected, in order.
    `ls` = levels of the filter, `cur` = path of `n`, `d` = depth; fuel bounds the descent by the
    number of particles. -/
def scanMsgs (ns : List Node) (ls : Path) : (cur : Path) → (d : Nat) → (fuel : Nat) → List Str
  | _, _, 0 => []
  | cur, d, fuel + 1 =>
    let kh := isolate ls d
    let key := kh.1
    let hasNext := kh.2
    let own : List Str :=
      if key == [hash] then
        match getNode ns cur with
        | some n => if n.retainPath.isEmpty then [] else [n.retainPath]
        | none => []
      else []
    if key == [plus] || key == [hash] then
      own ++ (children ns cur).flatMap (fun adj =>
        match adj.path.getLast? with
        | none => []
        | some k =>
          if d == 0 && k.head? == some dollar then []
          else
            (if !hasNext && key == [plus] && !adj.retainPath.isEmpty then [adj.retainPath] else []) ++
            (if hasNext || key == [hash] then scanMsgs ns ls adj.path (d + 1) fuel else []))
    else
      match getNode ns (cur ++ [key]) with
      | none => []
      | some part =>
        if hasNext then scanMsgs ns ls part.path (d + 1) fuel
        else [part.retainPath]

/-- `TopicsIndex.Messages(filter)`: the retained packets found (by topic) -/
def messages (x : Index) (filter : Str) : List Retained :=
  if filter.isEmpty || x.retained.isEmpty then []
  else if !filter.contains hash && !filter.contains plus then
    match assocGet x.retained filter with
    | some pk => [pk]
    | none => []
  else
    (scanMsgs x.nodes (splitLevels filter) [] 0 (x.nodes.length + 1)).filterMap (assocGet x.retained)

end Mochi.Topics
