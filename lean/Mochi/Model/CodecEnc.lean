import Mochi.Model.Codec
/-
M1 — encoding side: packets/codec.go encode helpers, `Properties.Encode`, `FixedHeader.Encode` and the
fifteen `*Encode` methods of packets/packets.go.
-/
namespace Mochi.Codec
open Mochi.Varint

def encodeUint16 (v : Nat) : Str := [v / 256 % 256, v % 256]
def encodeUint32 (v : Nat) : Str := [v / 16777216 % 256, v / 65536 % 256, v / 256 % 256, v % 256]
/-- `encodeBytes` / `encodeString`: `uint16(len(val))` big-endian, then the bytes -/
def encodeBytes (v : Str) : Str := encodeUint16 (v.length % 65536) ++ v
def encodeBool (b : Bool) : Nat := if b then 1 else 0

def encodePVal : PVal → Str
  | .byte v => [v % 256]
  | .u16 v => encodeUint16 v
  | .u32 v => encodeUint32 v
  | .str s => encodeBytes s
  | .bin s => encodeBytes s
  | .varint n => encodeLength n
  | .pair k v => encodeBytes k ++ encodeBytes v

def encodePropList : List (Nat × PVal) → Str
  | [] => []
  | (k, v) :: rest => k :: encodePVal v ++ encodePropList rest

def opt (c : Bool) (e : Nat × PVal) : List (Nat × PVal) := if c then [e] else []

def containsAny (s : Str) (cs : List Nat) : Bool := s.any (fun b => cs.contains b)

/-- the property entries `Properties.Encode(pkt, mods, b, n)` writes, in order -/
def propsToList (pkt : Nat) (mods : Mods) (n : Nat) (p : Props) : List (Nat × PVal) :=
  let can (k : Nat) := propAllowed k pkt
  let reason := encodeBytes p.reasonString
  let userBytes := encodePropList (p.user.map fun (k, v) => (38, PVal.pair k v))
  opt (can 1 && p.payloadFormatFlag) (1, .byte p.payloadFormat) ++
  opt (can 2 && p.messageExpiryInterval > 0) (2, .u32 p.messageExpiryInterval) ++
  opt (can 3 && !p.contentType.isEmpty) (3, .str p.contentType) ++
  opt (mods.allowResponseInfo && can 8 && !p.responseTopic.isEmpty && !containsAny p.responseTopic [43, 35])
    (8, .str p.responseTopic) ++
  opt (mods.allowResponseInfo && can 9 && p.correlationData.length > 0) (9, .bin p.correlationData) ++
  (if can 11 && p.subscriptionIdentifier.length > 0 then
     (p.subscriptionIdentifier.filter (· > 0)).map fun v => (11, PVal.varint v) else []) ++
  opt (can 17 && p.sessionExpiryIntervalFlag) (17, .u32 p.sessionExpiryInterval) ++
  opt (can 18 && !p.assignedClientID.isEmpty) (18, .str p.assignedClientID) ++
  opt (can 19 && p.serverKeepAliveFlag) (19, .u16 p.serverKeepAlive) ++
  opt (can 21 && !p.authenticationMethod.isEmpty) (21, .str p.authenticationMethod) ++
  opt (can 22 && p.authenticationData.length > 0) (22, .bin p.authenticationData) ++
  opt (can 23 && p.requestProblemInfoFlag) (23, .byte p.requestProblemInfo) ++
  opt (can 24 && p.willDelayInterval > 0) (24, .u32 p.willDelayInterval) ++
  opt (can 25 && p.requestResponseInfo > 0) (25, .byte p.requestResponseInfo) ++
  opt (mods.allowResponseInfo && can 26 && p.responseInfo.length > 0) (26, .str p.responseInfo) ++
  opt (can 28 && p.serverReference.length > 0) (28, .str p.serverReference) ++
  opt (!mods.disallowProblemInfo && can 31 && !p.reasonString.isEmpty &&
        (mods.maxSize == 0 || (n + reason.length + 1) % 4294967296 < mods.maxSize)) (31, .str p.reasonString) ++
  opt (can 33 && p.receiveMaximum > 0) (33, .u16 p.receiveMaximum) ++
  opt (can 34 && p.topicAliasMaximum > 0) (34, .u16 p.topicAliasMaximum) ++
  opt (can 35 && p.topicAliasFlag && p.topicAlias > 0) (35, .u16 p.topicAlias) ++
  opt (can 36 && p.maximumQosFlag && p.maximumQos < 2) (36, .byte p.maximumQos) ++
  opt (can 37 && p.retainAvailableFlag) (37, .byte p.retainAvailable) ++
  (if !mods.disallowProblemInfo && can 38 &&
      (mods.maxSize == 0 || (n + userBytes.length + 1) % 4294967296 < mods.maxSize)
   then p.user.map fun (k, v) => (38, PVal.pair k v) else []) ++
  opt (can 39 && p.maximumPacketSize > 0) (39, .u32 p.maximumPacketSize) ++
  opt (can 40 && p.wildcardSubAvailableFlag) (40, .byte p.wildcardSubAvailable) ++
  opt (can 41 && p.subIDAvailableFlag) (41, .byte p.subIDAvailable) ++
  opt (can 42 && p.sharedSubAvailableFlag) (42, .byte p.sharedSubAvailable)

/-- `Properties.Encode`: variable-byte length, then the entries -/
def propsEncode (pkt : Nat) (mods : Mods) (n : Nat) (p : Props) : Str :=
  let body := encodePropList (propsToList pkt mods n p)
  encodeLength body.length ++ body

/-- `FixedHeader.Encode` with the given remaining length -/
def fixedHeaderEncode (fh : FixedHeader) (remaining : Nat) : Str :=
  ((fh.type * 16) % 256 ||| encodeBool fh.dup * 8 ||| (fh.qos * 2) % 256 ||| encodeBool fh.retain) :: encodeLength remaining

inductive EErr where
  | code (name : String)
deriving DecidableEq, Repr

abbrev Enc := Except EErr Str

def withHeader (pk : Packet) (body : Str) : Str := fixedHeaderEncode pk.fixedHeader body.length ++ body

def subEncodeOpts (s : Subscription) : Nat :=
  s.qos % 256 ||| (if s.noLocal then 4 else 0) ||| (if s.rap then 8 else 0) ||| (s.rh * 16) % 256

def connectEncode (pk : Packet) : Enc :=
  let c := pk.connect
  let flags := encodeBool c.clean * 2 ||| encodeBool c.willFlag * 4 ||| (c.willQos * 8) % 256 |||
               encodeBool c.willRetain * 32 ||| encodeBool c.passwordFlag * 64 ||| encodeBool c.usernameFlag * 128
  let body := encodeBytes c.protocolName ++ [pk.protocolVersion % 256, flags] ++ encodeUint16 c.keepalive ++
    (if pk.protocolVersion == 5 then propsEncode pk.fixedHeader.type pk.mods 0 pk.properties else []) ++
    encodeBytes c.clientIdentifier ++
    (if c.willFlag then
       (if pk.protocolVersion == 5 then propsEncode tWillProperties pk.mods 0 c.willProperties else []) ++
       encodeBytes c.willTopic ++ encodeBytes c.willPayload
     else []) ++
    (if c.usernameFlag then encodeBytes c.username else []) ++
    (if c.passwordFlag then encodeBytes c.password else [])
  .ok (withHeader pk body)

def connackEncode (pk : Packet) : Enc :=
  let nb := [encodeBool pk.sessionPresent, pk.reasonCode % 256]
  let body := nb ++ (if pk.protocolVersion == 5 then propsEncode pk.fixedHeader.type pk.mods (nb.length + 2) pk.properties else [])
  .ok (withHeader pk body)

def disconnectEncode (pk : Packet) : Enc :=
  let body := if pk.protocolVersion == 5 then
      [pk.reasonCode % 256] ++ propsEncode pk.fixedHeader.type pk.mods 1 pk.properties else []
  .ok (withHeader pk body)

def publishEncode (pk : Packet) : Enc :=
  let nb := encodeBytes pk.topicName
  if pk.fixedHeader.qos > 0 && pk.packetID == 0 then .error (.code "ErrProtocolViolationNoPacketID")
  else
    let nb := nb ++ (if pk.fixedHeader.qos > 0 then encodeUint16 pk.packetID else [])
    let nb := nb ++ (if pk.protocolVersion == 5 then
        propsEncode pk.fixedHeader.type pk.mods (nb.length + pk.payload.length) pk.properties else [])
    .ok (fixedHeaderEncode pk.fixedHeader (nb.length + pk.payload.length) ++ nb ++ pk.payload)

/-- `encodePubAckRelRecComp` -/
def ackEncode (pk : Packet) : Enc :=
  let nb := encodeUint16 pk.packetID
  let body := if pk.protocolVersion == 5 then
      let pb := propsEncode pk.fixedHeader.type pk.mods nb.length pk.properties
      nb ++ (if pk.reasonCode != 0 || pb.length > 1 then [pk.reasonCode % 256] else []) ++
        (if pb.length > 1 then pb else [])
    else nb
  .ok (withHeader pk body)

def subackEncode (pk : Packet) : Enc :=
  let nb := encodeUint16 pk.packetID
  let body := nb ++ (if pk.protocolVersion == 5 then
      propsEncode pk.fixedHeader.type pk.mods (nb.length + pk.reasonCodes.length) pk.properties else []) ++ pk.reasonCodes
  .ok (withHeader pk body)

def subscribeEncode (pk : Packet) : Enc :=
  if pk.packetID == 0 then .error (.code "ErrProtocolViolationNoPacketID")
  else
    let nb := encodeUint16 pk.packetID
    let xb := pk.filters.flatMap fun s =>
      encodeBytes s.filter ++ [if pk.protocolVersion == 5 then subEncodeOpts s else s.qos % 256]
    let body := nb ++ (if pk.protocolVersion == 5 then
        propsEncode pk.fixedHeader.type pk.mods (nb.length + xb.length) pk.properties else []) ++ xb
    .ok (withHeader pk body)

def unsubackEncode (pk : Packet) : Enc :=
  let nb := encodeUint16 pk.packetID
  let body := nb ++ (if pk.protocolVersion == 5 then
      propsEncode pk.fixedHeader.type pk.mods nb.length pk.properties ++ pk.reasonCodes else [])
  .ok (withHeader pk body)

def unsubscribeEncode (pk : Packet) : Enc :=
  if pk.packetID == 0 then .error (.code "ErrProtocolViolationNoPacketID")
  else
    let nb := encodeUint16 pk.packetID
    let xb := pk.filters.flatMap fun s => encodeBytes s.filter
    let body := nb ++ (if pk.protocolVersion == 5 then
        propsEncode pk.fixedHeader.type pk.mods (nb.length + xb.length) pk.properties else []) ++ xb
    .ok (withHeader pk body)

def authEncode (pk : Packet) : Enc :=
  let body := [pk.reasonCode % 256] ++ propsEncode pk.fixedHeader.type pk.mods 1 pk.properties
  .ok (withHeader pk body)

def encodePacket (pk : Packet) : Enc :=
  let t := pk.fixedHeader.type
  if t == 1 then connectEncode pk
  else if t == 2 then connackEncode pk
  else if t == 3 then publishEncode pk
  else if t == 4 || t == 5 || t == 6 || t == 7 then ackEncode pk
  else if t == 8 then subscribeEncode pk
  else if t == 9 then subackEncode pk
  else if t == 10 then unsubscribeEncode pk
  else if t == 11 then unsubackEncode pk
  else if t == 12 || t == 13 then .ok (fixedHeaderEncode pk.fixedHeader pk.fixedHeader.remaining)
  else if t == 14 then disconnectEncode pk
  else if t == 15 then authEncode pk
  else .error (.code "ErrNoValidPacketAvailable")

end Mochi.Codec
