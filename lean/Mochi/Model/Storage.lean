/-
M5 — the storage hooks of hooks/storage/{badger,pebble,bolt,redis} over an abstract key-value store.

`KV := List (PKey × Record)`; the four engines are trusted to apply each `Set`/`Delete`/`HSet`/`HDel`
atomically. A backend is a record of facts read off its Go source (`Backend`): where the key lives
(one keyspace with a kind prefix, or one redis hash per kind), and where the hook bodies differ
(`OnDisconnect` rewriting the client record, `OnQosPublish` populating `PacketID`, `errors.Is` versus
`==` for the take-over test, pebble's unclosed iterators). Every hook method is then written
function-for-function after the Go as a list of KV writes.

Strings are byte lists (`List Nat`). JSON (`MarshalBinary`/`UnmarshalBinary`) is the identity on the
record structures below for valid UTF-8 strings: `omitempty` only drops zero values, which decode to
the same zero values (a nil and an empty slice are rendered alike). What IS lost before the record
is built is modelled where it happens: `Properties.Copy(false)` zeroes `TopicAlias`; the struct
literals leave `SessionExpiryIntervalFlag`, `RequestProblemInfoFlag`, `PayloadFormatFlag` (and for
bolt/redis `PacketID`) at their zero values.
-/
namespace Mochi.Storage

abbrev Str := List Nat

structure UserProp where
  k : Str
  v : Str
deriving DecidableEq, Repr

/-! ## What the hooks receive -/

/-- `mqtt.Will` -/
structure Will where
  payload : Str := []
  user : List UserProp := []
  topic : Str := []
  flag : Nat := 0
  delay : Nat := 0
  qos : Nat := 0
  retain : Bool := false
deriving DecidableEq, Repr

/-- what `cl.StopCause()` holds -/
inductive StopCause where
  | none | takenOver | other | wrappedTakenOver
deriving DecidableEq, Repr

/-- the fields of `*mqtt.Client` the storage hooks read -/
structure Client where
  id : Str := []
  user : Str := []
  listener : Str := []
  remote : Str := []
  pv : Nat := 0
  clean : Bool := false
  inline : Bool := false
  stop : StopCause := .none
  sei : Nat := 0
  seiFlag : Bool := false
  authMethod : Str := []
  authData : Str := []
  reqProb : Nat := 0
  reqProbFlag : Bool := false
  reqResp : Nat := 0
  recvMax : Nat := 0
  taMax : Nat := 0
  maxPkt : Nat := 0
  users : List UserProp := []
  will : Will := {}
deriving DecidableEq, Repr

/-- the fields of `packets.Packet` the storage hooks read -/
structure Packet where
  topic : Str := []
  payload : Str := []
  qos : Nat := 0
  retain : Bool := false
  dup : Bool := false
  type : Nat := 0
  remaining : Nat := 0
  pid : Nat := 0
  created : Nat := 0
  expiry : Nat := 0
  origin : Str := []
  pv : Nat := 0
  payloadFormat : Nat := 0
  pfFlag : Bool := false
  msgExpiry : Nat := 0
  contentType : Str := []
  respTopic : Str := []
  corrData : Str := []
  subIds : List Nat := []
  topicAlias : Nat := 0
  taFlag : Bool := false
  users : List UserProp := []
deriving DecidableEq, Repr

/-- `packets.Subscription` as carried in `pk.Filters` -/
structure Filter where
  filter : Str := []
  qos : Nat := 0
  nl : Bool := false
  rap : Bool := false
  rh : Nat := 0
  ident : Nat := 0
deriving DecidableEq, Repr

/-- `system.Info`: the version string and the twenty counters in declaration order -/
structure SysInfo where
  version : Str := []
  nums : List Nat := []
deriving DecidableEq, Repr

/-- one storage hook event -/
inductive Event where
  | established (cl : Client)
  | willSent (cl : Client)
  | clientExpired (cl : Client)
  | disconnect (cl : Client) (expire : Bool)
  | subscribed (cl : Client) (fs : List Filter) (codes : List Nat)
  | unsubscribed (cl : Client) (fs : List Filter)
  | retain (cl : Client) (pk : Packet) (del : Bool)      -- `del` ⇔ r == -1
  | retainedExpired (topic : Str)
  | qosPublish (cl : Client) (pk : Packet) (sent : Nat) (resends : Nat)
  | qosComplete (cl : Client) (pk : Packet)
  | qosDropped (cl : Client) (pk : Packet)
  | sysInfo (info : SysInfo)
deriving DecidableEq, Repr

/-! ## What is stored (hooks/storage/storage.go) -/

/-- `storage.Client` with `ClientProperties` and `ClientWill` flattened -/
structure ClientRec where
  id : Str := []
  t : Str := []
  remote : Str := []
  listener : Str := []
  user : Str := []
  pv : Nat := 0
  clean : Bool := false
  authData : Str := []
  users : List UserProp := []
  authMethod : Str := []
  sei : Nat := 0
  maxPkt : Nat := 0
  recvMax : Nat := 0
  taMax : Nat := 0
  seiFlag : Bool := false
  reqProb : Nat := 0
  reqProbFlag : Bool := false
  reqResp : Nat := 0
  will : Will := {}
deriving DecidableEq, Repr

/-- `storage.Subscription` -/
structure SubRec where
  id : Str := []
  t : Str := []
  client : Str := []
  filter : Str := []
  ident : Nat := 0
  rh : Nat := 0
  qos : Nat := 0
  rap : Bool := false
  nl : Bool := false
deriving DecidableEq, Repr

/-- `storage.Message` with `MessageProperties` and the fixed header flattened -/
structure MsgRec where
  id : Str := []
  t : Str := []
  client : Str := []
  origin : Str := []
  topic : Str := []
  payload : Str := []
  remaining : Nat := 0
  type : Nat := 0
  qos : Nat := 0
  dup : Bool := false
  retain : Bool := false
  created : Nat := 0
  sent : Nat := 0
  packetId : Nat := 0
  corr : Str := []
  subIds : List Nat := []
  users : List UserProp := []
  ctype : Str := []
  resp : Str := []
  expiry : Nat := 0
  alias : Nat := 0
  pf : Nat := 0
  pfFlag : Bool := false
deriving DecidableEq, Repr

/-- `storage.SystemInfo` -/
structure SysRec where
  id : Str := []
  t : Str := []
  info : SysInfo := {}
deriving DecidableEq, Repr

inductive Record where
  | client (c : ClientRec)
  | sub (s : SubRec)
  | msg (m : MsgRec)
  | sys (y : SysRec)
deriving DecidableEq, Repr

/-! ## Keys -/

inductive Kind where
  | client | sub | retained | inflight | sys
deriving DecidableEq, Repr

def CL : Str := [67, 76]          -- storage.ClientKey       "CL"
def SUB : Str := [83, 85, 66]     -- storage.SubscriptionKey "SUB"
def RET : Str := [82, 69, 84]     -- storage.RetainedKey     "RET"
def IFM : Str := [73, 70, 77]     -- storage.InflightKey     "IFM"
def SYS : Str := [83, 89, 83]     -- storage.SysInfoKey      "SYS"
def us : Nat := 95                -- '_'
def colon : Nat := 58             -- ':'
def hPrefix : Str := [109, 111, 99, 104, 105, 45]   -- redis defaultHPrefix "mochi-"

def Kind.name : Kind → Str
  | .client => CL | .sub => SUB | .retained => RET | .inflight => IFM | .sys => SYS

/-- `pk.FormatID()` : the decimal digits of the packet id -/
def formatID (n : Nat) : Str := (Nat.toDigits 10 n).map Char.toNat

/-- a physical key: `ns` is the redis hash name (`h.hKey(kind)`), empty for the single-keyspace engines -/
structure PKey where
  ns : Str
  key : Str
deriving DecidableEq, Repr

/-- the facts in which the four hook implementations differ -/
structure Backend where
  name : String
  /-- redis: `HSet(hKey(kind), field, v)`; otherwise `Set(kind_field, v)` in one keyspace read back by prefix -/
  hashed : Bool
  /-- `OnDisconnect` calls `updateClient` before its guards (badger, pebble) -/
  disconnectRewrites : Bool
  /-- `OnQosPublish` populates `PacketID` in the stored message (badger, pebble) -/
  storesPacketId : Bool
  /-- take-over guard: `errors.Is(cause, ErrSessionTakenOver)` (badger, pebble) versus `cause == ErrSessionTakenOver` -/
  takeoverByIs : Bool
  /-- the `Stored*` methods never close their iterators, so `Stop` reports "leaked iterators" (pebble) -/
  leaksIterators : Bool
deriving Repr

def badger : Backend := { name := "badger", hashed := false, disconnectRewrites := true, storesPacketId := true, takeoverByIs := true, leaksIterators := false }
def pebble : Backend := { name := "pebble", hashed := false, disconnectRewrites := true, storesPacketId := true, takeoverByIs := true, leaksIterators := true }
def bolt : Backend := { name := "bolt", hashed := false, disconnectRewrites := false, storesPacketId := false, takeoverByIs := false, leaksIterators := false }
def redis : Backend := { name := "redis", hashed := true, disconnectRewrites := false, storesPacketId := false, takeoverByIs := false, leaksIterators := false }

def backends : List Backend := [badger, pebble, bolt, redis]

/-- `clientKey(cl)` -/
def clientKey (b : Backend) (id : Str) : PKey :=
  if b.hashed then ⟨hPrefix ++ CL, id⟩ else ⟨[], CL ++ us :: id⟩

/-- `subscriptionKey(cl, filter)` -/
def subscriptionKey (b : Backend) (id filter : Str) : PKey :=
  if b.hashed then ⟨hPrefix ++ SUB, id ++ colon :: filter⟩ else ⟨[], SUB ++ us :: (id ++ colon :: filter)⟩

/-- `retainedKey(topic)` -/
def retainedKey (b : Backend) (topic : Str) : PKey :=
  if b.hashed then ⟨hPrefix ++ RET, topic⟩ else ⟨[], RET ++ us :: topic⟩

/-- `inflightKey(cl, pk)` -/
def inflightKey (b : Backend) (id : Str) (pid : Nat) : PKey :=
  if b.hashed then ⟨hPrefix ++ IFM, id ++ colon :: formatID pid⟩ else ⟨[], IFM ++ us :: (id ++ colon :: formatID pid)⟩

/-- `sysInfoKey()` -/
def sysInfoKey (b : Backend) : PKey :=
  if b.hashed then ⟨hPrefix ++ SYS, SYS⟩ else ⟨[], SYS⟩

/-! ## The store -/

abbrev KV := List (PKey × Record)

inductive Write where
  | set (k : PKey) (r : Record)
  | del (k : PKey)
deriving DecidableEq, Repr

def KV.set (kv : KV) (k : PKey) (r : Record) : KV := (k, r) :: kv.filter (fun e => e.1 != k)
def KV.del (kv : KV) (k : PKey) : KV := kv.filter (fun e => e.1 != k)

def applyWrite (kv : KV) : Write → KV
  | .set k r => kv.set k r
  | .del k => kv.del k

def applyWrites (kv : KV) (ws : List Write) : KV := ws.foldl applyWrite kv

/-! ## The hook methods -/

/-- `updateClient`: `props := cl.Properties.Props.Copy(false)`; the literal does not populate
    `SessionExpiryIntervalFlag` nor `RequestProblemInfoFlag`; `Will: storage.ClientWill(cl.Properties.Will)` -/
def clientRecord (cl : Client) : ClientRec :=
  { id := cl.id, t := CL, remote := cl.remote, listener := cl.listener, user := cl.user, pv := cl.pv, clean := cl.clean,
    authData := cl.authData, users := cl.users, authMethod := cl.authMethod, sei := cl.sei, maxPkt := cl.maxPkt,
    recvMax := cl.recvMax, taMax := cl.taMax, seiFlag := false, reqProb := cl.reqProb, reqProbFlag := false,
    reqResp := cl.reqResp, will := cl.will }

def updateClient (b : Backend) (cl : Client) : List Write :=
  [.set (clientKey b cl.id) (.client (clientRecord cl))]

/-- the take-over guard of `OnDisconnect` -/
def isTakenOver (b : Backend) (c : StopCause) : Bool :=
  match c with
  | .takenOver => true
  | .wrappedTakenOver => b.takeoverByIs
  | _ => false

def onDisconnect (b : Backend) (cl : Client) (expire : Bool) : List Write :=
  (if b.disconnectRewrites then updateClient b cl else []) ++
  (if !expire then [] else if isTakenOver b cl.stop then [] else [.del (clientKey b cl.id)])

/-- the record `OnSubscribed` builds for filter `f` with reason code `code` -/
def subRecord (b : Backend) (cl : Client) (f : Filter) (code : Nat) : SubRec :=
  { id := (subscriptionKey b cl.id f.filter).key, t := SUB, client := cl.id, qos := code, filter := f.filter, ident := f.ident,
    nl := f.nl, rh := f.rh, rap := f.rap }

/-- `OnSubscribed`: one write per filter; `reasonCodes[i]` past the end panics after the earlier writes (`zip` stops there) -/
def onSubscribed (b : Backend) (cl : Client) (fs : List Filter) (codes : List Nat) : List Write :=
  (fs.zip codes).map fun fc => .set (subscriptionKey b cl.id fc.1.filter) (.sub (subRecord b cl fc.1 fc.2))

def onUnsubscribed (b : Backend) (cl : Client) (fs : List Filter) : List Write :=
  fs.map fun f => .del (subscriptionKey b cl.id f.filter)

/-- the message literal shared by `OnRetainMessage` and `OnQosPublish`: `props := pk.Properties.Copy(false)`
    (topic alias zeroed), `PayloadFormatFlag` not populated -/
def msgRecord (key : PKey) (t : Str) (cl : Client) (pk : Packet) (sent : Nat) (packetId : Nat) : MsgRec :=
  { id := key.key, t := t, client := cl.id, origin := pk.origin, topic := pk.topic, payload := pk.payload,
    remaining := pk.remaining, type := pk.type, qos := pk.qos, dup := pk.dup, retain := pk.retain,
    created := pk.created, sent := sent, packetId := packetId, corr := pk.corrData, subIds := pk.subIds,
    users := pk.users, ctype := pk.contentType, resp := pk.respTopic, expiry := pk.msgExpiry, alias := 0,
    pf := pk.payloadFormat, pfFlag := false }

def onRetainMessage (b : Backend) (cl : Client) (pk : Packet) (del : Bool) : List Write :=
  if del then [.del (retainedKey b pk.topic)]
  else [.set (retainedKey b pk.topic) (.msg (msgRecord (retainedKey b pk.topic) RET cl pk 0 0))]

def onQosPublish (b : Backend) (cl : Client) (pk : Packet) (sent : Nat) : List Write :=
  [.set (inflightKey b cl.id pk.pid)
        (.msg (msgRecord (inflightKey b cl.id pk.pid) IFM cl pk sent (if b.storesPacketId then pk.pid else 0)))]

def onQosComplete (b : Backend) (cl : Client) (pk : Packet) : List Write :=
  [.del (inflightKey b cl.id pk.pid)]

def onSysInfoTick (b : Backend) (info : SysInfo) : List Write :=
  [.set (sysInfoKey b) (.sys { id := SYS, t := SYS, info := info })]

/-- one hook event as KV writes -/
def interp (b : Backend) : Event → List Write
  | .established cl => updateClient b cl
  | .willSent cl => updateClient b cl
  | .clientExpired cl => [.del (clientKey b cl.id)]
  | .disconnect cl expire => onDisconnect b cl expire
  | .subscribed cl fs codes => onSubscribed b cl fs codes
  | .unsubscribed cl fs => onUnsubscribed b cl fs
  | .retain cl pk del => onRetainMessage b cl pk del
  | .retainedExpired topic => [.del (retainedKey b topic)]
  | .qosPublish cl pk sent _ => onQosPublish b cl pk sent
  | .qosComplete cl pk => onQosComplete b cl pk
  | .qosDropped cl pk => onQosComplete b cl pk
  | .sysInfo info => onSysInfoTick b info

def step (b : Backend) (kv : KV) (e : Event) : KV := applyWrites kv (interp b e)

def run (b : Backend) (evs : List Event) : KV := evs.foldl (step b) []

/-! ## Read-back (`Stored*`) -/

/-- the scan of one kind: key prefix (`iterKv(prefix)`, pebble's `[prefix, keyUpperBound(prefix))`) or the kind's hash -/
def scans (b : Backend) (kind : Kind) (k : PKey) : Bool :=
  if b.hashed then k.ns == hPrefix ++ kind.name else k.ns == [] && kind.name.isPrefixOf k.key

def Record.asClient : Record → Option ClientRec | .client c => some c | _ => none
def Record.asSub : Record → Option SubRec | .sub s => some s | _ => none
def Record.asMsg : Record → Option MsgRec | .msg m => some m | _ => none
def Record.asSys : Record → Option SysRec | .sys y => some y | _ => none

def storedClients (b : Backend) (kv : KV) : List ClientRec :=
  kv.filterMap fun e => if scans b .client e.1 then e.2.asClient else none

def storedSubscriptions (b : Backend) (kv : KV) : List SubRec :=
  kv.filterMap fun e => if scans b .sub e.1 then e.2.asSub else none

def storedRetained (b : Backend) (kv : KV) : List MsgRec :=
  kv.filterMap fun e => if scans b .retained e.1 then e.2.asMsg else none

def storedInflight (b : Backend) (kv : KV) : List MsgRec :=
  kv.filterMap fun e => if scans b .inflight e.1 then e.2.asMsg else none

/-- `StoredSysInfo`: the record under `sysInfoKey`, the zero value when absent -/
def storedSysInfo (b : Backend) (kv : KV) : SysRec :=
  match (kv.find? fun e => e.1 == sysInfoKey b) with
  | some (_, .sys y) => y
  | _ => {}

/-- everything `readStore` reads -/
structure ReadBack where
  clients : List ClientRec
  subs : List SubRec
  retained : List MsgRec
  inflight : List MsgRec
  sys : SysRec
deriving DecidableEq, Repr

def readback (b : Backend) (kv : KV) : ReadBack :=
  { clients := storedClients b kv, subs := storedSubscriptions b kv, retained := storedRetained b kv,
    inflight := storedInflight b kv, sys := storedSysInfo b kv }

end Mochi.Storage
