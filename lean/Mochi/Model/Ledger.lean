import Mochi.Model.Topics
/-
M6 — the auth ledger of hooks/auth/ledger.go: `RString.Matches`, `MatchTopic`, `AuthOk`, `ACLOk`.
Go maps (`Users`, `Filters`) are association lists in *some* iteration order; the theorems quantify
over that order.
-/
namespace Mochi.Ledger
open Mochi.Topics

def star : Nat := 42  -- '*'

/-- `RString.Matches` -/
def rmatches (r a : Str) : Bool :=
  if r.isEmpty || r == [star] || a == r then true
  else
    let i := r.idxOf star
    i < r.length && i > 0 && a.length > i && r.take i == a.take i

/-- the loop of `MatchTopic` over the remaining filter parts / topic parts -/
def matchLoop : Path → Path → Bool
  | [], ts => ts.isEmpty
  | _ :: _, [] => false
  | f :: fs, t :: ts =>
    if f == [plus] then matchLoop fs ts
    else if f == [hash] then true
    else if f != t then false
    else matchLoop fs ts

/-- `MatchTopic(filter, topic)` (the `matched` result) -/
def matchTopic (filter topic : Str) : Bool := matchLoop (splitLevels filter) (splitLevels topic)

inductive Access where
  | deny | readOnly | writeOnly | readWrite
deriving DecidableEq, Repr

def Access.fromNat : Nat → Access
  | 1 => .readOnly | 2 => .writeOnly | 3 => .readWrite | _ => .deny

def grants (a : Access) (write : Bool) : Bool :=
  if write then a == .writeOnly || a == .readWrite else a == .readOnly || a == .readWrite

structure UserRule where
  password : Str := []
  acl : List (Str × Access) := []
  disallow : Bool := false
deriving Repr

structure AuthRule where
  client : Str := []
  username : Str := []
  remote : Str := []
  password : Str := []
  allow : Bool := false
deriving Repr

structure ACLRule where
  client : Str := []
  username : Str := []
  remote : Str := []
  filters : List (Str × Access) := []
deriving Repr

structure Ledger where
  users : Option (List (Str × UserRule)) := none
  auth : List AuthRule := []
  acl : List ACLRule := []
deriving Repr

structure Cl where
  id : Str := []
  username : Str := []
  remote : Str := []
deriving Repr

/-- `AuthOk(cl, pk)`: (n, ok) -/
def authRules (cl : Cl) (password : Str) : List AuthRule → Nat → Nat × Bool
  | [], _ => (0, false)
  | r :: rest, n =>
    if rmatches r.client cl.id && rmatches r.username cl.username && rmatches r.password password &&
       rmatches r.remote cl.remote then (n, r.allow)
    else authRules cl password rest (n + 1)

def authOk (l : Ledger) (cl : Cl) (password : Str) : Nat × Bool :=
  match (match l.users with
         | some us => assocGet us cl.username
         | none => none) with
  | some u =>
    if !u.password.isEmpty && u.password == password then (0, !u.disallow)
    else authRules cl password l.auth 0
  | none => authRules cl password l.auth 0

/-- the per-rule decision of the global ACL loop: `some ok` when the rule decides -/
def aclRuleDecision (r : ACLRule) (cl : Cl) (topic : Str) (write : Bool) : Option Bool :=
  if rmatches r.client cl.id && rmatches r.username cl.username && rmatches r.remote cl.remote then
    if r.filters.isEmpty then some true
    else if r.filters.any (fun fa => grants fa.2 write && matchTopic fa.1 topic) then some true
    else if r.filters.any (fun fa => matchTopic fa.1 topic) then some false
    else none
  else none

def aclRules (cl : Cl) (topic : Str) (write : Bool) : List ACLRule → Nat → Nat × Bool
  | [], _ => (0, true)
  | r :: rest, n =>
    match aclRuleDecision r cl topic write with
    | some ok => (n, ok)
    | none => aclRules cl topic write rest (n + 1)

/-- the user's own ACL: `some ok` when it decides -/
def userDecision (u : UserRule) (topic : Str) (write : Bool) : Option Bool :=
  if u.acl.isEmpty then none
  else if u.acl.any (fun fa => matchTopic fa.1 topic && grants fa.2 write) then some true
  else if u.acl.any (fun fa => matchTopic fa.1 topic) then some false
  else none

/-- `ACLOk(cl, topic, write)`: (n, ok) -/
def aclOk (l : Ledger) (cl : Cl) (topic : Str) (write : Bool) : Nat × Bool :=
  match (match l.users with
         | some us => (assocGet us cl.username).bind (fun u => userDecision u topic write)
         | none => none) with
  | some ok => (0, ok)
  | none => aclRules cl topic write l.acl 0

end Mochi.Ledger
