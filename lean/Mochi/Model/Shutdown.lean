/-
M4b — shutdown against connection establishment (C36).

A small-step model with an arbitrary schedule.  One *closer* thread executes the program of
`Server.Close` (server.go) → `Listeners.CloseAll` (listeners/listeners.go) → per listener `TCP.Close`
(listeners/tcp.go) → `closeListenerClients` → `DisconnectClient`; any number of *handler* threads execute
`TCP.Serve`'s body for one accepted connection followed by `EstablishConnection`/`attachClient`.  The
environment may close the peer end of any connection at any moment.  The ORDER of the statements is the
order of the Go code; that order is the whole point:

  closer                                               handler (one per accepted connection)
  ------                                               -------
  closeDone     close(s.done)                          endTest      if atomic.LoadUint32(&l.end) == 0 {
  loop          for _, id := range ids {                               go func() { establish(l.id, conn) }() }
                  TCP.Close: CAS(&l.end, 0, 1)                      (else: the connection is dropped: not served,
  snapshot l      clients := Clients.GetByListener(id)               not closed)
                    (Net.Listener == id && !Closed())   wgAdd        s.Listeners.ClientsWg.Add(1)   -- INSIDE the
  disc l todo     for _, cl := range clients {                                                         goroutine
                    DisconnectClient: cl.WritePacket    readConnect  s.readConnectionPacket(cl)
  discStop l c        cl.Stop(code) }                   auth         limit test, validateConnect, OnConnect,
  closeNet l      l.listen.Close() }                                 OnConnectAuthenticate
  wgWait        l.ClientsWg.Wait()                      countIncr    atomic.AddInt64(&ClientsConnected, 1)
  hooksStop     s.hooks.OnStopped(); s.hooks.Stop()     inherit      s.inheritClientSession(pk, cl)
  returned      return nil                              clientsAdd   s.Clients.Add(cl)
                                                        connack      s.SendConnack(...)  (error: return)
                                                        readLoop     cl.Read(...)   -- returns when the
                                                                       connection is closed (Stop / peer)
                                                        teardown     sendLWT, cl.Stop(err), clean-up,
                                                                       deferred cl.Stop(nil)
                                                        wgDone       deferred ClientsWg.Done()
                                                        finished

The clients `GetByListener` returns come out of a Go map: the schedule also decides which of them the
closer's loop visits next (`Ev.closerNext`).  `sync.WaitGroup` is a counter with a waiter: `Wait` returns at
once when the counter is 0, otherwise it registers and sleeps; the `Done` that reaches 0 releases it; the
woken `Wait` panics if the counter is positive again (sync/waitgroup.go: "WaitGroup is reused before
previous Wait has returned").  Fields marked *ghost* record history for
the statements of the theorems and are never read by a step.
-/
namespace Mochi.Shutdown

/-- what the broker wrote on a connection -/
inductive Out where
  | connack
  | disconnect (code : Nat)   -- MQTT 5: reason code (0x8B = server shutting down); MQTT 3: the bare packet, code 0
deriving Repr, DecidableEq

/-- program counter of a handler = the next statement it executes -/
inductive HPc where
  | endTest | dropped | wgAdd | readConnect | auth | countIncr | inherit | clientsAdd | connack
  | readLoop | teardown | wgDone | finished
deriving Repr, DecidableEq

structure H where
  lis : Nat                      -- the listener that accepted the connection
  ver : Nat                      -- protocol version of the client (3, 4, 5)
  pc : HPc := .endTest
  registered : Bool := false     -- the client object is in `s.Clients`
  stopped : Bool := false        -- `cl.Stop` ran: connection closed by the broker, `cl.Closed()` is true
  peerClosed : Bool := false     -- the peer closed the connection first
  out : List Out := []           -- what reached the connection
  regBeforeSnap : Bool := false  -- ghost: executed `Clients.Add` before the closer's snapshot of its listener
  addBeforeWait : Bool := false  -- ghost: executed `ClientsWg.Add(1)` before the closer's `Wait` returned
deriving Repr, DecidableEq

/-- program counter of the closer -/
inductive CPc where
  | closeDone
  | loop
  | snapshot (l : Nat)
  | disc (l : Nat) (todo : List Nat)
  | discStop (l : Nat) (c : Nat) (todo : List Nat)
  | closeNet (l : Nat)
  | wgWait      -- about to call `ClientsWg.Wait()`
  | wgBlocked   -- inside `Wait`: registered as a waiter, asleep until the counter's last `Done` releases it
  | hooksStop | returned
  | panicked    -- `Wait` woke up and found the counter positive again: the runtime panics, the process dies
deriving Repr, DecidableEq

structure Sys where
  cpc : CPc := .closeDone
  todoL : List Nat := []         -- listeners `CloseAll` has still to close (any order: Go map iteration)
  done : Bool := false           -- `s.done` is closed
  ended : List Nat := []         -- listeners whose `end` flag is 1
  netClosed : List Nat := []     -- listeners whose net listener is closed
  wg : Nat := 0                  -- `ClientsWg` counter
  waiting : Bool := false        -- `ClientsWg`: the closer is registered as a waiter
  released : Bool := false       -- `ClientsWg`: the `Done` that brought the counter to 0 has released the waiter
  hooksStopped : Bool := false
  hs : List H := []
  snapshotted : List Nat := []   -- ghost: listeners whose clients the closer has enumerated
  waitPassed : Bool := false     -- ghost: `ClientsWg.Wait()` has returned
deriving Repr, DecidableEq

/-- `order` = the listeners in the order `CloseAll` visits them; `hs` = the accepted connections -/
def start (order : List Nat) (hs : List H) : Sys := { todoL := order, hs := hs }

def H.isOpen (h : H) : Bool := !h.stopped && !h.peerClosed

/-- `Clients.GetByListener(l)`: indices of the registered, not closed clients of listener `l` -/
def snapshotOf (hs : List H) (l : Nat) : List Nat :=
  (List.range hs.length).filter fun i =>
    match hs[i]? with
    | some h => h.lis == l && h.registered && !h.stopped
    | none => false

def discCode (ver : Nat) : Nat := if ver ≥ 5 then 0x8B else 0

/-- one step of the closer (no move while asleep in `Wait`, after `return`, after the panic) -/
def stepCloser (s : Sys) : Sys :=
  match s.cpc with
  | .closeDone => { s with done := true, cpc := .loop }
  | .loop =>
    match s.todoL with
    | [] => { s with cpc := .wgWait }
    | l :: rest => { s with todoL := rest, ended := l :: s.ended, cpc := .snapshot l }
  | .snapshot l => { s with snapshotted := l :: s.snapshotted, cpc := .disc l (snapshotOf s.hs l) }
  | .disc l [] => { s with cpc := .closeNet l }
  | .disc l (c :: todo) =>
    match s.hs[c]? with
    | none => { s with cpc := .discStop l c todo }
    | some h =>
      -- WritePacket: refused when `cl.Closed()`, fails when the peer is gone
      let h' := if h.isOpen then { h with out := h.out ++ [.disconnect (discCode h.ver)] } else h
      { s with hs := s.hs.set c h', cpc := .discStop l c todo }
  | .discStop l c todo =>
    match s.hs[c]? with
    | none => { s with cpc := .disc l todo }
    | some h => { s with hs := s.hs.set c { h with stopped := true }, cpc := .disc l todo }
  | .closeNet l => { s with netClosed := l :: s.netClosed, cpc := .loop }
  | .wgWait =>
    -- `Wait`: counter 0: return; otherwise register as a waiter and sleep
    if s.wg == 0 then { s with waitPassed := true, cpc := .hooksStop }
    else { s with waiting := true, cpc := .wgBlocked }
  | .wgBlocked =>
    -- woken by the releasing `Done`: `if wg.state.Load() != 0 { panic("sync: WaitGroup is reused before
    -- previous Wait has returned") }`
    if s.released then
      if s.wg == 0 then { s with released := false, waitPassed := true, cpc := .hooksStop }
      else { s with released := false, cpc := .panicked }
    else s
  | .hooksStop => { s with hooksStopped := true, cpc := .returned }
  | .returned => s
  | .panicked => s

/-- one step of handler `i` (no move when blocked in its read loop, dropped or finished) -/
def stepHandler (s : Sys) (i : Nat) : Sys :=
  match s.hs[i]? with
  | none => s
  | some h =>
    match h.pc with
    | .endTest =>
      { s with hs := s.hs.set i { h with pc := if s.ended.contains h.lis then .dropped else .wgAdd } }
    | .dropped => s
    | .wgAdd =>
      { s with wg := s.wg + 1, hs := s.hs.set i { h with pc := .readConnect, addBeforeWait := !s.waitPassed } }
    | .readConnect => { s with hs := s.hs.set i { h with pc := if h.peerClosed then .teardown else .auth } }
    | .auth => { s with hs := s.hs.set i { h with pc := .countIncr } }
    | .countIncr => { s with hs := s.hs.set i { h with pc := .inherit } }
    | .inherit => { s with hs := s.hs.set i { h with pc := .clientsAdd } }
    | .clientsAdd =>
      { s with hs := s.hs.set i { h with pc := .connack, registered := true,
                                         regBeforeSnap := !s.snapshotted.contains h.lis } }
    | .connack =>
      if h.isOpen then { s with hs := s.hs.set i { h with pc := .readLoop, out := h.out ++ [.connack] } }
      else { s with hs := s.hs.set i { h with pc := .teardown } }
    | .readLoop => if h.isOpen then s else { s with hs := s.hs.set i { h with pc := .teardown } }
    | .teardown => { s with hs := s.hs.set i { h with pc := .wgDone, stopped := true } }
    | .wgDone =>
      -- `Done`: the decrement that reaches 0 while a waiter is registered clears the waiter count and
      -- releases it; the waiter runs later
      let rel := s.waiting && s.wg - 1 == 0
      { s with wg := s.wg - 1, waiting := s.waiting && !rel, released := s.released || rel,
               hs := s.hs.set i { h with pc := .finished } }
    | .finished => s

/-- the peer closes connection `i` (nothing to close once the broker has closed it) -/
def peerClose (s : Sys) (i : Nat) : Sys :=
  match s.hs[i]? with
  | none => s
  | some h => if h.stopped then s else { s with hs := s.hs.set i { h with peerClosed := true } }

/-- `for _, cl := range clients` walks what `GetByListener` collected from a Go map: the order is not
    determined. The iteration yields client `c` next (if it is among those still to be disconnected). -/
def closerNext (s : Sys) (c : Nat) : Sys :=
  match s.cpc with
  | .disc l todo => if todo.contains c then { s with cpc := .disc l (c :: todo.erase c) } else s
  | _ => s

/-- a schedule is any list of these -/
inductive Ev where
  | closer
  | handler (i : Nat)
  | peerClose (i : Nat)
  | closerNext (c : Nat)     -- map-iteration order of the snapshot, resolved by the schedule
deriving Repr, DecidableEq

def step (s : Sys) : Ev → Sys
  | .closer => stepCloser s
  | .handler i => stepHandler s i
  | .peerClose i => peerClose s i
  | .closerNext c => closerNext s c

def run (s : Sys) (sched : List Ev) : Sys := sched.foldl step s

/-- the goroutine of this connection exists (the listener's `end` test passed) -/
def HPc.spawned : HPc → Bool
  | .endTest | .dropped => false
  | _ => true

/-- between `ClientsWg.Add(1)` and `ClientsWg.Done()` -/
def HPc.counted : HPc → Bool
  | .readConnect | .auth | .countIncr | .inherit | .clientsAdd | .connack | .readLoop | .teardown | .wgDone => true
  | _ => false

def Ev.isPeer : Ev → Bool
  | .peerClose _ => true
  | _ => false

end Mochi.Shutdown
