import Mochi.Model.Topics
/-!
M12 — the topic-alias tables of topics.go (`OutboundTopicAliases`, `InboundTopicAliases`), written
statement for statement after the Go code WITH THE INTEGER WIDTHS EXPLICIT.

```go
type OutboundTopicAliases struct { internal map[string]uint16; cursor uint32; maximum uint16 }

func (a *OutboundTopicAliases) Set(topic string) (uint16, bool) {
	if a.maximum == 0 { return 0, false }
	if i, ok := a.internal[topic]; ok { return i, true }
	i := atomic.LoadUint32(&a.cursor)
	if i+1 > uint32(a.maximum) { return 0, false }      // uint32 arithmetic
	a.internal[topic] = uint16(i) + 1                    // uint16 arithmetic
	atomic.StoreUint32(&a.cursor, i+1)
	return uint16(i) + 1, false
}

func (a *InboundTopicAliases) Set(id uint16, topic string) string {
	if a.maximum == 0 { return topic }
	if existing, ok := a.internal[id]; ok && topic == "" { return existing }
	a.internal[id] = topic
	return topic
}
```

The broker model (`Mochi.Broker.aliasOutSet`) computes in unbounded `Nat`; `C24_out_refines_nat`
(Props/C24.lean) shows that for every maximum a uint16 can hold the two agree, so that use of `Nat` is
justified. A Go map is an association list: the outbound one in insertion order (`Set` only ever inserts a
key it has just failed to find, so appending is exact), the inbound one through `assocSet`.
-/
namespace Mochi.Alias
open Mochi.Topics

/-- conversion to / arithmetic in `uint16` -/
def u16 (n : Nat) : Nat := n % 65536
/-- conversion to / arithmetic in `uint32` -/
def u32 (n : Nat) : Nat := n % 4294967296

/-! ## outbound -/

/-- `OutboundTopicAliases` -/
structure Out where
  maximum : Nat                       -- uint16
  cursor : Nat := 0                   -- uint32
  internal : List (Str × Nat) := []   -- map[string]uint16, in insertion order
deriving DecidableEq, Repr

/-- `NewOutboundTopicAliases(topicAliasMaximum uint16)` -/
def Out.new (topicAliasMaximum : Nat) : Out := { maximum := u16 topicAliasMaximum }

/-- `OutboundTopicAliases.Set` : (table afterwards, alias, existed) -/
def Out.set (a : Out) (topic : Str) : Out × Nat × Bool :=
  if a.maximum == 0 then (a, 0, false) else
  match assocGet a.internal topic with
  | some i => (a, i, true)
  | none =>
    let i := a.cursor                                         -- i := atomic.LoadUint32(&a.cursor)
    if u32 (i + 1) > u32 a.maximum then (a, 0, false)         -- if i+1 > uint32(a.maximum)
    else
      ({ a with internal := a.internal ++ [(topic, u16 (u16 i + 1))],   -- a.internal[topic] = uint16(i) + 1
                cursor := u32 (i + 1) },                                 -- atomic.StoreUint32(&a.cursor, i+1)
       u16 (u16 i + 1), false)                                           -- return uint16(i) + 1, false

/-- the not-found branch of `Out.set` (what `Set` does for a topic that is not a key of the map);
    `Out.set a t = Out.setFresh a t` whenever `t` is not a key (`Alias.set_eq_setFresh`) -/
def Out.setFresh (a : Out) (topic : Str) : Out × Nat × Bool :=
  if a.maximum == 0 then (a, 0, false) else
  let i := a.cursor
  if u32 (i + 1) > u32 a.maximum then (a, 0, false)
  else
    ({ a with internal := a.internal ++ [(topic, u16 (u16 i + 1))], cursor := u32 (i + 1) },
     u16 (u16 i + 1), false)

/-- the tables after a sequence of `Set` calls, and what each call returned -/
def Out.run (a : Out) : List Str → Out × List (Nat × Bool)
  | [] => (a, [])
  | t :: ts =>
    let r := a.set t
    let r' := Out.run r.1 ts
    (r'.1, r.2 :: r'.2)

/-- the table after a sequence of `Set` calls -/
def Out.after (a : Out) (ts : List Str) : Out := ts.foldl (fun a t => (a.set t).1) a

/-- one `setFresh` per topic: (table afterwards, aliases returned) -/
def Out.fillSpec (a : Out) : List Str → Out × List Nat
  | [] => (a, [])
  | t :: ts =>
    let r := a.setFresh t
    let r' := Out.fillSpec r.1 ts
    (r'.1, r.2.1 :: r'.2)

/-- the loop of `Out.fillFresh`: cursor, new bindings (newest first), aliases returned (newest first) -/
def Out.fillGo (maximum : Nat) : Nat → List (Str × Nat) → List Nat → List Str → Nat × List (Str × Nat) × List Nat
  | cur, nb, as, [] => (cur, nb, as)
  | cur, nb, as, t :: ts =>
    if maximum == 0 then Out.fillGo maximum cur nb (0 :: as) ts
    else if u32 (cur + 1) > u32 maximum then Out.fillGo maximum cur nb (0 :: as) ts
    else Out.fillGo maximum (u32 (cur + 1)) ((t, u16 (u16 cur + 1)) :: nb) (u16 (u16 cur + 1) :: as) ts

/-- `fillSpec` in one pass, appending to the table once (O(table + topics));
    `Alias.fillFresh_eq_fillSpec` -/
def Out.fillFresh (a : Out) (ts : List Str) : Out × List Nat :=
  let r := Out.fillGo a.maximum a.cursor [] [] ts
  ({ a with cursor := r.1, internal := a.internal ++ r.2.1.reverse }, r.2.2.reverse)

/-- the regression the widths guard against: the alias is computed in uint16 BEFORE the bound check
    (`alias := uint16(i) + 1; if alias > a.maximum { return 0, false }`). At maximum 65535 it wraps:
    `C24_out_wrapped_counterexample`. -/
def Out.setWrapped (a : Out) (topic : Str) : Out × Nat × Bool :=
  if a.maximum == 0 then (a, 0, false) else
  match assocGet a.internal topic with
  | some i => (a, i, true)
  | none =>
    let i := a.cursor
    let alias := u16 (u16 i + 1)
    if alias > a.maximum then (a, 0, false)
    else
      ({ a with internal := a.internal ++ [(topic, alias)], cursor := u32 (i + 1) }, alias, false)

/-! ## inbound -/

/-- `InboundTopicAliases` -/
structure In where
  maximum : Nat                       -- uint16
  internal : List (Nat × Str) := []   -- map[uint16]string
deriving DecidableEq, Repr

/-- `NewInboundTopicAliases(topicAliasMaximum uint16)` -/
def In.new (topicAliasMaximum : Nat) : In := { maximum := u16 topicAliasMaximum }

/-- `InboundTopicAliases.Set(id uint16, topic string) string` : (table afterwards, topic returned).
    Note what the Go code does and does not do: `id` is not compared with `maximum` here (the caller's
    `PublishValidate` did), and an unbound id with an empty topic is STORED with the empty topic. -/
def In.set (a : In) (id : Nat) (topic : Str) : In × Str :=
  if a.maximum == 0 then (a, topic) else
  match assocGet a.internal id with
  | some existing =>
    if topic == [] then (a, existing)
    else ({ a with internal := assocSet a.internal id topic }, topic)
  | none => ({ a with internal := assocSet a.internal id topic }, topic)

/-- the table after a sequence of inbound `Set` calls -/
def In.after (a : In) (ops : List (Nat × Str)) : In := ops.foldl (fun a o => (a.set o.1 o.2).1) a

/-- the topic of the last call of the sequence that named `id` with a non-empty topic -/
def lastBinding (ops : List (Nat × Str)) (id : Nat) : Option Str :=
  ops.foldl (fun acc o => if o.1 = id ∧ o.2 ≠ [] then some o.2 else acc) none

end Mochi.Alias
