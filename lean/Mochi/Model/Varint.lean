/-
M7 (part) — variable byte integers, mirroring packets/codec.go `encodeLength` / `DecodeLength`.
Bytes are modelled as `Nat` (< 256 on every path the harness can reach).
-/
namespace Mochi.Varint

/-- maximum value of a variable byte integer (268,435,455 = 2^28 - 1) -/
def maxVBI : Nat := 268435455

/-- `encodeLength`: the Go loop `eb := length % 128; length /= 128; if length > 0 { eb |= 0x80 }`. -/
def encodeLength (n : Nat) : List Nat :=
  if n / 128 > 0 then (n % 128 + 128) :: encodeLength (n / 128)
  else [n % 128]
termination_by n
decreasing_by omega

inductive DecErr where
  | eof        -- the byte reader ran dry (io.EOF from ReadByte)
  | malformed  -- ErrMalformedVariableByteInteger
deriving DecidableEq, Repr

/-- Result of `DecodeLength`: value and number of bytes used (`bu`). -/
abbrev DecRes := Except DecErr (Nat × Nat)

/-- Go's `uint32(x) << m` : bits shifted past bit 31 are lost, a count ≥ 32 gives 0. -/
def shl32 (x m : Nat) : Nat := (x * 2 ^ m) % 4294967296

/-- The loop of `DecodeLength` as written in Go (uint32 accumulator `value`, shift `mult`,
    byte count `bu`).  `b.ReadByte()` failing is the `[]` case. -/
def decodeLoop : List Nat → (value mult bu : Nat) → DecRes
  | [], _, _, _ => .error .eof
  | eb :: rest, value, mult, bu =>
    let value' := value ||| shl32 (eb % 128) mult
    if value' > maxVBI then .error .malformed
    else if eb / 128 % 2 = 0 then .ok (value', bu)
    else if bu + 1 > 4 then .error .malformed
    else decodeLoop rest value' (mult + 7) (bu + 1)

/-- `DecodeLength(b)` on the bytes the reader would yield. -/
def decodeLength (bs : List Nat) : DecRes := decodeLoop bs 0 0 1

end Mochi.Varint
