import Mochi.Model.Topics
/-
M3 — the sequential broker: the handler logic of server.go, the session parts of clients.go and
inflight.go, over the topic index M2.  One `Op` is one externally visible event (a connection, one
inbound packet, a dropped connection, a housekeeping tick at a virtual time, an inline API call);
`step` returns the new state and what was written to which connection.

Time: the Go code calls `time.Now()`; all ops of one history happen at virtual time 0 and ticks carry
their own virtual time (DESIGN.md §5 M3).
-/
namespace Mochi.Broker
open Mochi.Topics

structure Caps where
  maximumClients : Nat := 1000000
  maxSessionExpiry : Nat := 4294967295
  maxMessageExpiry : Nat := 86400
  receiveMaximum : Nat := 1024
  maximumInflight : Nat := 8192
  topicAliasMaximum : Nat := 65535
  maximumQos : Nat := 2
  retainAvailable : Nat := 1
  minimumProtocolVersion : Nat := 3
  maximumPacketID : Nat := 65535
  obscureNotAuthorized : Bool := false
deriving Repr

/-- the parts of a `packets.Packet` that matter once it is a message in the broker -/
structure Msg where
  type : Nat := 3
  id : Nat := 0
  qos : Nat := 0
  dup : Bool := false
  retain : Bool := false
  topic : Str := []
  payload : Str := []
  origin : Str := []
  created : Int := 0
  expiry : Int := 0
  ver : Nat := 0
  subIds : List Nat := []
  alias : Nat := 0
  msgExpiry : Nat := 0       -- Properties.MessageExpiryInterval
  reasonCode : Nat := 0
  ignore : Bool := false
deriving Repr, DecidableEq

structure Will where
  topic : Str := []
  payload : Str := []
  qos : Nat := 0
  retain : Bool := false
  delay : Nat := 0
  flag : Bool := false
deriving Repr

structure Client where
  conn : Nat := 0
  id : Str := []
  ver : Nat := 4
  clean : Bool := false
  sei : Nat := 0
  fsei : Bool := false
  recvMaxProp : Nat := 0
  tam : Nat := 0
  will : Will := {}
  subs : List (Str × Sub) := []
  inflight : List Msg := []
  recvQuota : Nat := 0
  sendQuota : Nat := 0
  maxRecv : Nat := 0
  maxSend : Nat := 0
  packetID : Nat := 0
  aliasIn : List (Nat × Str) := []
  aliasOut : List (Str × Nat) := []
  aliasCursor : Nat := 0
  isOpen : Bool := true
  stopped : Bool := false
  takenOver : Bool := false
  inline : Bool := false
  peerGone : Bool := false     -- the peer closed its side: writes go nowhere
deriving Repr

inductive AuthMode where
  | allow | none | deny (id : Str)
deriving Repr

structure Info where
  connected : Int := 0
  subs : Int := 0
  retained : Int := 0
  inflight : Int := 0
  inflightDropped : Int := 0
  msgsDropped : Int := 0
deriving Repr

structure Connect where
  ver : Nat := 4
  clean : Bool := true
  id : Str := []
  sei : Option Nat := none
  rm : Option Nat := none
  tam : Option Nat := none
  will : Option Will := none
deriving Repr

/-- a connection whose handler is parked inside `attachClient` (see `connectHold`) -/
structure Pending where
  conn : Nat
  obj : Nat
  k : Connect
  stage : Nat
  refuse : Option Nat := none
  present : Bool := false
deriving Repr

structure Server where
  caps : Caps := {}
  objs : List Client := []
  clients : List (Str × Nat) := []          -- Clients map: id ↦ object index
  connOf : List (Nat × Nat) := []           -- connection number ↦ object index
  topics : Index := {}
  rmsgs : List (Str × Msg) := []            -- the retained packets (full), keyed by topic
  willDelayed : List (Str × Msg) := []
  info : Info := {}
  auth : AuthMode := .allow
  aclDeny : List (Str × Str × Bool) := []   -- (client id, topic, write)
  pubHook : List (Str × String) := []       -- topic ↦ reject | ignore | err
  -- resolution of Go's map-iteration nondeterminism for this step (quantified over in the theorems,
  -- matched against the implementation's actual choice by the driver)
  permSeed : Nat := 0                       -- order in which matching retained messages are delivered
  pickSeed : Nat := 0                       -- which member of each share group is selected
  orderSeed : Nat := 0                      -- order in which the share groups are visited
  nextSeed : Nat := 0                       -- which deferred message `processPacket` releases next
  parked : List Nat := []                   -- objects whose handler is parked at `attach.beforeCleanup`
  parkedEarly : List Nat := []              -- objects whose handler is parked at `attach.afterRead` (before sendLWT)
  pending : List Pending := []              -- connections whose handler is parked inside attachClient
  resendSeed : Nat := 0                     -- order in which a resumed session's messages are resent
deriving Repr

/-- a packet the broker writes, structurally (rendered to the harness's projection by `WPk.render`) -/
inductive WPk where
  | connack (ver : Nat) (sp : Bool) (code : Nat) (rm : Nat) (maxQos : Nat) (sei : Option Nat)
  | publish (ver : Nat) (m : Msg) (meSet : Bool)
  | ack (ver t id rc : Nat)
  | suback (ver id : Nat) (rcs : List Nat)
  | unsuback (ver id : Nat) (rcs : List Nat)
  | pingresp
  | disconnect (ver code : Nat)
deriving Repr, DecidableEq

/-- what one step writes / does -/
inductive Out where
  | wrote (conn : Nat) (pk : WPk)
  | closed (conn : Nat)
  | event (e : String)
  | inline (id : Nat) (topic payload : Str)
deriving Repr, DecidableEq

def hex2 (n : Nat) : String :=
  let d (k : Nat) : Char := if k < 10 then Char.ofNat (k + 48) else Char.ofNat (k - 10 + 97)
  String.ofList [d (n / 16 % 16), d (n % 16)]

def hexStr (bs : Str) : String :=
  if bs.isEmpty then "-" else String.join (bs.map hex2)

def b01 (b : Bool) : String := if b then "1" else "0"

/-- the virtual time at which every op of a history happens (`time.Now().Unix()`, positive) -/
def NOW : Int := 1000000

/-- the `seed`-th permutation of a list (Lehmer code), fuel = length -/
def permuteFuel {α} : Nat → Nat → List α → List α
  | 0, _, l => l
  | _, _, [] => []
  | fuel + 1, seed, x :: xs =>
    let l := x :: xs
    let n := l.length
    let k := seed % n
    match l[k]? with
    | some y => y :: permuteFuel fuel (seed / n) (l.eraseIdx k)
    | none => l

def permuteBy {α} (seed : Nat) (l : List α) : List α := permuteFuel l.length seed l

/-! ### small helpers -/

def getObj (s : Server) (i : Nat) : Client := s.objs.getD i {}
def setObj (s : Server) (i : Nat) (c : Client) : Server := { s with objs := s.objs.set i c }
def modObj (s : Server) (i : Nat) (f : Client → Client) : Server := setObj s i (f (getObj s i))

def aclOk (s : Server) (cid topic : Str) (write : Bool) : Bool :=
  !s.aclDeny.any (fun d => d.1 == cid && d.2.1 == topic && d.2.2 == write)

/-- `minimum(a, b)`: the smaller non-zero of the two, 0 if both are 0 -/
def minimumNZ (a b : Nat) : Nat :=
  if a != 0 then (if b != 0 && b < a then b else a) else b

/-! ### Inflight -/

def flGet (c : Client) (id : Nat) : Option Msg := c.inflight.find? (fun m => m.id == id)
/-- `Inflight.Set`: returns true when the id was new -/
def flSet (c : Client) (m : Msg) : Client × Bool :=
  if (flGet c m.id).isSome then
    ({ c with inflight := c.inflight.map (fun x => if x.id == m.id then m else x) }, false)
  else ({ c with inflight := c.inflight ++ [m] }, true)
def flDelete (c : Client) (id : Nat) : Client × Bool :=
  ({ c with inflight := c.inflight.filter (fun m => m.id != id) }, (flGet c id).isSome)

def decRecv (c : Client) : Client := if c.recvQuota > 0 then { c with recvQuota := c.recvQuota - 1 } else c
def incRecv (c : Client) : Client := if c.recvQuota < c.maxRecv then { c with recvQuota := c.recvQuota + 1 } else c
def decSend (c : Client) : Client := if c.sendQuota > 0 then { c with sendQuota := c.sendQuota - 1 } else c
def incSend (c : Client) : Client := if c.sendQuota < c.maxSend then { c with sendQuota := c.sendQuota + 1 } else c

/-- `Client.NextPacketID`: scan from the cursor, wrapping at `maximumPacketID`; `none` = exhausted.
    Fuel `2·max + 2` covers the two passes of the Go loop. -/
def nextPacketIDLoop (c : Client) (maxID : Nat) (started : Nat) : (fuel : Nat) → (i : Nat) → (overflowed : Bool) → Option Nat
  | 0, _, _ => none
  | fuel + 1, i, overflowed =>
    if overflowed && i == started then none
    else if i ≥ maxID then nextPacketIDLoop c maxID started fuel 0 true
    else
      let i' := i + 1
      if (flGet c i').isNone then some i' else nextPacketIDLoop c maxID started fuel i' overflowed

def nextPacketID (c : Client) (maxID : Nat) : Option Nat :=
  nextPacketIDLoop c maxID c.packetID (2 * maxID + 4) c.packetID false

/-! ### rendering of written packets (the projection the harness also renders) -/

def renderPublish (ver : Nat) (m : Msg) (meSet : Bool) : String :=
  let si := "+".intercalate ((m.subIds.filter (· > 0)).map toString)
  let v5 := ver == 5
  -- the independent decoder marks a PUBLISH whose topic name contains a wildcard (a will topic is not
  -- validated by ConnectValidate, so `+/b` or `a/#` can be published and retained)
  let bad := if m.topic.contains 43 || m.topic.contains 35 then "!bad(publish-topic-contains-wildcard)" else ""
  s!"PUB:q{m.qos}:d{b01 m.dup}:r{b01 m.retain}:id{m.id}:t={hexStr m.topic}:p={hexStr m.payload}:si={if v5 then si else ""}:ta={if v5 && m.alias > 0 then toString m.alias else "-"}:me{if v5 && meSet then "+" else "0"}{bad}"

def ackName (t : Nat) : String :=
  if t == 4 then "PUBACK" else if t == 5 then "PUBREC" else if t == 6 then "PUBREL" else "PUBCOMP"

def renderAck (t id rc : Nat) (ver : Nat) : String :=
  s!"{ackName t}:id{id}:rc{hex2 (if ver == 5 then rc else 0)}"

def v3code (code : Nat) : Nat :=
  if code == 0x84 then 1 else if code == 0x85 then 2 else if code == 0x88 then 3
  else if code == 0x86 then 5 else code

def WPk.render : WPk → String
  | .connack ver sp code rm maxQos seiOut =>
    if ver == 5 then
      let fail := code ≥ 0x80
      let mq := if !fail && maxQos < 2 then toString maxQos else "-"
      let sei := match seiOut with | some v => toString v | none => "-"
      s!"CONNACK:sp{b01 (sp && !fail)}:rc{hex2 code}:rm{rm}:mq{mq}:aci0:sei{if fail then "-" else sei}:ska-:rs{b01 fail}"
    else
      -- MQTT 3: codes outside V5CodesToV3 are sent raw; the independent decoder rejects return codes > 5
      -- (known finding F23a)
      let rc := if code ≥ 0x80 then v3code code else code
      if rc > 5 then s!"!bad(connack-return-code-{rc}-not-defined-for-MQTT-3)"
      else s!"CONNACK:sp{b01 (sp && code < 0x80)}:rc{hex2 rc}"
  | .publish ver m meSet => renderPublish ver m meSet
  | .ack ver t id rc => renderAck t id rc ver
  | .suback ver id rcs =>
    -- (before fix e36320d a packet identifier in use was answered with 0x91 also to an MQTT 3 client: the
    -- `continue` in processSubscribe skipped the MQTT 3 downgrade); the independent decoder rejects such a code
    match (if ver == 5 then none else rcs.find? (fun c => c != 0 && c != 1 && c != 2 && c != 0x80)) with
    | some c => s!"!bad(suback-return-code-{hex2 c}-not-defined-for-MQTT-3)"
    | none => s!"SUBACK:id{id}:rcs={if rcs.isEmpty then "-" else String.join (rcs.map hex2)}"
  | .unsuback ver id rcs =>
    s!"UNSUBACK:id{id}:rcs={if ver == 5 then (if rcs.isEmpty then "-" else String.join (rcs.map hex2)) else "-"}"
  | .pingresp => "PINGRESP"
  | .disconnect ver code =>
    if ver == 5 then s!"DISCONNECT:rc{hex2 code}" else "!bad(DISCONNECT-sent-to-an-MQTT-3-client)"

/-- `WritePacket` of a message to client object `i` (direct write or via the queue — sequentially the
    same): nothing if the client is closed. PUBLISH: the expiry interval is (re)computed when
    `Expiry > 0`. -/
def writeMsg (s : Server) (i : Nat) (m : Msg) : List Out :=
  let c := getObj s i
  if !c.isOpen || c.inline || c.peerGone then [] else
  if m.type == 3 then
    let meSet := m.expiry > 0 || m.msgExpiry > 0
    [.wrote c.conn (.publish c.ver m meSet)]
  else [.wrote c.conn (.ack c.ver m.type m.id m.reasonCode)]

/-- `Client.Stop` -/
def stopClient (s : Server) (i : Nat) : Server × List Out :=
  let c := getObj s i
  if c.stopped then (s, []) else
  (setObj s i { c with isOpen := false, stopped := true }, if c.inline then [] else [.closed c.conn])

/-- `DisconnectClient(cl, code)`: DISCONNECT packet (if still open), then Stop -/
def disconnectClient (s : Server) (i : Nat) (code : Nat) : Server × List Out :=
  let c := getObj s i
  -- an MQTT 3 client is written a DISCONNECT packet too (E0 00), which MQTT 3 does not define for
  -- servers (known finding F23b)
  let w := if c.isOpen && !c.inline && !c.peerGone then [Out.wrote c.conn (.disconnect c.ver code)] else []
  let (s, o) := stopClient s i
  (s, w ++ o)

/-! ### subscriptions -/

/-- `UnsubscribeClient(cl)` -/
def unsubscribeClient (s : Server) (i : Nat) : Server :=
  let c := getObj s i
  let s := setObj s i { c with subs := [] }
  if c.takenOver then s else
  c.subs.foldl (fun s (fs : Str × Sub) =>
    let r := unsubscribe s.topics fs.1 c.id
    { s with topics := r.1, info := if r.2 then { s.info with subs := s.info.subs - 1 } else s.info }) s

/-- `ClearInflights` -/
def clearInflights (s : Server) (i : Nat) : Server :=
  let c := getObj s i
  let n := c.inflight.length
  { setObj s i { c with inflight := [] } with info := { s.info with inflight := s.info.inflight - n } }

/-! ### publishing -/

/-- `OutboundTopicAliases.Set` -/
def aliasOutSet (c : Client) (topic : Str) : Client × Nat × Bool :=
  if c.tam == 0 then (c, 0, false) else
  match assocGet c.aliasOut topic with
  | some a => (c, a, true)
  | none =>
    if c.aliasCursor + 1 > c.tam then (c, 0, false)
    else ({ c with aliasOut := c.aliasOut ++ [(topic, c.aliasCursor + 1)], aliasCursor := c.aliasCursor + 1 },
          c.aliasCursor + 1, false)

/-- the part of `publishToClient` that shapes the outgoing copy: retain flag, subscription
    identifiers and QoS (before alias and packet id are assigned) -/
def shapeRetain (ver : Nat) (sub : Sub) (fwdRetained : Bool) (retain : Bool) : Bool :=
  if !fwdRetained && ((ver == 5 && !sub.rap) || ver < 5) then false else retain

def shapeSubIds (sub : Sub) : List Nat :=
  match sub.idents with
  | some ids => if ids.length > 0 then (ids.map (·.2)).mergeSort else []
  | none => []

def shapeQos (caps : Caps) (sub : Sub) (qos : Nat) : Nat :=
  let q := if qos > sub.qos then sub.qos else qos
  if q > caps.maximumQos then caps.maximumQos else q

def shapeOut (caps : Caps) (ver : Nat) (sub : Sub) (fwdRetained : Bool) (pk : Msg) : Msg :=
  { pk with dup := false, id := 0, alias := 0,                 -- pk.Copy(false)
            retain := shapeRetain ver sub fwdRetained pk.retain,
            subIds := shapeSubIds sub,
            qos := shapeQos caps sub pk.qos }

/-- the reason code `processSubscribe` grants to an acceptable filter -/
def grantedQos (caps : Caps) (reqQos : Nat) : Nat := if reqQos > caps.maximumQos then caps.maximumQos else reqQos

/-- `clearExpiredClients`: is this session due for removal at virtual time `dt`? -/
def sessionDue (caps : Caps) (c : Client) (dt : Int) : Bool :=
  c.stopped && (NOW + (if c.ver == 5 && c.fsei then c.sei else caps.maxSessionExpiry) < dt)

/-- the body of `publishToClient` after its two gates -/
def publishToClientCore (s : Server) (i : Nat) (sub : Sub) (fwdRetained : Bool) (pk : Msg) : Server × List Out :=
  let c := getObj s i
  let out := shapeOut s.caps c.ver sub fwdRetained pk
  let (c, out) := if c.tam > 0 then
      let (c', a, existed) := aliasOutSet c pk.topic
      if a > 0 then (c', { out with alias := a, topic := if existed then [] else out.topic }) else (c', out)
    else (c, out)
  let s := setObj s i c
  if out.qos > 0 then
    if c.inflight.length ≥ s.caps.maximumInflight then
      ({ s with info := { s.info with inflightDropped := s.info.inflightDropped + 1 } }, [])
    else
      match nextPacketID c s.caps.maximumPacketID with
      | none =>
        ({ s with info := { s.info with inflightDropped := s.info.inflightDropped + 1 } },
         [.event s!"idexh({hexStr c.id})"])
      | some pid =>
        let c := { c with packetID := pid }
        let out := { out with id := pid }
        let sentQuota := c.sendQuota
        let (c, isNew) := flSet c out
        let c := if isNew then decSend c else c
        let s := setObj s i c
        let s := if isNew then { s with info := { s.info with inflight := s.info.inflight + 1 } } else s
        if sentQuota == 0 && c.maxSend > 0 then
          let out := { out with expiry := -1 }
          (setObj s i (flSet c out).1, [])
        else if !c.isOpen then (s, [])
        else (s, writeMsg s i out)
  else if !c.isOpen then (s, [])
  else (s, writeMsg s i out)

/-- `publishToClient(cl, sub, pk)`: the No Local and read-permission gates, then the delivery -/
def publishToClient (s : Server) (i : Nat) (sub : Sub) (fwdRetained : Bool) (pk : Msg) : Server × List Out :=
  if sub.noLocal && pk.origin == (getObj s i).id then (s, [])
  else if !aclOk s (getObj s i).id pk.topic false then (s, [])
  else publishToClientCore s i sub fwdRetained pk

/-- `retainMessage(cl, pk)` -/
def retainMsg (s : Server) (pk : Msg) : Server :=
  if s.caps.retainAvailable == 0 || pk.ignore then s else
  let r := retainMessage s.topics pk.topic pk.payload pk.retain
  let rm := if pk.payload.length > 0 then assocSet s.rmsgs pk.topic { pk with dup := false, id := 0, alias := 0, subIds := [] }
            else assocDel s.rmsgs pk.topic
  { s with topics := r.1, rmsgs := rm, info := { s.info with retained := rm.length } }

/-- one iteration of `SelectShared`: pick a member of this candidate entry (the `seed` resolves Go's
    map order) and merge it into the selection -/
def selectOne (acc : List (Str × Sub) × Nat) (g : Str × List (Str × Sub)) : List (Str × Sub) × Nat :=
  match g.2[acc.2 % 3 % g.2.length]? with
  | none => (acc.1, acc.2 / 3)
  | some cs =>
    match assocGet acc.1 cs.1 with
    | none => (assocSet acc.1 cs.1 (cs.2.merge cs.2), acc.2 / 3)
    | some cls => (assocSet acc.1 cs.1 (cls.merge cs.2), acc.2 / 3)

def selectShared (pickSeed : Nat) (r : Subscribers) : List (Str × Sub) :=
  (r.shared.foldl selectOne ([], pickSeed)).1

def mergeSharedSelected (subs sel : List (Str × Sub)) : List (Str × Sub) :=
  sel.foldl (fun m (cs : Str × Sub) =>
    match assocGet m cs.1 with
    | none => assocSet m cs.1 (cs.2.merge cs.2)
    | some cls => assocSet m cs.1 (cls.merge cs.2)) subs

/-- `publishToSubscribers(pk)`; clients are served in ascending id order (Go: map order — each
    connection's own stream is what is compared) -/
def publishToSubscribers (s : Server) (pk : Msg) : Server × List Out :=
  if pk.ignore then (s, []) else
  let pk := if pk.expiry == 0 then
      let e := minimumNZ s.caps.maxMessageExpiry pk.msgExpiry
      if e > 0 then { pk with expiry := pk.created + e } else pk
    else pk
  let r := subscribers s.topics pk.topic
  let subsMap := if r.shared.length > 0 then
      mergeSharedSelected r.subs (selectShared s.pickSeed { r with shared := permuteBy s.orderSeed r.shared }) else r.subs
  let inl : List Out := r.inline.map fun (id, _) => Out.inline id pk.topic pk.payload
  subsMap.foldl (fun (acc : Server × List Out) (cs : Str × Sub) =>
    match assocGet acc.1.clients cs.1 with
    | none => acc
    | some i =>
      let (s', o) := publishToClient acc.1 i cs.2 false pk
      (s', acc.2 ++ o)) (s, inl)

/-- radix of the per-filter digits of `permSeed` (7!: every order of up to seven matches) -/
def permBase : Nat := 5040

/-- the resolution of Go's map order for the `k`-th filter of one SUBSCRIBE packet: each filter's
    retained matches are iterated independently, so each has its own digit of `permSeed` -/
def permDigit (seed k : Nat) : Nat := seed / permBase ^ k % permBase

/-- `publishRetainedToClient(cl, sub, existed)`; `k` = position of the filter in its SUBSCRIBE packet -/
def publishRetainedToClient (s : Server) (i : Nat) (sub : Sub) (existed : Bool) (k : Nat) : Server × List Out :=
  if isSharedFilter sub.filter then (s, []) else
  if (sub.rh == 1 && existed) || sub.rh == 2 then (s, []) else
  let sub := if sub.ident > 0 && (sub.idents.getD []).isEmpty then { sub with idents := some [(sub.filter, sub.ident)] } else sub
  (permuteBy (permDigit s.permSeed k) (messages s.topics sub.filter)).foldl (fun (acc : Server × List Out) (r : Retained) =>
    match assocGet acc.1.rmsgs r.topic with
    | none => acc
    | some pk =>
      let (s', o) := publishToClient acc.1 i sub true pk
      (s', acc.2 ++ o)) (s, [])

/-- `sendLWT(cl)` -/
def sendLWT (s : Server) (i : Nat) : Server × List Out :=
  let c := getObj s i
  if !c.will.flag then (s, []) else
  let pk : Msg := { type := 3, retain := c.will.retain, qos := c.will.qos, topic := c.will.topic,
                    payload := c.will.payload, origin := c.id, created := NOW }
  if c.will.delay > 0 then
    ({ s with willDelayed := assocSet s.willDelayed c.id { pk with expiry := NOW + c.will.delay } }, [])
  else
    let s := if pk.retain then retainMsg s pk else s
    let (s, o) := publishToSubscribers s pk
    (modObj s i (fun c => { c with will := { c.will with flag := false } }), o ++ [.event s!"will({hexStr c.id})"])

/-! ### inbound packets -/

inductive InPk where
  | publish (qos : Nat) (dup retain : Bool) (id : Nat) (topic payload : Str) (msgExpiry : Nat) (alias : Option Nat)
  | subscribe (id : Nat) (subId : Nat) (filters : List Sub)
  | unsubscribe (id : Nat) (filters : List Str)
  | puback (id : Nat) (rc : Nat)
  | pubrec (id : Nat) (rc : Nat)
  | pubrel (id : Nat) (rc : Nat)
  | pubcomp (id : Nat) (rc : Nat)
  | pingreq
  | disconnect (rc : Nat) (sei : Option Nat)
deriving Repr

/-- a handler's verdict: `none` = carry on; `some code` = the error `processPacket` returns -/
abbrev HRes := Server × List Out × Option Nat

def buildAckRC (ver : Nat) (rc : Nat) : Nat := if ver == 5 then rc else 0

def writeAck (s : Server) (i : Nat) (t id rc : Nat) : List Out :=
  writeMsg s i { type := t, id := id, reasonCode := rc }

/-- a direct `WritePacket` by the handler fails: the client is closed (`ErrConnectionClosed`) or its
    peer is gone (the write on the connection returns an error) -/
def dead (c : Client) : Bool := !c.isOpen || c.peerGone

/-- `return cl.WritePacket(ack)`: the handler's result is the write's error -/
def ackRes (s : Server) (i : Nat) (t id rc : Nat) : Server × List Out × Option Nat :=
  if dead (getObj s i) && !(getObj s i).inline then (s, [], some 0) else (s, writeAck s i t id rc, none)

/-- `processPublish` -/
def processPublish (s : Server) (i : Nat) (qos : Nat) (dup retain : Bool) (id : Nat) (topic payload : Str)
    (msgExpiry : Nat) (alias : Option Nat) : HRes :=
  let c := getObj s i
  if !c.inline && !isValidFilter topic true then
    if qos == 0 then (s, [], none)
    else if c.ver != 5 then
      let (s, o) := disconnectClient s i 0x90
      (s, o, some 0x90)
    else ackRes s i (if qos == 2 then 5 else 4) id 0x90
  else if c.recvQuota == 0 then
    let (s, o) := disconnectClient s i 0x93
    (s, o, some 0x93)
  else if !c.inline && !aclOk s c.id topic true then
    if qos == 0 then (s, [], none)
    else if c.ver != 5 then
      let (s, o) := disconnectClient s i 0x87
      (s, o, some 0x87)
    else ackRes s i (if qos == 2 then 5 else 4) id 0x87
  else
    let e := minimumNZ s.caps.maxMessageExpiry msgExpiry
    let pk : Msg := { type := 3, id := id, qos := qos, dup := dup, retain := retain, topic := topic, payload := payload,
                      origin := c.id, created := NOW, expiry := if e > 0 then NOW + e else 0, ver := c.ver, msgExpiry := msgExpiry }
    -- an inflight record under the client's packet id
    let pre : Option HRes :=
      if c.inline then none else
      match flGet c id with
      | some pki => if pki.type == 5 then some (ackRes s i 5 id 0x91) else none
      | none => none
    match pre with
    | some r => r
    | none =>
      let (s, c) := if !c.inline && (flGet c id).isSome then
          let c' := (flDelete c id).1
          ({ setObj s i c' with info := { s.info with inflight := s.info.inflight - 1 } }, c')
        else (s, c)
      -- inbound topic alias
      let (c, pk) := match alias with
        | some a =>
          if a > 0 then
            if s.caps.topicAliasMaximum == 0 then (c, pk)
            else match assocGet c.aliasIn a with
              | some existing => if topic.isEmpty then (c, { pk with topic := existing })
                                 else ({ c with aliasIn := assocSet c.aliasIn a topic }, pk)
              | none => ({ c with aliasIn := assocSet c.aliasIn a topic }, pk)
          else (c, pk)
        | none => (c, pk)
      let s := setObj s i c
      -- the alias is not bound to a topic on this connection: protocol error
      if !c.inline && pk.topic.isEmpty then
        let (s, o) := disconnectClient s i 0x82
        (s, o, some 0x82)
      else
      let pk := if pk.qos > s.caps.maximumQos then { pk with qos := s.caps.maximumQos } else pk
      -- OnPublish hook
      let mode := assocGet s.pubHook pk.topic
      if mode == some "reject" then (s, [], none)
      else if mode == some "err" && c.ver == 5 && pk.qos > 0 then ackRes s i (if pk.qos == 2 then 5 else 4) id 0x87
      else
        let pk := if mode == some "ignore" then { pk with ignore := true } else pk
        let s := if pk.retain then retainMsg s pk else s
        if pk.qos == 0 || c.inline then
          let (s, o) := publishToSubscribers s pk
          (s, o, none)
        else
          let s := modObj s i decRecv
          let ackT := if pk.qos == 2 then 5 else 4
          let ackRC := if pk.qos == 2 then 0 else pk.qos   -- QosCodes[qos] for PUBACK, success for PUBREC
          let ack : Msg := { type := ackT, id := id, reasonCode := ackRC, created := NOW, expiry := NOW + s.caps.maxMessageExpiry }
          let (c', isNew) := flSet (getObj s i) ack
          let s := setObj s i c'
          let s := if isNew then { s with info := { s.info with inflight := s.info.inflight + 1 } } else s
          if dead (getObj s i) then (s, [], some 0)   -- WritePacket: ErrConnectionClosed / write error
          else
            let o1 := writeMsg s i ack
            let s := if pk.qos == 1 then
                let (c'', ok) := flDelete (getObj s i) id
                let s := setObj s i (incRecv c'')
                if ok then { s with info := { s.info with inflight := s.info.inflight - 1 } } else s
              else s
            let (s, o2) := publishToSubscribers s pk
            (s, o1 ++ o2, none)

/-- `PublishValidate` (the part reachable with decodable packets) -/
def publishValidate (s : Server) (qos id : Nat) (topic : Str) (alias : Option Nat) : Option Nat :=
  if qos > 0 && id == 0 then some 0x82
  else if qos == 0 && id > 0 then some 0x82
  else if topic.contains plus || topic.contains hash then some 0x82
  else if (alias.getD 0) > s.caps.topicAliasMaximum then some 0x94
  else if topic.isEmpty && (alias.getD 0) == 0 then some 0x82
  else if alias == some 0 then some 0x94
  else none

def processPuback (s : Server) (i : Nat) (id : Nat) : HRes :=
  let c := getObj s i
  if (flGet c id).isNone then (s, [], none) else
  let c := incSend (flDelete c id).1
  ({ setObj s i c with info := { s.info with inflight := s.info.inflight - 1 } }, [], none)

def reasonValid (t rc : Nat) : Bool :=
  if t == 5 then [0x00, 0x10, 0x80, 0x83, 0x87, 0x90, 0x91, 0x97, 0x99].contains rc
  else if t == 6 || t == 7 then [0x00, 0x92].contains rc
  else true

def processPubrec (s : Server) (i : Nat) (id rc : Nat) : HRes :=
  let c := getObj s i
  if (flGet c id).isNone then ackRes s i 6 id 0x92
  else if rc ≥ 0x80 || !reasonValid 5 rc then
    let c := (flDelete c id).1
    ({ setObj s i c with info := { s.info with inflight := s.info.inflight - 1 } }, [], none)
  else
    let ack : Msg := { type := 6, id := id, qos := 1, reasonCode := 0, created := NOW, expiry := NOW + s.caps.maxMessageExpiry }
    let c := (flSet (decRecv c) ack).1
    let s := setObj s i c
    if dead c then (s, [], some 0) else (s, writeMsg s i ack, none)

def processPubrel (s : Server) (i : Nat) (id rc : Nat) : HRes :=
  let c := getObj s i
  if (flGet c id).isNone then ackRes s i 7 id 0x92
  else if rc ≥ 0x80 || !reasonValid 6 rc then
    let c := (flDelete c id).1
    ({ setObj s i c with info := { s.info with inflight := s.info.inflight - 1 } }, [], none)
  else
    let ack : Msg := { type := 7, id := id, reasonCode := 0, created := NOW, expiry := NOW + s.caps.maxMessageExpiry }
    let c := (flSet c ack).1
    let s := setObj s i c
    if dead c then (s, [], some 0) else
    let o := writeMsg s i ack
    let c := incSend (incRecv c)
    let (c, ok) := flDelete c id
    let s := setObj s i c
    (if ok then { s with info := { s.info with inflight := s.info.inflight - 1 } } else s, o, none)

def processPubcomp (s : Server) (i : Nat) (id : Nat) : HRes :=
  let c := incSend (incRecv (getObj s i))
  let (c, ok) := flDelete c id
  let s := setObj s i c
  (if ok then { s with info := { s.info with inflight := s.info.inflight - 1 } } else s, [], none)

/-- `processSubscribe` -/
def processSubscribe (s : Server) (i : Nat) (id subId : Nat) (filters : List Sub) : HRes :=
  let c := getObj s i
  let inUse := (flGet c id).isSome
  -- per filter: (server state, reason codes, existed flags)
  let r := filters.foldl (fun (acc : Server × List Nat × List Bool) (sub : Sub) =>
    let (s, rcs, exs) := acc
    let sub := { sub with ident := subId }
    let fin (rc : Nat) : Nat := if rc > 2 && c.ver < 5 then 0x80 else rc
    if inUse then (s, rcs ++ [fin 0x91], exs ++ [false])   -- MQTT 3: downgraded to 0x80 like every refusal (fix e36320d)
    else if !isValidFilter sub.filter false then (s, rcs ++ [fin 0x8F], exs ++ [false])
    else if sub.noLocal && isSharedFilter sub.filter then (s, rcs ++ [fin 0x82], exs ++ [false])
    else if !aclOk s c.id sub.filter false then
      (s, rcs ++ [fin (if s.caps.obscureNotAuthorized then 0x80 else 0x87)], exs ++ [false])
    else
      let rr := subscribe s.topics c.id sub
      let s := { s with topics := rr.1, info := if rr.2 then { s.info with subs := s.info.subs + 1 } else s.info }
      let s := modObj s i (fun c => { c with subs := assocSet c.subs sub.filter sub })
      (s, rcs ++ [fin (grantedQos s.caps sub.qos)], exs ++ [!rr.2])) (s, [], [])
  let (s, rcs, exs) := r
  let c := getObj s i
  if dead c then (s, [], some 0) else
  let o1 := [Out.wrote c.conn (.suback c.ver id rcs)]
  -- retained messages for the accepted filters
  let z := (filters.zip (rcs.zip exs)).zipIdx.foldl (fun (acc : Server × List Out) (xk : (Sub × Nat × Bool) × Nat) =>
    let x := xk.1
    if x.2.1 ≥ 0x80 then acc else
    let sub := { x.1 with ident := subId }
    let (s', o) := publishRetainedToClient acc.1 i sub x.2.2 xk.2
    (s', acc.2 ++ o)) (s, [])
  (z.1, o1 ++ z.2, none)

/-- `processUnsubscribe` -/
def processUnsubscribe (s : Server) (i : Nat) (id : Nat) (filters : List Str) : HRes :=
  let c := getObj s i
  let inUse := (flGet c id).isSome
  let r := filters.foldl (fun (acc : Server × List Nat) (f : Str) =>
    let (s, rcs) := acc
    if inUse then (s, rcs ++ [0x91]) else
    let rr := unsubscribe s.topics f c.id
    let s := { s with topics := rr.1, info := if rr.2 then { s.info with subs := s.info.subs - 1 } else s.info }
    let s := modObj s i (fun c => { c with subs := assocDel c.subs f })
    (s, rcs ++ [if rr.2 then 0x00 else 0x11])) (s, [])
  let (s, rcs) := r
  let c := getObj s i
  if dead c then (s, [], some 0) else
  (s, [.wrote c.conn (.unsuback c.ver id rcs)], none)

/-- `processDisconnect` -/
def processDisconnect (s : Server) (i : Nat) (rc : Nat) (sei : Option Nat) : HRes :=
  let c := getObj s i
  let r : Option (Server × Client) := match sei with
    | some v => if v > 0 && c.sei == 0 then none else some (s, { c with sei := v, fsei := true })
    | none => some (s, c)
  match r with
  | none => (s, [], some 0x82)
  | some (s, c) =>
    let s := setObj s i c
    if rc == 0x04 then (s, [], some 0x04)
    else
      let s := { s with willDelayed := assocDel s.willDelayed c.id }
      let (s, o) := stopClient s i
      (s, o, none)

/-- the tail of `processPacket`: one deferred message is released when send quota is available -/
def nextImmediate (s : Server) (i : Nat) : Server × List Out :=
  let c := getObj s i
  if c.inflight.length > 0 && c.sendQuota > 0 then
    -- `GetAll(true)` sorted by `uint16(Created)`: within one second the order is Go's map order
    -- each release consumes one base-64 digit of `nextSeed` (one op can release twice: the packet and
    -- the harness's barrier PINGREQ, each with its own map-order pick)
    match (permuteBy (s.nextSeed % 64) (c.inflight.filter (fun m => m.expiry < 0))).head? with
    | some m =>
      let o := writeMsg s i m
      let (c, ok) := flDelete c m.id
      let s := setObj { s with nextSeed := s.nextSeed / 64 } i (decSend c)
      (if ok then { s with info := { s.info with inflight := s.info.inflight - 1 } } else s, o)
    | none => (s, [])
  else (s, [])

/-- `processPacket` + `receivePacket`: returns the error (if any) that ends the read loop -/
def receivePacket (s : Server) (i : Nat) (pk : InPk) : HRes :=
  let c := getObj s i
  let r : HRes := match pk with
    | .publish q d r id t p me al =>
      match publishValidate s q id t al with
      | some code => (s, [], some code)
      | none => processPublish s i q d r id t p me al
    | .subscribe id si fs => if fs.isEmpty then (s, [], some 0x82) else processSubscribe s i id si fs
    | .unsubscribe id fs => if fs.isEmpty then (s, [], some 0x82) else processUnsubscribe s i id fs
    | .puback id _ => processPuback s i id
    | .pubrec id rc => processPubrec s i id rc
    | .pubrel id rc => processPubrel s i id rc
    | .pubcomp id _ => processPubcomp s i id
    | .pingreq => if !dead c then (s, [.wrote c.conn .pingresp], none) else (s, [], some 0)
    | .disconnect rc sei => processDisconnect s i rc sei
  match r with
  | (s, o, none) =>
    let (s, o2) := nextImmediate s i
    (s, o ++ o2, none)
  | (s, o, some code) =>
    -- receivePacket: an MQTT 5 client is sent DISCONNECT for error codes ≥ 0x80
    if c.ver == 5 && code ≥ 0x80 then
      let (s, o2) := disconnectClient s i code
      (s, o ++ o2, some code)
    else (s, o, some code)

/-- the tail of `attachClient` after the read loop ended (`err`: with an error or normally), up to
    the point where the session clean-up starts (yield point `attach.beforeCleanup`) -/
def detachA (s : Server) (i : Nat) (withErr : Bool) : Server × List Out :=
  if withErr then
    let (s, o) := sendLWT s i
    let (s, o') := stopClient s i
    (s, o ++ o')
  else (modObj s i (fun c => { c with will := {} }), [])

/-- the session clean-up at the end of `attachClient` and the deferred counter decrement -/
def detachB (s : Server) (i : Nat) : Server :=
  let c := getObj s i
  let expire := (c.ver == 5 && c.sei == 0) || (c.ver < 5 && c.clean)
  let s := if expire && !c.takenOver then
      let s := clearInflights s i
      let s := unsubscribeClient s i
      { s with clients := assocDel s.clients c.id }
    else s
  { s with info := { s.info with connected := s.info.connected - 1 } }

/-- the tail of `attachClient` after the read loop ended (`err`: with an error or normally) -/
def detach (s : Server) (i : Nat) (withErr : Bool) : Server × List Out :=
  let (s, o1) := detachA s i withErr
  (detachB s i, o1)

/-- deliver one inbound packet on connection `conn`, then (if the connection survived) the
    harness's PINGREQ barrier -/
def recvOn (s : Server) (conn : Nat) (pk : InPk) (barrier : Bool) : Server × List Out :=
  match assocGet s.connOf conn with
  | none => (s, [])
  | some i =>
    if !(getObj s i).isOpen then (s, []) else
    let (s, o, e) := receivePacket s i pk
    match e with
    | some _ =>
      let (s, o2) := detach s i true
      (s, o ++ o2)
    | none =>
      if !(getObj s i).isOpen then
        -- closed without error (normal DISCONNECT): read loop ends with nil
        let (s, o2) := detach s i false
        (s, o ++ o2)
      else if barrier then
        let (s, o2, e2) := receivePacket s i .pingreq
        let o2 := o2.filter (fun x => match x with | .wrote _ .pingresp => false | _ => true)
        match e2 with
        | some _ => let (s, o3) := detach s i true; (s, o ++ o2 ++ o3)
        | none => (s, o ++ o2)
      else (s, o)

/-! ### connecting -/

def mkConnack (s : Server) (c : Client) (sp : Bool) (code : Nat) (seiOut : Option Nat) : WPk :=
  .connack c.ver sp code s.caps.receiveMaximum s.caps.maximumQos seiOut

/-- `ParseConnect`: the client object a CONNECT describes -/
def parseConnect (s : Server) (conn : Nat) (k : Connect) : Client :=
  let rmProp := k.rm.getD 0
  let rmProp := if rmProp > s.caps.maximumInflight then s.caps.maximumInflight else rmProp
  let will : Will := match k.will with
    | some w =>
      let d := match k.sei with
        | some v => if v < w.delay then v else w.delay
        | none => w.delay
      { w with flag := true, delay := d }
    | none => {}
  { conn := conn, id := k.id, ver := k.ver, clean := k.clean, sei := k.sei.getD 0, fsei := k.sei.isSome,
    recvMaxProp := rmProp, tam := k.tam.getD 0, will := will,
    recvQuota := s.caps.receiveMaximum, maxRecv := s.caps.receiveMaximum,
    sendQuota := rmProp, maxSend := rmProp }

def authAllows (s : Server) (id : Str) : Bool :=
  match s.auth with
  | .allow => true
  | .none => false
  | .deny x => id != x

/-- the checks of `attachClient` before a session is created: `some code` = refused with that
    CONNACK reason code -/
def refuseCode (s : Server) (k : Connect) (c : Client) : Option Nat :=
  if s.info.connected ≥ s.caps.maximumClients then some (if k.ver < 5 then 0x88 else 0x89)
  else if k.ver < 5 && !k.clean && k.id.isEmpty then some 0x80
  else if k.ver < s.caps.minimumProtocolVersion then some 0x84
  else if c.will.flag && c.will.qos > s.caps.maximumQos then some 0x9B
  else if c.will.flag && c.will.retain && s.caps.retainAvailable == 0 then some 0x9A
  else if !authAllows s k.id then some 0x86
  else none

/-- CONNACK session present: a session for the id existed (and was not an MQTT 3 clean session) and
    Clean Start is 0 -/
def sessionExisted (s : Server) (id : Str) : Bool :=
  match assocGet s.clients id with
  | some e => !((getObj s e).clean && (getObj s e).ver < 5)
  | none => false

/-- `attachClient` from the point the client is admitted up to and including `Clients.Add`:
    counter increment, `inheritClientSession`, registration. Returns session-present and the live
    object that was taken over (its handler now leaves its read loop). -/
def admitA (s : Server) (i : Nat) (k : Connect) : Server × List Out × Bool × Option Nat :=
  let s := { s with info := { s.info with connected := s.info.connected + 1 } }
  let exLive : Option Nat := match assocGet s.clients k.id with
    | some e => if (getObj s e).stopped || s.parkedEarly.contains e || s.pending.any (·.obj == e) then none else some e
    | none => none
  -- inheritClientSession
  let (s, o1, present) : Server × List Out × Bool := match assocGet s.clients k.id with
    | some e =>
      let ex := getObj s e
      let (s, o) := disconnectClient s e 0x8E
      if k.clean || (ex.clean && ex.ver < 5) then
        let s := unsubscribeClient s e
        let s := clearInflights s e
        (modObj s e (fun x => { x with takenOver := true }), o, false)
      else
        let s := modObj s e (fun x => { x with takenOver := true })
        let ex := getObj s e
        let rmx := s.caps.receiveMaximum
        let s := if ex.inflight.length > 0 then
            let s := modObj s i (fun x =>
              let sq := if rmx != 0 then x.recvMaxProp else 0
              { x with inflight := ex.inflight, recvQuota := rmx, maxRecv := rmx, sendQuota := sq, maxSend := sq })
            { s with info := { s.info with inflight := s.info.inflight + ex.inflight.length } }
          else s
        let s := ex.subs.foldl (fun s (fs : Str × Sub) =>
          let rr := subscribe s.topics k.id fs.2
          let s := { s with topics := rr.1, info := if rr.2 then { s.info with subs := s.info.subs + 1 } else s.info }
          modObj s i (fun x => { x with subs := assocSet x.subs fs.2.filter fs.2 })) s
        let s := unsubscribeClient s e
        let s := clearInflights s e
        (s, o, true)
    | none => (s, [], false)
  ({ s with clients := assocSet s.clients k.id i }, o1, present, exLive)

/-- `SendConnack` -/
def admitConnack (s : Server) (i conn : Nat) (present : Bool) : Server × List Out :=
  let cl := getObj s i
  let (s, seiOut) := if cl.sei > s.caps.maxSessionExpiry then
      (modObj s i (fun x => { x with sei := s.caps.maxSessionExpiry, fsei := true }), some s.caps.maxSessionExpiry)
    else (s, none)
  (s, [Out.wrote conn (mkConnack s cl present 0 seiOut)])

/-- the rest of `attachClient` up to the read loop: delayed-will removal and `ResendInflightMessages` -/
def admitC (s : Server) (i : Nat) (k : Connect) (present : Bool) : Server × List Out :=
  let s := { s with willDelayed := assocDel s.willDelayed k.id }
  if present then
    -- `Inflight.GetAll(false)`: sorted by `uint16(Created)` (whole seconds — all equal within one
    -- history) with ties in Go's map order: any order, resolved by `resendSeed`
    (permuteBy s.resendSeed (getObj s i).inflight).foldl (fun (acc : Server × List Out) (m : Msg) =>
      let m' := if m.type == 3 then { m with dup := true } else m
      let o := writeMsg acc.1 i m'
      let s' := if m.type == 4 || m.type == 7 then
          let (c', ok) := flDelete (getObj acc.1 i) m.id
          let s'' := setObj acc.1 i c'
          if ok then { s'' with info := { s''.info with inflight := s''.info.inflight - 1 } } else s''
        else acc.1
      (s', acc.2 ++ o)) (s, [])
  else (s, [])

/-- `attachClient` from the point the client is admitted up to the read loop -/
def admitClient (s : Server) (i conn : Nat) (k : Connect) : Server × List Out :=
  let (s, o1, present, exLive) := admitA s i k
  let (s, o2) := admitConnack s i conn present
  -- the taken-over connection's own handler leaves its read loop (DisconnectClient closed its
  -- connection) and runs the tail of attachClient while this handler is blocked writing the
  -- CONNACK: the schedule the sequential harness (GOMAXPROCS=1) produces
  let (s, o4) := match exLive with
    | some e => detach s e true
    | none => (s, [])
  let (s, o3) := admitC s i k present
  (s, o1 ++ o2 ++ o4 ++ o3)

/-- `attachClient` up to the read loop -/
def connect (s : Server) (conn : Nat) (k : Connect) : Server × List Out :=
  let c := parseConnect s conn k
  let i := s.objs.length
  let s := { s with objs := s.objs ++ [c], connOf := s.connOf ++ [(conn, i)] }
  match refuseCode s k c with
  | some code =>
    let o := [Out.wrote conn (mkConnack s c false code none)]
    let (s, o2) := stopClient s i
    (s, o ++ o2)
  | none => admitClient s i conn k

/-! #### the same handler, parked at a point of `attachClient` and released later (schedules)

`stage 1`: parked inside the authentication hook — after the `MaximumClients` test and
`validateConnect`, before the `ClientsConnected` increment.  `stage 2`: parked at the yield point
`attach.afterClientsAdd` — the session is inherited and registered, the CONNACK not yet written; a
taken-over handler runs its teardown meanwhile. -/

def connectHold (s : Server) (conn : Nat) (k : Connect) (stage : Nat) : Server × List Out :=
  let c := parseConnect s conn k
  let i := s.objs.length
  let s := { s with objs := s.objs ++ [c], connOf := s.connOf ++ [(conn, i)] }
  let dec := refuseCode s k c
  -- a connection refused before the authentication hook never reaches it: it completes at once
  match dec with
  | some code =>
    -- (the hook is only consulted when one is installed: `auth = none` refuses without calling it)
    if code == 0x86 && stage == 1 && (match s.auth with | .none => false | _ => true) then
      ({ s with pending := s.pending ++ [{ conn := conn, obj := i, k := k, stage := 1, refuse := some code }] }, [])
    else
      let o := [Out.wrote conn (mkConnack s c false code none)]
      let (s, o2) := stopClient s i
      (s, o ++ o2)
  | none =>
    if stage == 1 then ({ s with pending := s.pending ++ [{ conn := conn, obj := i, k := k, stage := 1 }] }, [])
    else
      let (s, o1, present, exLive) := admitA s i k
      let (s, o4) := match exLive with
        | some e => detach s e true
        | none => (s, [])
      ({ s with pending := s.pending ++ [{ conn := conn, obj := i, k := k, stage := 2, present := present }] }, o1 ++ o4)

def connectRelease (s : Server) (p : Pending) : Server × List Out :=
  if p.stage == 1 then
    match p.refuse with
    | some code =>
      let o := [Out.wrote p.conn (mkConnack s (getObj s p.obj) false code none)]
      let (s, o2) := stopClient s p.obj
      (s, o ++ o2)
    | none => admitClient s p.obj p.conn p.k
  else if (getObj s p.obj).stopped then
    -- taken over while parked: SendConnack fails (connection closed), attachClient returns before the
    -- read loop; only the deferred counter decrement runs
    ({ s with info := { s.info with connected := s.info.connected - 1 } }, [])
  else
    let (s, o2) := admitConnack s p.obj p.conn p.present
    let (s, o3) := admitC s p.obj p.k p.present
    (s, o2 ++ o3)

/-! ### housekeeping and the inline API -/

def tickClients (s : Server) (dt : Int) : Server × List Out :=
  s.clients.foldl (fun (acc : Server × List Out) (e : Str × Nat) =>
    let c := getObj acc.1 e.2
    if sessionDue acc.1.caps c dt then
      let s := clearInflights acc.1 e.2
      let s := unsubscribeClient s e.2
      ({ s with clients := assocDel s.clients e.1 }, acc.2 ++ [.event s!"expired({hexStr c.id})"])
    else acc) (s, [])

def tickRetained (s : Server) (now : Int) : Server :=
  let s := tickRetainedLoop s now
  { s with info := { s.info with retained := s.rmsgs.length } }
where tickRetainedLoop (s : Server) (now : Int) : Server :=
  s.rmsgs.foldl (fun s (e : Str × Msg) =>
    let pk := e.2
    let expired := pk.ver == 5 && pk.expiry > 0 && pk.expiry < now
    let enforced := s.caps.maxMessageExpiry > 0 && now - pk.created > s.caps.maxMessageExpiry
    if expired || enforced then
      { s with rmsgs := assocDel s.rmsgs e.1, topics := { s.topics with retained := assocDel s.topics.retained e.1 } }
    else s) s

def tickInflight (s : Server) (now : Int) : Server :=
  s.clients.foldl (fun s (e : Str × Nat) =>
    let c := getObj s e.2
    c.inflight.foldl (fun s (m : Msg) =>
      let expired := m.ver == 5 && m.expiry > 0 && m.expiry < now
      let enforced := s.caps.maxMessageExpiry > 0 && now - m.created > s.caps.maxMessageExpiry
      if expired || enforced then
        let (c', ok) := flDelete (getObj s e.2) m.id
        let s := setObj s e.2 c'
        if ok then { s with info := { s.info with inflight := s.info.inflight - 1 } } else s
      else s) s) s

def tickWills (s : Server) (dt : Int) : Server × List Out :=
  s.willDelayed.foldl (fun (acc : Server × List Out) (e : Str × Msg) =>
    if dt > e.2.expiry then
      let (s, o) := publishToSubscribers acc.1 e.2
      let (s, o2) := match assocGet s.clients e.1 with
        | some i =>
          let s := if e.2.retain then retainMsg s e.2 else s
          (modObj s i (fun c => { c with will := {} }), [Out.event s!"will({hexStr e.1})"])
        | none => (s, [])
      ({ s with willDelayed := assocDel s.willDelayed e.1 }, acc.2 ++ o ++ o2)
    else acc) (s, [])

inductive Op where
  | connect (conn : Nat) (k : Connect)
  | recv (conn : Nat) (pk : InPk)
  | drop (conn : Nat)
  | recvCut (conn : Nat) (pk : InPk)  -- the peer sends one packet and vanishes: the handler's own writes fail
  | dropHold (conn : Nat)   -- the connection is lost; its handler is parked before the session clean-up
  | release (conn : Nat)    -- the parked handler runs on
  | dropHoldEarly (conn : Nat)  -- the connection is lost; its handler is parked right after the read loop
  | connectHold (conn : Nat) (k : Connect) (stage : Nat)  -- a connecting handler parked inside attachClient
  | tick (kind : String) (t : Int)
  | inlinePublish (topic payload : Str) (retain : Bool) (qos : Nat)
  | inlineSubscribe (id : Nat) (filter : Str)
  | inlineUnsubscribe (id : Nat) (filter : Str)
deriving Repr

/-- the inline client is object 0 and in the Clients map under "inline" -/
def inlineID : Str := [105, 110, 108, 105, 110, 101]

def init (caps : Caps) : Server :=
  { caps := caps,
    objs := [{ conn := 0, id := inlineID, ver := 4, inline := true, recvQuota := 2147483647, maxRecv := 2147483647 }],
    clients := [(inlineID, 0)] }

def step (s : Server) : Op → Server × List Out
  | .connect conn k =>
    let (s, o) := connect s conn k
    -- barrier PINGREQ once established
    match assocGet s.connOf conn with
    | some i =>
      if (getObj s i).isOpen then
        let (s, o2) := recvOn s conn .pingreq false
        (s, o ++ o2.filter (fun x => match x with | .wrote _ .pingresp => false | _ => true))
      else (s, o)
    | none => (s, o)
  | .recv conn pk => recvOn s conn pk true
  | .recvCut conn pk =>
    match assocGet s.connOf conn with
    | none => (s, [])
    | some i =>
      if (getObj s i).stopped || !(getObj s i).isOpen then (s, []) else
      let s := modObj s i (fun c => { c with peerGone := true })
      let (s, o) := recvOn s conn pk false
      -- the handler answered nothing itself: its next read fails and the connection ends with an error
      let (s, o2) := if (getObj s i).stopped then (s, []) else detach s i true
      (s, (o ++ o2).filter (fun x => match x with | .closed c => c != conn | _ => true))
  | .drop conn =>
    match assocGet s.connOf conn with
    | none => (s, [])
    | some i =>
      if (getObj s i).stopped then (s, []) else
      let s := modObj s i (fun c => { c with peerGone := true })
      let (s, o) := detach s i true
      (s, o.filter (fun x => match x with | .closed c => c != conn | _ => true))
  | .dropHold conn =>
    match assocGet s.connOf conn with
    | none => (s, [])
    | some i =>
      if (getObj s i).stopped then (s, []) else
      let s := modObj s i (fun c => { c with peerGone := true })
      let (s, o) := detachA s i true
      ({ s with parked := s.parked ++ [i] }, o.filter (fun x => match x with | .closed c => c != conn | _ => true))
  | .dropHoldEarly conn =>
    match assocGet s.connOf conn with
    | none => (s, [])
    | some i =>
      if (getObj s i).stopped then (s, []) else
      (modObj { s with parkedEarly := s.parkedEarly ++ [i] } i (fun c => { c with peerGone := true }), [])
  | .connectHold conn k stage => connectHold s conn k stage
  | .release conn =>
    match s.pending.find? (·.conn == conn) with
    | some p =>
      let (s, o) := connectRelease { s with pending := s.pending.filter (·.conn != conn) } p
      -- barrier PINGREQ once established
      if (getObj s p.obj).isOpen then
        let (s, o2) := recvOn s conn .pingreq false
        (s, o ++ o2.filter (fun x => match x with | .wrote _ .pingresp => false | _ => true))
      else (s, o)
    | none =>
    match assocGet s.connOf conn with
    | none => (s, [])
    | some i =>
      if s.parked.contains i then (detachB { s with parked := s.parked.filter (· != i) } i, [])
      else if s.parkedEarly.contains i then
        let (s, o) := detach { s with parkedEarly := s.parkedEarly.filter (· != i) } i true
        (s, o.filter (fun x => match x with | .closed c => c != conn | _ => true))
      else (s, [])
  | .tick kind t =>
    if kind == "clients" then tickClients s t
    else if kind == "retained" then (tickRetained s t, [])
    else if kind == "inflight" then (tickInflight s t, [])
    else if kind == "wills" then tickWills s t
    else (s, [])
  | .inlinePublish topic payload retain qos =>
    let r := receivePacket s 0 (.publish qos false retain qos topic payload 0 none)
    (r.1, r.2.1)
  | .inlineSubscribe id filter =>
    if !isValidFilter filter false then (s, []) else
    let rr := inlineSubscribe s.topics id { filter := filter, ident := id }
    let s := { s with topics := rr.1 }
    (s, (permuteBy s.permSeed (messages s.topics filter)).map fun r => Out.inline id r.topic r.payload)
  | .inlineUnsubscribe id filter =>
    if !isValidFilter filter false then (s, []) else
    ({ s with topics := (inlineUnsubscribe s.topics id filter).1 }, [])

end Mochi.Broker
