import Mochi.Model.Storage
/-
M5 (restart) — `readStore` of server.go over the read-back of a store: `loadClients`, `loadSubscriptions`,
`loadInflight`, `loadRetained` and `storage.Message.ToPacket`, producing the *view* of the restarted broker
that C20/C21 speak about: sessions with their expiry settings, subscriptions with their options (topic index
and the sessions' own lists), retained messages and in-flight messages.

The same `BrokerView` type describes the live broker before the shutdown; `Live*` fields that the storage
structs have no room for (`Expiry`, `ProtocolVersion`, `PayloadFormatFlag`, `SessionExpiryIntervalFlag`, …)
are part of the view, so their loss is visible as a difference between the two views.
-/
namespace Mochi.Storage

/-- the session part of `*mqtt.Client` the property speaks about (+ the rest of the stored connect data) -/
structure Session where
  id : Str := []
  pv : Nat := 0
  clean : Bool := false
  sei : Nat := 0
  seiFlag : Bool := false
  user : Str := []
  recvMax : Nat := 0
  taMax : Nat := 0
  maxPkt : Nat := 0
  reqProb : Nat := 0
  reqProbFlag : Bool := false
  reqResp : Nat := 0
  will : Will := {}
deriving DecidableEq, Repr

/-- the options of a `packets.Subscription` -/
structure SubOpts where
  qos : Nat := 0
  nl : Bool := false
  rap : Bool := false
  rh : Nat := 0
  ident : Nat := 0
deriving DecidableEq, Repr

inductive SubKind where
  | plain | shared | inline
deriving DecidableEq, Repr

/-- one subscription of the topic index -/
structure SubEntry where
  client : Str
  filter : Str
  kind : SubKind
  opts : SubOpts
deriving DecidableEq, Repr

/-- a `packets.Packet` held as a retained or in-flight message -/
structure Msg where
  type : Nat := 0
  qos : Nat := 0
  dup : Bool := false
  retain : Bool := false
  topic : Str := []
  payload : Str := []
  created : Nat := 0
  /-- `Expiry` relative to `Created` (0 = none) -/
  expiry : Nat := 0
  origin : Str := []
  pv : Nat := 0
  pid : Nat := 0
  corr : Str := []
  subIds : List Nat := []
  users : List UserProp := []
  ctype : Str := []
  resp : Str := []
  msgExpiry : Nat := 0
  alias : Nat := 0
  pf : Nat := 0
  pfFlag : Bool := false
deriving DecidableEq, Repr

structure BrokerView where
  sessions : List Session := []
  /-- the topic index -/
  subs : List SubEntry := []
  /-- the sessions' own subscription lists: (client, filter, options) -/
  csubs : List (Str × Str × SubOpts) := []
  /-- retained messages by topic -/
  retained : List (Str × Msg) := []
  /-- in-flight messages by (client, packet id) -/
  inflight : List (Str × Nat × Msg) := []
deriving DecidableEq, Repr

/-! ## `readStore` -/

def inlineId : Str := [105, 110, 108, 105, 110, 101]   -- InlineClientId "inline"
def slash : Nat := 47
def dollarShare : Str := [36, 115, 104, 97, 114, 101]  -- "$share"

def lowerAscii (c : Nat) : Nat := if 65 ≤ c ∧ c ≤ 90 then c + 32 else c

/-- the first level of a filter (`isolateParticle(filter, 0)`) -/
def firstLevel (f : Str) : Str := f.takeWhile (· != slash)

/-- `strings.EqualFold(prefix, SharePrefix)` on ASCII -/
def isShareFilter (f : Str) : Bool := (firstLevel f).map lowerAscii == dollarShare

/-- `loadClients`: the session a stored client record is restored to -/
def sessionOf (c : ClientRec) : Session :=
  { id := c.id, pv := c.pv, clean := c.clean, sei := c.sei, seiFlag := c.seiFlag, user := c.user, recvMax := c.recvMax,
    taMax := c.taMax, maxPkt := c.maxPkt, reqProb := c.reqProb, reqProbFlag := c.reqProbFlag, reqResp := c.reqResp, will := c.will }

/-- the `expire` test of `loadClients` / `attachClient` -/
def expires (pv : Nat) (sei : Nat) (clean : Bool) : Bool := (pv == 5 && sei == 0) || (pv < 5 && clean)

/-- `s.Clients.Add(cl)`: the map entry of the id is replaced -/
def addSession (ss : List Session) (s : Session) : List Session := ss.filter (·.id != s.id) ++ [s]

def loadClients (cs : List ClientRec) : List Session :=
  cs.foldl (fun ss c => if expires c.pv c.sei c.clean then ss else addSession ss (sessionOf c)) []

def optsOf (s : SubRec) : SubOpts := { qos := s.qos, nl := s.nl, rap := s.rap, rh := s.rh, ident := s.ident }

def kindOf (filter : Str) : SubKind := if isShareFilter filter then .shared else .plain

/-- `s.Clients.Get(id)` after `loadClients`: the restored sessions and the inline client -/
def knownClient (ss : List Session) (id : Str) : Bool := id == inlineId || ss.any (·.id == id)

/-- `loadSubscriptions`: `Topics.Subscribe` always (re)writes the index entry; the session's own list gets the
    subscription only when the index entry is new and the client exists -/
def loadSubscriptions (ss : List Session) (v : List SubRec) : List SubEntry × List (Str × Str × SubOpts) :=
  v.foldl (fun (acc : List SubEntry × List (Str × Str × SubOpts)) sub =>
    let kind := kindOf sub.filter
    let existed := acc.1.any fun e => e.client == sub.client && e.filter == sub.filter && e.kind == kind
    let idx := acc.1.filter (fun e => !(e.client == sub.client && e.filter == sub.filter && e.kind == kind)) ++
               [{ client := sub.client, filter := sub.filter, kind := kind, opts := optsOf sub }]
    let cs := if !existed && knownClient ss sub.client
              then acc.2.filter (fun e => !(e.1 == sub.client && e.2.1 == sub.filter)) ++ [(sub.client, sub.filter, optsOf sub)]
              else acc.2
    (idx, cs)) ([], [])

/-- `storage.Message.ToPacket`: `Expiry`, `ProtocolVersion` have no stored counterpart; `Dup` is restored after `Copy` -/
def toPacket (m : MsgRec) : Msg :=
  { type := m.type, qos := m.qos, dup := m.dup, retain := m.retain, topic := m.topic, payload := m.payload, created := m.created,
    expiry := 0, origin := m.origin, pv := 0, pid := m.packetId, corr := m.corr, subIds := m.subIds, users := m.users,
    ctype := m.ctype, resp := m.resp, msgExpiry := m.expiry, alias := m.alias, pf := m.pf, pfFlag := m.pfFlag }

/-- `loadInflight`: `client.State.Inflight.Set(msg.ToPacket())` keyed by the packet id, for known clients -/
def loadInflight (ss : List Session) (v : List MsgRec) : List (Str × Nat × Msg) :=
  v.foldl (fun acc m =>
    if knownClient ss m.client then
      acc.filter (fun e => !(e.1 == m.client && e.2.1 == m.packetId)) ++ [(m.client, m.packetId, toPacket m)]
    else acc) []

/-- `loadRetained`: `Topics.RetainMessage(msg.ToPacket())`: an empty payload clears the topic -/
def loadRetained (v : List MsgRec) : List (Str × Msg) :=
  v.foldl (fun acc m =>
    let rest := acc.filter (fun e => e.1 != m.topic)
    if m.payload.isEmpty then rest else rest ++ [(m.topic, toPacket m)]) []

/-- the view of a broker restarted on a store with this read-back -/
def restart (rb : ReadBack) : BrokerView :=
  let ss := loadClients rb.clients
  let (idx, cs) := loadSubscriptions ss rb.subs
  { sessions := ss, subs := idx, csubs := cs, retained := loadRetained rb.retained, inflight := loadInflight ss rb.inflight }

end Mochi.Storage
