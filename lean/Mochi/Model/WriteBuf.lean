/-
M11 — the write path of one client: the pending-write queue (`cl.State.outbound`), `WriteLoop`, and
the buffering decision of `Client.WritePacket` (`cl.Net.outbuf`, clients.go).

A packet is its encoded size in bytes. `conn` counts the bytes really written to the connection,
`reported` the bytes the broker has reported as sent (`BytesSent`, `OnPacketSent`).
-/
namespace Mochi.WriteBuf

structure WP where
  wbuf : Nat                      -- Options.ClientNetWriteBufferSize
  maxSize : Nat := 0              -- the client's Maximum Packet Size (0 = no limit)
  queue : List Nat := []          -- cl.State.outbound: sizes of the queued packets, oldest first
  inHand : Option Nat := none     -- the packet WriteLoop has taken off the queue and not yet written
  outbuf : Option Nat := none     -- cl.Net.outbuf: nil, or a buffer holding that many bytes
  conn : Nat := 0                 -- bytes written to cl.Net.Conn
  reported : Nat := 0             -- bytes reported as sent
  dropped : Nat := 0              -- outbound packets refused by WritePacket (never written)
  dropReports : Nat := 0          -- drops reported to the hooks (the code reports none of these)
deriving Repr, DecidableEq

inductive WRes where
  | sent        -- WritePacket returned nil: counters and OnPacketSent fired
  | tooLarge    -- ErrPacketTooLarge: nothing counted, nothing written
deriving Repr, DecidableEq

/-- `flushOutbuf` (the connection accepts the bytes) -/
def flush (s : WP) : WP :=
  match s.outbuf with
  | none => s
  | some b => { s with outbuf := none, conn := s.conn + b }

/-- `WritePacket` from the size test on, with `pending = len(cl.State.outbound)` -/
def writePacket (s : WP) (size : Nat) : WP × WRes :=
  if s.maxSize > 0 && size > s.maxSize then ({ s with dropped := s.dropped + 1 }, .tooLarge) else
  let s := { s with reported := s.reported + size }
  if s.queue.length == 0 then
    match s.outbuf with
    | none => ({ s with conn := s.conn + size }, .sent)                    -- buf.WriteTo(conn)
    | some b => (flush { s with outbuf := some (b + size) }, .sent)        -- write to buffer, then flush
  else
    match s.outbuf with
    | none =>
      if size ≥ s.wbuf then ({ s with conn := s.conn + size }, .sent)
      else ({ s with outbuf := some size }, .sent)                         -- new buffer; size < wbuf: keep
    | some b =>
      if b + size < s.wbuf then ({ s with outbuf := some (b + size) }, .sent)
      else (flush { s with outbuf := some (b + size) }, .sent)

inductive Op where
  | enqueue (size : Nat)   -- publishToClient puts a packet on the queue
  | dequeue                -- WriteLoop receives the oldest queued packet (`pk := <-cl.State.outbound`)
  | loopWrite              -- WriteLoop calls WritePacket on the packet in hand; the iteration ends
  | direct (size : Nat)    -- a handler calls WritePacket itself (acks, SUBACK, …)
deriving Repr, DecidableEq

/-- the rest of a `WriteLoop` iteration: when `WritePacket` refuses the packet and nothing further is
    queued, what earlier writes buffered is flushed (repaired behaviour; `flushOnRefusal = false` is
    the code before the repair) -/
def loopWrite (flushOnRefusal : Bool) (s : WP) : WP :=
  match s.inHand with
  | none => s
  | some size =>
    let (s', r) := writePacket { s with inHand := none } size
    match r with
    | .sent => s'
    | .tooLarge => if flushOnRefusal && s'.queue.length == 0 then flush s' else s'

def step (flushOnRefusal : Bool) (s : WP) : Op → WP
  | .enqueue size => { s with queue := s.queue ++ [size] }
  | .dequeue =>
    match s.inHand, s.queue with
    | none, size :: rest => { s with queue := rest, inHand := some size }
    | _, _ => s
  | .loopWrite => loopWrite flushOnRefusal s
  | .direct size => (writePacket s size).1

def run (flushOnRefusal : Bool) (s : WP) (ops : List Op) : WP := ops.foldl (step flushOnRefusal) s

/-- the broker is quiescent for this client when nothing is queued and the write loop holds nothing -/
def quiescent (s : WP) : Bool := s.queue.isEmpty && s.inHand.isNone

end Mochi.WriteBuf
