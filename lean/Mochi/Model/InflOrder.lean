/-!
M14 — the in-flight store's ordering (inflight.go: `Set`, `Delete`, `getAll`, `GetAll`, `NextImmediate`), core Lean only.

The store is a Go map packet id ↦ packet; `getAll(immediate)` collects the values (all of them, or those whose
`Expiry < 0` = held back by flow control), and sorts them by `Created` (whole seconds, `int64`). `sort.Slice` is
not stable and the collection order is Go's map order, so records with EQUAL `Created` come out in an order the
program does not determine (recorded finding F12); records with different `Created` come out oldest first.
The model keeps the records in insertion order and sorts with a stable insertion sort: ONE of the orders
Go may produce. The driver accepts every answer of the implementation that is a permutation of the candidates
sorted by `created`, and nothing else.
-/
namespace Mochi.InflOrder

structure Rec where
  id : Nat
  created : Int
  expiry : Int
deriving Repr, DecidableEq, Inhabited

abbrev Store := List Rec

/-- `Inflight.Set`: store under the packet id; `true` when the id was new -/
def set (s : Store) (r : Rec) : Store × Bool :=
  if s.any (·.id == r.id) then (s.map fun x => if x.id == r.id then r else x, false)
  else (s ++ [r], true)

/-- `Inflight.Delete`: `true` when the id was present -/
def del (s : Store) (id : Nat) : Store × Bool :=
  (s.filter (·.id != id), s.any (·.id == id))

/-- the records `getAll(immediate)` collects -/
def candidates (s : Store) (immediate : Bool) : List Rec :=
  s.filter fun r => !immediate || decide (r.expiry < 0)

/-- insert into a list sorted by `created`, before the first record that is not older -/
def ins (r : Rec) : List Rec → List Rec
  | [] => [r]
  | x :: xs => if r.created ≤ x.created then r :: x :: xs else x :: ins r xs

/-- insertion sort by `created` (stable; structural, so that concrete stores evaluate by `decide`) -/
def isort : List Rec → List Rec
  | [] => []
  | x :: xs => ins x (isort xs)

/-- `Inflight.getAll(immediate)`: the candidates, oldest first -/
def getAll (s : Store) (immediate : Bool) : List Rec :=
  isort (candidates s immediate)

/-- `Inflight.NextImmediate`: the first of the deferred records -/
def nextImmediate (s : Store) : Option Rec := (getAll s true).head?

end Mochi.InflOrder
