import Mochi.Lemmas.Invariant
/-
M4a — goroutines mutating the topic index.  A mutator (`Subscribe`, `Unsubscribe`, `InlineSubscribe`,
`InlineUnsubscribe`, `RetainMessage`) is modelled at the granularity at which a data structure can go
wrong: it *reads* the index, computes, and *writes* the result back.  With `locked = true` each mutator
brackets read and write with `x.root.Lock()` / `x.root.Unlock()` (the fact regenerated from topics.go
into `Gen/RootLock.lean`); with `locked = false` it does not.  A schedule is any list of thread numbers;
a thread whose next action is not enabled (the lock is held by another thread) does not move.
-/
namespace Mochi.Topics.Conc
open Mochi.Topics

structure Thr where
  ops : List IOp          -- the goroutine's remaining program (head = the mutator in progress)
  pc : Nat := 0           -- 0 idle · 1 lock held · 2 index read · 3 result written, lock still held
  snap : Index := {}      -- what the mutator read

structure Sys where
  idx : Index := {}
  holder : Option Nat := none         -- which goroutine holds x.root's mutex
  thrs : List Thr := []
  log : List (Nat × IOp) := []        -- mutators in the order of their writes

def start (progs : List (List IOp)) : Sys := { thrs := progs.map fun p => { ops := p } }

/-- goroutine `i` takes its next action, if it has one and it is enabled -/
def stepThr (locked : Bool) (s : Sys) (i : Nat) : Sys :=
  match s.thrs[i]? with
  | none => s
  | some t =>
    match t.ops with
    | [] => s
    | op :: rest =>
      if locked then
        if t.pc == 0 then
          (if s.holder.isNone then { s with holder := some i, thrs := s.thrs.set i { t with pc := 1 } } else s)
        else if t.pc == 1 then { s with thrs := s.thrs.set i { t with pc := 2, snap := s.idx } }
        else if t.pc == 2 then
          { s with idx := applyOp t.snap op, log := s.log ++ [(i, op)], thrs := s.thrs.set i { t with pc := 3 } }
        else { s with holder := none, thrs := s.thrs.set i { t with ops := rest, pc := 0 } }
      else
        if t.pc == 0 then { s with thrs := s.thrs.set i { t with pc := 2, snap := s.idx } }
        else { s with idx := applyOp t.snap op, log := s.log ++ [(i, op)],
                      thrs := s.thrs.set i { t with ops := rest, pc := 0 } }

def runSched (locked : Bool) (s : Sys) (sched : List Nat) : Sys := sched.foldl (stepThr locked) s

/-- every goroutine has finished its program -/
def finished (s : Sys) : Bool := s.thrs.all fun t => t.ops.isEmpty

end Mochi.Topics.Conc
