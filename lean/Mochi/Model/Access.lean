/-!
# M8 (second half) — access table, lockset checker, abstract semantics of role threads

The data (`Mochi/Gen/Access.lean`) is regenerated from the broker's source by `go/cmd/vextract`
(tie A): one row per distinct (memory location, read/write, atomic?, role, protecting locks) that the
production build performs on the broker's shared structures.  This file gives the rows a meaning and an
executable checker; `Mochi/Lemmas/Access.lean` proves the checker sound for **every** table,
`Mochi/Props/C33.lean` runs it on the generated table.

## Memory locations
A location is `(obj, path)`: the class of the heap object that contains the memory (the innermost struct
reached through a pointer, or a by-value member struct that has its own mutex) and the chain of field ids
inside it.  Two rows *overlap* when they name the same class and one chain is a prefix of the other
(`cl.Properties.Will = Will{}` overlaps `cl.Properties.Will.Flag`).  The table does not say which object of
the class is accessed: two overlapping rows are taken to be able to hit the same object (worst case).

## Locks
A row lists only locks that are *a function of the accessed object*: `self c` — the mutex of class `c`
embedded in the accessed object itself — and `the c` — the mutex of class `c` of an object of which
exactly one exists per broker (e.g. the root particle of the topic index).  Same object ⇒ same lock, so a
key common to two rows is one mutex.  Every other lock held at the access is dropped by the extractor
(fewer locks = more reports).  The extractor records a lock only if it is held on *every* path to the
access (must-hold).

## Roles
The role of a row says which goroutine performs it, relative to the accessed object (ids fixed in
`roleNames`, re-checked against the generated names in `Props/C33.lean`).  `conc r₁ r₂` says whether a
goroutine in role `r₁` and a *different* goroutine in role `r₂` can act on one object without a
happens-before edge between them; it is the list of happens-before edges of the abstraction (object
published after initialisation, goroutine start, channel receive, one handler per object).
-/
namespace Mochi.Access

/-- lock mode -/
inductive Mode | R | W
  deriving DecidableEq, Repr

/-- a protecting lock of a row: key id (see the header) and the mode in which it is held -/
structure Held where
  key : Nat
  mode : Mode
  deriving DecidableEq, Repr

/-- one row of the access table -/
structure Access where
  /-- class of the object that contains the memory -/
  obj : Nat
  /-- field ids from the object to the memory -/
  path : List Nat
  write : Bool
  /-- performed by `sync/atomic` (function or method of an `atomic.*`/`sync.*` typed field) -/
  atomic : Bool
  role : Nat
  held : List Held
  /-- the extractor could not classify the access (fail closed: the checkers reject the table) -/
  unknown : Bool := false
  deriving DecidableEq, Repr

/-! ## Roles and the happens-before edges of the abstraction -/

/-- role ids; the extractor writes the same list into `Gen.roleNames` -/
def roleNames : List String :=
  ["init", "preAdd", "handler", "handlerOther", "writeLoopIdle", "writeLoop", "writeLoopAny",
   "eventLoop", "closer", "inlineAPI", "unknown"]

/-- roles each of which is concurrent with every role other than `init` and (`preAdd`) the listed
exceptions -/
def concList : List (Nat × List Nat) := [
  /- init: constructor code, the set-up goroutine before `go s.eventLoop()`, and any code acting on an
     object it has just created and not yet stored anywhere.  Everything it does happens before the
     object is handed to another goroutine (`go` statement, `Clients.Add` under the clients mutex). -/
  (0, []),
  /- preAdd: the connection's own handler between `go cl.WriteLoop()` and `s.Clients.Add(cl)`.  Other
     goroutines reach a client only through `Clients.Get/GetAll/GetByListener` (clients mutex: Add → Get
     is a happens-before edge), the write loop dequeues only what such a goroutine sent on
     `State.outbound` (channel edge).  The one thing that already runs is the write loop's idle
     `select`. -/
  (1, [4]),
  /- handler: the connection's own handler after publication.  One handler per client object (not
     concurrent with itself); it is the same goroutine as `preAdd`. -/
  (2, [3, 4, 5, 6, 7, 8, 9, 10]),
  /- handlerOther: any handler goroutine acting on a client that is not its own (takeover, delivery to
     subscribers), or on one of the broker-wide objects.  Many at once. -/
  (3, [2, 3, 4, 5, 6, 7, 8, 9, 10]),
  /- writeLoopIdle: `Client.WriteLoop` waiting in its `select` (it reads `State.outbound`, `State.open`).
     Same goroutine as `writeLoop`. -/
  (4, [1, 2, 3, 6, 7, 8, 9, 10]),
  /- writeLoop: the client's own write loop after a dequeue (`WritePacket`, flush).  Not concurrent with
     `preAdd` (see there). -/
  (5, [2, 3, 6, 7, 8, 9, 10]),
  /- writeLoopAny: a write loop acting on a broker-wide object (`Info` counters).  Many at once. -/
  (6, [2, 3, 4, 5, 6, 7, 8, 9, 10]),
  /- eventLoop: `Server.eventLoop` and the housekeeping it calls; one goroutine per broker. -/
  (7, [2, 3, 4, 5, 6, 8, 9, 10]),
  /- closer: `Server.Close` (closing `s.done` twice panics: one goroutine). -/
  (8, [2, 3, 4, 5, 6, 7, 9, 10]),
  /- inlineAPI: application goroutines in `Server.Publish/Subscribe/Unsubscribe`, and `Serve` after it
     has started the event loop.  Many at once. -/
  (9, [2, 3, 4, 5, 6, 7, 8, 9, 10]),
  /- unknown: a goroutine the extractor cannot name; concurrent with everything, `init` included. -/
  (10, [0, 1, 2, 3, 4, 5, 6, 7, 8, 9, 10])]

def concRow : List (Nat × List Nat) → Nat → List Nat
  | [], _ => []
  | (r, l) :: t, x => if r = x then l else concRow t x

/-- can a goroutine in role `r₁` and a different goroutine in role `r₂` act on one object with no
happens-before edge between them?  A role that is not in the list is concurrent with everything. -/
def conc (r₁ r₂ : Nat) : Bool :=
  if r₁ < concList.length ∧ r₂ < concList.length then
    (concRow concList r₁).contains r₂ || (concRow concList r₂).contains r₁
  else true

/-! ## The checker -/

def isPrefix : List Nat → List Nat → Bool
  | [], _ => true
  | _ :: _, [] => false
  | a :: s, b :: t => a == b && isPrefix s t

/-- same class, one field chain a prefix of the other -/
def overlap (a b : Access) : Bool :=
  a.obj == b.obj && (isPrefix a.path b.path || isPrefix b.path a.path)

def conflict (a b : Access) : Bool := overlap a b && (a.write || b.write)

/-- **the RW rule**: the two rows list a common key, and at least one of them holds it in write mode
(two read holds of an `RWMutex` exclude nothing) -/
def commonLock (a b : Access) : Bool :=
  a.held.any fun h => b.held.any fun k => h.key == k.key && (h.mode == .W || k.mode == .W)

/-- the pair needs nothing, or has what it needs -/
def pairOk (cc : Nat → Nat → Bool) (a b : Access) : Bool :=
  !cc a.role b.role || !conflict a b || (a.atomic && b.atomic) || commonLock a b

/-- every pair of rows (a row with itself included: a role that is concurrent with itself) is fine and no
row is `unknown` -/
def locksetOkWith (cc : Nat → Nat → Bool) (tbl : List Access) : Bool :=
  tbl.all (fun a => !a.unknown) && tbl.all fun a => tbl.all fun b => pairOk cc a b

def locksetOk (tbl : List Access) : Bool := locksetOkWith conc tbl

/-- a recorded finding: the enclosing location of the pair and the two roles (either order) -/
structure Known where
  obj : Nat
  path : List Nat
  r1 : Nat
  r2 : Nat
  deriving DecidableEq, Repr

/-- the enclosing (shorter) chain of an overlapping pair -/
def pairPath (a b : Access) : List Nat := if isPrefix a.path b.path then a.path else b.path

def excused (known : List Known) (a b : Access) : Bool :=
  known.any fun k => k.obj == a.obj && k.path == pairPath a b &&
    ((k.r1 == a.role && k.r2 == b.role) || (k.r1 == b.role && k.r2 == a.role))

/-- as `locksetOk`, but a pair whose (location, roles) is a recorded finding is let through -/
def locksetOkExceptWith (cc : Nat → Nat → Bool) (tbl : List Access) (known : List Known) : Bool :=
  tbl.all (fun a => !a.unknown) && tbl.all fun a => tbl.all fun b => pairOk cc a b || excused known a b

def locksetOkExcept (tbl : List Access) (known : List Known) : Bool := locksetOkExceptWith conc tbl known

/-! ## Grouped form of the table

The generated table is written grouped by location (`LocGroup`: a location and the accesses made to it), so
that the kernel compares each pair of *locations* once and looks at the accesses only where two locations
overlap.  `rowsOf` is the flat table the semantics speaks about; `groupedOkExceptWith` is the same check as
`locksetOkExceptWith` on it (`groupedOkExceptWith_rows` in `Lemmas/Access.lean`). -/

/-- an access without its location -/
structure Actor where
  write : Bool
  atomic : Bool
  role : Nat
  held : List Held
  unknown : Bool := false
  deriving DecidableEq, Repr

structure LocGroup where
  obj : Nat
  path : List Nat
  actors : List Actor
  deriving Repr

def LocGroup.row (g : LocGroup) (x : Actor) : Access :=
  ⟨g.obj, g.path, x.write, x.atomic, x.role, x.held, x.unknown⟩

def LocGroup.rows (g : LocGroup) : List Access := g.actors.map g.row

def rowsOf (gs : List LocGroup) : List Access := gs.flatMap LocGroup.rows

def groupsOverlap (g h : LocGroup) : Bool :=
  g.obj == h.obj && (isPrefix g.path h.path || isPrefix h.path g.path)

def groupedOkExceptWith (cc : Nat → Nat → Bool) (gs : List LocGroup) (known : List Known) : Bool :=
  gs.all (fun g => g.actors.all fun x => !x.unknown) &&
  gs.all fun g => gs.all fun h => !groupsOverlap g h ||
    g.actors.all fun x => h.actors.all fun y =>
      pairOk cc (g.row x) (h.row y) || excused known (g.row x) (h.row y)

def groupedOkExcept (gs : List LocGroup) (known : List Known) : Bool := groupedOkExceptWith conc gs known

/-- the offending pairs (for diagnostics and the non-vacuity examples) -/
def badPairs (cc : Nat → Nat → Bool) (tbl : List Access) : List (Access × Access) :=
  tbl.flatMap fun a => (tbl.filter fun b => !pairOk cc a b).map fun b => (a, b)

/-! ## Abstract semantics

Goroutines are numbered; `role i` is the role in which goroutine `i` acts on the object under
consideration.  An execution is a sequence of events `(goroutine, event)`; the lock state `H` after an
execution is the list of `(goroutine, key, mode)` holds.  `acq` follows `sync.RWMutex`: a write hold needs
no other holder, a read hold no other writer.  An access event is *enabled* for a goroutine when the
row belongs to the table, carries the goroutine's role, and the goroutine holds every lock the row lists,
in the listed mode ("takes and releases the locks as recorded").  Accesses do not change the lock state. -/

inductive Ev
  | acq (k : Nat) (m : Mode)
  | rel (k : Nat)
  | access (a : Access)
  deriving Repr

abbrev Holds := List (Nat × Nat × Mode)

/-- `k` in mode `m` can be granted to `i` next to what the others hold -/
def Grantable (H : Holds) (i k : Nat) (m : Mode) : Prop :=
  ∀ j m', (j, k, m') ∈ H → j ≠ i → m' = .R ∧ m = .R

/-- goroutine `i` may perform row `a` now -/
def Enabled (tbl : List Access) (role : Nat → Nat) (H : Holds) (i : Nat) (a : Access) : Prop :=
  a ∈ tbl ∧ a.role = role i ∧ ∀ h ∈ a.held, (i, h.key, h.mode) ∈ H

/-- `Exec tbl role tr H`: `tr` is an execution of the goroutines, `H` the holds after it -/
inductive Exec (tbl : List Access) (role : Nat → Nat) : List (Nat × Ev) → Holds → Prop
  | nil : Exec tbl role [] []
  | acq : Exec tbl role tr H → Grantable H i k m → Exec tbl role (tr ++ [(i, .acq k m)]) ((i, k, m) :: H)
  | rel : Exec tbl role tr H →
      Exec tbl role (tr ++ [(i, .rel k)]) (H.filter fun e => !(e.1 == i && e.2.1 == k))
  | access : Exec tbl role tr H → Enabled tbl role H i a → Exec tbl role (tr ++ [(i, .access a)]) H

/-- a data race of the abstraction: after some execution two different goroutines, in roles that can be
concurrent on one object, are both about to perform accesses that overlap, one of them writes, and
they are not both atomic -/
def Race (cc : Nat → Nat → Bool) (tbl : List Access) (role : Nat → Nat) (H : Holds) (a b : Access) : Prop :=
  ∃ i j, i ≠ j ∧ Enabled tbl role H i a ∧ Enabled tbl role H j b ∧
    cc (role i) (role j) = true ∧ conflict a b = true ∧ (a.atomic && b.atomic) = false

end Mochi.Access
