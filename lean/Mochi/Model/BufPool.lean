/-
M9 — mempool/bufpool.go.  `sync.Pool` is modelled as a bag from which `Get` may hand out any pooled
item or a fresh one (`New`) and which may drop items at any time; the choice is an explicit op
argument and the theorems quantify over it.
-/
namespace Mochi.BufPool

structure Buf where
  id : Nat
  len : Nat
  cap : Nat
deriving DecidableEq, Repr

structure Pool where
  max : Nat := 0                    -- 0 = uncapped (`NewBuffer(0)`)
  pooled : List Buf := []
  held : List (Nat × Buf) := []     -- user ↦ buffer
  nextId : Nat := 0
deriving Repr

inductive Op where
  | get (user : Nat) (choice : Option Nat)   -- `Get`: pooled item index, or `none` = `New`
  | write (user n grow : Nat)                -- user writes n bytes; bytes.Buffer may grow cap to `grow`
  | put (user : Nat)                         -- `Put`
  | drop (idx : Nat)                         -- sync.Pool discards an item (GC)
deriving Repr

def heldBy (p : Pool) (u : Nat) : Option Buf := (p.held.find? (fun ub => ub.1 == u)).map (·.2)

def step (p : Pool) : Op → Pool
  | .get u choice =>
    if (heldBy p u).isSome then p else
    match choice.bind (fun i => p.pooled[i]?) with
    | some b => { p with pooled := p.pooled.erase b, held := (u, b) :: p.held }
    | none => { p with held := (u, { id := p.nextId, len := 0, cap := 0 }) :: p.held, nextId := p.nextId + 1 }
  | .write u n grow =>
    { p with held := p.held.map (fun ub =>
        if ub.1 == u then (ub.1, { ub.2 with len := ub.2.len + n, cap := Nat.max ub.2.cap (Nat.max grow (ub.2.len + n)) })
        else ub) }
  | .put u =>
    match heldBy p u with
    | none => p
    | some b =>
      let held' := p.held.filter (fun ub => ub.1 != u)
      if p.max > 0 && b.cap > p.max then { p with held := held' }          -- BufferWithCap.Put: not kept
      else { p with held := held', pooled := { b with len := 0 } :: p.pooled }  -- x.Reset(); pool.Put(x)
  | .drop i =>
    match p.pooled[i]? with
    | some b => { p with pooled := p.pooled.erase b }
    | none => p

def run (p : Pool) (ops : List Op) : Pool := ops.foldl step p

end Mochi.BufPool
