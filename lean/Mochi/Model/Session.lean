import Mochi.Model.Reader
import Mochi.Model.Broker
/-
From bytes to the broker: what `attachClient` / `Client.Read` / `receivePacket` (server.go, clients.go)
do with the bytes of ONE connection — the glue between the reader model (`Model/Reader.lean`, events of
the read loop over the codec M1) and the sequential broker M3 (`Model/Broker.lean`, handlers over decoded
`InPk`s).

* `receiveDecoded`  `processPacket` on a decoded `packets.Packet` of ANY type: the packets M3 has
                    handlers for go to `receivePacket`; a second CONNECT, AUTH, and the server-only types
                    (CONNACK, SUBACK, UNSUBACK, PINGRESP) are handled here as the code does.
* `recvDecodedOn`   one iteration of the read loop that delivered a packet (`recvOn` without a barrier).
* `feed`            a chunk of bytes arriving on an established connection: the read-loop events in
                    order; a read error ends the connection the way `attachClient` does (will published,
                    `Stop(err)`, session clean-up — no DISCONNECT packet is written for a read error).
* `connectDecoded`  `attachClient` for the CONNECT packet `readConnectionPacket` returned
                    (`ConnectValidate` in front of M3's `connect`).
-/
namespace Mochi.Session
open Mochi.Codec Mochi.Reader Mochi.Broker Mochi.Topics

/-- a decoded SUBSCRIBE filter as M2's `Sub` -/
def toSub (f : Subscription) : Sub :=
  { filter := f.filter, qos := f.qos, noLocal := f.noLocal, rap := f.rap, rh := f.rh }

/-- `receivePacket`'s treatment of a `packets.Code` error `code` returned before any handler ran:
    an MQTT 5 client is sent DISCONNECT for codes ≥ 0x80; the read loop then ends with the error -/
def failWith (s : Server) (i : Nat) (code : Nat) : HRes :=
  if (getObj s i).ver == 5 && code ≥ 0x80 then
    let (s, o) := disconnectClient s i code
    (s, o, some code)
  else (s, [], some code)

/-- `processConnect`: a second CONNECT: the will is published, then ErrProtocolViolationSecondConnect (0x82) -/
def recvSecondConnect (s : Server) (i : Nat) : HRes :=
  let (s, o) := sendLWT s i
  let (s, o2, e) := failWith s i 0x82
  (s, o ++ o2, e)

/-- PUBLISH: `PublishValidate` (its last test, ErrProtocolViolationSurplusSubID, is not in M3's
    `publishValidate`), then M3 -/
def recvPublish (s : Server) (i : Nat) (pk : Packet) : HRes :=
  let fh := pk.fixedHeader
  let alias : Option Nat := if pk.properties.topicAliasFlag then some pk.properties.topicAlias else none
  let inpk : InPk := .publish fh.qos fh.dup fh.retain pk.packetID pk.topicName pk.payload
                        pk.properties.messageExpiryInterval alias
  match publishValidate s fh.qos pk.packetID pk.topicName alias with
  | some _ => receivePacket s i inpk
  | none =>
    if pk.properties.subscriptionIdentifier.length > 0 then failWith s i 0x82
    else receivePacket s i inpk

/-- SUBSCRIBE: `SubscribeValidate`'s ErrProtocolViolationNoPacketID first, then M3 (which refuses an
    empty filter list) -/
def recvSubscribe (s : Server) (i : Nat) (pk : Packet) : HRes :=
  if pk.fixedHeader.qos > 0 && pk.packetID == 0 then failWith s i 0x82
  else receivePacket s i (.subscribe pk.packetID (pk.properties.subscriptionIdentifier.headD 0) (pk.filters.map toSub))

def recvUnsubscribe (s : Server) (i : Nat) (pk : Packet) : HRes :=
  if pk.fixedHeader.qos > 0 && pk.packetID == 0 then failWith s i 0x82
  else receivePacket s i (.unsubscribe pk.packetID (pk.filters.map (·.filter)))

/-- AUTH: `AuthValidate`, then `processAuth`: no hook handles AUTH packets, nothing happens (the tail of
    `processPacket` still releases a deferred message) -/
def recvAuth (s : Server) (i : Nat) (pk : Packet) : HRes :=
  if pk.reasonCode != 0 && pk.reasonCode != 0x18 && pk.reasonCode != 0x19 then failWith s i 0x82
  else
    let (s, o) := nextImmediate s i
    (s, o, none)

/-- `Server.receivePacket(cl, pk)` for a decoded packet of any type -/
def receiveDecoded (s : Server) (i : Nat) (pk : Packet) : HRes :=
  let t := pk.fixedHeader.type
  if t == tConnect then recvSecondConnect s i
  else if t == tPublish then recvPublish s i pk
  else if t == tPuback then receivePacket s i (.puback pk.packetID pk.reasonCode)
  else if t == tPubrec then receivePacket s i (.pubrec pk.packetID pk.reasonCode)
  else if t == tPubrel then receivePacket s i (.pubrel pk.packetID pk.reasonCode)
  else if t == tPubcomp then receivePacket s i (.pubcomp pk.packetID pk.reasonCode)
  else if t == tSubscribe then recvSubscribe s i pk
  else if t == tUnsubscribe then recvUnsubscribe s i pk
  else if t == tPingreq then receivePacket s i .pingreq
  else if t == tDisconnect then
    receivePacket s i (.disconnect pk.reasonCode
      (if pk.properties.sessionExpiryIntervalFlag then some pk.properties.sessionExpiryInterval else none))
  else if t == tAuth then recvAuth s i pk
  else
    -- CONNACK, SUBACK, UNSUBACK, PINGRESP: "no valid packet available" — a plain error, not a Code:
    -- no DISCONNECT is written, the read loop ends
    (s, [], some 0)

/-- one iteration of `Client.Read` that delivered `pk` on connection `conn` -/
def recvDecodedOn (s : Server) (conn : Nat) (pk : Packet) : Server × List Out :=
  match assocGet s.connOf conn with
  | none => (s, [])
  | some i =>
    if !(getObj s i).isOpen then (s, []) else
    let (s, o, e) := receiveDecoded s i pk
    match e with
    | some _ =>
      let (s, o2) := detach s i true
      (s, o ++ o2)
    | none =>
      if !(getObj s i).isOpen then
        let (s, o2) := detach s i false
        (s, o ++ o2)
      else (s, o)

/-- the read loop ended with a read error (malformed header, oversized packet, undecodable body …):
    `attachClient` publishes the will, stops the client and cleans the session up -/
def readErrorOn (s : Server) (conn : Nat) : Server × List Out :=
  match assocGet s.connOf conn with
  | none => (s, [])
  | some i => if !(getObj s i).isOpen then (s, []) else detach s i true

/-- process the events of the read loop in order -/
def feedEvents (s : Server) (conn : Nat) : List ReadEvent → Server × List Out
  | [] => (s, [])
  | .packet pk :: rest =>
    let (s, o) := recvDecodedOn s conn pk
    let (s, o2) := feedEvents s conn rest
    (s, o ++ o2)
  | .needMore :: _ => (s, [])
  | .error _ :: _ => readErrorOn s conn

/-- bytes arriving on established connection `conn` whose reader holds `pending` unconsumed bytes -/
def feed (cfg : Cfg) (s : Server) (conn : Nat) (stream : List Nat) : Server × List Out :=
  match assocGet s.connOf conn with
  | none => (s, [])
  | some i => feedEvents s conn (readStream cfg (getObj s i).ver stream).1

/-! ### the first packet -/

/-- `Packet.ConnectValidate`: every violation has reason code 0x82 -/
def connectInvalid (pk : Packet) : Bool :=
  let c := pk.connect
  let mqisdp : List Nat := [77, 81, 73, 115, 100, 112]
  let mqtt : List Nat := [77, 81, 84, 84]
  (c.protocolName != mqisdp && c.protocolName != mqtt) ||
  (c.protocolName == mqisdp && pk.protocolVersion != 3) ||
  (c.protocolName == mqtt && pk.protocolVersion != 4 && pk.protocolVersion != 5) ||
  pk.reservedBit != 0 ||
  (!c.usernameFlag && c.username.length > 0) ||
  (c.passwordFlag && c.password.length == 0) ||
  (!c.passwordFlag && c.password.length > 0) ||
  (c.willFlag && (c.willPayload.length == 0 || c.willTopic.isEmpty)) ||
  (c.willFlag && c.willQos > 2) ||
  (!c.willFlag && c.willRetain)

/-- the CONNECT packet as M3's `Connect` (what `ParseConnect` keeps) -/
def toConnect (pk : Packet) : Connect :=
  let c := pk.connect
  let p := pk.properties
  { ver := pk.protocolVersion, clean := c.clean, id := c.clientIdentifier,
    sei := if p.sessionExpiryIntervalFlag then some p.sessionExpiryInterval else none,
    rm := if p.receiveMaximum > 0 then some p.receiveMaximum else none,
    tam := if p.topicAliasMaximum > 0 then some p.topicAliasMaximum else none,
    will := if c.willFlag then
        some { topic := c.willTopic, payload := c.willPayload, qos := c.willQos, retain := c.willRetain,
               delay := c.willProperties.willDelayInterval }
      else none }

/-- `attachClient` for the CONNECT `readConnectionPacket` returned: the client-limit test, then
    `ConnectValidate` (refused with CONNACK 0x82 and closed), then M3's `connect` -/
def connectDecoded (s : Server) (conn : Nat) (pk : Packet) : Server × List Out :=
  let k := toConnect pk
  if connectInvalid pk && !(s.info.connected ≥ s.caps.maximumClients) then
    let c := parseConnect s conn k
    let i := s.objs.length
    let s := { s with objs := s.objs ++ [c], connOf := s.connOf ++ [(conn, i)] }
    let o := [Out.wrote conn (mkConnack s c false 0x82 none)]
    let (s, o2) := stopClient s i
    (s, o ++ o2)
  else connect s conn k

end Mochi.Session
