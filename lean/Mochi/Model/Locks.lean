/-!
# M8 — lock graph: programs over lock events, executable checkers, abstract semantics

The data (`Mochi/Gen/LockGraph.lean`) is regenerated from the broker's source by `go/cmd/vextract`
(tie A).  This file gives it a meaning and two executable checkers; `Mochi/Lemmas/Locks.lean` proves
the checkers sound for **every** function list, `Mochi/Props/C32.lean` runs them on the generated list.

## Naming of objects and locks
A function runs on a *receiver object*.  Every other object it mentions is named by a path relative to
the receiver: `[]` the receiver itself, `[.fld f, .fld g]` the object stored in field `f.g`, `[.., .other]`
an object the extractor cannot relate to the receiver (a local variable, a map element, a parameter).
A lock is named by the path of the object that owns the mutex plus a lock class (struct type and mutex
field, numbered by the extractor).  Identifiers are numbers so that the kernel can evaluate the checkers
quickly; the generated file carries the tables that turn them back into names.

In the semantics an object *is* its absolute path (`Obj = Path`), a call on receiver path `p` runs the
callee on `o ++ p`.  Consequences (the modelling assumptions of M8, all about aliasing):
* objects with different names are different: a field object is not the receiver, an `other` object of a
  frame is neither the receiver nor one of its field objects nor an object of an enclosing frame;
* all `other` objects of one frame are identified (so `n.Lock(); n.Lock()` and `n.Lock(); n.f()` with `f`
  locking its receiver are found; two different locals of one class held together are reported too).
-/
namespace Mochi.Locks

inductive Mode | R | W
  deriving DecidableEq, Repr

/-- one step of a receiver-relative path -/
inductive Seg
  | fld (id : Nat)
  | other
  deriving DecidableEq, Repr

abbrev Path := List Seg

/-- `RecvRel`: where the callee's receiver lives relative to the caller's receiver -/
abbrev RecvRel := Path
/-- the callee runs on the same object as the caller -/
abbrev RecvRel.same : RecvRel := []

/-- a mutex: the owning object (relative path in programs, absolute path in the semantics) and its class -/
structure LockRef where
  owner : Path
  cls : Nat
  deriving DecidableEq, Repr

/-- structured program over lock events; branching and loops are "may execute" -/
inductive Prog
  | skip
  | acquire (l : LockRef) (m : Mode)
  | release (l : LockRef) (m : Mode)
  /-- `defer x.Unlock()`: released when the function returns -/
  | deferRelease (l : LockRef) (m : Mode)
  /-- static call of function `callee` (its `Func.id`) on the object at `recv` -/
  | call (callee : Nat) (recv : RecvRel)
  /-- interface call / call of a function value: assumed to acquire no broker lock -/
  | callUnknown (what : String)
  /-- `go f()`: `f` runs in another thread, nothing is nested in the spawner -/
  | spawn (callee : Nat) (recv : RecvRel)
  /-- a lock operation the extractor does not understand: rejected by every checker -/
  | unknown (src : String)
  /-- `return` -/
  | ret
  | seq (a b : Prog)
  | alt (a b : Prog)
  | loop (a : Prog)
  deriving Repr

/-- `acq` is the function's *summary*, written by the extractor and re-checked by `walk`: every lock the
function may acquire, directly or through calls of any depth, named relative to its receiver -/
structure Func where
  id : Nat
  name : String
  acq : List LockRef := []
  body : Prog
  deriving Repr

/-- the first function with the given id -/
def lookup : List Func → Nat → Option Func
  | [], _ => none
  | f :: fs, g => if f.id = g then some f else lookup fs g

/-- a callee's lock, named from the caller: prefix the receiver path -/
def LockRef.rebase (p : Path) (k : LockRef) : LockRef := ⟨p ++ k.owner, k.cls⟩

/-! ## The checker

`walk` runs through a program with
* `H`: the locks of this activation that may be held (relative names),
* `U`: those of `H` whose release has not been deferred (they must be gone at every exit).
`S g` is the *candidate summary* of function `g` (`Func.acq`): the locks `g` may acquire, directly or
through calls of any depth, named relative to `g`'s receiver; `mine` is the summary of the function being
walked.  The walk checks the policy at every acquisition (direct, or any of a callee's summary, rebased)
and at the same time that the summary is closed (`∈ mine`), so the summaries need no trust. -/

abbrev Summary := Nat → List LockRef

/-- `pol held new`: may `new` be requested while `held` is held? -/
abbrev Policy := LockRef → LockRef → Bool

def okAcq (pol : Policy) (mine H : List LockRef) (k : LockRef) : Bool :=
  H.all (fun h => pol h k) && mine.contains k

def walk (S : Summary) (pol : Policy) (mine : List LockRef) :
    List LockRef × List LockRef → Prog → Option (List LockRef × List LockRef)
  | s, .skip => some s
  | (H, U), .acquire l _ => if okAcq pol mine H l then some (l :: H, l :: U) else none
  | (H, U), .release l _ => some (H.filter (· ≠ l), U.filter (· ≠ l))
  | (H, U), .deferRelease l _ => some (H, U.filter (· ≠ l))
  | (H, U), .call g p => if (S g).all (fun k => okAcq pol mine H (k.rebase p)) then some (H, U) else none
  | s, .callUnknown _ => some s
  | s, .spawn _ _ => some s
  | _, .unknown _ => none
  | (H, U), .ret => if U.isEmpty then some (H, U) else none
  | s, .seq a b => match walk S pol mine s a with
      | some s1 => walk S pol mine s1 b
      | none => none
  | s, .alt a b => match walk S pol mine s a, walk S pol mine s b with
      | some (H1, U1), some (H2, U2) => some (H1 ++ H2, U1 ++ U2)
      | _, _ => none
  | (H, U), .loop a => match walk S pol mine (H, U) a with
      | some (H1, U1) => if H1.all (H.contains ·) && U1.all (U.contains ·) then some (H, U) else none
      | none => none

/-- a function passes if its body walks from the empty state and ends with nothing un-deferred -/
def funcOK (S : Summary) (pol : Policy) (f : Func) : Bool :=
  match walk S pol f.acq ([], []) f.body with
  | some (_, U) => U.isEmpty
  | none => false

/-- the summaries the functions carry (a callee outside the list acquires nothing) -/
def sumOf (fs : List Func) : Summary := fun g =>
  match lookup fs g with
  | some f => f.acq
  | none => []

def checkWith (pol : Policy) (fs : List Func) : Bool := fs.all (funcOK (sumOf fs) pol)

/-! ## Checker 1: no nested acquisition of one lock -/

/-- never request a lock that is held -/
def selfPolicy : Policy := fun h k => h ≠ k

/-- no function, while holding lock `L` of an object, acquires `L` of that object again or calls —
through calls of any depth — a function that does. -/
def noSelfNesting (fs : List Func) : Bool := checkWith selfPolicy fs

/-! ## Checker 2: the "holds L1 while acquiring L2" relation on lock classes is acyclic

The relation is verified against a rank: every edge must go up.  The rank is computed by relaxing the
collected edges (not trusted: the walk re-checks every edge against it). -/

abbrev Ranks := List (Nat × Nat)

def Ranks.get : Ranks → Nat → Nat
  | [], _ => 0
  | (c, r) :: t, x => if c = x then r else Ranks.get t x

def orderPolicy (rk : Nat → Nat) : Policy := fun h k => rk h.cls < rk k.cls

/-- all (held class, acquired class) pairs of a program; `H` as in `walk` -/
def edgesOf (S : Summary) : List LockRef → Prog → List LockRef × List (Nat × Nat)
  | H, .acquire l _ => (l :: H, H.map fun h => (h.cls, l.cls))
  | H, .release l _ => (H.filter (· ≠ l), [])
  | H, .call g _ => (H, (S g).flatMap fun k => H.map fun h => (h.cls, k.cls))
  | H, .seq a b => let r1 := edgesOf S H a; let r2 := edgesOf S r1.1 b; (r2.1, r1.2 ++ r2.2)
  | H, .alt a b => let r1 := edgesOf S H a; let r2 := edgesOf S H b; (r1.1 ++ r2.1, r1.2 ++ r2.2)
  | H, .loop a => (H, (edgesOf S H a).2)
  | H, _ => (H, [])

def lockEdges (fs : List Func) : List (Nat × Nat) :=
  let S := sumOf fs
  fs.flatMap fun f => (edgesOf S [] f.body).2

def Ranks.relax (es : List (Nat × Nat)) (rk : Ranks) : Ranks :=
  es.foldl (fun rk e => if rk.get e.1 < rk.get e.2 then rk else (e.2, rk.get e.1 + 1) :: rk) rk

def Ranks.iter (es : List (Nat × Nat)) : Nat → Ranks → Ranks
  | 0, rk => rk
  | n + 1, rk => let rk' := Ranks.relax es rk; if rk'.length = rk.length then rk else Ranks.iter es n rk'

/-- candidate rank of every lock class: length of the longest chain of edges below it -/
def lockRanks (fs : List Func) : Ranks :=
  let es := (lockEdges fs).eraseDups
  Ranks.iter es (es.length + 1) []

/-- every lock acquisition (direct or through calls) has a class of higher rank than every held lock -/
def lockOrderAcyclic (fs : List Func) : Bool :=
  checkWith (orderPolicy (lockRanks fs).get) fs

/-! ## Abstract operational semantics

### Layer 1: what one thread may do
`Run fs o P tr ds r`: a complete execution of `P` on receiver object `o` (any resolution of the
may-branches) emits the lock events `tr`, registers the deferred releases `ds`, and `r` says whether it
ended in a `return`.  A call runs the callee's body on `o ++ recv` and then its deferred releases.
`Pre fs o P tr`: `tr` is emitted by an execution of `P` that may have stopped anywhere (blocked, or still
running — this also covers executions that never terminate). -/

/-- concrete lock events; the lock is named by the absolute path of its owner -/
inductive CEv
  | acq (l : LockRef) (m : Mode)
  | rel (l : LockRef)
  deriving DecidableEq, Repr

def resolve (o : Path) (l : LockRef) : LockRef := ⟨o ++ l.owner, l.cls⟩

inductive Run (fs : List Func) : Path → Prog → List CEv → List LockRef → Bool → Prop
  | skip : Run fs o .skip [] [] false
  | acquire : Run fs o (.acquire l m) [.acq (resolve o l) m] [] false
  | release : Run fs o (.release l m) [.rel (resolve o l)] [] false
  | deferRelease : Run fs o (.deferRelease l m) [] [resolve o l] false
  | callUnknown : Run fs o (.callUnknown s) [] [] false
  | spawn : Run fs o (.spawn g p) [] [] false
  | unknown : Run fs o (.unknown s) [] [] false
  | ret : Run fs o .ret [] [] true
  /-- a callee outside the list touches no lock (the extractor lists every function that does) -/
  | callMissing : lookup fs g = none → Run fs o (.call g p) [] [] false
  | call : lookup fs g = some f → Run fs (o ++ p) f.body tr ds r →
      Run fs o (.call g p) (tr ++ ds.map .rel) [] false
  | seq : Run fs o a t1 d1 false → Run fs o b t2 d2 r → Run fs o (.seq a b) (t1 ++ t2) (d1 ++ d2) r
  | seqRet : Run fs o a t1 d1 true → Run fs o (.seq a b) t1 d1 true
  | altL : Run fs o a t d r → Run fs o (.alt a b) t d r
  | altR : Run fs o b t d r → Run fs o (.alt a b) t d r
  | loopDone : Run fs o (.loop a) [] [] false
  | loopStep : Run fs o a t1 d1 false → Run fs o (.loop a) t2 d2 r →
      Run fs o (.loop a) (t1 ++ t2) (d1 ++ d2) r
  | loopRet : Run fs o a t1 d1 true → Run fs o (.loop a) t1 d1 true

inductive Pre (fs : List Func) : Path → Prog → List CEv → Prop
  | nil : Pre fs o P []
  | full : Run fs o P tr ds r → Pre fs o P tr
  | call : lookup fs g = some f → Pre fs (o ++ p) f.body tr → Pre fs o (.call g p) tr
  | seqL : Pre fs o a tr → Pre fs o (.seq a b) tr
  | seqR : Run fs o a t1 d1 false → Pre fs o b t2 → Pre fs o (.seq a b) (t1 ++ t2)
  | altL : Pre fs o a tr → Pre fs o (.alt a b) tr
  | altR : Pre fs o b tr → Pre fs o (.alt a b) tr
  | loopIn : Pre fs o a tr → Pre fs o (.loop a) tr
  | loopNext : Run fs o a t1 d1 false → Pre fs o (.loop a) t2 → Pre fs o (.loop a) (t1 ++ t2)

/-- the lock events of a thread: a (possibly unfinished) call of any function on any object -/
def ThreadTrace (fs : List Func) (tr : List CEv) : Prop := ∃ g o, Pre fs o (.call g []) tr

/-- locks held after a sequence of events (a thread holds a lock or not: set semantics) -/
def heldAfter : List LockRef → List CEv → List LockRef
  | h, [] => h
  | h, .acq l _ :: t => heldAfter (l :: h) t
  | h, .rel l :: t => heldAfter (h.filter (· ≠ l)) t

/-- every acquisition of the trace is allowed (by `rel held new`) against every lock held at that moment -/
def TraceOK (rel : LockRef → LockRef → Prop) : List LockRef → List CEv → Prop
  | _, [] => True
  | h, .acq l _ :: t => (∀ x ∈ h, rel x l) ∧ TraceOK rel (l :: h) t
  | h, .rel l :: t => TraceOK rel (h.filter (· ≠ l)) t

/-! ### Layer 2: threads interleaved over a global lock state
A thread has executed `done` and will execute `todo`; which thread holds which lock in which mode is
read off `done`.  An acquisition step needs the lock to be grantable (no other holder for `W`, no other
writer for `R`); otherwise the thread waits. -/

structure Thread where
  done : List CEv
  todo : List CEv

/-- locks with modes held after the events -/
def heldModes : List (LockRef × Mode) → List CEv → List (LockRef × Mode)
  | h, [] => h
  | h, .acq l m :: t => heldModes ((l, m) :: h) t
  | h, .rel l :: t => heldModes (h.filter (·.1 ≠ l)) t

def Thread.held (t : Thread) : List LockRef := heldAfter [] t.done
def Thread.holds (t : Thread) (l : LockRef) (m : Mode) : Prop := (l, m) ∈ heldModes [] t.done

abbrev Config := List Thread

/-- `l` in mode `m` can be granted next to what the threads `others` hold -/
def Grantable (others : List Thread) (l : LockRef) (m : Mode) : Prop :=
  ∀ u ∈ others, ¬ u.holds l .W ∧ (m = .W → ¬ u.holds l .R)

inductive Step : Config → Config → Prop
  | acq : Grantable (pre ++ post) l m →
      Step (pre ++ ⟨d, .acq l m :: t⟩ :: post) (pre ++ ⟨d ++ [.acq l m], t⟩ :: post)
  | rel : Step (pre ++ ⟨d, .rel l :: t⟩ :: post) (pre ++ ⟨d ++ [.rel l], t⟩ :: post)

/-- states reachable from threads that each run some function of `fs` on some object -/
inductive Reachable (fs : List Func) : Config → Prop
  | init : (∀ t ∈ cfg, t.done = [] ∧ ThreadTrace fs t.todo) → Reachable fs cfg
  | step : Reachable fs cfg → Step cfg cfg' → Reachable fs cfg'

/-- the thread is about to request a lock it already holds (in any mode: a second `RLock` blocks as
soon as a writer is queued, `Lock` after `RLock`/`Lock` blocks always) -/
def SelfDeadlockStep (t : Thread) : Prop := ∃ l m rest, t.todo = .acq l m :: rest ∧ l ∈ t.held

/-- `t` requests a lock that `u` holds -/
def Waits (t u : Thread) : Prop := ∃ l m rest, t.todo = .acq l m :: rest ∧ l ∈ u.held

/-- a chain of threads of the configuration, each waiting for a lock held by the next -/
inductive WaitPath (cfg : Config) : Thread → Thread → Prop
  | one : t ∈ cfg → u ∈ cfg → Waits t u → WaitPath cfg t u
  | cons : t ∈ cfg → Waits t u → WaitPath cfg u v → WaitPath cfg t v

/-- a cycle of threads each waiting for a lock held by the next (length 1: a self-deadlock) -/
def WaitCycle (cfg : Config) : Prop := ∃ t, WaitPath cfg t t

end Mochi.Locks
