/-
M10 — `wsConn.Read` / `wsConn.Write` of listeners/websocket.go.
gorilla/websocket is a parameter: the connection yields a list of messages `(isBinary, payload)`;
the current message's reader hands out its bytes in chunks whose sizes come from an oracle list
(each inner `Read` returns at least one byte while bytes remain and `(0, io.EOF)` at the end).
-/
namespace Mochi.WsConn

structure WS where
  cur : Option (List Nat) := none          -- `ws.r`: unread rest of the current message
  msgs : List (Bool × List Nat) := []      -- messages not yet started
deriving Repr, DecidableEq

inductive RErr where
  | closed    -- NextReader failed (connection ended)
  | invalid   -- ErrInvalidMessage: non-binary message
deriving Repr, DecidableEq

/-- the `for` loop of `Read`: `rem` = unread rest of the message, `want` = len(p), `acc` = bytes
    copied so far.  Returns the bytes copied and the new `ws.r`. -/
def innerLoop : (fuel : Nat) → (rem : List Nat) → (want : Nat) → (chunks : List Nat) → (acc : List Nat) →
    List Nat × Option (List Nat)
  | 0, rem, _, _, acc => (acc, some rem)
  | fuel + 1, rem, want, chunks, acc =>
    if acc.length == want then (acc, some rem)        -- buffer is full
    else if rem.isEmpty then (acc, none)               -- io.EOF: end of this message, ws.r = nil
    else
      let c := chunks.headD rem.length
      let k := Nat.min (Nat.max 1 c) (Nat.min rem.length (want - acc.length))
      innerLoop fuel (rem.drop k) want chunks.tail (acc ++ rem.take k)

/-- `wsConn.Read(p)` with `len(p) = want` -/
def read (ws : WS) (want : Nat) (chunks : List Nat) : WS × Except RErr (List Nat) :=
  match ws.cur with
  | some rem =>
    let r := innerLoop (rem.length + 1) rem want chunks []
    ({ ws with cur := r.2 }, .ok r.1)
  | none =>
    match ws.msgs with
    | [] => (ws, .error .closed)
    | (isBin, payload) :: rest =>
      if !isBin then ({ cur := none, msgs := rest }, .error .invalid)
      else
        let r := innerLoop (payload.length + 1) payload want chunks []
        ({ cur := r.2, msgs := rest }, .ok r.1)

/-- bytes not yet delivered, up to the first non-binary message -/
def pendingMsgs : List (Bool × List Nat) → List Nat
  | [] => []
  | (true, p) :: rest => p ++ pendingMsgs rest
  | (false, _) :: _ => []

def pending (ws : WS) : List Nat := ws.cur.getD [] ++ pendingMsgs ws.msgs

/-- `wsConn.Write(p)`: one binary message carrying exactly `p` -/
def write (p : List Nat) : Bool × List Nat := (true, p)

end Mochi.WsConn
