import Mochi.Model.Codec
/-
The read side of a connection: `Client.ReadFixedHeader`, `Client.ReadPacket`, the loop of
`Client.Read` (clients.go) and `Server.readConnectionPacket` (server.go), over M1 (`decodeBody`,
`fixedHeaderDecode`) and M7 (`decodeLength`).

A connection's inbound bytes are a `List Nat`.  The reader pulls bytes from a `bufio.Reader`; when the
bytes run out in the middle of a packet the real reader blocks (or gets EOF): that is the outcome
`needMore`.  Every other way the loop ends is an `error`, after which `attachClient` closes the
connection.  The Go slicing expressions of these functions (`p[:]` on a buffer of exactly
`Remaining` bytes) cannot fail; the body decoders' raw index/slice sites are M1's explicit `panic`
outcome, which is carried through unchanged (`ReadErr.body .panic`).
-/
namespace Mochi.Reader
open Mochi.Codec Mochi.Varint

/-- the part of `Options.Capabilities` the reader looks at -/
structure Cfg where
  maxPacketSize : Nat := 0          -- Capabilities.MaximumPacketSize (uint32); 0 = no limit
deriving DecidableEq, Repr

/-- why the read loop ended with an error -/
inductive ReadErr where
  | header (e : DErr)      -- `fh.Decode(b)` refused the first byte (bad flags, QoS 3, DUP without QoS)
  | varint                 -- `DecodeLength`: ErrMalformedVariableByteInteger
  | tooLarge               -- ErrPacketTooLarge
  | body (e : DErr)        -- the type's decoder refused the body; `.panic` = a Go runtime panic
  | notConnect             -- `readConnectionPacket`: ErrProtocolViolationRequireFirstConnect
deriving DecidableEq, Repr

/-- outcome of `ReadFixedHeader` on the bytes still to come -/
inductive FHOutcome where
  | ok (fh : FixedHeader) (used : Nat)   -- header complete: `used` = 1 + length bytes were consumed
  | needMore                             -- the bytes ran out inside the fixed header
  | error (e : ReadErr)
deriving DecidableEq, Repr

/-- Go's `uint32(x)` for a non-negative `int` -/
def toUint32 (x : Nat) : Nat := x % 4294967296

/-- `Client.ReadFixedHeader`: first byte through `fh.Decode`, then `DecodeLength` byte by byte, then the
    size test exactly as written:
    `MaximumPacketSize > 0 && uint32(fh.Remaining+bu+1) > MaximumPacketSize`
    (`bu` = the number of length bytes `DecodeLength` consumed: the packet's total size). -/
def readFixedHeader (maxPacketSize : Nat) : List Nat → FHOutcome
  | [] => .needMore
  | b :: rest =>
    match fixedHeaderDecode b with
    | .error e => .error (.header e)
    | .ok fh =>
      match decodeLength rest with
      | .error .eof => .needMore
      | .error .malformed => .error .varint
      | .ok (n, bu) =>
        if maxPacketSize > 0 && toUint32 (n + bu + 1) > maxPacketSize then .error .tooLarge
        else .ok { fh with remaining := n } (bu + 1)

/-- outcome of `ReadPacket` -/
inductive PKOutcome where
  | ok (pk : Packet)
  | needMore                -- `io.ReadFull` got fewer than `Remaining` bytes
  | error (e : DErr)
deriving DecidableEq, Repr

/-- `Client.ReadPacket(fh)`: read exactly `fh.Remaining` bytes, copy them, dispatch on the type.
    `ver` is the client's protocol version (`pk.ProtocolVersion = cl.Properties.ProtocolVersion`). -/
def readPacket (ver : Nat) (fh : FixedHeader) (bs : List Nat) : PKOutcome :=
  if bs.length < fh.remaining then .needMore
  else
    match decodeBody ver fh (bs.take fh.remaining) with
    | .ok pk => .ok pk
    | .error e => .error e

/-- what the read loop produces -/
inductive ReadEvent where
  | packet (pk : Packet)      -- a decoded packet handed to the packet handler
  | needMore                  -- blocked in the middle of a packet (or before the next one)
  | error (e : ReadErr)       -- the loop returned this error: the connection is closed
deriving DecidableEq, Repr

/-- the loop of `Client.Read` on the bytes `bs`, assuming the handler keeps the connection open and
    returns no error (what the handler does with each packet is M3's business).  Result: the events
    in order and the unconsumed tail — the bytes from the start of the packet that was incomplete or
    refused.  `fuel` bounds the number of iterations; `readStream` supplies enough. -/
def readStreamFuel (cfg : Cfg) (ver : Nat) : (fuel : Nat) → List Nat → List ReadEvent × List Nat
  | 0, bs => ([.needMore], bs)
  | fuel + 1, bs =>
    match readFixedHeader cfg.maxPacketSize bs with
    | .needMore => ([.needMore], bs)
    | .error e => ([.error e], bs)
    | .ok fh used =>
      match readPacket ver fh (bs.drop used) with
      | .needMore => ([.needMore], bs)
      | .error e => ([.error (.body e)], bs)
      | .ok pk =>
        let r := readStreamFuel cfg ver fuel (bs.drop (used + fh.remaining))
        (.packet pk :: r.1, r.2)

/-- the read loop on a byte stream.  Every packet consumes at least two bytes (`Lemmas/Reader.lean`,
    `readFixedHeader_used`), so `bs.length` iterations always suffice: `readStreamFuel_stable`. -/
def readStream (cfg : Cfg) (ver : Nat) (bs : List Nat) : List ReadEvent × List Nat :=
  readStreamFuel cfg ver bs.length bs

/-- `defaultClientProtocolVersion`: the version a new client object has before its CONNECT is parsed -/
def defaultVersion : Nat := 4

/-- outcome of `readConnectionPacket` -/
inductive ConnOutcome where
  | connect (pk : Packet) (rest : List Nat)    -- the CONNECT packet and the bytes after it
  | needMore
  | error (e : ReadErr)
deriving DecidableEq, Repr

/-- `Server.readConnectionPacket`: the first packet of a connection must be a CONNECT; any other type
    is refused after its fixed header, before its body is read. -/
def readConnection (cfg : Cfg) (bs : List Nat) : ConnOutcome :=
  match readFixedHeader cfg.maxPacketSize bs with
  | .needMore => .needMore
  | .error e => .error e
  | .ok fh used =>
    if fh.type != tConnect then .error .notConnect
    else
      match readPacket defaultVersion fh (bs.drop used) with
      | .needMore => .needMore
      | .error e => .error (.body e)
      | .ok pk => .connect pk (bs.drop (used + fh.remaining))

/-- a whole connection's byte stream, assuming the broker accepts the CONNECT: the CONNECT packet, then
    the read loop at the protocol version the CONNECT announced (`ParseConnect`) -/
def readSession (cfg : Cfg) (bs : List Nat) : List ReadEvent × List Nat :=
  match readConnection cfg bs with
  | .needMore => ([.needMore], bs)
  | .error e => ([.error e], bs)
  | .connect pk rest =>
    let r := readStream cfg pk.protocolVersion rest
    (.packet pk :: r.1, r.2)

end Mochi.Reader
