/-!
M15 — a SUBACK / UNSUBACK that does not fit the client's Maximum Packet Size (clients.go `WritePacket`:
`pk.Mods.MaxSize > 0 && buf.Len() > pk.Mods.MaxSize → ErrPacketTooLarge`; server.go `receivePacket`: the handler's
error ends the connection, DISCONNECT 0x95 for MQTT 5). Core Lean only.

The MQTT 5 acknowledgement of a request with `n` filters and no properties to echo is: one type byte, the remaining
length as a variable byte integer, packet identifier (2), property length (1), `n` reason codes.
-/
namespace Mochi.AckFit

def varintLen (n : Nat) : Nat :=
  if n < 128 then 1 else if n < 16384 then 2 else if n < 2097152 then 3 else 4

/-- encoded size of an MQTT 5 SUBACK / UNSUBACK with `n` reason codes and an empty property block -/
def ackSize5 (n : Nat) : Nat := 1 + varintLen (3 + n) + (3 + n)

inductive Ans where
  | ack (codes : Nat)   -- the acknowledgement, one reason code per filter
  | closed              -- the connection was closed instead
  | silent              -- neither: the request is unanswered on a connection that is still served
deriving Repr, DecidableEq

/-- what the broker does with a valid SUBSCRIBE / UNSUBSCRIBE of `n` filters from a client whose Maximum Packet
    Size is `mps` (0 = not announced) -/
def answer (mps n : Nat) : Ans :=
  if mps = 0 ∨ ackSize5 n ≤ mps then .ack n else .closed

def Ans.render : Ans → String
  | .ack k => s!"ack {k}"
  | .closed => "closed"
  | .silent => "silent"

end Mochi.AckFit
