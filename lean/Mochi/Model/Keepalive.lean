/-
M7 (part) — keepalive deadline, mirroring clients.go `refreshDeadline` and the head of the `Read`
loop.  `time.Duration` is int64 nanoseconds; the expression is
`time.Duration(keepalive) * time.Second * 3 / 2` with `keepalive : uint16`.
-/
namespace Mochi.Keepalive

def second : Nat := 1000000000
def int64Max : Nat := 9223372036854775807

/-- int64 multiplication result if it does not overflow (Go wraps; we return `none` to make
    overflow an explicit outcome the theorem excludes) -/
def mulNoWrap (a b : Nat) : Option Nat := if a * b ≤ int64Max then some (a * b) else none

/-- `refreshDeadline(keepalive)`: the duration (ns) added to `time.Now()`, or `none` when the
    deadline is disabled (zero `time.Time`) -/
def deadlineNs (keepalive : Nat) : Option (Option Nat) :=
  if keepalive > 0 then
    some ((mulNoWrap keepalive second).bind (fun a => (mulNoWrap a 3).map (fun b => b / 2)))
  else none

/-- what the harness observes: milliseconds, `off` for a disabled deadline, `wrap` on overflow -/
def deadlineMs (keepalive : Nat) : String :=
  match deadlineNs keepalive with
  | none => "off"
  | some none => "wrap"
  | some (some ns) => toString (ns / 1000000)

/-- the `Read` loop refreshes the deadline at the head of every iteration: reading `n` packets and
    then hitting the end of the stream makes `n + 1` refreshes -/
def refreshCount (packets : Nat) : Nat := packets + 1

/-- timeline: the connection is closed for inactivity iff some gap (ms) between consecutive packet
    arrivals reaches the deadline that was set when the previous packet had been handled -/
def closedForInactivity (keepalive : Nat) (gapsMs : List Nat) : Bool :=
  match deadlineNs keepalive with
  | some (some ns) => gapsMs.any (fun g => g * 1000000 ≥ ns)
  | _ => false

end Mochi.Keepalive
