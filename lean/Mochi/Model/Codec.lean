import Mochi.Model.Varint
/-
M1 — the packet codec of packets/codec.go, packets/properties.go, packets/packets.go and
packets/fixedheader.go (decoding side and helpers; the encoders are in Model/CodecEnc.lean).

Go slices with an `offset` cursor are `(buf : List Nat) (off : Nat)`.  Every helper returns
`Except DErr (value × newOffset)`.  A raw index `buf[i]` or slice `buf[i:]` that is out of range is the
explicit outcome `DErr.panic` — "never panics" is then a theorem about this model, not an artefact of
a total `getD`.
-/
namespace Mochi.Codec
open Mochi.Varint

abbrev Str := List Nat

inductive DErr where
  | panic                      -- Go runtime panic: index / slice bounds out of range
  | code (name : String)       -- a packets.Code error, by its Go identifier
deriving DecidableEq, Repr

abbrev Dec (α : Type) := Except DErr α

def err {α} (name : String) : Dec α := .error (.code name)

/-- `buf[off:]` -/
def sliceFrom (buf : Str) (off : Nat) : Dec Str :=
  if off ≤ buf.length then .ok (buf.drop off) else .error .panic

/-- raw `buf[off]` -/
def rawIndex (buf : Str) (off : Nat) : Dec Nat :=
  match buf[off]? with
  | some b => .ok b
  | none => .error .panic

def decodeByte (buf : Str) (off : Nat) : Dec (Nat × Nat) :=
  match buf[off]? with
  | some b => .ok (b, off + 1)
  | none => err "ErrMalformedOffsetByteOutOfRange"

def decodeByteBool (buf : Str) (off : Nat) : Dec (Bool × Nat) :=
  match buf[off]? with
  | some b => .ok (b % 2 == 1, off + 1)
  | none => err "ErrMalformedOffsetBoolOutOfRange"

def decodeUint16 (buf : Str) (off : Nat) : Dec (Nat × Nat) :=
  if buf.length < off + 2 then err "ErrMalformedOffsetUintOutOfRange"
  else .ok (buf[off]?.getD 0 * 256 + buf[off + 1]?.getD 0, off + 2)

def decodeUint32 (buf : Str) (off : Nat) : Dec (Nat × Nat) :=
  if buf.length < off + 4 then err "ErrMalformedOffsetUintOutOfRange"
  else .ok (((buf[off]?.getD 0 * 256 + buf[off + 1]?.getD 0) * 256 + buf[off + 2]?.getD 0) * 256 + buf[off + 3]?.getD 0, off + 4)

def decodeBytes (buf : Str) (off : Nat) : Dec (Str × Nat) :=
  match decodeUint16 buf off with
  | .error e => .error e
  | .ok (len, next) =>
    if next + len > buf.length then err "ErrMalformedOffsetBytesOutOfRange"
    else .ok ((buf.drop next).take len, next + len)

/-! ### UTF-8 (unicode/utf8.Valid re-implemented from the well-formed byte sequence table) -/

def cont (b : Nat) : Bool := 0x80 ≤ b && b ≤ 0xBF

def utf8Valid : Str → Bool
  | [] => true
  | b0 :: rest =>
    if b0 < 0x80 then utf8Valid rest
    else if 0xC2 ≤ b0 && b0 ≤ 0xDF then
      match rest with
      | b1 :: r => cont b1 && utf8Valid r
      | _ => false
    else if b0 == 0xE0 then
      match rest with
      | b1 :: b2 :: r => (0xA0 ≤ b1 && b1 ≤ 0xBF) && cont b2 && utf8Valid r
      | _ => false
    else if (0xE1 ≤ b0 && b0 ≤ 0xEC) || b0 == 0xEE || b0 == 0xEF then
      match rest with
      | b1 :: b2 :: r => cont b1 && cont b2 && utf8Valid r
      | _ => false
    else if b0 == 0xED then
      match rest with
      | b1 :: b2 :: r => (0x80 ≤ b1 && b1 ≤ 0x9F) && cont b2 && utf8Valid r
      | _ => false
    else if b0 == 0xF0 then
      match rest with
      | b1 :: b2 :: b3 :: r => (0x90 ≤ b1 && b1 ≤ 0xBF) && cont b2 && cont b3 && utf8Valid r
      | _ => false
    else if 0xF1 ≤ b0 && b0 ≤ 0xF3 then
      match rest with
      | b1 :: b2 :: b3 :: r => cont b1 && cont b2 && cont b3 && utf8Valid r
      | _ => false
    else if b0 == 0xF4 then
      match rest with
      | b1 :: b2 :: b3 :: r => (0x80 ≤ b1 && b1 ≤ 0x8F) && cont b2 && cont b3 && utf8Valid r
      | _ => false
    else false

/-- `validUTF8`: `utf8.Valid(b) && bytes.IndexByte(b, 0) == -1` -/
def validUTF8 (b : Str) : Bool := utf8Valid b && !b.contains 0

def decodeString (buf : Str) (off : Nat) : Dec (Str × Nat) :=
  match decodeBytes buf off with
  | .error e => .error e
  | .ok (b, n) => if validUTF8 b then .ok (b, n) else err "ErrMalformedInvalidUTF8"

/-! ### Fixed header -/

structure FixedHeader where
  remaining : Nat := 0
  type : Nat := 0
  qos : Nat := 0
  dup : Bool := false
  retain : Bool := false
deriving DecidableEq, Repr

def bit (b i : Nat) : Nat := (b / 2 ^ i) % 2

/-- `FixedHeader.Decode(hb)` → header (without Remaining) or error -/
def fixedHeaderDecode (hb : Nat) : Dec FixedHeader :=
  let t := hb / 16
  if t == 3 then
    if bit hb 1 > 0 && bit hb 2 > 0 then err "ErrProtocolViolationQosOutOfRange"
    else
      let fh : FixedHeader := { type := t, dup := bit hb 3 > 0, qos := (hb / 2) % 4, retain := bit hb 0 > 0 }
      if fh.qos == 0 && fh.dup then err "ErrProtocolViolationDupNoQos" else .ok fh
  else if t == 6 || t == 8 || t == 10 then
    if bit hb 0 != 0 || bit hb 1 != 1 || bit hb 2 != 0 || bit hb 3 != 0 then err "ErrMalformedFlags"
    else .ok { type := t, qos := (hb / 2) % 4 }
  else
    if bit hb 0 != 0 || bit hb 1 != 0 || bit hb 2 != 0 || bit hb 3 != 0 then err "ErrMalformedFlags"
    else .ok { type := t }

/-! ### Properties -/

/-- wire value of one property -/
inductive PVal where
  | byte (n : Nat)
  | u16 (n : Nat)
  | u32 (n : Nat)
  | str (s : Str)
  | bin (s : Str)
  | varint (n : Nat)
  | pair (k v : Str)
deriving DecidableEq, Repr

structure Props where
  correlationData : Str := []
  subscriptionIdentifier : List Nat := []
  authenticationData : Str := []
  user : List (Str × Str) := []
  contentType : Str := []
  responseTopic : Str := []
  assignedClientID : Str := []
  authenticationMethod : Str := []
  responseInfo : Str := []
  serverReference : Str := []
  reasonString : Str := []
  messageExpiryInterval : Nat := 0
  sessionExpiryInterval : Nat := 0
  willDelayInterval : Nat := 0
  maximumPacketSize : Nat := 0
  serverKeepAlive : Nat := 0
  receiveMaximum : Nat := 0
  topicAliasMaximum : Nat := 0
  topicAlias : Nat := 0
  payloadFormat : Nat := 0
  payloadFormatFlag : Bool := false
  sessionExpiryIntervalFlag : Bool := false
  serverKeepAliveFlag : Bool := false
  requestProblemInfo : Nat := 0
  requestProblemInfoFlag : Bool := false
  requestResponseInfo : Nat := 0
  topicAliasFlag : Bool := false
  maximumQos : Nat := 0
  maximumQosFlag : Bool := false
  retainAvailable : Nat := 0
  retainAvailableFlag : Bool := false
  wildcardSubAvailable : Nat := 0
  wildcardSubAvailableFlag : Bool := false
  subIDAvailable : Nat := 0
  subIDAvailableFlag : Bool := false
  sharedSubAvailable : Nat := 0
  sharedSubAvailableFlag : Bool := false
deriving DecidableEq, Repr

/-- packet type constants -/
def tConnect := 1
def tConnack := 2
def tPublish := 3
def tPuback := 4
def tPubrec := 5
def tPubrel := 6
def tPubcomp := 7
def tSubscribe := 8
def tSuback := 9
def tUnsubscribe := 10
def tUnsuback := 11
def tPingreq := 12
def tPingresp := 13
def tDisconnect := 14
def tAuth := 15
def tWillProperties := 99

/-- `validPacketProperties[k][pkt]` — which packet types may carry property `k`.
    The table itself is regenerated from packets/properties.go into `Mochi.Gen.PropTable` and checked
    equal to this one (tie A). -/
def propTable : List (Nat × List Nat) := [
  (1, [3, 99]), (2, [3, 99]), (3, [3, 99]), (8, [3, 99]), (9, [3, 99]), (11, [3, 8]),
  (17, [1, 2, 14]), (18, [2]), (19, [2]), (21, [1, 2, 15]), (22, [1, 2, 15]), (23, [1]), (24, [99]),
  (25, [1]), (26, [2]), (28, [2, 14]), (31, [2, 4, 5, 6, 7, 9, 11, 14, 15]), (33, [1, 2]), (34, [1, 2]),
  (35, [3]), (36, [2]), (37, [2]), (38, [1, 2, 3, 4, 5, 6, 7, 8, 9, 10, 11, 14, 15, 99]), (39, [1, 2]),
  (40, [2]), (41, [2]), (42, [2])]

def propAllowed (k pkt : Nat) : Bool :=
  match propTable.find? (fun e => e.1 == k) with
  | some e => e.2.contains pkt
  | none => false

/-- one iteration body of the `switch k` in `Properties.Decode`: decode the value of property `k`
    at `off` in `bt`; `none` for a property id the switch has no case for (value ignored). -/
def decodePropValue (k : Nat) (bt : Str) (off : Nat) : Dec (Option PVal × Nat) :=
  let byteP := (decodeByte bt off).map fun (v, o) => (some (PVal.byte v), o)
  let u16P := (decodeUint16 bt off).map fun (v, o) => (some (PVal.u16 v), o)
  let u32P := (decodeUint32 bt off).map fun (v, o) => (some (PVal.u32 v), o)
  let strP := (decodeString bt off).map fun (v, o) => (some (PVal.str v), o)
  let binP := (decodeBytes bt off).map fun (v, o) => (some (PVal.bin v), o)
  if k == 1 || k == 23 || k == 25 || k == 36 || k == 37 || k == 40 || k == 41 || k == 42 then byteP
  else if k == 2 || k == 17 || k == 24 || k == 39 then u32P
  else if k == 3 || k == 8 || k == 18 || k == 21 || k == 26 || k == 28 || k == 31 then strP
  else if k == 9 || k == 22 then binP
  else if k == 19 || k == 33 || k == 34 || k == 35 then u16P
  else if k == 11 then
    match sliceFrom bt off with
    | .error e => .error e
    | .ok rest =>
      match decodeLength rest with
      | .error _ => err "varint"        -- DecodeLength error (io.EOF or malformed), wrapped by the caller
      | .ok (n, bu) => .ok (some (PVal.varint n), off + bu)
  else if k == 38 then
    match decodeString bt off with
    | .error e => .error e
    | .ok (key, o1) =>
      match decodeString bt o1 with
      | .error e => .error e
      | .ok (v, o2) => .ok (some (PVal.pair key v), o2)
  else .ok (none, off)

/-- the `for offset := 0; offset < n;` loop of `Properties.Decode` -/
def propsLoop (pkt : Nat) (bt : Str) (n : Nat) : (fuel : Nat) → (off : Nat) → (acc : List (Nat × PVal)) →
    Dec (List (Nat × PVal) × Nat)
  | 0, off, acc => .ok (acc.reverse, off)
  | fuel + 1, off, acc =>
    if off < n then
      match decodeByte bt off with
      | .error e => .error e
      | .ok (k, o1) =>
        if !propAllowed k pkt then err "ErrProtocolViolationUnsupportedProperty"
        else
          match decodePropValue k bt o1 with
          | .error e => .error e
          | .ok (v, o2) =>
            propsLoop pkt bt n fuel o2 (match v with | some pv => (k, pv) :: acc | none => acc)
    else .ok (acc.reverse, off)

/-- assign one decoded property to its struct field(s) -/
def assignProp (p : Props) : Nat × PVal → Props
  | (1, .byte v) => { p with payloadFormat := v, payloadFormatFlag := true }
  | (2, .u32 v) => { p with messageExpiryInterval := v }
  | (3, .str v) => { p with contentType := v }
  | (8, .str v) => { p with responseTopic := v }
  | (9, .bin v) => { p with correlationData := v }
  | (11, .varint v) => { p with subscriptionIdentifier := p.subscriptionIdentifier ++ [v] }
  | (17, .u32 v) => { p with sessionExpiryInterval := v, sessionExpiryIntervalFlag := true }
  | (18, .str v) => { p with assignedClientID := v }
  | (19, .u16 v) => { p with serverKeepAlive := v, serverKeepAliveFlag := true }
  | (21, .str v) => { p with authenticationMethod := v }
  | (22, .bin v) => { p with authenticationData := v }
  | (23, .byte v) => { p with requestProblemInfo := v, requestProblemInfoFlag := true }
  | (24, .u32 v) => { p with willDelayInterval := v }
  | (25, .byte v) => { p with requestResponseInfo := v }
  | (26, .str v) => { p with responseInfo := v }
  | (28, .str v) => { p with serverReference := v }
  | (31, .str v) => { p with reasonString := v }
  | (33, .u16 v) => { p with receiveMaximum := v }
  | (34, .u16 v) => { p with topicAliasMaximum := v }
  | (35, .u16 v) => { p with topicAlias := v, topicAliasFlag := true }
  | (36, .byte v) => { p with maximumQos := v, maximumQosFlag := true }
  | (37, .byte v) => { p with retainAvailable := v, retainAvailableFlag := true }
  | (38, .pair k v) => { p with user := p.user ++ [(k, v)] }
  | (39, .u32 v) => { p with maximumPacketSize := v }
  | (40, .byte v) => { p with wildcardSubAvailable := v, wildcardSubAvailableFlag := true }
  | (41, .byte v) => { p with subIDAvailable := v, subIDAvailableFlag := true }
  | (42, .byte v) => { p with sharedSubAvailable := v, sharedSubAvailableFlag := true }
  | _ => p

/-- `Properties.Decode(pkt, bytes.NewBuffer(b))` → (properties, n + bu). The error of a failing
    decode is whatever the helper returned; callers wrap it. -/
def propsDecode (pkt : Nat) (b : Str) (p0 : Props := {}) : Dec (Props × Nat) :=
  match decodeLength b with
  | .error _ => err "varint"
  | .ok (n, bu) =>
    if n == 0 then .ok (p0, n + bu)
    else
      let bt := b.drop bu
      match propsLoop pkt bt n (bt.length + 1) 0 [] with
      | .error e => .error e
      | .ok (entries, _) => .ok (entries.foldl assignProp p0, n + bu)

/-- wrap a property error the way `fmt.Errorf("%s: %w", err, X)` does: panics stay panics -/
def wrapErr {α} (name : String) : Dec α → Dec α
  | .ok v => .ok v
  | .error .panic => .error .panic
  | .error (.code _) => err name

/-! ### Packets -/

structure Subscription where
  filter : Str := []
  qos : Nat := 0
  noLocal : Bool := false
  rap : Bool := false
  rh : Nat := 0
  identifier : Nat := 0
deriving DecidableEq, Repr

structure ConnectParams where
  willProperties : Props := {}
  password : Str := []
  username : Str := []
  protocolName : Str := []
  willPayload : Str := []
  clientIdentifier : Str := []
  willTopic : Str := []
  keepalive : Nat := 0
  passwordFlag : Bool := false
  usernameFlag : Bool := false
  willQos : Nat := 0
  willFlag : Bool := false
  willRetain : Bool := false
  clean : Bool := false
deriving DecidableEq, Repr

structure Mods where
  maxSize : Nat := 0
  disallowProblemInfo : Bool := false
  allowResponseInfo : Bool := false
deriving DecidableEq, Repr

structure Packet where
  connect : ConnectParams := {}
  properties : Props := {}
  payload : Str := []
  reasonCodes : Str := []
  filters : List Subscription := []
  topicName : Str := []
  fixedHeader : FixedHeader := {}
  mods : Mods := {}
  packetID : Nat := 0
  protocolVersion : Nat := 0
  sessionPresent : Bool := false
  reasonCode : Nat := 0
  reservedBit : Nat := 0
deriving DecidableEq, Repr

/-- `Subscription.decode(b)` -/
def subDecodeOpts (s : Subscription) (b : Nat) : Subscription :=
  { s with qos := b % 4, noLocal := bit b 2 > 0, rap := bit b 3 > 0, rh := (b / 16) % 4 }

/-- `n, err := props.Decode(pkt, bytes.NewBuffer(buf[offset:]))` … `offset += n`, error wrapped as `name` -/
def decodePropsAt (name : String) (pkt : Nat) (buf : Str) (off : Nat) (p0 : Props) : Dec (Props × Nat) := do
  let rest ← sliceFrom buf off
  let (props, n) ← wrapErr name (propsDecode pkt rest p0)
  pure (props, off + n)

def connectDecode (pk : Packet) (buf : Str) : Dec Packet := do
  let (pname, off) ← wrapErr "ErrMalformedProtocolName" (decodeBytes buf 0)
  let (ver, off) ← wrapErr "ErrMalformedProtocolVersion" (decodeByte buf off)
  let (flags, off) ← wrapErr "ErrMalformedFlags" (decodeByte buf off)
  let c : ConnectParams := { pk.connect with
    protocolName := pname, clean := bit flags 1 > 0, willFlag := bit flags 2 > 0, willQos := (flags / 8) % 4,
    willRetain := bit flags 5 > 0, passwordFlag := bit flags 6 > 0, usernameFlag := bit flags 7 > 0 }
  let pk := { pk with protocolVersion := ver, reservedBit := flags % 2, connect := c }
  let (ka, off) ← wrapErr "ErrMalformedKeepalive" (decodeUint16 buf off)
  let pk := { pk with connect := { pk.connect with keepalive := ka } }
  let (pk, off) ← (if ver == 5 then do
      let (props, off) ← decodePropsAt "ErrMalformedProperties" pk.fixedHeader.type buf off pk.properties
      pure ({ pk with properties := props }, off)
    else pure (pk, off))
  let (cid, off) ← wrapErr "ErrClientIdentifierNotValid" (decodeString buf off)
  let pk := { pk with connect := { pk.connect with clientIdentifier := cid } }
  let (pk, off) ← (if pk.connect.willFlag then do
      let (pk, off) ← (if ver == 5 then do
          let (wp, off) ← decodePropsAt "ErrMalformedWillProperties" tWillProperties buf off pk.connect.willProperties
          pure ({ pk with connect := { pk.connect with willProperties := wp } }, off)
        else pure (pk, off))
      let (wt, off) ← wrapErr "ErrMalformedWillTopic" (decodeString buf off)
      let (wpl, off) ← wrapErr "ErrMalformedWillPayload" (decodeBytes buf off)
      pure ({ pk with connect := { pk.connect with willTopic := wt, willPayload := wpl } }, off)
    else pure (pk, off))
  let (pk, off) ← (if pk.connect.usernameFlag then
      if off ≥ buf.length then err "ErrProtocolViolationFlagNoUsername"
      else do
        let (u, off) ← wrapErr "ErrMalformedUsername" (decodeBytes buf off)
        pure ({ pk with connect := { pk.connect with username := u } }, off)
    else pure (pk, off))
  if pk.connect.passwordFlag then do
    let (pw, _) ← wrapErr "ErrMalformedPassword" (decodeBytes buf off)
    pure { pk with connect := { pk.connect with password := pw } }
  else pure pk

def connackDecode (pk : Packet) (buf : Str) : Dec Packet := do
  let (sp, off) ← wrapErr "ErrMalformedSessionPresent" (decodeByteBool buf 0)
  let (rc, off) ← wrapErr "ErrMalformedReasonCode" (decodeByte buf off)
  let pk := { pk with sessionPresent := sp, reasonCode := rc }
  if pk.protocolVersion == 5 then do
    let (props, _) ← decodePropsAt "ErrMalformedProperties" pk.fixedHeader.type buf off pk.properties
    pure { pk with properties := props }
  else pure pk

def disconnectDecode (pk : Packet) (buf : Str) : Dec Packet :=
  if pk.protocolVersion == 5 && pk.fixedHeader.remaining > 0 then do
    let (rc, off) ← wrapErr "ErrMalformedReasonCode" (decodeByte buf 0)
    let pk := { pk with reasonCode := rc }
    if pk.fixedHeader.remaining > 1 then do
      let (props, _) ← decodePropsAt "ErrMalformedProperties" pk.fixedHeader.type buf off pk.properties
      pure { pk with properties := props }
    else pure pk
  else pure pk

def publishDecode (pk : Packet) (buf : Str) : Dec Packet := do
  let (topic, off) ← wrapErr "ErrMalformedTopic" (decodeString buf 0)
  let pk := { pk with topicName := topic }
  let (pk, off) ← (if pk.fixedHeader.qos > 0 then do
      let (id, off) ← wrapErr "ErrMalformedPacketID" (decodeUint16 buf off)
      pure ({ pk with packetID := id }, off)
    else pure (pk, off))
  let (pk, off) ← (if pk.protocolVersion == 5 then do
      let (props, off) ← decodePropsAt "ErrMalformedProperties" pk.fixedHeader.type buf off pk.properties
      pure ({ pk with properties := props }, off)
    else pure (pk, off))
  let payload ← sliceFrom buf off
  pure { pk with payload := payload }

/-- `decodePubAckRelRecComp` -/
def ackDecode (pk : Packet) (buf : Str) : Dec Packet := do
  let (id, off) ← wrapErr "ErrMalformedPacketID" (decodeUint16 buf 0)
  let pk := { pk with packetID := id }
  if pk.protocolVersion == 5 && pk.fixedHeader.remaining > 2 then do
    let (rc, off) ← wrapErr "ErrMalformedReasonCode" (decodeByte buf off)
    let pk := { pk with reasonCode := rc }
    if pk.fixedHeader.remaining > 3 then do
      let (props, _) ← decodePropsAt "ErrMalformedProperties" pk.fixedHeader.type buf off pk.properties
      pure { pk with properties := props }
    else pure pk
  else pure pk

def subackDecode (pk : Packet) (buf : Str) : Dec Packet := do
  let (id, off) ← wrapErr "ErrMalformedPacketID" (decodeUint16 buf 0)
  let pk := { pk with packetID := id }
  let (pk, off) ← (if pk.protocolVersion == 5 then do
      let (props, off) ← decodePropsAt "ErrMalformedProperties" pk.fixedHeader.type buf off pk.properties
      pure ({ pk with properties := props }, off)
    else pure (pk, off))
  let rcs ← sliceFrom buf off
  pure { pk with reasonCodes := rcs }

/-- the filter loop of `SubscribeDecode` -/
def subscribeFilters (ver : Nat) (ident : Nat) (buf : Str) : (fuel : Nat) → (off : Nat) → (acc : List Subscription) →
    Dec (List Subscription)
  | 0, _, acc => .ok acc.reverse
  | fuel + 1, off, acc =>
    if off < buf.length then
      match wrapErr "ErrMalformedTopic" (decodeString buf off) with
      | .error e => .error e
      | .ok (filter, o1) =>
        match wrapErr "ErrMalformedQos" (decodeByte buf o1) with
        | .error e => .error e
        | .ok (opt, o2) =>
          let sub : Subscription := { filter := filter }
          let sub := if ver == 5 then subDecodeOpts sub opt else { sub with qos := opt }
          let sub := { sub with identifier := ident }
          if sub.qos > 2 then err "ErrProtocolViolationQosOutOfRange"
          else subscribeFilters ver ident buf fuel o2 (sub :: acc)
    else .ok acc.reverse

def subscribeDecode (pk : Packet) (buf : Str) : Dec Packet := do
  let (id, off) ← wrapErr "ErrMalformedPacketID" (decodeUint16 buf 0)
  let pk := { pk with packetID := id }
  let (pk, off) ← (if pk.protocolVersion == 5 then do
      let (props, off) ← decodePropsAt "ErrMalformedProperties" pk.fixedHeader.type buf off pk.properties
      pure ({ pk with properties := props }, off)
    else pure (pk, off))
  let ident := pk.properties.subscriptionIdentifier.headD 0
  let fs ← subscribeFilters pk.protocolVersion ident buf (buf.length + 1) off []
  pure { pk with filters := fs }

def unsubackDecode (pk : Packet) (buf : Str) : Dec Packet := do
  let (id, off) ← wrapErr "ErrMalformedPacketID" (decodeUint16 buf 0)
  let pk := { pk with packetID := id }
  if pk.protocolVersion == 5 then do
    let (props, off) ← decodePropsAt "ErrMalformedProperties" pk.fixedHeader.type buf off pk.properties
    let rcs ← sliceFrom buf off
    pure { pk with properties := props, reasonCodes := rcs }
  else pure pk

def unsubscribeFilters (buf : Str) : (fuel : Nat) → (off : Nat) → (acc : List Subscription) → Dec (List Subscription)
  | 0, _, acc => .ok acc.reverse
  | fuel + 1, off, acc =>
    if off < buf.length then
      match wrapErr "ErrMalformedTopic" (decodeString buf off) with
      | .error e => .error e
      | .ok (filter, o1) => unsubscribeFilters buf fuel o1 ({ filter := filter } :: acc)
    else .ok acc.reverse

def unsubscribeDecode (pk : Packet) (buf : Str) : Dec Packet := do
  let (id, off) ← wrapErr "ErrMalformedPacketID" (decodeUint16 buf 0)
  let pk := { pk with packetID := id }
  let (pk, off) ← (if pk.protocolVersion == 5 then do
      let (props, off) ← decodePropsAt "ErrMalformedProperties" pk.fixedHeader.type buf off pk.properties
      pure ({ pk with properties := props }, off)
    else pure (pk, off))
  let fs ← unsubscribeFilters buf (buf.length + 1) off []
  pure { pk with filters := fs }

def authDecode (pk : Packet) (buf : Str) : Dec Packet :=
  if pk.fixedHeader.remaining == 0 then pure pk
  else do
    let (rc, off) ← wrapErr "ErrMalformedReasonCode" (decodeByte buf 0)
    let pk := { pk with reasonCode := rc }
    if pk.fixedHeader.remaining > 1 then do
      let (props, _) ← decodePropsAt "ErrMalformedProperties" pk.fixedHeader.type buf off pk.properties
      pure { pk with properties := props }
    else pure pk

/-- dispatch on the packet type, as `Client.ReadPacket` does; `fh.remaining` and `ver` are inputs -/
def decodeBody (ver : Nat) (fh : FixedHeader) (buf : Str) : Dec Packet :=
  let pk : Packet := { protocolVersion := ver, fixedHeader := fh }
  if fh.type == 1 then connectDecode pk buf
  else if fh.type == 2 then connackDecode pk buf
  else if fh.type == 3 then publishDecode pk buf
  else if fh.type == 4 || fh.type == 5 || fh.type == 6 || fh.type == 7 then ackDecode pk buf
  else if fh.type == 8 then subscribeDecode pk buf
  else if fh.type == 9 then subackDecode pk buf
  else if fh.type == 10 then unsubscribeDecode pk buf
  else if fh.type == 11 then unsubackDecode pk buf
  else if fh.type == 12 || fh.type == 13 then pure pk
  else if fh.type == 14 then disconnectDecode pk buf
  else if fh.type == 15 then authDecode pk buf
  else err "ErrNoValidPacketAvailable"

end Mochi.Codec
