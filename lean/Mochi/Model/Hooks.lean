/-!
# M12 — the hook dispatcher of hooks.go (`type Hooks`)

A hook is a record of behaviours, one field per method of the Go `Hook` interface that returns something
or may modify what it is given; the defaults are `HookBase`'s methods.  `Hooks` is the list of added hooks
in registration order (`Hooks.internal`, appended to by `Add`).  Every dispatcher method of `Hooks` is
modelled function for function over that list: which hooks are consulted (`hook.Provides(<const>)`), in
which order, what is threaded from one hook to the next, when the loop returns early, what the dispatcher
returns — and the **trace** of the calls made: (index of the hook, method, the arguments it was given, what it
returned).  The `*Client` argument is passed through verbatim by every dispatcher and is left out (the
harness checks the pointer's identity in every call).

A packet is abstracted to a kind (the packet type) and an opaque payload the hooks can rewrite.  `Will`,
`*Subscribers`, the stored-data slices and `storage.SystemInfo.Version` are opaque byte lists likewise.

Core Lean only (the driver links this file).
-/
namespace Mochi.Hooks

/-- the `byte` constants of hooks.go:19-58 (`SetOptions = iota` … `StoredSysInfo`), in that order -/
inductive Method where
  | setOptions | onSysInfoTick | onStarted | onStopped | onConnectAuthenticate | onACLCheck | onConnect
  | onSessionEstablish | onSessionEstablished | onDisconnect | onAuthPacket | onPacketRead | onPacketEncode
  | onPacketSent | onPacketProcessed | onSubscribe | onSubscribed | onSelectSubscribers | onUnsubscribe
  | onUnsubscribed | onPublish | onPublished | onPublishDropped | onRetainMessage | onRetainPublished
  | onQosPublish | onQosComplete | onQosDropped | onPacketIDExhausted | onWill | onWillSent
  | onClientExpired | onRetainedExpired | storedClients | storedSubscriptions | storedInflightMessages
  | storedRetainedMessages | storedSysInfo
deriving DecidableEq, Repr

/-- every constant, in `iota` order: `(Method.all[i]).code = i` -/
def Method.all : List Method :=
  [.setOptions, .onSysInfoTick, .onStarted, .onStopped, .onConnectAuthenticate, .onACLCheck, .onConnect,
   .onSessionEstablish, .onSessionEstablished, .onDisconnect, .onAuthPacket, .onPacketRead, .onPacketEncode,
   .onPacketSent, .onPacketProcessed, .onSubscribe, .onSubscribed, .onSelectSubscribers, .onUnsubscribe,
   .onUnsubscribed, .onPublish, .onPublished, .onPublishDropped, .onRetainMessage, .onRetainPublished,
   .onQosPublish, .onQosComplete, .onQosDropped, .onPacketIDExhausted, .onWill, .onWillSent,
   .onClientExpired, .onRetainedExpired, .storedClients, .storedSubscriptions, .storedInflightMessages,
   .storedRetainedMessages, .storedSysInfo]

/-- the value of the Go constant -/
def Method.code (m : Method) : Nat := Method.all.idxOf m

/-- errors a hook can return, by what `errors.Is` sees in them.  `reject` / `ignore` are the bare sentinels
    `packets.ErrRejectPacket` / `packets.CodeSuccessIgnore`; `wrapReject t` / `wrapIgnore t` are errors that
    wrap a sentinel (`fmt.Errorf("…%w", …)`), told apart by a tag; `other t` is any other error;
    `initWrap e` is `Hooks.Add`'s `fmt.Errorf("failed initialising %s hook: %w", …, e)`. -/
inductive Err where
  | reject
  | ignore
  | wrapReject (tag : Nat)
  | wrapIgnore (tag : Nat)
  | other (tag : Nat)
  | initWrap (e : Err)
deriving DecidableEq, Repr

/-- `errors.Is(err, packets.ErrRejectPacket)` -/
def Err.isReject : Err → Bool
  | .reject => true
  | .wrapReject _ => true
  | .initWrap e => e.isReject
  | _ => false

/-- `errors.Is(err, packets.CodeSuccessIgnore)` -/
def Err.isIgnore : Err → Bool
  | .ignore => true
  | .wrapIgnore _ => true
  | .initWrap e => e.isIgnore
  | _ => false

abbrev Bytes := List Nat

/-- a packet as far as the dispatcher is concerned: its type and something the hooks may rewrite -/
structure Pkt where
  kind : Nat := 0
  payload : Bytes := []
deriving DecidableEq, Repr

/-- the arguments one hook method is called with (besides the client) -/
inductive Arg where
  | unit                                         -- OnStarted(), OnStopped(), OnSysInfoTick(sys), OnClientExpired(cl), Stored*()
  | pkt (p : Pkt)                                -- (cl, pk); OnWill(cl, will)
  | pktErr (p : Pkt) (e : Option Err)            -- OnPacketProcessed(cl, pk, err)
  | pktBytes (p : Pkt) (b : Bytes)               -- OnPacketSent(cl, pk, b), OnSubscribed(cl, pk, reasonCodes)
  | pktNums (p : Pkt) (ns : List Nat)            -- OnRetainMessage(cl, pk, r), OnQosPublish(cl, pk, sent, resends)
  | disc (e : Option Err) (expire : Bool)        -- OnDisconnect(cl, err, expire)
  | acl (topic : Bytes) (write : Bool)           -- OnACLCheck(cl, topic, write)
  | str (s : Bytes)                              -- OnRetainedExpired(filter)
  | subs (s : Bytes) (p : Pkt)                   -- OnSelectSubscribers(subs, pk)
deriving DecidableEq, Repr

/-- what one hook method returned -/
inductive Out where
  | unit
  | bool (b : Bool)
  | err (e : Option Err)
  | pkt (p : Pkt)
  | pktErr (p : Pkt) (e : Option Err)
  | subs (s : Bytes)
  | stored (v : Bytes) (e : Option Err)
deriving DecidableEq, Repr

/-- one call of a hook method made by a dispatcher -/
structure Call where
  idx : Nat          -- position of the hook in registration order
  method : Method
  input : Arg
  output : Out
deriving DecidableEq, Repr

/-- a hook: `Provides` and every method whose result the dispatcher looks at.  Defaults = `HookBase`. -/
structure Hook where
  provides : Method → Bool := fun _ => false
  initErr : Option Err := none                                        -- Init(config)
  stopErr : Option Err := none                                        -- Stop()
  onConnectAuthenticate : Pkt → Bool := fun _ => false
  onACLCheck : Bytes → Bool → Bool := fun _ _ => false
  onConnect : Pkt → Option Err := fun _ => none
  onAuthPacket : Pkt → Pkt × Option Err := fun p => (p, none)
  onPacketRead : Pkt → Pkt × Option Err := fun p => (p, none)
  onPacketEncode : Pkt → Pkt := fun p => p
  onSubscribe : Pkt → Pkt := fun p => p
  onSelectSubscribers : Bytes → Pkt → Bytes := fun s _ => s
  onUnsubscribe : Pkt → Pkt := fun p => p
  onPublish : Pkt → Pkt × Option Err := fun p => (p, none)
  onWill : Pkt → Pkt × Option Err := fun w => (w, none)
  storedClients : Bytes × Option Err := ([], none)
  storedSubscriptions : Bytes × Option Err := ([], none)
  storedInflightMessages : Bytes × Option Err := ([], none)
  storedRetainedMessages : Bytes × Option Err := ([], none)
  storedSysInfo : Bytes × Option Err := ([], none)                    -- (v.Version, err)

/-! ## `Hooks` itself: `Len`, `Provides`, `Add`, `GetAll`, `Stop` -/

/-- `Hooks.GetAll()` -/
abbrev getAll (hs : List Hook) : List Hook := hs

/-- `Hooks.Len()` (`qty` is incremented exactly when a hook is appended) -/
def len (hs : List Hook) : Nat := hs.length

/-- `Hooks.Provides(b...)`: some hook provides some of the requested methods -/
def providesAny (hs : List Hook) (bs : List Method) : Bool :=
  hs.any fun h => bs.any fun b => h.provides b

/-- `Hooks.Add(hook, config)`: `Init` first; on error the hook is not added and the error comes back wrapped -/
def add (hs : List Hook) (h : Hook) : List Hook × Option Err :=
  match h.initErr with
  | some e => (hs, some (.initWrap e))
  | none => (hs ++ [h], none)

/-- `Hooks.Stop()`: every hook's `Stop` is called, in registration order, whatever it provides; its error is
    only logged.  The result is the order of the `Stop` calls. -/
def stop (hs : List Hook) : List Nat := List.range hs.length

/-! ## The loop every dispatcher is written with

```go
for _, hook := range h.GetAll() {
    if hook.Provides(<m>) {
        … hook.<m>(…) …          // may `return`, may `continue`, may update the loop-carried value
    }
}
return …
```
-/

/-- how one iteration ends: go on with a new loop-carried value, or return from the dispatcher -/
inductive Step (σ ρ : Type) where
  | next (s : σ)
  | stop (r : ρ)

/-- one iteration on a providing hook: what the hook was called with, what it returned, how the iteration ends -/
structure Iter (σ ρ : Type) where
  input : Arg
  output : Out
  step : Step σ ρ

/-- the loop: `i` is the index of the head of the remaining list, `s` the loop-carried value -/
def loop {σ ρ : Type} (m : Method) (body : Hook → σ → Iter σ ρ) (fin : σ → ρ) :
    Nat → σ → List Hook → ρ × List Call
  | _, s, [] => (fin s, [])
  | i, s, h :: hs =>
    if h.provides m then
      let it := body h s
      let c : Call := { idx := i, method := m, input := it.input, output := it.output }
      match it.step with
      | .stop r => (r, [c])
      | .next s' => ((loop m body fin (i + 1) s' hs).1, c :: (loop m body fin (i + 1) s' hs).2)
    else loop m body fin (i + 1) s hs

/-- indices (from `i`) of the hooks that provide `m`, in registration order -/
def providersFrom (m : Method) : Nat → List Hook → List Nat
  | _, [] => []
  | i, h :: hs => if h.provides m then i :: providersFrom m (i + 1) hs else providersFrom m (i + 1) hs

def providers (m : Method) (hs : List Hook) : List Nat := providersFrom m 0 hs

/-! ## Notify-all dispatchers (no result; every providing hook is called with the dispatcher's arguments) -/

def notifyBody (a : Arg) : Hook → Unit → Iter Unit Unit :=
  fun _ _ => { input := a, output := .unit, step := .next () }

def notify (m : Method) (a : Arg) (hs : List Hook) : List Call :=
  (loop m (notifyBody a) (fun _ => ()) 0 () hs).2

/-- hooks.go:201 -/ def onSysInfoTick (hs : List Hook) : List Call := notify .onSysInfoTick .unit hs
/-- hooks.go:210 -/ def onStarted (hs : List Hook) : List Call := notify .onStarted .unit hs
/-- hooks.go:219 -/ def onStopped (hs : List Hook) : List Call := notify .onStopped .unit hs
/-- hooks.go:242 -/ def onSessionEstablish (hs : List Hook) (pk : Pkt) : List Call := notify .onSessionEstablish (.pkt pk) hs
/-- hooks.go:251 -/ def onSessionEstablished (hs : List Hook) (pk : Pkt) : List Call := notify .onSessionEstablished (.pkt pk) hs
/-- hooks.go:260 -/ def onDisconnect (hs : List Hook) (e : Option Err) (expire : Bool) : List Call := notify .onDisconnect (.disc e expire) hs
/-- hooks.go:318 -/ def onPacketProcessed (hs : List Hook) (pk : Pkt) (e : Option Err) : List Call := notify .onPacketProcessed (.pktErr pk e) hs
/-- hooks.go:328 -/ def onPacketSent (hs : List Hook) (pk : Pkt) (b : Bytes) : List Call := notify .onPacketSent (.pktBytes pk b) hs
/-- hooks.go:350 -/ def onSubscribed (hs : List Hook) (pk : Pkt) (codes : Bytes) : List Call := notify .onSubscribed (.pktBytes pk codes) hs
/-- hooks.go:385 -/ def onUnsubscribed (hs : List Hook) (pk : Pkt) : List Call := notify .onUnsubscribed (.pkt pk) hs
/-- hooks.go:425 -/ def onPublished (hs : List Hook) (pk : Pkt) : List Call := notify .onPublished (.pkt pk) hs
/-- hooks.go:435 -/ def onPublishDropped (hs : List Hook) (pk : Pkt) : List Call := notify .onPublishDropped (.pkt pk) hs
/-- hooks.go:444 -/ def onRetainMessage (hs : List Hook) (pk : Pkt) (r : Nat) : List Call := notify .onRetainMessage (.pktNums pk [r]) hs
/-- hooks.go:453 -/ def onRetainPublished (hs : List Hook) (pk : Pkt) : List Call := notify .onRetainPublished (.pkt pk) hs
/-- hooks.go:464 -/ def onQosPublish (hs : List Hook) (pk : Pkt) (sent resends : Nat) : List Call := notify .onQosPublish (.pktNums pk [sent, resends]) hs
/-- hooks.go:475 -/ def onQosComplete (hs : List Hook) (pk : Pkt) : List Call := notify .onQosComplete (.pkt pk) hs
/-- hooks.go:486 -/ def onQosDropped (hs : List Hook) (pk : Pkt) : List Call := notify .onQosDropped (.pkt pk) hs
/-- hooks.go:496 -/ def onPacketIDExhausted (hs : List Hook) (pk : Pkt) : List Call := notify .onPacketIDExhausted (.pkt pk) hs
/-- hooks.go:527 -/ def onWillSent (hs : List Hook) (pk : Pkt) : List Call := notify .onWillSent (.pkt pk) hs
/-- hooks.go:536 -/ def onClientExpired (hs : List Hook) : List Call := notify .onClientExpired .unit hs
/-- hooks.go:545 -/ def onRetainedExpired (hs : List Hook) (filter : Bytes) : List Call := notify .onRetainedExpired (.str filter) hs

/-! ## First-error dispatcher -/

def connectBody (pk : Pkt) : Hook → Unit → Iter Unit (Option Err) :=
  fun h _ =>
    { input := .pkt pk, output := .err (h.onConnect pk),
      step := match h.onConnect pk with
        | some e => .stop (some e)              -- `if err != nil { return err }`
        | none => .next () }

/-- hooks.go:228 `OnConnect`: the first error returned by a providing hook is returned at once -/
def onConnect (hs : List Hook) (pk : Pkt) : Option Err × List Call :=
  loop .onConnect (connectBody pk) (fun _ => none) 0 () hs

/-! ## Chains -/

/-- `pk = hook.<M>(cl, pk)` -/
def pureBody (f : Hook → Pkt → Pkt) : Hook → Pkt → Iter Pkt Pkt :=
  fun h p => { input := .pkt p, output := .pkt (f h p), step := .next (f h p) }

/-- hooks.go:307 `OnPacketEncode`: `pk = hook.OnPacketEncode(cl, pk)` -/
def onPacketEncode (hs : List Hook) (pk : Pkt) : Pkt × List Call :=
  loop .onPacketEncode (pureBody (·.onPacketEncode)) (fun p => p) 0 pk hs

/-- hooks.go:340 `OnSubscribe` -/
def onSubscribe (hs : List Hook) (pk : Pkt) : Pkt × List Call :=
  loop .onSubscribe (pureBody (·.onSubscribe)) (fun p => p) 0 pk hs

/-- hooks.go:375 `OnUnsubscribe` -/
def onUnsubscribe (hs : List Hook) (pk : Pkt) : Pkt × List Call :=
  loop .onUnsubscribe (pureBody (·.onUnsubscribe)) (fun p => p) 0 pk hs

def selectBody (pk : Pkt) : Hook → Bytes → Iter Bytes Bytes :=
  fun h s => { input := .subs s pk, output := .subs (h.onSelectSubscribers s pk), step := .next (h.onSelectSubscribers s pk) }

/-- hooks.go:362 `OnSelectSubscribers`: `subs = hook.OnSelectSubscribers(subs, pk)`; `pk` is the same for all -/
def onSelectSubscribers (hs : List Hook) (subs : Bytes) (pk : Pkt) : Bytes × List Call :=
  loop .onSelectSubscribers (selectBody pk) (fun s => s) 0 subs hs

def readBody (pk : Pkt) : Hook → Pkt → Iter Pkt (Pkt × Option Err) :=
  fun h pkx =>
    { input := .pkt pkx, output := .pktErr (h.onPacketRead pkx).1 (h.onPacketRead pkx).2,
      step := match (h.onPacketRead pkx).2 with
        | some e => if e.isReject then .stop (pk, some e)     -- `return pk, err`
                    else .next pkx                             -- `continue`
        | none => .next (h.onPacketRead pkx).1 }                -- `pkx = npk`

/-- hooks.go:269 `OnPacketRead`.  A hook's error that `errors.Is` `ErrRejectPacket` ends the loop with
    `(pk, err)` — the ORIGINAL packet; any other error makes the loop `continue`: the hook's packet is
    discarded, the error is dropped (the inner `err` shadows the named result, which stays nil), the next
    hook receives what this hook received.  At the end: `(pkx, nil)`. -/
def onPacketRead (hs : List Hook) (pk : Pkt) : (Pkt × Option Err) × List Call :=
  loop .onPacketRead (readBody pk) (fun pkx => (pkx, none)) 0 pk hs

def authBody (pk : Pkt) : Hook → Pkt → Iter Pkt (Pkt × Option Err) :=
  fun h pkx =>
    { input := .pkt pkx, output := .pktErr (h.onAuthPacket pkx).1 (h.onAuthPacket pkx).2,
      step := match (h.onAuthPacket pkx).2 with
        | some e => .stop (pk, some e)
        | none => .next (h.onAuthPacket pkx).1 }

/-- hooks.go:290 `OnAuthPacket`: any error ends the loop with `(pk, err)` — the ORIGINAL packet -/
def onAuthPacket (hs : List Hook) (pk : Pkt) : (Pkt × Option Err) × List Call :=
  loop .onAuthPacket (authBody pk) (fun pkx => (pkx, none)) 0 pk hs

def publishBody (pk : Pkt) : Hook → Pkt → Iter Pkt (Pkt × Option Err) :=
  fun h pkx =>
    { input := .pkt pkx, output := .pktErr (h.onPublish pkx).1 (h.onPublish pkx).2,
      step := match (h.onPublish pkx).2 with
        | some e =>
          if e.isReject then .stop (pk, some e)           -- logged at Debug, `return pk, err`
          else if e.isIgnore then .stop (pk, some e)      -- `return pk, err`
          else .stop (pk, some e)                         -- logged at Error, `return pk, err`
        | none => .next (h.onPublish pkx).1 }

/-- hooks.go:396 `OnPublish`: reject, ignore and every other error all end the loop with `(pk, err)` — the
    ORIGINAL packet (the three branches differ in what they log); at the end `(pkx, nil)` -/
def onPublish (hs : List Hook) (pk : Pkt) : (Pkt × Option Err) × List Call :=
  loop .onPublish (publishBody pk) (fun pkx => (pkx, none)) 0 pk hs

def willBody : Hook → Pkt → Iter Pkt Pkt :=
  fun h w =>
    { input := .pkt w, output := .pktErr (h.onWill w).1 (h.onWill w).2,
      step := match (h.onWill w).2 with
        | some _ => .next w                                -- logged, `continue`
        | none => .next (h.onWill w).1 }

/-- hooks.go:508 `OnWill`: a hook's error is logged and the loop `continue`s with the will it had; no error
    is returned -/
def onWill (hs : List Hook) (will : Pkt) : Pkt × List Call :=
  loop .onWill willBody (fun w => w) 0 will hs

/-! ## Stored data: the first providing hook with an error or a non-empty answer -/

def storedBody (get : Hook → Bytes × Option Err) : Hook → Unit → Iter Unit (Bytes × Option Err) :=
  fun h _ =>
    { input := .unit, output := .stored (get h).1 (get h).2,
      step := match (get h).2 with
        | some e => .stop ((get h).1, some e)                                   -- `return v, err`
        | none => if (get h).1.length > 0 then .stop ((get h).1, none)          -- `return v, nil`
                  else .next () }

/-- the common body of `StoredClients` … `StoredRetainedMessages` (hooks.go:555-631): an error returns
    `(v, err)` with the hook's own `v`; a non-empty `v` returns `(v, nil)`; an empty one goes on; at the end
    the zero results `(nil, nil)` -/
def storedLoop (m : Method) (get : Hook → Bytes × Option Err) (hs : List Hook) : (Bytes × Option Err) × List Call :=
  loop m (storedBody get) (fun _ => ([], none)) 0 () hs

/-- hooks.go:555 -/ def storedClients (hs : List Hook) := storedLoop .storedClients (·.storedClients) hs
/-- hooks.go:575 -/ def storedSubscriptions (hs : List Hook) := storedLoop .storedSubscriptions (·.storedSubscriptions) hs
/-- hooks.go:595 -/ def storedInflightMessages (hs : List Hook) := storedLoop .storedInflightMessages (·.storedInflightMessages) hs
/-- hooks.go:615 -/ def storedRetainedMessages (hs : List Hook) := storedLoop .storedRetainedMessages (·.storedRetainedMessages) hs
/-- hooks.go:634 `StoredSysInfo`: "non-empty" is `v.Version != ""` -/
def storedSysInfo (hs : List Hook) := storedLoop .storedSysInfo (·.storedSysInfo) hs

/-! ## Any-of dispatchers -/

def anyBody (a : Arg) (ask : Hook → Bool) : Hook → Unit → Iter Unit Bool :=
  fun h _ => { input := a, output := .bool (ask h), step := if ask h then .stop true else .next () }

/-- the common body of `OnConnectAuthenticate` / `OnACLCheck`: the first providing hook that says yes
    decides; otherwise no -/
def anyLoop (m : Method) (a : Arg) (ask : Hook → Bool) (hs : List Hook) : Bool × List Call :=
  loop m (anyBody a ask) (fun _ => false) 0 () hs

/-- hooks.go:656 -/
def onConnectAuthenticate (hs : List Hook) (pk : Pkt) : Bool × List Call :=
  anyLoop .onConnectAuthenticate (.pkt pk) (·.onConnectAuthenticate pk) hs

/-- hooks.go:672 -/
def onACLCheck (hs : List Hook) (topic : Bytes) (write : Bool) : Bool × List Call :=
  anyLoop .onACLCheck (.acl topic write) (·.onACLCheck topic write) hs

/-! ## The caller of `OnPacketRead`: `Client.Read` / `ReadPacket` (clients.go:380-400, 527)

`ReadPacket` ends with `pk, err = cl.ops.hooks.OnPacketRead(cl, pk); return`, and `Read` does
`pk, err := cl.ReadPacket(fh); if err != nil { return err }; err = packetHandler(cl, pk)`.  So a packet for
which the dispatcher returns an error ends `Read` before the handler runs. -/

/-- the decoded packets of a stream ↦ (packets handed to the handler, `Read`'s hook error if any), calls -/
def readLoop (hs : List Hook) : List Pkt → (List Pkt × Option Err) × List Call
  | [] => (([], none), [])
  | pk :: rest =>
    match (onPacketRead hs pk).1.2 with
    | some e => (([], some e), (onPacketRead hs pk).2)
    | none => (((onPacketRead hs pk).1.1 :: (readLoop hs rest).1.1, (readLoop hs rest).1.2),
               (onPacketRead hs pk).2 ++ (readLoop hs rest).2)

end Mochi.Hooks
