import Mochi.Model.Broker
import Mochi.Props.C03
/-!
# C06 — Each shared-subscription group receives each matching message exactly once

Model: `selectShared` (topics.go `Subscribers.SelectShared`), for **every** resolution `pickSeed` of
Go's map iteration.  One member is picked per *candidate map entry*; known finding F06 (recorded): the
candidate map is keyed by the full filter string, so one share name with two different matching
filters yields two entries and possibly two receivers (`C06_two_filters_counterexample`).
-/
namespace Mochi.Broker
open Mochi.Topics

theorem assocSet_length_le {β} (m : List (Str × β)) (k : Str) (v : β) : (assocSet m k v).length ≤ m.length + 1 := by
  induction m with
  | nil => simp [assocSet]
  | cons x xs ih =>
    obtain ⟨a, b⟩ := x
    unfold assocSet
    split <;> simp <;> omega

theorem selectOne_length (acc : List (Str × Sub) × Nat) (g : Str × List (Str × Sub)) :
    (selectOne acc g).1.length ≤ acc.1.length + 1 := by
  unfold selectOne
  split
  · simp
  · split <;> exact assocSet_length_le _ _ _

theorem selectOne_nodup (acc : List (Str × Sub) × Nat) (g : Str × List (Str × Sub))
    (h : (acc.1.map Prod.fst).Nodup) : ((selectOne acc g).1.map Prod.fst).Nodup := by
  unfold selectOne
  split
  · exact h
  · split <;> exact nodup_assocSet _ _ _ h

/-- at most one member is selected per candidate entry, whatever the map order -/
theorem C06_at_most_one_per_entry (seed : Nat) (r : Subscribers) :
    (selectShared seed r).length ≤ r.shared.length := by
  unfold selectShared
  suffices ∀ (l : List (Str × List (Str × Sub))) (acc : List (Str × Sub) × Nat),
      (l.foldl selectOne acc).1.length ≤ acc.1.length + l.length from by
    have := this r.shared ([], seed); simpa using this
  intro l
  induction l with
  | nil => intro acc; simp
  | cons g rest ih =>
    intro acc
    simp only [List.foldl_cons, List.length_cons]
    have := ih (selectOne acc g)
    have h2 := selectOne_length acc g
    omega

/-- no client appears twice in the selection (so it is merged into the subscriber map once) -/
theorem C06_selected_once (seed : Nat) (r : Subscribers) : ((selectShared seed r).map Prod.fst).Nodup := by
  unfold selectShared
  suffices ∀ (l : List (Str × List (Str × Sub))) (acc : List (Str × Sub) × Nat), (acc.1.map Prod.fst).Nodup →
      ((l.foldl selectOne acc).1.map Prod.fst).Nodup from this r.shared ([], seed) (by simp)
  intro l
  induction l with
  | nil => intro acc h; simpa using h
  | cons g rest ih => intro acc h; exact ih _ (selectOne_nodup acc g h)

/-- F06 (recorded): one share name, two matching filters ⇒ two candidate entries ⇒ two members can be
    selected for one publish -/
theorem C06_two_filters_counterexample :
    (selectShared 0 { shared := [([36,115,104,97,114,101,47,103,47,97,47,43], [([99, 49], { filter := [36,115,104,97,114,101,47,103,47,97,47,43] })]),
                                 ([36,115,104,97,114,101,47,103,47,97,47,35], [([99, 50], { filter := [36,115,104,97,114,101,47,103,47,97,47,35] })])] }).length = 2 := by
  decide

end Mochi.Broker
