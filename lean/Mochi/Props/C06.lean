import Mochi.Model.Broker
import Mochi.Props.C03
import Mochi.Lemmas.BrokerShared
/-!
# C06 — Each shared-subscription group receives each matching message exactly once

Model: `selectShared` (topics.go `Subscribers.SelectShared`), for **every** resolution `pickSeed` of
Go's map iteration.  One member is picked per *candidate map entry*; known finding F06 (recorded): the
candidate map is keyed by the full filter string, so one share name with two different matching
filters yields two entries and possibly two receivers (`C06_two_filters_counterexample`).
-/
namespace Mochi.Broker
open Mochi.Topics

theorem assocSet_length_le {β} (m : List (Str × β)) (k : Str) (v : β) : (assocSet m k v).length ≤ m.length + 1 := by
  induction m with
  | nil => simp [assocSet]
  | cons x xs ih =>
    obtain ⟨a, b⟩ := x
    unfold assocSet
    split <;> simp <;> omega

theorem selectOne_length (acc : List (Str × Sub) × Nat) (g : Str × List (Str × Sub)) :
    (selectOne acc g).1.length ≤ acc.1.length + 1 := by
  unfold selectOne
  split
  · simp
  · split <;> exact assocSet_length_le _ _ _

theorem selectOne_nodup (acc : List (Str × Sub) × Nat) (g : Str × List (Str × Sub))
    (h : (acc.1.map Prod.fst).Nodup) : ((selectOne acc g).1.map Prod.fst).Nodup := by
  unfold selectOne
  split
  · exact h
  · split <;> exact nodup_assocSet _ _ _ h

/-- at most one member is selected per candidate entry, whatever the map order -/
theorem C06_at_most_one_per_entry (seed : Nat) (r : Subscribers) :
    (selectShared seed r).length ≤ r.shared.length := by
  unfold selectShared
  suffices ∀ (l : List (Str × List (Str × Sub))) (acc : List (Str × Sub) × Nat),
      (l.foldl selectOne acc).1.length ≤ acc.1.length + l.length from by
    have := this r.shared ([], seed); simpa using this
  intro l
  induction l with
  | nil => intro acc; simp
  | cons g rest ih =>
    intro acc
    simp only [List.foldl_cons, List.length_cons]
    have := ih (selectOne acc g)
    have h2 := selectOne_length acc g
    omega

/-- no client appears twice in the selection (so it is merged into the subscriber map once) -/
theorem C06_selected_once (seed : Nat) (r : Subscribers) : ((selectShared seed r).map Prod.fst).Nodup := by
  unfold selectShared
  suffices ∀ (l : List (Str × List (Str × Sub))) (acc : List (Str × Sub) × Nat), (acc.1.map Prod.fst).Nodup →
      ((l.foldl selectOne acc).1.map Prod.fst).Nodup from this r.shared ([], seed) (by simp)
  intro l
  induction l with
  | nil => intro acc h; simpa using h
  | cons g rest ih => intro acc h; exact ih _ (selectOne_nodup acc g h)

/-- F06 (recorded): one share name, two matching filters ⇒ two candidate entries ⇒ two members can be
    selected for one publish -/
theorem C06_two_filters_counterexample :
    (selectShared 0 { shared := [([36,115,104,97,114,101,47,103,47,97,47,43], [([99, 49], { filter := [36,115,104,97,114,101,47,103,47,97,47,43] })]),
                                 ([36,115,104,97,114,101,47,103,47,97,47,35], [([99, 50], { filter := [36,115,104,97,114,101,47,103,47,97,47,35] })])] }).length = 2 := by
  decide

/-! ## The delivery theorem with shared subscriptions (state level)

`selectShared_exact`, `subsMapOf`, `EntitledShared`, `PickedWith`, `EntitledPicked`, `NoLocalMixedShared`:
`Mochi/Lemmas/BrokerShared.lean`. -/

/-- **Item 2 — `publishToSubscribers_writes_exact` without the hypothesis `shared = []`.**  State `s` with
    well-formed tables (`WF`) and one connection per client object (`ConnDistinct`); `pk` an application message
    (PUBLISH, not marked "ignore") of QoS 0.  For every resolution `s.pickSeed`, `s.orderSeed` of Go's map order:

    1. a PUBLISH is written to connection `n` **iff** `EntitledShared s pk n`: `n` is the connection of a client
       object registered under its id `cid`, open, not inline, peer not gone, `cid` may read the topic; `cid` has an
       entry in the map of matching plain subscriptions OR is the member picked (`pickAt s.pickSeed`, entries
       visited in the order `permuteBy s.orderSeed`) for some matching candidate entry; and it is not the case that
       `cid` is the publisher and No Local is set on its merged plain entry or on a subscription it was picked with
       (**F03**: `Merge` ORs No Local over everything merged under one client id);
    2. whoever is written is entitled through its plain entry (`EntitledVia … subs`) or as a picked member
       (`EntitledPicked`); outside the F03 situation (`NoLocalMixedShared`) that disjunction is exact;
    3. connection `n` is written **at most one** PUBLISH, also when it is entitled both ways or picked for several
       entries (`C03_merge_one_entry`);
    4. every output is an inline delivery or a copy of the message.

    **F06** is explicit in "candidate entry": the candidate map is keyed by the full filter string, so one share
    name with two matching filters is two entries, each with its own pick (`C06_two_filters_counterexample`). -/
theorem publishToSubscribers_writes_exact_shared (s : Server) (hw : WF s) (hcd : ConnDistinct s) (pk : Msg)
    (hig : pk.ignore = false) (ht : pk.type = 3) (hq : pk.qos = 0) (n : Nat) :
    ((∃ ver m me, Out.wrote n (.publish ver m me) ∈ (publishToSubscribers s pk).2) ↔ EntitledShared s pk n) ∧
    (EntitledShared s pk n → EntitledVia s pk (subscribers s.topics pk.topic).subs n ∨ EntitledPicked s pk n) ∧
    (¬ NoLocalMixedShared s pk →
      (EntitledShared s pk n ↔ EntitledVia s pk (subscribers s.topics pk.topic).subs n ∨ EntitledPicked s pk n)) ∧
    ((publishToSubscribers s pk).2.filterMap pubConn).count n ≤ 1 ∧
    ∀ x ∈ (publishToSubscribers s pk).2, (∃ id, x = Out.inline id pk.topic pk.payload) ∨ IsCopy pk x := by
  obtain ⟨h1, h2⟩ := publishToSubscribers_pubConns_shared s pk (fun id i h => (hw.clients_valid id i h).1) hig ht
    (Or.inl hq)
  refine ⟨?_, EntitledShared.or, fun hmix => entitledShared_iff_or hmix n, ?_, h2⟩
  · rw [← mem_pubConns, h1, mem_recipients s hw pk _ n]
    exact entitledVia_subsMapOf_iff s pk n
  · rw [h1]
    exact List.nodup_iff_count.mp (recipients_nodup s hw hcd pk _ (subsMapOf_nodup s pk.topic)) n

/-- with no matching shared subscription this is `publishToSubscribers_writes_exact` again -/
theorem entitledShared_of_no_shared (s : Server) (pk : Msg) (hsh : (subscribers s.topics pk.topic).shared = [])
    (n : Nat) : EntitledShared s pk n ↔ EntitledVia s pk (subscribers s.topics pk.topic).subs n := by
  have hnp : ∀ cid sub, ¬ PickedWith s pk.topic cid sub := by
    rintro cid sub ⟨k, hk⟩
    unfold visitOrder at hk
    rw [hsh] at hk
    simp [permuteBy_nil, pickAt] at hk
  have hmix : ¬ NoLocalMixedShared s pk := by
    rintro ⟨sub, sub', h1, hn, h2, hn'⟩
    rcases h1 with h1 | h1
    · rcases h2 with h2 | h2
      · have hnd := C03_one_entry_per_client s.topics pk.topic
        have a := assocGet_of_mem_nodup _ _ _ hnd h1
        rw [assocGet_of_mem_nodup _ _ _ hnd h2] at a
        cases a
        rw [hn] at hn'
        cases hn'
      · exact hnp _ _ h2
    · exact hnp _ _ h1
  rw [entitledShared_iff_or hmix]
  constructor
  · rintro (h | ⟨cid, i, sub, _, _, _, _, _, hs, _⟩)
    · exact h
    · exact absurd ((mem_sharedPicks _ _ _ _).mp hs) (hnp _ _)
  · exact Or.inl

end Mochi.Broker

#print axioms Mochi.Broker.selectShared_exact
#print axioms Mochi.Broker.publishToSubscribers_writes_exact_shared
