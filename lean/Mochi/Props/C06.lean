import Mochi.Model.Broker
import Mochi.Props.C03
import Mochi.Lemmas.BrokerShared
/-!
# C06 — Each shared-subscription group receives each matching message exactly once

Model: `selectShared` (topics.go `Subscribers.SelectShared`), for **every** resolution `pickSeed` of
Go's map iteration.  One member is picked per *candidate map entry*; known finding F06 (recorded): the
candidate map is keyed by the full filter string, so one share name with two different matching
filters yields two entries and possibly two receivers (`C06_two_filters_counterexample`).

Second part (lemmas: `Mochi/Lemmas/BrokerShared.lean`):
* `selectShared_exact` — for every seed the selection holds, per candidate entry, exactly one of its members, and
  nobody else;
* `publishToSubscribers_writes_exact_shared` — the delivery theorem of C03 WITHOUT the hypothesis that no shared
  subscription matches (QoS 0): who is written = `EntitledShared` (plain entry or picked member, No Local merged as in
  F03), at most once per connection; `C06_delivery_exact_reach_partial` on reachable states,
  `recv_publish_delivery_exact_shared` for the op;
* `C06_one_receiver_per_candidate_seq_partial` — every state reachable by a sequential history, every candidate entry
  whose members can all be served, EVERY `pickSeed`/`orderSeed`: exactly one member is picked and written; read as
  "share group" under `NoF06` (`C06_one_receiver_per_group_seq_partial`);
* `C06_full` (C06 as stated) is FALSE of the model and of the broker: `C06_full_false_F06` (finding F06);
* `C06_candidate_entries_exact` — the candidate entries are exactly the shared subscriptions of the index whose topic
  part `specMatch`es the topic.
Partial: QoS 0 only ("or queue", in-flight limits, packet ids not covered), sequential histories (no schedule ops).
-/
namespace Mochi.Broker
open Mochi.Topics

theorem assocSet_length_le {β} (m : List (Str × β)) (k : Str) (v : β) : (assocSet m k v).length ≤ m.length + 1 := by
  induction m with
  | nil => simp [assocSet]
  | cons x xs ih =>
    obtain ⟨a, b⟩ := x
    unfold assocSet
    split <;> simp <;> omega

theorem selectOne_length (acc : List (Str × Sub) × Nat) (g : Str × List (Str × Sub)) :
    (selectOne acc g).1.length ≤ acc.1.length + 1 := by
  unfold selectOne
  split
  · simp
  · split <;> exact assocSet_length_le _ _ _

theorem selectOne_nodup (acc : List (Str × Sub) × Nat) (g : Str × List (Str × Sub))
    (h : (acc.1.map Prod.fst).Nodup) : ((selectOne acc g).1.map Prod.fst).Nodup := by
  unfold selectOne
  split
  · exact h
  · split <;> exact nodup_assocSet _ _ _ h

/-- at most one member is selected per candidate entry, whatever the map order -/
theorem C06_at_most_one_per_entry (seed : Nat) (r : Subscribers) :
    (selectShared seed r).length ≤ r.shared.length := by
  unfold selectShared
  suffices ∀ (l : List (Str × List (Str × Sub))) (acc : List (Str × Sub) × Nat),
      (l.foldl selectOne acc).1.length ≤ acc.1.length + l.length from by
    have := this r.shared ([], seed); simpa using this
  intro l
  induction l with
  | nil => intro acc; simp
  | cons g rest ih =>
    intro acc
    simp only [List.foldl_cons, List.length_cons]
    have := ih (selectOne acc g)
    have h2 := selectOne_length acc g
    omega

/-- no client appears twice in the selection (so it is merged into the subscriber map once) -/
theorem C06_selected_once (seed : Nat) (r : Subscribers) : ((selectShared seed r).map Prod.fst).Nodup := by
  unfold selectShared
  suffices ∀ (l : List (Str × List (Str × Sub))) (acc : List (Str × Sub) × Nat), (acc.1.map Prod.fst).Nodup →
      ((l.foldl selectOne acc).1.map Prod.fst).Nodup from this r.shared ([], seed) (by simp)
  intro l
  induction l with
  | nil => intro acc h; simpa using h
  | cons g rest ih => intro acc h; exact ih _ (selectOne_nodup acc g h)

/-- F06 (recorded): one share name, two matching filters ⇒ two candidate entries ⇒ two members can be
    selected for one publish -/
theorem C06_two_filters_counterexample :
    (selectShared 0 { shared := [([36,115,104,97,114,101,47,103,47,97,47,43], [([99, 49], { filter := [36,115,104,97,114,101,47,103,47,97,47,43] })]),
                                 ([36,115,104,97,114,101,47,103,47,97,47,35], [([99, 50], { filter := [36,115,104,97,114,101,47,103,47,97,47,35] })])] }).length = 2 := by
  decide

/-! ## The delivery theorem with shared subscriptions (state level)

`selectShared_exact`, `subsMapOf`, `EntitledShared`, `PickedWith`, `EntitledPicked`, `NoLocalMixedShared`:
`Mochi/Lemmas/BrokerShared.lean`. -/

/-- **Item 2 — `publishToSubscribers_writes_exact` without the hypothesis `shared = []`.**  State `s` with
    well-formed tables (`WF`) and one connection per client object (`ConnDistinct`); `pk` an application message
    (PUBLISH, not marked "ignore") of QoS 0.  For every resolution `s.pickSeed`, `s.orderSeed` of Go's map order:

    1. a PUBLISH is written to connection `n` **iff** `EntitledShared s pk n`: `n` is the connection of a client
       object registered under its id `cid`, open, not inline, peer not gone, `cid` may read the topic; `cid` has an
       entry in the map of matching plain subscriptions OR is the member picked (`pickAt s.pickSeed`, entries
       visited in the order `permuteBy s.orderSeed`) for some matching candidate entry; and it is not the case that
       `cid` is the publisher and No Local is set on its merged plain entry or on a subscription it was picked with
       (**F03**: `Merge` ORs No Local over everything merged under one client id);
    2. whoever is written is entitled through its plain entry (`EntitledVia … subs`) or as a picked member
       (`EntitledPicked`); outside the F03 situation (`NoLocalMixedShared`) that disjunction is exact;
    3. connection `n` is written **at most one** PUBLISH, also when it is entitled both ways or picked for several
       entries (`C03_merge_one_entry`);
    4. every output is an inline delivery or a copy of the message.

    **F06** is explicit in "candidate entry": the candidate map is keyed by the full filter string, so one share
    name with two matching filters is two entries, each with its own pick (`C06_two_filters_counterexample`). -/
theorem publishToSubscribers_writes_exact_shared (s : Server) (hw : WF s) (hcd : ConnDistinct s) (pk : Msg)
    (hig : pk.ignore = false) (ht : pk.type = 3) (hq : pk.qos = 0) (n : Nat) :
    ((∃ ver m me, Out.wrote n (.publish ver m me) ∈ (publishToSubscribers s pk).2) ↔ EntitledShared s pk n) ∧
    (EntitledShared s pk n → EntitledVia s pk (subscribers s.topics pk.topic).subs n ∨ EntitledPicked s pk n) ∧
    (¬ NoLocalMixedShared s pk →
      (EntitledShared s pk n ↔ EntitledVia s pk (subscribers s.topics pk.topic).subs n ∨ EntitledPicked s pk n)) ∧
    ((publishToSubscribers s pk).2.filterMap pubConn).count n ≤ 1 ∧
    ∀ x ∈ (publishToSubscribers s pk).2, (∃ id, x = Out.inline id pk.topic pk.payload) ∨ IsCopy pk x := by
  obtain ⟨h1, h2⟩ := publishToSubscribers_pubConns_shared s pk (fun id i h => (hw.clients_valid id i h).1) hig ht
    (Or.inl hq)
  refine ⟨?_, EntitledShared.or, fun hmix => entitledShared_iff_or hmix n, ?_, h2⟩
  · rw [← mem_pubConns, h1, mem_recipients s hw pk _ n]
    exact entitledVia_subsMapOf_iff s pk n
  · rw [h1]
    exact List.nodup_iff_count.mp (recipients_nodup s hw hcd pk _ (subsMapOf_nodup s pk.topic)) n

/-- with no matching shared subscription this is `publishToSubscribers_writes_exact` again -/
theorem entitledShared_of_no_shared (s : Server) (pk : Msg) (hsh : (subscribers s.topics pk.topic).shared = [])
    (n : Nat) : EntitledShared s pk n ↔ EntitledVia s pk (subscribers s.topics pk.topic).subs n := by
  have hnp : ∀ cid sub, ¬ PickedWith s pk.topic cid sub := by
    rintro cid sub ⟨k, hk⟩
    unfold visitOrder at hk
    rw [hsh] at hk
    simp [permuteBy_nil, pickAt] at hk
  have hmix : ¬ NoLocalMixedShared s pk := by
    rintro ⟨sub, sub', h1, hn, h2, hn'⟩
    rcases h1 with h1 | h1
    · rcases h2 with h2 | h2
      · have hnd := C03_one_entry_per_client s.topics pk.topic
        have a := assocGet_of_mem_nodup _ _ _ hnd h1
        rw [assocGet_of_mem_nodup _ _ _ hnd h2] at a
        cases a
        rw [hn] at hn'
        cases hn'
      · exact hnp _ _ h2
    · exact hnp _ _ h1
  rw [entitledShared_iff_or hmix]
  constructor
  · rintro (h | ⟨cid, i, sub, _, _, _, _, _, hs, _⟩)
    · exact h
    · exact absurd ((mem_sharedPicks _ _ _ _).mp hs) (hnp _ _)
  · exact Or.inl

/-! ## One receiver per candidate entry, in every state reachable by a sequential history -/

/-- client `c` is the member picked for the candidate entry `g` (one FILTER of one share name) -/
def PickedFor (s : Server) (topic : Str) (g : Str × List (Str × Sub)) (c : Str) : Prop :=
  ∃ k, (visitOrder s topic)[k]? = some g ∧ ChosenAt s.pickSeed (visitOrder s topic) k c

/-- the connection of the client registered as `c` is written a PUBLISH by the publication of `pk` -/
def WrittenTo (s : Server) (pk : Msg) (c : Str) : Prop :=
  ∃ i, (c, i) ∈ s.clients ∧
    ∃ ver m me, Out.wrote (getObj s i).conn (.publish ver m me) ∈ (publishToSubscribers s pk).2

/-- member `c` can be served: registered, its connection open (not the inline client, peer not gone), authorised to
    read the topic, and — if `c` is the publisher itself — No Local is set on none of its matching subscriptions,
    plain or shared (F03: one of them would exclude it from all).  Independent of the seeds. -/
def Servable (s : Server) (pk : Msg) (c : Str) : Prop :=
  (∃ i, (c, i) ∈ s.clients ∧ (getObj s i).isOpen = true ∧ (getObj s i).inline = false ∧
    (getObj s i).peerGone = false) ∧
  aclOk s c pk.topic false = true ∧
  (pk.origin = c →
    (∀ sub, (c, sub) ∈ (subscribers s.topics pk.topic).subs → sub.noLocal = false) ∧
    ∀ g ∈ (subscribers s.topics pk.topic).shared, ∀ sub, (c, sub) ∈ g.2 → sub.noLocal = false)

theorem pickedFor_of_pickedWith {s : Server} {topic c : Str} {sub : Sub} (h : PickedWith s topic c sub) :
    ∃ g ∈ (subscribers s.topics topic).shared, PickedFor s topic g c := by
  obtain ⟨k, hk⟩ := h
  obtain ⟨g, hg, _⟩ := pickAt_mem _ _ _ _ hk
  exact ⟨g, (visitOrder_perm s topic).mem_iff.mp (List.mem_of_getElem? hg), k, hg, sub, hk⟩

/-- state level, on the invariants: for a matching candidate entry all of whose members can be served, exactly one
    member is picked for it and written the message -/
theorem C06_one_receiver_per_candidate_inv (s : Server) (hw : WF s) (hcd : ConnDistinct s) (pk : Msg)
    (hig : pk.ignore = false) (ht : pk.type = 3) (hq : pk.qos = 0)
    (g : Str × List (Str × Sub)) (hg : g ∈ (subscribers s.topics pk.topic).shared)
    (hserv : ∀ m ∈ g.2, Servable s pk m.1) :
    ExactlyOne fun c => c ∈ g.2.map Prod.fst ∧ PickedFor s pk.topic g c ∧ WrittenTo s pk c := by
  have hgv : g ∈ visitOrder s pk.topic := (visitOrder_perm s pk.topic).mem_iff.mpr hg
  obtain ⟨k, hk⟩ := List.getElem?_of_mem hgv
  obtain ⟨cs, hp, hm⟩ := pickAt_some s.pickSeed _ k g hk ((subscribers_sharedOK s.topics pk.topic).ne g hg)
  obtain ⟨⟨i, hreg, ho, hi, hpg⟩, hacl, hnl⟩ := hserv cs hm
  have hpw : PickedWith s pk.topic cs.1 cs.2 := ⟨k, hp⟩
  have hent : EntitledShared s pk (getObj s i).conn := by
    refine ⟨cs.1, i, hreg, rfl, ho, hi, hpg, hacl, Or.inr ⟨cs.2, hpw⟩, ?_⟩
    rintro ⟨horig, hex⟩
    obtain ⟨n1, n2⟩ := hnl horig
    rcases hex with ⟨sub, h, hn⟩ | ⟨sub, h, hn⟩
    · rw [n1 sub h] at hn; cases hn
    · obtain ⟨g', hg', hmem⟩ := pickedWith_member h
      rw [n2 g' hg' sub hmem] at hn; cases hn
  have hwr := (publishToSubscribers_writes_exact_shared s hw hcd pk hig ht hq (getObj s i).conn).1.mpr hent
  refine ⟨cs.1, ⟨List.mem_map.mpr ⟨cs, hm, rfl⟩, ⟨k, hk, cs.2, hp⟩, i, hreg, hwr⟩, ?_⟩
  rintro c' ⟨_, ⟨k', hk', sub', hp'⟩, _⟩
  have hlt : k < (visitOrder s pk.topic).length := by
    rcases List.getElem?_eq_some_iff.mp hk with ⟨h, _⟩
    exact h
  have hkk : k = k' := (List.getElem?_inj hlt (visitOrder_nodup s pk.topic)).mp (hk.trans hk'.symm)
  subst hkk
  rw [hp] at hp'
  cases hp'
  rfl

/-- a client that has no matching plain subscription and was picked for no candidate entry is written nothing -/
theorem C06_unpicked_receives_nothing (s : Server) (hw : WF s) (hcd : ConnDistinct s) (pk : Msg)
    (hig : pk.ignore = false) (ht : pk.type = 3) (hq : pk.qos = 0) (c : Str) (i : Nat)
    (hreg : (c, i) ∈ s.clients) (hin : (getObj s i).inline = false)
    (hplain : c ∉ (subscribers s.topics pk.topic).subs.map Prod.fst)
    (hnp : ¬ ∃ g ∈ (subscribers s.topics pk.topic).shared, PickedFor s pk.topic g c) :
    ¬ ∃ ver m me, Out.wrote (getObj s i).conn (.publish ver m me) ∈ (publishToSubscribers s pk).2 := by
  intro hwr
  obtain ⟨cid, i', h1, h2, _, h4, _, _, h6, _⟩ :=
    (publishToSubscribers_writes_exact_shared s hw hcd pk hig ht hq (getObj s i).conn).1.mp hwr
  have vi := hw.clients_valid _ _ hreg
  have vi' := hw.clients_valid _ _ h1
  have hii : i' = i := hcd i' i vi'.1 vi.1 h4 hin h2
  subst hii
  have hc : cid = c := vi'.2.symm.trans vi.2
  subst hc
  rcases h6 with ⟨sub, h⟩ | ⟨sub, h⟩
  · exact hplain (List.mem_map.mpr ⟨_, h, rfl⟩)
  · exact hnp (pickedFor_of_pickedWith h)

/-- the state with the resolution of Go's map order replaced -/
def withSeeds (s : Server) (pickSeed orderSeed : Nat) : Server :=
  { s with pickSeed := pickSeed, orderSeed := orderSeed }

theorem withSeeds_reach {caps : Caps} {s : Server} (hr : ReachSeq caps s) (p o : Nat) : ReachSeq caps (withSeeds s p o) :=
  hr.config ⟨rfl, rfl, rfl, rfl, rfl, rfl, rfl, rfl⟩

/-- **Item 3 — `C06_one_receiver_per_candidate_seq_partial`.**  `s`: any state reached from `init caps` by a
    sequential history (ops that are not schedule ops, connection numbers fresh, interleaved with configuration
    changes: `ReachSeq`).  `pk`: a QoS 0 publication.  `g`: a candidate entry matching the topic (an entry of
    `(subscribers s.topics pk.topic).shared`: one FILTER of one share name, with the member subscriptions filed under
    it) all of whose members can be served (`Servable`: registered, open, authorised; the publisher, if a member, has
    No Local nowhere).  Then for EVERY resolution `pickSeed`, `orderSeed` of Go's map order:

    1. exactly one client is a member of `g`, picked for `g`, and written the message;
    2. a registered network client without a matching plain subscription that was picked for NO candidate entry is
       written nothing — in particular the members of `g` that were not picked (unless they receive on another
       account: a plain subscription of their own, or another candidate entry);
    3. no connection is written more than one PUBLISH.

    Partial: QoS 0 (no in-flight bookkeeping: "or queue" is not covered), sequential histories, and "candidate
    entry" instead of "share group" (F06) — see `C06_one_receiver_per_group_seq_partial` and `C06_full`. -/
theorem C06_one_receiver_per_candidate_seq_partial (caps : Caps) (s : Server) (hr : ReachSeq caps s) (pk : Msg)
    (hig : pk.ignore = false) (ht : pk.type = 3) (hq : pk.qos = 0)
    (g : Str × List (Str × Sub)) (hg : g ∈ (subscribers s.topics pk.topic).shared)
    (hserv : ∀ m ∈ g.2, Servable s pk m.1) (pickSeed orderSeed : Nat) :
    (ExactlyOne fun c => c ∈ g.2.map Prod.fst ∧ PickedFor (withSeeds s pickSeed orderSeed) pk.topic g c ∧
      WrittenTo (withSeeds s pickSeed orderSeed) pk c) ∧
    (∀ c i, (c, i) ∈ s.clients → (getObj s i).inline = false →
      c ∉ (subscribers s.topics pk.topic).subs.map Prod.fst →
      (¬ ∃ g' ∈ (subscribers s.topics pk.topic).shared, PickedFor (withSeeds s pickSeed orderSeed) pk.topic g' c) →
      ¬ ∃ ver m me, Out.wrote (getObj s i).conn (.publish ver m me) ∈
        (publishToSubscribers (withSeeds s pickSeed orderSeed) pk).2) ∧
    ∀ n, ((publishToSubscribers (withSeeds s pickSeed orderSeed) pk).2.filterMap pubConn).count n ≤ 1 := by
  have hr' := withSeeds_reach hr pickSeed orderSeed
  have hw := hr'.inv.2.1
  have hcd := hr'.inv.2.2.1.distinct
  refine ⟨C06_one_receiver_per_candidate_inv _ hw hcd pk hig ht hq g hg hserv, ?_, ?_⟩
  · intro c i hreg hin hplain hnp
    exact C06_unpicked_receives_nothing _ hw hcd pk hig ht hq c i hreg hin hplain hnp
  · intro n
    exact (publishToSubscribers_writes_exact_shared _ hw hcd pk hig ht hq n).2.2.2.1

/-! ### … read as "share group", outside the F06 situation -/

/-- ¬F06 for this topic: each share name has at most one matching filter (decidable) -/
def NoF06 (r : Subscribers) : Prop :=
  ∀ g ∈ r.shared, ∀ g' ∈ r.shared, shareGroup g.1 = shareGroup g'.1 → g.1 = g'.1

instance (r : Subscribers) : Decidable (NoF06 r) := by unfold NoF06; infer_instance

/-- `c` holds a subscription of share group `G` that matches the topic -/
def GroupMember (r : Subscribers) (G c : Str) : Prop :=
  ∃ g ∈ r.shared, shareGroup g.1 = G ∧ c ∈ g.2.map Prod.fst

/-- `c` is the member picked for (a candidate entry of) share group `G` -/
def PickedForGroup (s : Server) (topic G c : Str) : Prop :=
  ∃ g ∈ (subscribers s.topics topic).shared, shareGroup g.1 = G ∧ PickedFor s topic g c

theorem entry_eq_of_key {m : List (Str × List (Str × Sub))} (h : SharedOK m) {g g' : Str × List (Str × Sub)}
    (hg : g ∈ m) (hg' : g' ∈ m) (e : g.1 = g'.1) : g = g' := by
  have a := assocGet_of_mem_nodup m g.1 g.2 h.keys hg
  have b := assocGet_of_mem_nodup m g'.1 g'.2 h.keys hg'
  rw [e, b] at a
  exact Prod.ext e (Option.some.inj a).symm

/-- **Item 3, second half.**  If each share name has at most one filter matching the topic (`NoF06`), "candidate
    entry" is "share group": for every share group `G` with a matching member subscription, all of whose matching
    members can be served, and every resolution of Go's map order, exactly one member of the group is picked for
    the group and written the message. -/
theorem C06_one_receiver_per_group_seq_partial (caps : Caps) (s : Server) (hr : ReachSeq caps s) (pk : Msg)
    (hig : pk.ignore = false) (ht : pk.type = 3) (hq : pk.qos = 0)
    (hno : NoF06 (subscribers s.topics pk.topic)) (G : Str)
    (hG : ∃ g ∈ (subscribers s.topics pk.topic).shared, shareGroup g.1 = G)
    (hserv : ∀ c, GroupMember (subscribers s.topics pk.topic) G c → Servable s pk c) (pickSeed orderSeed : Nat) :
    ExactlyOne fun c => GroupMember (subscribers s.topics pk.topic) G c ∧
      PickedForGroup (withSeeds s pickSeed orderSeed) pk.topic G c ∧ WrittenTo (withSeeds s pickSeed orderSeed) pk c := by
  obtain ⟨g, hg, hgG⟩ := hG
  have hok := subscribers_sharedOK s.topics pk.topic
  have huniq : ∀ g' ∈ (subscribers s.topics pk.topic).shared, shareGroup g'.1 = G → g' = g := by
    intro g' hg' e
    exact entry_eq_of_key hok hg' hg (hno g' hg' g hg (e.trans hgG.symm))
  obtain ⟨c, ⟨h1, h2, h3⟩, hu⟩ := (C06_one_receiver_per_candidate_seq_partial caps s hr pk hig ht hq g hg
    (fun m hm => hserv m.1 ⟨g, hg, hgG, List.mem_map.mpr ⟨m, hm, rfl⟩⟩) pickSeed orderSeed).1
  refine ⟨c, ⟨⟨g, hg, hgG, h1⟩, ⟨g, hg, hgG, h2⟩, h3⟩, ?_⟩
  rintro c' ⟨⟨g1, hg1, e1, m1⟩, ⟨g2, hg2, e2, p2⟩, w⟩
  have a1 := huniq g1 hg1 e1
  have a2 := huniq g2 hg2 e2
  subst a1
  subst a2
  exact hu c' ⟨m1, p2, w⟩

/-! ### C06 as stated, and its refutation (F06) -/

/-- **C06 as stated** (kept visible; NOT proved — false of the model and of the broker, `C06_full_false_F06`): in
    any history, for every published message (here: QoS 0, so "receive" is "is written"), every resolution of Go's
    map order and every share group with at least one member subscription matching the topic — all of them
    servable —, exactly one member of that GROUP receives the message. -/
def C06_full : Prop :=
  ∀ (caps : Caps) (ops : List Op), OpsFresh (init caps) ops →
    ∀ (pickSeed orderSeed : Nat) (pk : Msg), pk.type = 3 → pk.ignore = false → pk.qos = 0 →
      ∀ G : Str, (∃ g ∈ (subscribers (run (init caps) ops).topics pk.topic).shared, shareGroup g.1 = G) →
        (∀ c, GroupMember (subscribers (run (init caps) ops).topics pk.topic) G c →
          Servable (run (init caps) ops) pk c) →
        ExactlyOne fun c => GroupMember (subscribers (run (init caps) ops).topics pk.topic) G c ∧
          WrittenTo (withSeeds (run (init caps) ops) pickSeed orderSeed) pk c

/-- F06 as a history: `c1` holds `$share/g/a/+`, `c2` holds `$share/g/a/#` — one share name, two filters -/
def f06History : List Op :=
  [.connect 1 { ver := 5, id := [99, 49] },
   .recv 1 (.subscribe 1 0 [{ filter := [36,115,104,97,114,101,47,103,47,97,47,43] }]),
   .connect 2 { ver := 5, id := [99, 50] },
   .recv 2 (.subscribe 1 0 [{ filter := [36,115,104,97,114,101,47,103,47,97,47,35] }])]

/-- a third client publishes `a/b`, QoS 0 -/
def f06Msg : Msg := { topic := [97, 47, 98], payload := [1], origin := [112] }

/-- both members of share group `g` are written the message: **C06 as stated is false of the model (and of the
    broker: recorded finding F06)** -/
theorem C06_full_false_F06 : ¬ C06_full := by
  intro h
  have hsh : ((subscribers (run (init {}) f06History).topics f06Msg.topic).shared.map
      fun g => (g.1, g.2.map Prod.fst)) =
      [([36,115,104,97,114,101,47,103,47,97,47,43], [[99, 49]]),
       ([36,115,104,97,114,101,47,103,47,97,47,35], [[99, 50]])] := by decide
  have hmem : ∀ c, GroupMember (subscribers (run (init {}) f06History).topics f06Msg.topic) [103] c →
      c = [99, 49] ∨ c = [99, 50] := by
    rintro c ⟨g, hg, _, hc⟩
    have : (g.1, g.2.map Prod.fst) ∈ ((subscribers (run (init {}) f06History).topics f06Msg.topic).shared.map
        fun g => (g.1, g.2.map Prod.fst)) := List.mem_map.mpr ⟨g, hg, rfl⟩
    rw [hsh] at this
    simp only [List.mem_cons, List.not_mem_nil, or_false, Prod.mk.injEq] at this
    rcases this with ⟨_, e⟩ | ⟨_, e⟩ <;> rw [e] at hc <;> simp at hc
    · exact Or.inl hc
    · exact Or.inr hc
  have hserv : ∀ c, GroupMember (subscribers (run (init {}) f06History).topics f06Msg.topic) [103] c →
      Servable (run (init {}) f06History) f06Msg c := by
    intro c hc
    rcases hmem c hc with rfl | rfl
    · exact ⟨⟨1, by decide, by decide, by decide, by decide⟩, by decide, fun e => absurd e (by decide)⟩
    · exact ⟨⟨2, by decide, by decide, by decide, by decide⟩, by decide, fun e => absurd e (by decide)⟩
  obtain ⟨c, _, hu⟩ := h {} f06History (by decide) 0 0 f06Msg rfl rfl rfl [103]
    ⟨([36,115,104,97,114,101,47,103,47,97,47,43], [([99, 49], { filter := [36,115,104,97,114,101,47,103,47,97,47,43] })]),
      by decide, by decide⟩ hserv
  have ho : (publishToSubscribers (withSeeds (run (init {}) f06History) 0 0) f06Msg).2.filterMap pubConn = [1, 2] := by
    decide
  have m1 : GroupMember (subscribers (run (init {}) f06History).topics f06Msg.topic) [103] [99, 49] :=
    ⟨([36,115,104,97,114,101,47,103,47,97,47,43], [([99, 49], { filter := [36,115,104,97,114,101,47,103,47,97,47,43] })]),
      by decide, by decide, by decide⟩
  have m2 : GroupMember (subscribers (run (init {}) f06History).topics f06Msg.topic) [103] [99, 50] :=
    ⟨([36,115,104,97,114,101,47,103,47,97,47,35], [([99, 50], { filter := [36,115,104,97,114,101,47,103,47,97,47,35] })]),
      by decide, by decide, by decide⟩
  have w1 : WrittenTo (withSeeds (run (init {}) f06History) 0 0) f06Msg [99, 49] :=
    ⟨1, by decide, mem_pubConns.mp (by rw [ho]; decide)⟩
  have w2 : WrittenTo (withSeeds (run (init {}) f06History) 0 0) f06Msg [99, 50] :=
    ⟨2, by decide, mem_pubConns.mp (by rw [ho]; decide)⟩
  have e := (hu _ ⟨m1, w1⟩).trans (hu _ ⟨m2, w2⟩).symm
  revert e
  decide

/-- … while the restricted theorem applies to that very state: the F06 situation is present (`NoF06` fails), and
    each of the two candidate entries has exactly one receiver -/
example : ¬ NoF06 (subscribers (run (init {}) f06History).topics f06Msg.topic) := by decide

/-! ## The delivery theorem with shared subscriptions on reachable states, and for the publish ops -/

/-- **`C03_delivery_exact_reach_partial` without the hypothesis `shared = []`.**  For every state `s` reached by a
    sequential history (`ReachSeq`), every QoS 0 application message and every connection `n`:

    1. a PUBLISH is written to `n` iff `EntitledShared s pk n` (plain entry or picked member; F03 merge explicit);
    2. whoever is written is entitled through a plain subscription — declaratively: `EntitledF03`, the index holds a
       plain subscription of the client whose filter `specMatch`es the topic — or as the picked member of a candidate
       entry (`EntitledPicked`); outside the F03 situation across plain and shared subscriptions
       (`NoLocalMixedShared`) this disjunction is exact;
    3. at most one PUBLISH per connection; 4. every output is an inline delivery or a copy of the message. -/
theorem C06_delivery_exact_reach_partial (caps : Caps) (s : Server) (hr : ReachSeq caps s)
    (pk : Msg) (hig : pk.ignore = false) (ht : pk.type = 3) (hq : pk.qos = 0)
    (hne : pk.topic ≠ []) (hnh : ∀ t ∈ splitLevels pk.topic, t ≠ [hash]) (n : Nat) :
    ((∃ ver m me, Out.wrote n (.publish ver m me) ∈ (publishToSubscribers s pk).2) ↔ EntitledShared s pk n) ∧
    (EntitledShared s pk n → EntitledF03 s pk n ∨ EntitledPicked s pk n) ∧
    (¬ NoLocalMixedShared s pk → (EntitledShared s pk n ↔ EntitledF03 s pk n ∨ EntitledPicked s pk n)) ∧
    ((publishToSubscribers s pk).2.filterMap pubConn).count n ≤ 1 ∧
    ∀ x ∈ (publishToSubscribers s pk).2, (∃ id, x = Out.inline id pk.topic pk.payload) ∨ IsCopy pk x := by
  obtain ⟨h1, h2, h3, h4, h5⟩ := publishToSubscribers_writes_exact_shared s hr.inv.2.1 hr.inv.2.2.1.distinct pk hig ht hq n
  have e := entitledVia_iff_F03 s hr.inv.1.idx pk hne hnh (C03_one_entry_per_client s.topics pk.topic) n
  rw [e] at h2 h3
  exact ⟨h1, h2, h3, h4, h5⟩

/-- **`recv_publish_delivery_exact` without the hypothesis `shared = []`**: the op
    `step s (.recv conn (PUBLISH QoS 0 …))` of client object `i`, accepted (`AcceptedQ0`), writes a PUBLISH to exactly
    the connections entitled (`EntitledShared`) in the state in which the message is routed (`retainedState`: the
    state before the op, the retained store updated if the retain flag is set), at most once each, and nothing else
    but inline deliveries. -/
theorem recv_publish_delivery_exact_shared (s : Server) (hs : SyncInv s) (hw : WF s) (hcm : ConnMap s)
    (conn i : Nat) (dup retain : Bool) (topic payload : Str) (me : Nat)
    (hc : assocGet s.connOf conn = some i) (h : AcceptedQ0 s i topic) (n : Nat) :
    ((∃ ver m mes, Out.wrote n (.publish ver m mes) ∈
        (step s (.recv conn (.publish 0 dup retain 0 topic payload me none))).2) ↔
      EntitledShared (retainedState s (inboundMsg s i 0 dup retain 0 topic payload me))
        (inboundMsg s i 0 dup retain 0 topic payload me) n) ∧
    ((step s (.recv conn (.publish 0 dup retain 0 topic payload me none))).2.filterMap pubConn).count n ≤ 1 ∧
    ∀ x ∈ (step s (.recv conn (.publish 0 dup retain 0 topic payload me none))).2,
      (∃ id, x = Out.inline id topic payload) ∨ IsCopy (inboundMsg s i 0 dup retain 0 topic payload me) x := by
  obtain ⟨_, iw, ic⟩ := retainedState_inv (inboundMsg s i 0 dup retain 0 topic payload me) hs hw hcm
  rw [step_recv_publish_accepted_shared s conn i dup retain topic payload me hc h]
  obtain ⟨h1, _, _, h4, h5⟩ := publishToSubscribers_writes_exact_shared _ iw ic.distinct
    (inboundMsg s i 0 dup retain 0 topic payload me) rfl rfl rfl n
  exact ⟨h1, h4, h5⟩

/-! ## "Matching candidate entry", declaratively -/

/-- **the candidate entries are exactly the matching shared subscriptions of the index** (`shared_candidates_iff`:
    C01's scan exactness for shared subscriptions, with the declarative matcher).  In every state reached by a
    sequential history, for a non-empty topic without `#` level:

    1. the candidate entry keyed by the filter string `f` holds `sub` for client `c` iff the index holds the shared
       subscription `sub` of `c`, its filter is `f`, and the topic part of `f` (after `$share/<group>/`)
       `specMatch`es the topic (`MatchingShared`);
    2. the candidate map has one entry per filter string, no entry is empty, every member is filed under its own
       filter, one member per client id (`SharedOK`);
    3. whoever is picked holds a matching shared subscription. -/
theorem C06_candidate_entries_exact (caps : Caps) (s : Server) (hr : ReachSeq caps s) (topic : Str)
    (hne : topic ≠ []) (hnh : ∀ t ∈ splitLevels topic, t ≠ [hash]) :
    (∀ f c sub, sharedGet (subscribers s.topics topic).shared f c = some sub ↔
      sub.filter = f ∧ MatchingShared s.topics topic c sub) ∧
    SharedOK (subscribers s.topics topic).shared ∧
    (∀ c sub, PickedWith s topic c sub → MatchingShared s.topics topic c sub) :=
  ⟨fun f c sub => shared_candidates_iff s.topics hr.inv.1.idx topic hne hnh f c sub,
   subscribers_sharedOK s.topics topic,
   fun c sub h => (mem_candidate_iff s.topics hr.inv.1.idx topic hne hnh c sub).mp (pickedWith_member h)⟩

/-! ## Non-vacuity

`c03History` (five network clients, an inline subscriber on `a/b`, a read denial) extended with two share groups —
`$share/g/a/#` with the two members `m1` (connection 6) and `m2` (connection 7), `$share/h/a/+` with the one member
`m3` (connection 8, MQTT 3.1.1) — and a second inline subscriber (identifier 9, `a/#`). -/

def c06History : List Op :=
  c03History ++
  [.connect 6 { ver := 5, id := [109, 49] },
   .recv 6 (.subscribe 1 0 [{ filter := [36,115,104,97,114,101,47,103,47,97,47,35] }]),
   .connect 7 { ver := 5, id := [109, 50] },
   .recv 7 (.subscribe 1 0 [{ filter := [36,115,104,97,114,101,47,103,47,97,47,35] }]),
   .connect 8 { ver := 4, id := [109, 51] },
   .recv 8 (.subscribe 1 0 [{ filter := [36,115,104,97,114,101,47,104,47,97,47,43] }]),
   .inlineSubscribe 9 [97, 47, 35]]

/-- the state after the history, with the read denial `(z, a/b)` of `c03State` configured -/
def c06State : Server := { run (init {}) c06History with aclDeny := [([122], [97, 47, 98], false)] }

theorem c06State_reach : ReachSeq {} c06State :=
  (ReachSeq.init.run c06History (by decide) (by decide)).config ⟨rfl, rfl, rfl, rfl, rfl, rfl, rfl, rfl⟩

/-- the candidate entry of share group `g` -/
def c06EntryG : Str × List (Str × Sub) :=
  ([36,115,104,97,114,101,47,103,47,97,47,35],
   [([109, 49], { filter := [36,115,104,97,114,101,47,103,47,97,47,35] }),
    ([109, 50], { filter := [36,115,104,97,114,101,47,103,47,97,47,35] })])

/-- two candidate entries match `a/b`: `$share/h/a/+` (one member) and `$share/g/a/#` (two members); no share name
    has two matching filters -/
example : (subscribers c06State.topics c03Msg.topic).shared.map (fun g => (g.1, g.2.map Prod.fst)) =
    [([36,115,104,97,114,101,47,104,47,97,47,43], [[109, 51]]),
     ([36,115,104,97,114,101,47,103,47,97,47,35], [[109, 49], [109, 50]])] ∧
    NoF06 (subscribers c06State.topics c03Msg.topic) := by decide

set_option maxRecDepth 4000 in
/-- `p` publishes `a/b`, QoS 0.  Entries visited in the order `h`, `g` (`orderSeed = 0`): `pickSeed = 0` picks `m1`
    for `g`, `pickSeed = 3` (second base-3 digit 1) picks `m2`; in the order `g`, `h` (`orderSeed = 1`):
    `pickSeed = 0` picks `m1`, `pickSeed = 1` picks `m2`.  `m3` — the only member of `h` — always receives; so do
    the plain subscribers `y` (connection 2) and `x` (connection 1); each connection once. -/
example :
    (publishToSubscribers (withSeeds c06State 0 0) c03Msg).2.filterMap pubConn = [2, 1, 8, 6] ∧
    (publishToSubscribers (withSeeds c06State 3 0) c03Msg).2.filterMap pubConn = [2, 1, 8, 7] ∧
    (publishToSubscribers (withSeeds c06State 0 1) c03Msg).2.filterMap pubConn = [2, 1, 6, 8] ∧
    (publishToSubscribers (withSeeds c06State 1 1) c03Msg).2.filterMap pubConn = [2, 1, 7, 8] := by decide

set_option maxRecDepth 4000 in
/-- the two inline subscribers are reached too: six outputs -/
example : (publishToSubscribers (withSeeds c06State 0 0) c03Msg).2.length = 6 ∧
    Out.inline 7 [97, 47, 98] [1] ∈ (publishToSubscribers (withSeeds c06State 0 0) c03Msg).2 ∧
    Out.inline 9 [97, 47, 98] [1] ∈ (publishToSubscribers (withSeeds c06State 0 0) c03Msg).2 := by decide

set_option maxRecDepth 4000 in
/-- the hypotheses of `C06_one_receiver_per_candidate_seq_partial` hold for the entry of group `g`: it is a
    candidate entry, and both members can be served -/
theorem c06_hyps : c06EntryG ∈ (subscribers c06State.topics c03Msg.topic).shared ∧
    ∀ m ∈ c06EntryG.2, Servable c06State c03Msg m.1 := by
  refine ⟨by decide, ?_⟩
  intro m hm
  have : m.1 = [109, 49] ∨ m.1 = [109, 50] := by
    simp only [c06EntryG, List.mem_cons, List.not_mem_nil, or_false] at hm
    rcases hm with rfl | rfl
    · exact Or.inl rfl
    · exact Or.inr rfl
  rcases this with e | e <;> rw [e]
  · exact ⟨⟨6, by decide, by decide, by decide, by decide⟩, by decide, fun e => absurd e (by decide)⟩
  · exact ⟨⟨7, by decide, by decide, by decide, by decide⟩, by decide, fun e => absurd e (by decide)⟩

/-- the theorem, instantiated: for every resolution of Go's map order exactly one of `m1`, `m2` is picked for the
    entry of group `g` and written the message … -/
example (pickSeed orderSeed : Nat) :
    ExactlyOne fun c => c ∈ c06EntryG.2.map Prod.fst ∧ PickedFor (withSeeds c06State pickSeed orderSeed) c03Msg.topic c06EntryG c ∧
      WrittenTo (withSeeds c06State pickSeed orderSeed) c03Msg c :=
  (C06_one_receiver_per_candidate_seq_partial {} c06State c06State_reach c03Msg rfl rfl rfl c06EntryG c06_hyps.1
    c06_hyps.2 pickSeed orderSeed).1

/-- … and (`NoF06`) exactly one member of share group `g` -/
example (pickSeed orderSeed : Nat) :
    ExactlyOne fun c => GroupMember (subscribers c06State.topics c03Msg.topic) [103] c ∧
      PickedForGroup (withSeeds c06State pickSeed orderSeed) c03Msg.topic [103] c ∧
      WrittenTo (withSeeds c06State pickSeed orderSeed) c03Msg c := by
  refine C06_one_receiver_per_group_seq_partial {} c06State c06State_reach c03Msg rfl rfl rfl (by decide) [103]
    ⟨c06EntryG, c06_hyps.1, by decide⟩ ?_ pickSeed orderSeed
  rintro c ⟨g, hg, hgG, hc⟩
  have hsh : (subscribers c06State.topics c03Msg.topic).shared =
      [([36,115,104,97,114,101,47,104,47,97,47,43], [([109, 51], { filter := [36,115,104,97,114,101,47,104,47,97,47,43] })]),
       c06EntryG] := by decide
  rw [hsh] at hg
  simp only [List.mem_cons, List.not_mem_nil, or_false] at hg
  rcases hg with rfl | rfl
  · exact absurd hgG (by decide)
  · obtain ⟨m, hm, rfl⟩ := List.mem_map.mp hc
    exact c06_hyps.2 m hm

end Mochi.Broker

#print axioms Mochi.Broker.selectShared_exact
#print axioms Mochi.Broker.C06_one_receiver_per_candidate_seq_partial
#print axioms Mochi.Broker.C06_one_receiver_per_group_seq_partial
#print axioms Mochi.Broker.C06_full_false_F06
#print axioms Mochi.Broker.C06_candidate_entries_exact
#print axioms Mochi.Broker.C06_delivery_exact_reach_partial
#print axioms Mochi.Broker.recv_publish_delivery_exact_shared
#print axioms Mochi.Broker.c06State_reach
#print axioms Mochi.Broker.c06_hyps
#print axioms Mochi.Broker.publishToSubscribers_writes_exact_shared
