import Mochi.Lemmas.Storage
import Mochi.Model.Restart
/-!
# C20 — Persistent state is restored faithfully after a restart

*After any history followed by a broker shutdown, a broker restarted on the same store has the same
non-expired sessions, with their expiry settings; the same subscriptions with their options; the same retained
messages, with payload, properties and expiry behaviour; and the same unacknowledged in-flight messages. For
all four backends and any client identifiers, filters and topics, including ones containing separator
characters.*

Model: the hook methods write records (`Model/Storage.lean`), `restart` reads them back (`Model/Restart.lean`:
`loadClients`, `loadSubscriptions`, `loadInflight`, `loadRetained`, `Message.ToPacket`). The statement splits into
(1) **every live object has its own slot**: the key functions are injective — false for subscriptions when a
    client id contains `:` (F20a), proved where it holds;
(2) **a slot gives the object back**: `fromStorage ∘ toStorage` per record kind, field by field — with the exact
    list of fields that do not survive (F20b–d, f, h);
(3) one-event end-to-end lemmas through `restart ∘ readback ∘ run` for every backend, and concrete
    counterexample histories (replayed on the real broker by the `restart` suite).
Status: **false** for the pinned tree; what holds is stated with its hypothesis.
-/
namespace Mochi.Storage

/-! ## (1) keys -/

theorem enc_key_inj (b : Backend) {k1 k2 : LKey} (h : enc b.hashed k1 = enc b.hashed k2) : k1 = k2 := enc_injective _ h

/-- client keys are injective: distinct client ids have distinct slots (any bytes) -/
theorem C20_client_key_injective (b : Backend) (id1 id2 : Str) (h : clientKey b id1 = clientKey b id2) : id1 = id2 := by
  rw [clientKey_enc, clientKey_enc] at h
  have := enc_key_inj b h
  simpa [lClient] using this

/-- retained keys are injective: distinct topics have distinct slots (any bytes) -/
theorem C20_retained_key_injective (b : Backend) (t1 t2 : Str) (h : retainedKey b t1 = retainedKey b t2) : t1 = t2 := by
  rw [retainedKey_enc, retainedKey_enc] at h
  have := enc_key_inj b h
  simpa [lRet] using this

/-- splitting at a separator that the left part does not contain is unique -/
theorem split_at_sep {s : Nat} : ∀ (l1 l2 r1 r2 : Str), l1 ++ s :: r1 = l2 ++ s :: r2 → s ∉ l1 → s ∉ l2 → l1 = l2 ∧ r1 = r2
  | [], [], r1, r2, h, _, _ => by simpa using h
  | [], b :: l2, r1, r2, h, _, h2 => by
    simp at h; exact absurd h.1 (by intro hs; exact h2 (by simp [hs]))
  | a :: l1, [], r1, r2, h, h1, _ => by
    simp at h; exact absurd h.1.symm (by intro hs; exact h1 (by simp [hs]))
  | a :: l1, b :: l2, r1, r2, h, h1, h2 => by
    simp at h
    have ih := split_at_sep l1 l2 r1 r2 h.2 (fun hm => h1 (by simp [hm])) (fun hm => h2 (by simp [hm]))
    exact ⟨by rw [h.1, ih.1], ih.2⟩

/-- **Partial.** For client ids without `:` the subscription keys are injective on (client, filter) pairs. -/
theorem C20_subscription_key_injective_partial (b : Backend) (id1 f1 id2 f2 : Str)
    (h1 : colon ∉ id1) (h2 : colon ∉ id2) (h : subscriptionKey b id1 f1 = subscriptionKey b id2 f2) :
    id1 = id2 ∧ f1 = f2 := by
  rw [subscriptionKey_enc, subscriptionKey_enc] at h
  have := enc_key_inj b h
  simp only [lSub, LKey.mk.injEq, true_and] at this
  exact split_at_sep _ _ _ _ this h1 h2

/-- **Counterexample (F20a).** Client `a:b` + filter `c` and client `a` + filter `b:c` share one storage key,
    on every backend. -/
theorem C20_keys_injective_counterexample (b : Backend) :
    subscriptionKey b [97, 58, 98] [99] = subscriptionKey b [97] [98, 58, 99] ∧ ([97, 58, 98], [99]) ≠ (([97] : Str), ([98, 58, 99] : Str)) := by
  constructor
  · unfold subscriptionKey; cases b.hashed <;> simp [colon]
  · decide

theorem formatID_no_colon (n : Nat) : colon ∉ formatID n := by
  unfold formatID
  intro h
  obtain ⟨c, hc, hcv⟩ := List.mem_map.mp h
  have hd := Nat.isDigit_of_mem_toDigits (by decide) (by decide) hc
  simp [Char.isDigit] at hd
  have : c.toNat = 58 := hcv
  have h1 : c.val.toNat = 58 := this
  have h2 := hd.2
  have : c.val ≤ 57 := h2
  have : c.val.toNat ≤ 57 := this
  omega

theorem formatID_injective {a b : Nat} (h : formatID a = formatID b) : a = b := by
  unfold formatID at h
  have hinj : (Nat.toDigits 10 a) = (Nat.toDigits 10 b) :=
    (List.map_inj_right (fun x y hxy => Char.toNat_inj.mp hxy)).mp h
  have ha := @Nat.ofDigitChars_ten_toDigits a
  have hb := @Nat.ofDigitChars_ten_toDigits b
  rw [hinj] at ha
  omega

/-- in-flight keys are injective on (client, packet id) pairs for ANY client id: the decimal packet id contains
    no `:`, so the last `:` of the key is the separator -/
theorem C20_inflight_key_injective (b : Backend) (id1 id2 : Str) (p1 p2 : Nat)
    (h : inflightKey b id1 p1 = inflightKey b id2 p2) : id1 = id2 ∧ p1 = p2 := by
  rw [inflightKey_enc, inflightKey_enc] at h
  have := enc_key_inj b h
  simp only [lIfl, LKey.mk.injEq, true_and] at this
  have hr := congrArg List.reverse this
  simp only [List.reverse_append, List.reverse_cons, List.append_assoc, List.singleton_append] at hr
  have hs := split_at_sep (s := colon) _ _ _ _ hr
    (by simpa using formatID_no_colon p1) (by simpa using formatID_no_colon p2)
  refine ⟨by simpa using hs.2, formatID_injective (by simpa using hs.1)⟩

/-! ## (2) what a slot gives back -/

/-- the session view of a live client -/
def liveSession (cl : Client) : Session :=
  { id := cl.id, pv := cl.pv, clean := cl.clean, sei := cl.sei, seiFlag := cl.seiFlag, user := cl.user, recvMax := cl.recvMax,
    taMax := cl.taMax, maxPkt := cl.maxPkt, reqProb := cl.reqProb, reqProbFlag := cl.reqProbFlag, reqResp := cl.reqResp, will := cl.will }

/-- the message view of a live packet (`Expiry` relative to `Created`) -/
def liveMsg (pk : Packet) : Msg :=
  { type := pk.type, qos := pk.qos, dup := pk.dup, retain := pk.retain, topic := pk.topic, payload := pk.payload,
    created := pk.created, expiry := pk.expiry - pk.created, origin := pk.origin, pv := pk.pv, pid := pk.pid, corr := pk.corrData,
    subIds := pk.subIds, users := pk.users, ctype := pk.contentType, resp := pk.respTopic, msgExpiry := pk.msgExpiry,
    alias := pk.topicAlias, pf := pk.payloadFormat, pfFlag := pk.pfFlag }

def liveOpts (f : Filter) : SubOpts := { qos := f.qos, nl := f.nl, rap := f.rap, rh := f.rh, ident := f.ident }

/-- **Sessions.** Every session field survives `updateClient` + `loadClients` except the two flags. -/
theorem C20_session_roundtrip (cl : Client) :
    sessionOf (clientRecord cl) = { liveSession cl with seiFlag := false, reqProbFlag := false } := rfl

theorem C20_session_preserved_partial (cl : Client) (h1 : cl.seiFlag = false) (h2 : cl.reqProbFlag = false) :
    sessionOf (clientRecord cl) = liveSession cl := by
  rw [C20_session_roundtrip]; simp [liveSession, h1, h2]

/-- the session-expiry test of `clearExpiredClients` -/
def effectiveExpiry (maximum : Nat) (s : Session) : Nat := if s.pv == 5 && s.seiFlag then s.sei else maximum

/-- **Counterexample (F20b).** An MQTT 5 session with Session Expiry Interval 60: after the restart the flag is
    gone and the session lives for the server maximum instead of 60 s. -/
theorem C20_session_expiry_counterexample :
    let cl : Client := { id := [97], pv := 5, sei := 60, seiFlag := true }
    sessionOf (clientRecord cl) ≠ liveSession cl ∧
    effectiveExpiry 4294967295 (liveSession cl) = 60 ∧ effectiveExpiry 4294967295 (sessionOf (clientRecord cl)) = 4294967295 := by
  decide

/-- **Messages.** `ToPacket ∘ (the stored literal)`: everything survives except `Expiry`, `ProtocolVersion`,
    `PayloadFormatFlag` and the topic alias; the packet id survives iff the backend stores it. -/
theorem C20_message_roundtrip (key : PKey) (t : Str) (cl : Client) (pk : Packet) (sent pid : Nat) :
    toPacket (msgRecord key t cl pk sent pid) = { liveMsg pk with expiry := 0, pv := 0, pfFlag := false, alias := 0, pid := pid } := rfl

theorem C20_message_preserved_partial (key : PKey) (t : Str) (cl : Client) (pk : Packet) (sent : Nat)
    (h1 : pk.expiry ≤ pk.created) (h2 : pk.pv = 0) (h3 : pk.pfFlag = false) (h4 : pk.topicAlias = 0) :
    toPacket (msgRecord key t cl pk sent pk.pid) = liveMsg pk := by
  rw [C20_message_roundtrip]
  simp [liveMsg, h2, h3, h4, Nat.sub_eq_zero_of_le h1]

/-- the retained-message expiry test of `clearExpiredRetainedMessages` (first disjunct) at time `now` after creation -/
def expiresByOwnInterval (m : Msg) (elapsed : Nat) : Bool := m.pv == 5 && m.expiry > 0 && m.expiry < elapsed

/-- **Counterexample (F20c).** A retained MQTT 5 message with Message Expiry Interval 30 expires after 30 s on the
    live broker and never by its own interval after a restart; `PayloadFormatFlag` is lost as well. -/
theorem C20_retained_expiry_counterexample :
    let pk : Packet := { topic := [116], payload := [112], retain := true, type := 3, created := 1000, expiry := 1030, pv := 5,
                         msgExpiry := 30, payloadFormat := 1, pfFlag := true }
    let restored := toPacket (msgRecord ⟨[], []⟩ RET {} pk 0 0)
    expiresByOwnInterval (liveMsg pk) 31 = true ∧ (∀ t, expiresByOwnInterval restored t = false) ∧
    (liveMsg pk).pfFlag = true ∧ restored.pfFlag = false ∧ restored.msgExpiry = 30 := by
  refine ⟨by decide, ?_, by decide, by decide, by decide⟩
  intro t; simp [expiresByOwnInterval, toPacket]

/-- **Subscriptions.** The options survive; the stored QoS is the SUBACK reason code, not the requested QoS. -/
theorem C20_subscription_roundtrip (b : Backend) (cl : Client) (f : Filter) (code : Nat) :
    optsOf (subRecord b cl f code) = { liveOpts f with qos := code } := rfl

theorem C20_subscription_preserved_partial (b : Backend) (cl : Client) (f : Filter) :
    optsOf (subRecord b cl f f.qos) = liveOpts f := rfl

/-! ## (3) end to end, one event, every backend -/

theorem run_single (b : Backend) (e : Event) : run b [e] = applyWrites [] (interp b e) := rfl

/-- a non-expiring session written by `OnSessionEstablished` is restored, with every field but the two flags -/
theorem C20_restart_session (b : Backend) (cl : Client) (h : expires cl.pv cl.sei cl.clean = false) :
    (restart (readback b (run b [.established cl]))).sessions = [{ liveSession cl with seiFlag := false, reqProbFlag := false }] := by
  have hs : scans b .client (clientKey b cl.id) = true := by rw [clientKey_enc, scans_enc]; rfl
  have hx : expires (clientRecord cl).pv (clientRecord cl).sei (clientRecord cl).clean = false := h
  simp [run_single, interp, updateClient, applyWrites, applyWrite, KV.set, restart, readback, storedClients, hs,
    Record.asClient, loadClients, hx, addSession, C20_session_roundtrip]

/-- a session that expires at disconnect (`expire` of `loadClients`) is not restored -/
theorem C20_restart_expired_session (b : Backend) (cl : Client) (h : expires cl.pv cl.sei cl.clean = true) :
    (restart (readback b (run b [.established cl]))).sessions = [] := by
  have hs : scans b .client (clientKey b cl.id) = true := by rw [clientKey_enc, scans_enc]; rfl
  have hx : expires (clientRecord cl).pv (clientRecord cl).sei (clientRecord cl).clean = true := h
  simp [run_single, interp, updateClient, applyWrites, applyWrite, KV.set, restart, readback, storedClients, hs,
    Record.asClient, loadClients, hx]

/-- a retained message written by `OnRetainMessage` is restored with the fields of `C20_message_roundtrip` -/
theorem C20_restart_retained (b : Backend) (cl : Client) (pk : Packet) (h : pk.payload ≠ []) :
    (restart (readback b (run b [.retain cl pk false]))).retained =
      [(pk.topic, { liveMsg pk with expiry := 0, pv := 0, pfFlag := false, alias := 0, pid := 0 })] := by
  have hs : scans b .retained (retainedKey b pk.topic) = true := by rw [retainedKey_enc, scans_enc]; rfl
  have hp : (msgRecord (retainedKey b pk.topic) RET cl pk 0 0).payload = pk.payload := rfl
  have ht : (msgRecord (retainedKey b pk.topic) RET cl pk 0 0).topic = pk.topic := rfl
  simp [run_single, interp, onRetainMessage, applyWrites, applyWrite, KV.set, restart, readback, storedRetained, hs,
    Record.asMsg, loadRetained, hp, ht, h, C20_message_roundtrip]

/-! ## counterexample histories (each replayed on the real broker by the `restart` suite) -/

def cA : Client := { id := [97], pv := 5, sei := 60, seiFlag := true }            -- "a"
def cAB : Client := { id := [97, 58, 98], pv := 5, sei := 60, seiFlag := true }   -- "a:b"

/-- **F20a.** `a:b` subscribes to `c`, then `a` subscribes to `b:c`: one of the two subscriptions is gone after
    the restart, on every backend. -/
theorem C20_key_collision_counterexample :
    let evs : List Event := [.established cAB, .established cA, .subscribed cAB [{ filter := [99], qos := 1 }] [1],
                             .subscribed cA [{ filter := [98, 58, 99], qos := 2 }] [2]]
    (restart (readback badger (run badger evs))).subs.length = 1 ∧ (restart (readback pebble (run pebble evs))).subs.length = 1 ∧
    (restart (readback bolt (run bolt evs))).subs.length = 1 ∧ (restart (readback redis (run redis evs))).subs.length = 1 := by
  decide

/-- **F20d.** bolt / redis: two in-flight messages (packet ids 1 and 2) collapse into one message with packet id 0;
    badger restores both. -/
theorem C20_packetid_counterexample :
    let evs : List Event := [.established cA, .qosPublish cA { topic := [116], payload := [112], qos := 1, type := 3, pid := 1 } 0 0,
                             .qosPublish cA { topic := [116], payload := [113], qos := 1, type := 3, pid := 2 } 0 0]
    ((restart (readback badger (run badger evs))).inflight.map (·.2.1)) = [2, 1] ∧
    ((restart (readback bolt (run bolt evs))).inflight.map (·.2.1)) = [0] ∧
    ((restart (readback redis (run redis evs))).inflight.map (·.2.1)) = [0] := by
  decide

/-- **F20f.** A refused subscription (SUBACK 0x87, not authorised) is written by `OnSubscribed` and comes back as a
    subscription with "QoS" 135 after the restart. -/
theorem C20_refused_subscription_counterexample :
    let evs : List Event := [.established cA, .subscribed cA [{ filter := [120], qos := 1 }] [135]]
    ((restart (readback badger (run badger evs))).subs.map (·.opts.qos)) = [135] ∧
    ((restart (readback redis (run redis evs))).csubs.map (·.2.2.qos)) = [135] := by
  decide

/-- **F20h.** Requested QoS 2 granted as 1 (server Maximum QoS 1): the live index holds 2, the restored one 1. -/
theorem C20_granted_qos_counterexample :
    optsOf (subRecord badger cA { filter := [120], qos := 2 } 1) ≠ liveOpts { filter := [120], qos := 2 } := by
  decide

/-- **non-vacuity**: a history whose restart is faithful on every backend (no flags, no expiry, packet id 0) -/
example :
    let cl : Client := { id := [97, 58, 98], pv := 4, listener := [116] }
    let evs : List Event := [.established cl, .subscribed cl [{ filter := [120, 47, 43], qos := 1, rap := true }] [1],
                             .retain cl { topic := [120, 47, 121], payload := [112], retain := true, type := 3, created := 5 } false]
    ∀ b ∈ backends,
      (restart (readback b (run b evs))).sessions = [liveSession cl] ∧
      ((restart (readback b (run b evs))).subs.map (·.opts)) = [liveOpts { filter := [120, 47, 43], qos := 1, rap := true }] ∧
      ((restart (readback b (run b evs))).retained.map (·.2)) = [liveMsg { topic := [120, 47, 121], payload := [112], retain := true, type := 3, created := 5 }] := by
  decide

end Mochi.Storage
