import Mochi.Model.Broker
import Mochi.Lemmas.BrokerCounters
/-!
# C38 — Reported $SYS statistics match the broker's actual state

Model: the counter updates next to every in-flight store operation — after the repairs "fix: inflight
counter includes the messages a resumed session inherits", "fix: inflight counter is rolled back with
a dropped outbound message", "fix: retained counter follows the expiry of retained messages", "fix:
expired sessions are fully discarded", "fix: Unsubscribe … report whether the subscription existed".
Proved: the store primitives change the number of records exactly as the handlers account for them
(`Set` adds one iff the id was new, `Delete` removes one iff it existed, `ClearInflights` discounts
exactly what it removes, the retained counter is the store size) — and, in the second half of this
file, the global equality "counter = actual count, never negative" for ALL histories of the model
(`C38_retained_all_histories`, `C38_subs_all_histories`, `C38_inflight_all_histories`,
`C38_connected_quiescent_all_histories`, `C38_nonneg_all_histories`; machinery in
`Mochi/Lemmas/BrokerCounters.lean`).  The correspondence oracle still compares the reported counters with
counts taken from the broker's own data structures after every generated history step: that ties the
model to the Go code, the theorems tie the counters to the model's data structures.
-/
namespace Mochi.Broker
open Mochi.Topics

theorem C38_set_accounting (c : Client) (m : Msg) :
    (flSet c m).1.inflight.length = c.inflight.length + (if (flSet c m).2 then 1 else 0) := by
  unfold flSet
  split <;> simp

theorem flGet_some_mem (c : Client) (id : Nat) (m : Msg) (h : flGet c id = some m) : m ∈ c.inflight ∧ m.id = id := by
  unfold flGet at h
  exact ⟨List.mem_of_find?_eq_some h, by simpa using List.find?_some h⟩

theorem C38_clear_accounting (s : Server) (i : Nat) :
    (clearInflights s i).info.inflight = s.info.inflight - (getObj s i).inflight.length := by
  unfold clearInflights; simp

theorem C38_retained_counter (s : Server) (pk : Msg) (ha : s.caps.retainAvailable ≠ 0) (hi : pk.ignore = false) :
    (retainMsg s pk).info.retained = (retainMsg s pk).rmsgs.length := by
  unfold retainMsg
  have : (s.caps.retainAvailable == 0) = false := by simpa using ha
  simp [this, hi]

theorem C38_retained_tick (s : Server) (now : Int) : (tickRetained s now).info.retained = (tickRetained s now).rmsgs.length := by
  unfold tickRetained; simp

/-! ## the counters in ALL histories (`Mochi/Lemmas/BrokerCounters.lean`)

`run (init caps) ops` is the model state after the history `ops`.  Hypotheses (all decidable):
* `OpsFresh`: connection numbers are not reused (as in `WF_run`);
* `OpsSched1` / `OpsSched`: the history is well scheduled — a connection whose handler is parked in the
  authentication hook (`OpsSched1`), or anywhere inside `attachClient` / right after its read loop (`OpsSched`),
  delivers nothing and is not dropped until `release`; no network client uses the inline client's id.
  These exclude histories the harness cannot produce (a parked goroutine does not read its socket); the
  model processes them, and they falsify the counters IN THE MODEL ONLY — see the `_needs_sched` examples. -/

/-- **retained**: after EVERY history the reported number of retained messages is the size of the retained store -/
theorem C38_retained_all_histories (caps : Caps) (ops : List Op) :
    (run (init caps) ops).info.retained = (run (init caps) ops).rmsgs.length :=
  CountedRetained_run caps ops

/-- … which is also the size of the index's retained store (`Topics.Retained.Len()`, the number Go stores into
    `Info.Retained`, server.go:1012 and 1775): the two stores have the same topics -/
theorem C38_retained_index_all_histories (caps : Caps) (ops : List Op) :
    (run (init caps) ops).info.retained = (run (init caps) ops).topics.retained.length := by
  rw [C38_retained_all_histories]
  have := congrArg List.length (RetKeys_run caps ops)
  simp only [List.length_map] at this
  rw [this]

/-- **subscriptions**: after EVERY history the reported number of subscriptions is the number of (client, filter)
    entries — plain and shared — of the topic index, and the index is well-formed -/
theorem C38_subs_all_histories (caps : Caps) (ops : List Op) :
    (run (init caps) ops).info.subs = Mochi.Topics.cnt (run (init caps) ops).topics.nodes :=
  (CountedSubs_run caps ops).2

/-- **in-flight**: after every well-scheduled history the reported number of in-flight messages is the number of
    in-flight records held by all client objects -/
theorem C38_inflight_all_histories (caps : Caps) (ops : List Op) (hf : OpsFresh (init caps) ops)
    (hs : OpsSched1 (init caps) ops) : (run (init caps) ops).info.inflight = sumAll (run (init caps) ops) :=
  (InflInv_run caps ops hf hs).eq

/-- **connected**: at every quiescent point of every well-scheduled history the reported number of connected
    clients is the number of open network client objects -/
theorem C38_connected_quiescent_all_histories (caps : Caps) (ops : List Op) (hf : OpsFresh (init caps) ops)
    (hs : OpsSched (init caps) ops) (hq : Quiescent (run (init caps) ops)) :
    (run (init caps) ops).info.connected = liveClients (run (init caps) ops) :=
  (Counted_run caps ops hf hs).connected_quiescent hq

/-- … and at every point, quiescent or not, it is the number of connection handlers between their increment and
    their deferred decrement -/
theorem C38_connected_all_histories (caps : Caps) (ops : List Op) (hf : OpsFresh (init caps) ops)
    (hs : OpsSched (init caps) ops) : (run (init caps) ops).info.connected = hcount (run (init caps) ops) :=
  (Counted_run caps ops hf hs).connected_eq

/-- **no counter is ever negative** -/
theorem C38_nonneg_all_histories (caps : Caps) (ops : List Op) (hf : OpsFresh (init caps) ops)
    (hs : OpsSched (init caps) ops) :
    0 ≤ (run (init caps) ops).info.retained ∧ 0 ≤ (run (init caps) ops).info.inflight ∧
    0 ≤ (run (init caps) ops).info.subs ∧ 0 ≤ (run (init caps) ops).info.connected :=
  (Counted_run caps ops hf hs).nonneg

/-- `retained` and `subs` are non-negative without any hypothesis on the history -/
theorem C38_nonneg_retained_subs (caps : Caps) (ops : List Op) :
    0 ≤ (run (init caps) ops).info.retained ∧ 0 ≤ (run (init caps) ops).info.subs := by
  rw [C38_retained_all_histories, C38_subs_all_histories]
  exact ⟨Int.natCast_nonneg _, Int.natCast_nonneg _⟩

/-! ### sums over the Clients MAP (what `VerifActual` computes)

The statement with "registered client objects" in place of "all client objects" is FALSE — in the model and,
by the same schedule, in the Go code: `attachClient` ends with `s.Clients.Delete(cl.ID)` (server.go:499-503),
which deletes by client id whoever is registered under it.  Schedule: client `s` (MQTT 5, session expiry 0) loses
its connection, its handler is parked at `attach.beforeCleanup` (server.go:493); `clearExpiredClients`
(server.go:1738-1757) removes the stopped client from the map; a new connection with the same id registers (no
takeover: nothing to take over), receives a QoS 2 publish (one in-flight record); the parked handler runs on,
`expire && !IsTakenOver()` holds, and `Clients.Delete` unregisters the NEW client.  The counters still count it;
the map does not contain it any more. -/

/-- the statement with sums over the Clients map -/
def C38_inflight_registered_statement : Prop :=
  ∀ (ops : List Op), OpsFresh (init {}) ops → OpsSched (init {}) ops →
    (run (init {}) ops).info.inflight = sumReg (run (init {}) ops)

def C38_connected_registered_statement : Prop :=
  ∀ (ops : List Op), OpsFresh (init {}) ops → OpsSched (init {}) ops → Quiescent (run (init {}) ops) →
    (run (init {}) ops).info.connected = liveReg (run (init {}) ops)

/-- the delete-by-id schedule -/
def raceHistory : List Op :=
  [.connect 1 { ver := 5, clean := false, id := [115], sei := some 0 },
   .dropHold 1,
   .tick "clients" 100000000000,
   .connect 2 { ver := 5, clean := false, id := [115], sei := some 0 },
   .recv 2 (.publish 2 false false 1 [116] [120] 0 none),
   .release 1]

/-- fresh, well scheduled, quiescent at the end — and the new client (object 2) is open, holds one in-flight
    record, is counted by both counters, and is not in the Clients map -/
theorem C38_inflight_counterexample :
    OpsFresh (init {}) raceHistory ∧ OpsSched (init {}) raceHistory ∧ Quiescent (run (init {}) raceHistory) ∧
    (run (init {}) raceHistory).info.inflight = 1 ∧ sumReg (run (init {}) raceHistory) = 0 ∧
    sumAll (run (init {}) raceHistory) = 1 := by decide

theorem C38_connected_counterexample :
    (run (init {}) raceHistory).info.connected = 1 ∧ liveReg (run (init {}) raceHistory) = 0 ∧
    liveClients (run (init {}) raceHistory) = 1 ∧ (run (init {}) raceHistory).clients.length = 1 := by decide

theorem C38_inflight_registered_false : ¬ C38_inflight_registered_statement := by
  intro h
  have := h raceHistory (by decide) (by decide)
  revert this
  decide

theorem C38_connected_registered_false : ¬ C38_connected_registered_statement := by
  intro h
  have := h raceHistory (by decide) (by decide) (by decide)
  revert this
  decide

/-- **in-flight, over the Clients map (partial)**: whenever no session is orphaned (`NoOrphans`, decidable: every
    object that holds in-flight records or is an open network client is in the map) the sums over the map are the
    sums over all objects -/
theorem C38_inflight_registered_partial (caps : Caps) (ops : List Op) (hf : OpsFresh (init caps) ops)
    (hs : OpsSched1 (init caps) ops) (ho : NoOrphans (run (init caps) ops)) :
    (run (init caps) ops).info.inflight = sumReg (run (init caps) ops) := by
  rw [C38_inflight_all_histories caps ops hf hs, sumReg_eq_sumAll (WF_run caps ops hf) ho]

theorem C38_connected_registered_partial (caps : Caps) (ops : List Op) (hf : OpsFresh (init caps) ops)
    (hs : OpsSched (init caps) ops) (hq : Quiescent (run (init caps) ops)) (ho : NoOrphans (run (init caps) ops)) :
    (run (init caps) ops).info.connected = liveReg (run (init caps) ops) := by
  rw [C38_connected_quiescent_all_histories caps ops hf hs hq, liveReg_eq_liveClients (WF_run caps ops hf) ho]

/-! ### why the schedule hypotheses are there (model artefacts, not Go behaviour)

The model executes an op on a connection whose handler is parked as if the handler were in its read loop; in Go
the parked goroutine reads nothing (`attachClient` is still before `cl.Read`, server.go:483) and runs its
tear-down only once.  `connect` with the inline client's id makes the model run `detach` for object 0 (`exLive`),
i.e. the deferred decrement of a handler the inline client does not have (`NewServer` / `AddListener` never call
`attachClient` for it). -/

/-- a QoS 2 PUBLISH "received" from a client parked in the authentication hook: its PUBREC record is lost when
    the released handler inherits the existing session -/
theorem C38_inflight_needs_sched :
    let h : List Op :=
      [.connectHold 1 { ver := 4, clean := false, id := [115] } 1,
       .recv 1 (.publish 2 false false 1 [116] [120] 0 none),
       .connect 2 { ver := 4, clean := false, id := [115] },
       .recv 2 (.publish 2 false false 5 [116] [120] 0 none),
       .release 1]
    OpsFresh (init {}) h ∧ ¬ OpsSched1 (init {}) h ∧
      (run (init {}) h).info.inflight = 2 ∧ sumAll (run (init {}) h) = 1 := by decide

/-- a connection dropped while its handler is parked before the CONNACK: the model decrements twice -/
theorem C38_connected_needs_sched :
    let h : List Op := [.connectHold 1 { ver := 4, clean := true, id := [115] } 2, .drop 1, .release 1]
    OpsFresh (init {}) h ∧ ¬ OpsSched (init {}) h ∧ Quiescent (run (init {}) h) ∧
      (run (init {}) h).info.connected = -1 := by decide

/-- a network client with the id `inline`: the model runs the tear-down of a handler the inline client never had -/
theorem C38_connected_needs_inline_id :
    let h : List Op := [.connect 1 { ver := 4, clean := true, id := inlineID }]
    OpsFresh (init {}) h ∧ ¬ OpsSched (init {}) h ∧ Quiescent (run (init {}) h) ∧
      (run (init {}) h).info.connected = 0 ∧ liveClients (run (init {}) h) = 1 := by decide

/-! ### non-vacuity

A persistent subscriber (connection 1) goes offline; a publisher (connection 2) sends two QoS 1 messages to its
topic, the first retained; the subscriber resumes its session on connection 3 (the two messages are resent and
stay in flight) and is taken over by connection 4; finally a third client is parked before its CONNACK. -/
def countersHistory : List Op :=
  [.connect 1 { ver := 4, clean := false, id := [115] },
   .recv 1 (.subscribe 1 0 [{ filter := [116], qos := 1 }]),
   .drop 1,
   .connect 2 { ver := 4, clean := true, id := [112] },
   .recv 2 (.publish 1 false true 1 [116] [120] 0 none),
   .recv 2 (.publish 1 false false 2 [116] [121] 0 none),
   .connect 3 { ver := 4, clean := false, id := [115] },
   .connect 4 { ver := 4, clean := false, id := [115] },
   .connectHold 5 { ver := 5, clean := true, id := [113] } 2]

example : OpsFresh (init {}) countersHistory ∧ OpsSched (init {}) countersHistory := by decide

/-- after the first eight ops (a quiescent state): 2 connected, 1 subscription, 1 retained, 2 in flight -/
example :
    Quiescent (run (init {}) (countersHistory.take 8)) ∧ NoOrphans (run (init {}) (countersHistory.take 8)) ∧
    (run (init {}) (countersHistory.take 8)).info.connected = 2 ∧ liveClients (run (init {}) (countersHistory.take 8)) = 2 ∧
    (run (init {}) (countersHistory.take 8)).info.subs = 1 ∧
    (run (init {}) (countersHistory.take 8)).info.retained = 1 ∧
    (run (init {}) (countersHistory.take 8)).info.inflight = 2 ∧ sumAll (run (init {}) (countersHistory.take 8)) = 2 ∧
    sumReg (run (init {}) (countersHistory.take 8)) = 2 := by decide

/-- after all nine ops (a handler is parked: not quiescent): the parked handler is counted -/
example :
    ¬ Quiescent (run (init {}) countersHistory) ∧ (run (init {}) countersHistory).info.connected = 3 ∧
    hcount (run (init {}) countersHistory) = 3 := by decide

/-- the theorems apply to it -/
example : (run (init {}) countersHistory).info.inflight = sumAll (run (init {}) countersHistory) :=
  C38_inflight_all_histories {} countersHistory (by decide) (by decide)

example : (run (init {}) (countersHistory.take 8)).info.connected = liveClients (run (init {}) (countersHistory.take 8)) :=
  C38_connected_quiescent_all_histories {} (countersHistory.take 8) (by decide) (by decide) (by decide)

end Mochi.Broker
