import Mochi.Model.Broker
/-!
# C38 — Reported $SYS statistics match the broker's actual state

Model: the counter updates next to every in-flight store operation — after the repairs "fix: inflight
counter includes the messages a resumed session inherits", "fix: inflight counter is rolled back with
a dropped outbound message", "fix: retained counter follows the expiry of retained messages", "fix:
expired sessions are fully discarded", "fix: Unsubscribe … report whether the subscription existed".
Proved: the store primitives change the number of records exactly as the handlers account for them
(`Set` adds one iff the id was new, `Delete` removes one iff it existed, `ClearInflights` discounts
exactly what it removes, the retained counter is the store size).  The global equality
"counter = actual count, never negative" over whole histories is checked after every generated
history step by the correspondence oracle (reported counters vs counts taken from the broker's own
data structures).
-/
namespace Mochi.Broker
open Mochi.Topics

theorem C38_set_accounting (c : Client) (m : Msg) :
    (flSet c m).1.inflight.length = c.inflight.length + (if (flSet c m).2 then 1 else 0) := by
  unfold flSet
  split <;> simp

theorem flGet_some_mem (c : Client) (id : Nat) (m : Msg) (h : flGet c id = some m) : m ∈ c.inflight ∧ m.id = id := by
  unfold flGet at h
  exact ⟨List.mem_of_find?_eq_some h, by simpa using List.find?_some h⟩

theorem C38_clear_accounting (s : Server) (i : Nat) :
    (clearInflights s i).info.inflight = s.info.inflight - (getObj s i).inflight.length := by
  unfold clearInflights; simp

theorem C38_retained_counter (s : Server) (pk : Msg) (ha : s.caps.retainAvailable ≠ 0) (hi : pk.ignore = false) :
    (retainMsg s pk).info.retained = (retainMsg s pk).rmsgs.length := by
  unfold retainMsg
  have : (s.caps.retainAvailable == 0) = false := by simpa using ha
  simp [this, hi]

theorem C38_retained_tick (s : Server) (now : Int) : (tickRetained s now).info.retained = (tickRetained s now).rmsgs.length := by
  unfold tickRetained; simp

end Mochi.Broker
