import Mochi.Lemmas.Storage
import Mochi.Model.Restart
/-!
# C21 — A crash never loses acknowledged state or resurrects discarded state

*If the broker process dies between any two storage writes during any history, a broker restarted on that store
still has every subscription, retained message and in-flight message that was acknowledged to a client before the
crash and not removed before it. A client connecting with Clean Start 1 after the restart never receives messages
because of subscriptions from a session that was clean, expired or taken over before the crash. Storage writes
issued for a superseded session never delete state belonging to the live session with the same client identifier.*

A crash is a prefix of the write log: `applyWrites kv₀ (pre ++ w :: post)` with `post` arbitrary is the store at
EVERY crash point after the write `w`; the theorems quantify over `post` (induction on the log), i.e. over all crash
points at once. The engines are trusted atomic and durable per call (pebble's default `NoSync` against process death
and torn OS writes are outside the model).

What holds (proved): a record written and not touched again is in the store at every later crash point, a key deleted
and not written again is absent at every later crash point; every stored subscription is restored and every restored
subscription was stored; the writes of an event only touch keys of its own client id.
What does not (counterexamples, each replayed on the real broker by `sr.crashsweep`, corpus/C21): F21a the superseded
object's `OnQosDropped` deletes the live session's stored in-flight message; F21b subscriptions of a clean / ended
session are restored without the session and deliver to a Clean Start 1 connection; F21c a refused subscription is
never deleted; F21d the publisher is acknowledged before the subscribers' in-flight records are written.
-/
namespace Mochi.Storage

def Write.key : Write → PKey
  | .set k _ => k
  | .del k => k

def KV.get (kv : KV) (k : PKey) : Option Record := (kv.find? (fun e => e.1 == k)).map (·.2)

/-- the write log of a history -/
def writeLog (b : Backend) (evs : List Event) : List Write := evs.flatMap (interp b)

/-- the store when the process dies after the first `n` writes -/
def crashStore (b : Backend) (evs : List Event) (n : Nat) : KV := applyWrites [] ((writeLog b evs).take n)

theorem applyWrites_append (kv : KV) (a b : List Write) : applyWrites kv (a ++ b) = applyWrites (applyWrites kv a) b := by
  simp [applyWrites, List.foldl_append]

theorem foldl_step_eq (b : Backend) (kv : KV) (evs : List Event) :
    evs.foldl (step b) kv = applyWrites kv (evs.flatMap (interp b)) := by
  induction evs generalizing kv with
  | nil => rfl
  | cons e es ih => simp only [List.foldl_cons, List.flatMap_cons, applyWrites_append, step, ih]

/-- no crash = the whole log -/
theorem C21_run_is_full_log (b : Backend) (evs : List Event) : run b evs = crashStore b evs (writeLog b evs).length := by
  unfold crashStore
  rw [List.take_length]
  exact foldl_step_eq b [] evs

theorem get_filter_ne (kv : KV) (k k' : PKey) (h : k' ≠ k) : KV.get (kv.filter (fun e => e.1 != k')) k = KV.get kv k := by
  unfold KV.get
  induction kv with
  | nil => rfl
  | cons x xs ih =>
    rw [List.filter_cons]
    by_cases hx : x.1 = k'
    · have h1 : (x.1 != k') = false := by simp [hx]
      have h2 : (x.1 == k) = false := by rw [hx]; simp [h]
      simp only [h1, Bool.false_eq_true, if_false, List.find?_cons, h2]
      exact ih
    · have h1 : (x.1 != k') = true := by simp [hx]
      simp only [h1, if_true, List.find?_cons]
      cases hk : (x.1 == k) with
      | true => rfl
      | false => exact ih

theorem get_filter_self (kv : KV) (k : PKey) : KV.get (kv.filter (fun e => e.1 != k)) k = none := by
  unfold KV.get
  induction kv with
  | nil => rfl
  | cons x xs ih =>
    rw [List.filter_cons]
    by_cases hx : x.1 = k
    · have h1 : (x.1 != k) = false := by simp [hx]
      simp only [h1, Bool.false_eq_true, if_false]
      exact ih
    · have h1 : (x.1 != k) = true := by simp [hx]
      have h2 : (x.1 == k) = false := by simp [hx]
      simp only [h1, if_true, List.find?_cons, h2]
      exact ih

/-- a write does not change what is stored under another key -/
theorem get_applyWrite_other (kv : KV) (w : Write) (k : PKey) (h : w.key ≠ k) : (applyWrite kv w).get k = kv.get k := by
  cases w with
  | set k' r =>
    have hk : k' ≠ k := h
    have hb : (k' == k) = false := by simp [hk]
    simp only [applyWrite, KV.set]
    rw [show KV.get ((k', r) :: kv.filter (fun e => e.1 != k')) k = KV.get (kv.filter (fun e => e.1 != k')) k from by
      simp only [KV.get, List.find?_cons, hb]]
    exact get_filter_ne kv k k' hk
  | del k' => exact get_filter_ne kv k k' h

theorem get_applyWrites_other (kv : KV) (ws : List Write) (k : PKey) (h : ∀ w ∈ ws, w.key ≠ k) :
    (applyWrites kv ws).get k = kv.get k := by
  induction ws generalizing kv with
  | nil => rfl
  | cons w ws ih =>
    simp only [applyWrites, List.foldl_cons] at ih ⊢
    rw [ih _ (fun w' hw' => h w' (by simp [hw'])), get_applyWrite_other _ _ _ (h w (by simp))]

/-- **No loss (store).** A record written under `k` is in the store at every later crash point before the next
    write that touches `k` — whatever the earlier writes `pre` and the later writes `post` to other keys were. -/
theorem C21_no_loss_store (kv₀ : KV) (pre post : List Write) (k : PKey) (r : Record) (h : ∀ w ∈ post, w.key ≠ k) :
    (applyWrites kv₀ (pre ++ .set k r :: post)).get k = some r := by
  rw [applyWrites_append]
  show (applyWrites (applyWrite (applyWrites kv₀ pre) (.set k r)) post).get k = some r
  rw [get_applyWrites_other _ _ _ h]
  simp [applyWrite, KV.set, KV.get]

/-- **No resurrection (store).** A key deleted is absent at every later crash point before the next write to it. -/
theorem C21_no_resurrection_store (kv₀ : KV) (pre post : List Write) (k : PKey) (h : ∀ w ∈ post, w.key ≠ k) :
    (applyWrites kv₀ (pre ++ .del k :: post)).get k = none := by
  rw [applyWrites_append]
  show (applyWrites (applyWrite (applyWrites kv₀ pre) (.del k)) post).get k = none
  rw [get_applyWrites_other _ _ _ h]
  exact get_filter_self _ k

/-! ## from the store to the restarted broker -/

theorem get_mem (kv : KV) (k : PKey) (r : Record) (h : kv.get k = some r) : (k, r) ∈ kv := by
  unfold KV.get at h
  cases hf : kv.find? (fun e => e.1 == k) with
  | none => simp [hf] at h
  | some e =>
    simp [hf] at h
    have hm := List.mem_of_find?_eq_some hf
    have hk := List.find?_some hf
    have : e.1 = k := by simpa using hk
    obtain ⟨e1, e2⟩ := e
    simp at this h
    subst this; subst h; exact hm

/-- a subscription record in the store is returned by `StoredSubscriptions` -/
theorem stored_sub_of_get (b : Backend) (kv : KV) (id f : Str) (s : SubRec)
    (h : kv.get (subscriptionKey b id f) = some (.sub s)) : s ∈ storedSubscriptions b kv := by
  have hm := get_mem _ _ _ h
  unfold storedSubscriptions
  rw [List.mem_filterMap]
  refine ⟨_, hm, ?_⟩
  have hs : scans b .sub (subscriptionKey b id f) = true := by rw [subscriptionKey_enc, scans_enc]; rfl
  simp [hs, Record.asSub]

def hasEntry (idx : List SubEntry) (c f : Str) : Prop := ∃ e ∈ idx, e.client = c ∧ e.filter = f

/-- one step of `loadSubscriptions` on the index -/
def idxStep (idx : List SubEntry) (sub : SubRec) : List SubEntry :=
  idx.filter (fun e => !(e.client == sub.client && e.filter == sub.filter && e.kind == kindOf sub.filter)) ++
    [{ client := sub.client, filter := sub.filter, kind := kindOf sub.filter, opts := optsOf sub }]

theorem loadSubscriptions_idx (ss : List Session) (v : List SubRec) (acc : List SubEntry × List (Str × Str × SubOpts)) :
    (v.foldl (fun (acc : List SubEntry × List (Str × Str × SubOpts)) sub =>
      let kind := kindOf sub.filter
      let existed := acc.1.any fun e => e.client == sub.client && e.filter == sub.filter && e.kind == kind
      let idx := acc.1.filter (fun e => !(e.client == sub.client && e.filter == sub.filter && e.kind == kind)) ++
                 [{ client := sub.client, filter := sub.filter, kind := kind, opts := optsOf sub }]
      let cs := if !existed && knownClient ss sub.client
                then acc.2.filter (fun e => !(e.1 == sub.client && e.2.1 == sub.filter)) ++ [(sub.client, sub.filter, optsOf sub)]
                else acc.2
      (idx, cs)) acc).1 = v.foldl idxStep acc.1 := by
  induction v generalizing acc with
  | nil => rfl
  | cons s vs ih => simp only [List.foldl_cons]; rw [ih]; rfl

theorem idxStep_has_new (idx : List SubEntry) (s : SubRec) : hasEntry (idxStep idx s) s.client s.filter :=
  ⟨{ client := s.client, filter := s.filter, kind := kindOf s.filter, opts := optsOf s }, by simp [idxStep], rfl, rfl⟩

theorem idxStep_preserves (idx : List SubEntry) (s : SubRec) (c f : Str) (h : hasEntry idx c f) : hasEntry (idxStep idx s) c f := by
  obtain ⟨e, he, hc, hf⟩ := h
  by_cases hsame : (e.client == s.client && e.filter == s.filter && e.kind == kindOf s.filter) = true
  · simp only [Bool.and_eq_true, beq_iff_eq] at hsame
    exact ⟨{ client := s.client, filter := s.filter, kind := kindOf s.filter, opts := optsOf s }, by simp [idxStep],
      by rw [← hsame.1.1, hc], by rw [← hsame.1.2, hf]⟩
  · refine ⟨e, ?_, hc, hf⟩
    simp only [idxStep, List.mem_append, List.mem_filter]
    left
    refine ⟨he, ?_⟩
    cases hb : (e.client == s.client && e.filter == s.filter && e.kind == kindOf s.filter) with
    | true => exact absurd hb hsame
    | false => rfl

theorem foldl_idxStep_has (v : List SubRec) (idx : List SubEntry) (c f : Str)
    (h : hasEntry idx c f ∨ ∃ s ∈ v, s.client = c ∧ s.filter = f) : hasEntry (v.foldl idxStep idx) c f := by
  induction v generalizing idx with
  | nil =>
    rcases h with h | ⟨s, hs, _⟩
    · exact h
    · simp at hs
  | cons s vs ih =>
    simp only [List.foldl_cons]
    apply ih
    rcases h with h | ⟨s', hs', hc, hf⟩
    · exact Or.inl (idxStep_preserves idx s c f h)
    · rcases List.mem_cons.mp hs' with rfl | hin
      · left; rw [← hc, ← hf]; exact idxStep_has_new idx s'
      · exact Or.inr ⟨s', hin, hc, hf⟩

/-- **No loss (restart).** Every subscription record the store returns is in the restarted broker's topic index. -/
theorem C21_stored_subscription_restored (rb : ReadBack) (s : SubRec) (h : s ∈ rb.subs) :
    hasEntry (restart rb).subs s.client s.filter := by
  have : (restart rb).subs = rb.subs.foldl idxStep [] := by
    simp only [restart, loadSubscriptions]
    exact loadSubscriptions_idx _ _ ([], [])
  rw [this]
  exact foldl_idxStep_has _ _ _ _ (Or.inr ⟨s, h, rfl, rfl⟩)

/-- a subscription acknowledged (written by `OnSubscribed`) and not touched again is in the topic index of a broker
    restarted at any later crash point -/
theorem C21_no_loss_subscription (b : Backend) (kv₀ : KV) (pre post : List Write) (id f : Str) (s : SubRec)
    (h : ∀ w ∈ post, w.key ≠ subscriptionKey b id f) :
    hasEntry (restart (readback b (applyWrites kv₀ (pre ++ .set (subscriptionKey b id f) (.sub s) :: post)))).subs s.client s.filter :=
  C21_stored_subscription_restored _ s (stored_sub_of_get b _ id f s (C21_no_loss_store kv₀ pre post _ _ h))

theorem foldl_idxStep_from (v : List SubRec) (idx : List SubEntry) (e : SubEntry) (h : e ∈ v.foldl idxStep idx) :
    e ∈ idx ∨ ∃ s ∈ v, s.client = e.client ∧ s.filter = e.filter := by
  induction v generalizing idx with
  | nil => exact Or.inl h
  | cons s vs ih =>
    simp only [List.foldl_cons] at h
    rcases ih _ h with h1 | ⟨s', hs', hh⟩
    · simp only [idxStep, List.mem_append, List.mem_filter, List.mem_singleton] at h1
      rcases h1 with h1 | h1
      · exact Or.inl h1.1
      · exact Or.inr ⟨s, by simp, by rw [h1], by rw [h1]⟩
    · exact Or.inr ⟨s', by simp [hs'], hh⟩

/-- **No resurrection (restart).** Every subscription of the restarted broker's index comes from a stored subscription
    record: once the records of a session are deleted (and stay deleted, `C21_no_resurrection_store`), nothing of it
    is subscribed again. -/
theorem C21_restored_subscription_was_stored (rb : ReadBack) (e : SubEntry) (h : e ∈ (restart rb).subs) :
    ∃ s ∈ rb.subs, s.client = e.client ∧ s.filter = e.filter := by
  have hr : (restart rb).subs = rb.subs.foldl idxStep [] := by
    simp only [restart, loadSubscriptions]
    exact loadSubscriptions_idx _ _ ([], [])
  rw [hr] at h
  rcases foldl_idxStep_from _ _ _ h with h1 | h2
  · simp at h1
  · exact h2

/-! ## writes of a superseded object -/

/-- the client of an event (none for `OnRetainedExpired`, `OnSysInfoTick`) -/
def Event.client? : Event → Option Client
  | .established c | .willSent c | .clientExpired c | .disconnect c _ | .subscribed c _ _ | .unsubscribed c _
  | .retain c _ _ | .qosPublish c _ _ _ | .qosComplete c _ | .qosDropped c _ => some c
  | _ => none

/-- the keys an event of client id `id` may delete: its client record, its subscriptions, its in-flight messages, and
    (`OnRetainMessage` with r = -1) a retained topic -/
def ownKey (b : Backend) (id : Str) (k : PKey) : Prop :=
  k = clientKey b id ∨ (∃ f, k = subscriptionKey b id f) ∨ (∃ p, k = inflightKey b id p) ∨ (∃ t, k = retainedKey b t)

/-- **Scope of deletes.** Whatever object issues an event (live or superseded), the deletes it causes are keyed by ITS
    client id: they can never remove the state of a session with another client identifier … -/
theorem C21_deletes_only_own_keys (b : Backend) (e : Event) (cl : Client) (hc : e.client? = some cl) (k : PKey)
    (h : Write.del k ∈ interp b e) : ownKey b cl.id k := by
  cases e <;> simp [Event.client?] at hc <;> subst hc
  case established => simp [interp, updateClient] at h
  case willSent => simp [interp, updateClient] at h
  case clientExpired => simp [interp] at h; exact Or.inl h
  case disconnect expire =>
    simp only [interp, onDisconnect, updateClient, List.mem_append] at h
    rcases h with h | h
    · split at h <;> simp at h
    · split at h
      · simp at h
      · split at h
        · simp at h
        · simp at h; exact Or.inl h
  case subscribed fs codes => simp [interp, onSubscribed] at h
  case unsubscribed fs =>
    simp only [interp, onUnsubscribed, List.mem_map] at h
    obtain ⟨f, _, hf⟩ := h
    simp at hf
    exact Or.inr (Or.inl ⟨f.filter, hf.symm⟩)
  case retain pk del =>
    simp only [interp, onRetainMessage] at h
    split at h
    · simp at h; exact Or.inr (Or.inr (Or.inr ⟨pk.topic, h⟩))
    · simp at h
  case qosPublish pk sent resends => simp [interp, onQosPublish] at h
  case qosComplete pk => simp [interp, onQosComplete] at h; exact Or.inr (Or.inr (Or.inl ⟨pk.pid, h⟩))
  case qosDropped pk => simp [interp, onQosComplete] at h; exact Or.inr (Or.inr (Or.inl ⟨pk.pid, h⟩))

/-! ## the three clauses of the property: what is proved of each (`_partial`) -/

/-- **C21 no loss, partial**: at every crash point after a record was written and before its key is touched again the
    record is in the store (and, for a subscription, in the restarted broker's topic index: `C21_no_loss_subscription`).
    Not covered: acknowledged state whose record is written only AFTER the acknowledgement (`C21_no_loss_counterexample`). -/
theorem C21_no_loss_partial (kv₀ : KV) (pre post : List Write) (k : PKey) (r : Record) (h : ∀ w ∈ post, w.key ≠ k) :
    (applyWrites kv₀ (pre ++ .set k r :: post)).get k = some r := C21_no_loss_store kv₀ pre post k r h

/-- **C21 no resurrection, partial**: the restarted broker's index holds only subscriptions whose records are in the store,
    and a deleted record stays absent at every later crash point. Not covered: sessions whose subscription records are
    still in the store when the session is gone (`C21_no_resurrection_counterexample`). -/
theorem C21_no_resurrection_partial (b : Backend) (kv₀ : KV) (pre post : List Write) (id f : Str)
    (h : ∀ w ∈ post, w.key ≠ subscriptionKey b id f) :
    (applyWrites kv₀ (pre ++ .del (subscriptionKey b id f) :: post)).get (subscriptionKey b id f) = none ∧
    ∀ e ∈ (restart (readback b (applyWrites kv₀ (pre ++ .del (subscriptionKey b id f) :: post)))).subs,
      ∃ s ∈ (readback b (applyWrites kv₀ (pre ++ .del (subscriptionKey b id f) :: post))).subs, s.client = e.client ∧ s.filter = e.filter :=
  ⟨C21_no_resurrection_store kv₀ pre post _ h, fun e he => C21_restored_subscription_was_stored _ e he⟩

/-- **C21 superseded harmless, partial**: the deletes of any event are keyed by that event's own client id. Not covered:
    the live session with the SAME identifier (`C21_superseded_harmless_counterexample`). -/
theorem C21_superseded_harmless_partial (b : Backend) (e : Event) (cl : Client) (hc : e.client? = some cl) (k : PKey)
    (h : Write.del k ∈ interp b e) : ownKey b cl.id k := C21_deletes_only_own_keys b e cl hc k h

/-! ## counterexamples (logs printed by `sr.crashsweep` on the real broker, corpus/C21) -/

def a4 : Client := { id := [97], pv := 4, listener := [116] }                    -- persistent session "a" (MQTT 3.1.1)
def a4clean : Client := { id := [97], pv := 4, clean := true, listener := [116] }
def bPub : Client := { id := [98], pv := 4, clean := true, listener := [116] }
def msg1 : Packet := { topic := [116], payload := [112], qos := 1, type := 3, pid := 1, created := 1000 }

/-- **F21a.** … but they DO remove the state of the live session with the SAME identifier: take-over of `a` with one
    in-flight message. Log of the real broker: `OnQosPublish(a, 1)`; then, for the take-over, `OnQosDropped(old a, 1)`
    (from `existing.ClearInflights()`), `OnDisconnect(old a)`, and only then `OnQosPublish(new a, 1)` (resend) and
    `OnSessionEstablished(new a)`. A crash after the superseded object's delete loses the message although the live
    session holds it before and after. -/
theorem C21_superseded_harmless_counterexample :
    let old : Client := { a4 with stop := .takenOver }
    let evs : List Event := [.established a4, .subscribed a4 [{ filter := [116], qos := 1 }] [1], .qosPublish a4 msg1 1000 0,
                             .qosDropped old msg1, .disconnect old false, .qosPublish a4 msg1 1000 0, .established a4]
    ∀ b ∈ [badger, pebble],
      ((restart (readback b (run b (evs.take 3)))).inflight.map (·.2.1)) = [1] ∧
      ((restart (readback b (run b (evs.take 4)))).inflight.map (·.2.1)) = [] ∧
      ((restart (readback b (run b (evs.take 5)))).inflight.map (·.2.1)) = [] ∧
      ((restart (readback b (run b evs))).inflight.map (·.2.1)) = [1] := by
  decide

/-- **F21b.** A clean-session client subscribes; the broker dies while it is connected (or after `OnDisconnect` deleted
    the client record and before `OnUnsubscribed` deleted the subscriptions): the restarted broker has no session `a`
    but subscribes the id `a` to the filter — a later Clean Start 1 connection `a` is delivered its messages. -/
theorem C21_no_resurrection_counterexample :
    let gone : Client := { a4clean with stop := .other }
    let evs : List Event := [.established a4clean, .subscribed a4clean [{ filter := [99] }] [0], .disconnect gone true,
                             .unsubscribed gone [{ filter := [99] }]]
    ∀ b ∈ backends,
      (restart (readback b (run b (evs.take 2)))).sessions = [] ∧
      ((restart (readback b (run b (evs.take 2)))).subs.map (fun e => (e.client, e.filter))) = [([97], [99])] ∧
      (restart (readback b (run b (evs.take 3)))).sessions = [] ∧
      ((restart (readback b (run b (evs.take 3)))).subs.map (fun e => (e.client, e.filter))) = [([97], [99])] ∧
      (restart (readback b (run b evs))).subs = [] := by
  decide

/-- **F21c.** A refused subscription (SUBACK 0x82 for No Local on a share) is written, is not in the session's own list,
    hence is not deleted when the clean session ends: it is in the restarted broker's index after the complete log. -/
theorem C21_refused_subscription_counterexample :
    let share : Str := [36, 115, 104, 97, 114, 101, 47, 103, 47, 99]   -- "$share/g/c"
    let gone : Client := { a4clean with stop := .other }
    let evs : List Event := [.established a4clean, .subscribed a4clean [{ filter := share, qos := 1, nl := true }] [130],
                             .disconnect gone true, .unsubscribed gone []]
    ∀ b ∈ backends,
      ((restart (readback b (run b evs))).subs.map (fun e => (e.client, e.kind, e.opts.qos))) = [([97], SubKind.shared, 130)] ∧
      (restart (readback b (run b evs))).sessions = [] := by
  decide

/-- an item of the real broker's log: a storage event or an acknowledgement written to a client -/
inductive LogItem where
  | ev (e : Event)
  | ack (client : Str) (ptype pid : Nat)
deriving DecidableEq, Repr

def eventsOf (l : List LogItem) : List Event := l.filterMap fun | .ev e => some e | _ => none
def acksOf (l : List LogItem) : List (Str × Nat × Nat) := l.filterMap fun | .ack c t p => some (c, t, p) | _ => none

/-- **F21d.** QoS 1 publish of `b` to the persistent subscriber `a`: the real log is `OnQosPublish(b, PUBACK 5)`,
    PUBACK written to `b`, `OnQosComplete(b, 5)`, and only then `OnQosPublish(a, 1)`. At the crash point after the
    PUBACK the publisher has been acknowledged and the restarted broker has no message for `a`. -/
theorem C21_no_loss_counterexample :
    let ackPk : Packet := { type := 4, pid := 5, created := 1000 }
    let log : List LogItem := [.ev (.established a4), .ev (.subscribed a4 [{ filter := [116], qos := 1 }] [1]), .ev (.established bPub),
                               .ev (.qosPublish bPub ackPk 1000 0), .ack [98] 4 5, .ev (.qosComplete bPub ackPk),
                               .ev (.qosPublish a4 msg1 1000 0)]
    ∀ b ∈ [badger, pebble],
      acksOf (log.take 5) = [([98], 4, 5)] ∧
      ((restart (readback b (run b (eventsOf (log.take 5))))).inflight.filter (·.1 == [97])) = [] ∧
      ((restart (readback b (run b (eventsOf (log.take 6))))).inflight.filter (·.1 == [97])) = [] ∧
      (((restart (readback b (run b (eventsOf log)))).inflight.filter (·.1 == [97])).map (·.2.1)) = [1] := by
  decide

/-! ## non-vacuity -/

/-- `C21_no_loss_subscription` applies to a real log: the subscription of `a` written by `OnSubscribed`, followed by
    writes of another client, at every one of the later crash points -/
example :
    let b := badger
    let pre := interp b (.established a4)
    let post := interp b (.established bPub) ++ interp b (.qosPublish bPub msg1 0 0)
    (∀ w ∈ post, w.key ≠ subscriptionKey b [97] [99]) ∧
    (∀ n ≤ post.length, ∃ e ∈ (restart (readback b (applyWrites [] (pre ++ interp b (.subscribed a4 [{ filter := [99] }] [0]) ++ post.take n)))).subs,
        e.client = [97] ∧ e.filter = [99]) := by
  decide

end Mochi.Storage
