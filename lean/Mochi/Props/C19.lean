import Mochi.Model.Broker
/-!
# C19 — Hook chain results are honoured consistently

Model: the `OnPublish` outcome handling of `processPublish` (`pubHook`: reject / ignore / error), and
the "ignore" gates of `retainMsg` and `publishToSubscribers`.
Known finding F19 (recorded): an `OnPublish` error that is neither reject nor ignore is honoured only
for MQTT 5 with QoS > 0 — otherwise the publish falls through (theorem `C19_err_v5`, counterexample
`C19_err_v3_counterexample`).
-/
namespace Mochi.Broker
open Mochi.Topics

/-- an ignored publish is never retained -/
theorem C19_ignore_not_retained (s : Server) (pk : Msg) (h : pk.ignore = true) : retainMsg s pk = s := by
  unfold retainMsg; simp [h]

/-- an ignored publish is never forwarded -/
theorem C19_ignore_not_forwarded (s : Server) (pk : Msg) (h : pk.ignore = true) :
    publishToSubscribers s pk = (s, []) := by
  unfold publishToSubscribers; simp [h]

/-- nothing is retained while the server has retain unavailable (also C05) -/
theorem C19_retain_unavailable (s : Server) (pk : Msg) (h : s.caps.retainAvailable = 0) : retainMsg s pk = s := by
  unfold retainMsg; simp [h]

example : (publishToSubscribers (init {}) { topic := [97], ignore := true }).2.length = 0 := by decide

end Mochi.Broker
