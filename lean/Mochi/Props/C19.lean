import Mochi.Model.Broker
import Mochi.Lemmas.Hooks
/-!
# C19 — Hook chain results are honoured consistently

Model: the `OnPublish` outcome handling of `processPublish` (`pubHook`: reject / ignore / error), and
the "ignore" gates of `retainMsg` and `publishToSubscribers`.
Known finding F19 (recorded): an `OnPublish` error that is neither reject nor ignore is honoured only
for MQTT 5 with QoS > 0 — otherwise the publish falls through (theorem `C19_err_v5`, counterexample
`C19_err_v3_counterexample`).

Second part (namespace `Mochi.Hooks`, model `Model/Hooks.lean`): the dispatcher `Hooks` of hooks.go itself — for EVERY
list of hooks (a hook is any record of functions): which hooks a dispatcher consults and in which order, what
each receives, when the loop returns early and what the dispatcher returns.
-/
namespace Mochi.Broker
open Mochi.Topics

/-- an ignored publish is never retained -/
theorem C19_ignore_not_retained (s : Server) (pk : Msg) (h : pk.ignore = true) : retainMsg s pk = s := by
  unfold retainMsg; simp [h]

/-- an ignored publish is never forwarded -/
theorem C19_ignore_not_forwarded (s : Server) (pk : Msg) (h : pk.ignore = true) :
    publishToSubscribers s pk = (s, []) := by
  unfold publishToSubscribers; simp [h]

/-- nothing is retained while the server has retain unavailable (also C05) -/
theorem C19_retain_unavailable (s : Server) (pk : Msg) (h : s.caps.retainAvailable = 0) : retainMsg s pk = s := by
  unfold retainMsg; simp [h]

example : (publishToSubscribers (init {}) { topic := [97], ignore := true }).2.length = 0 := by decide

end Mochi.Broker

/-! # The dispatcher (`type Hooks`, hooks.go)

Observables of one dispatcher call: the returned value (`.1`) and the trace of hook calls (`.2`): index of the
hook in registration order, method, arguments, result.  `providers m hs` are the indices of the hooks whose
`Provides(m)` is true.  All statements are for every hook list `hs` and every argument.
-/
namespace Mochi.Hooks

/-! ## Registration order -/

/-- `providers m hs` lists, in increasing (= registration) order, exactly the positions of the hooks that provide `m` -/
theorem C19_providers (m : Method) (hs : List Hook) :
    (providers m hs).Pairwise (· < ·) ∧
    ∀ j, j ∈ providers m hs ↔ ∃ h, hs[j]? = some h ∧ h.provides m = true := by
  refine ⟨providersFrom_pairwise m hs 0, fun j => ?_⟩
  simpa [providers] using mem_providersFrom m hs 0 j

/-- `Hooks.Add` appends: registration order is the order of the successful `Add`s; a hook whose `Init` fails
    is not registered and the error comes back wrapped -/
theorem C19_add (hs : List Hook) (h : Hook) :
    (h.initErr = none → add hs h = (hs ++ [h], none)) ∧
    (∀ e, h.initErr = some e → add hs h = (hs, some (.initWrap e))) := by
  constructor
  · intro h0; simp [add, h0]
  · intro e h0; simp [add, h0]

/-- `Hooks.Provides(b...)`: true iff some registered hook provides some of the requested methods -/
theorem C19_provides_any (hs : List Hook) (bs : List Method) :
    providesAny hs bs = true ↔ ∃ h ∈ hs, ∃ b ∈ bs, h.provides b = true := by
  simp [providesAny, List.any_eq_true]

/-- the model's constants are the `iota` values of hooks.go:19-58 (compared with the real constants by `hk.const`) -/
example : Method.setOptions.code = 0 ∧ Method.onConnectAuthenticate.code = 4 ∧ Method.onACLCheck.code = 5 ∧
    Method.onPacketRead.code = 11 ∧ Method.onPublish.code = 20 ∧ Method.onWill.code = 29 ∧
    Method.storedClients.code = 33 ∧ Method.storedSysInfo.code = 37 ∧ Method.all.length = 38 := by decide

/-- **Notify-all** (the 21 dispatchers without a result): every providing hook is called exactly once, in
    registration order, with exactly the dispatcher's arguments; no other hook is called -/
theorem C19_notify_all (m : Method) (a : Arg) (hs : List Hook) :
    notify m a hs = (providers m hs).map (fun j => ⟨j, m, a, .unit⟩) := by
  simpa [notify, providers] using notify_trace m a hs 0

/-- the 21 notify-all dispatchers, by name -/
theorem C19_notify_all_named (hs : List Hook) (pk : Pkt) (e : Option Err) (x : Bool) (b : Bytes) (r n : Nat) :
    onSysInfoTick hs = notify .onSysInfoTick .unit hs ∧ onStarted hs = notify .onStarted .unit hs ∧
    onStopped hs = notify .onStopped .unit hs ∧
    onSessionEstablish hs pk = notify .onSessionEstablish (.pkt pk) hs ∧
    onSessionEstablished hs pk = notify .onSessionEstablished (.pkt pk) hs ∧
    onDisconnect hs e x = notify .onDisconnect (.disc e x) hs ∧
    onPacketProcessed hs pk e = notify .onPacketProcessed (.pktErr pk e) hs ∧
    onPacketSent hs pk b = notify .onPacketSent (.pktBytes pk b) hs ∧
    onSubscribed hs pk b = notify .onSubscribed (.pktBytes pk b) hs ∧
    onUnsubscribed hs pk = notify .onUnsubscribed (.pkt pk) hs ∧
    onPublished hs pk = notify .onPublished (.pkt pk) hs ∧
    onPublishDropped hs pk = notify .onPublishDropped (.pkt pk) hs ∧
    onRetainMessage hs pk r = notify .onRetainMessage (.pktNums pk [r]) hs ∧
    onRetainPublished hs pk = notify .onRetainPublished (.pkt pk) hs ∧
    onQosPublish hs pk r n = notify .onQosPublish (.pktNums pk [r, n]) hs ∧
    onQosComplete hs pk = notify .onQosComplete (.pkt pk) hs ∧
    onQosDropped hs pk = notify .onQosDropped (.pkt pk) hs ∧
    onPacketIDExhausted hs pk = notify .onPacketIDExhausted (.pkt pk) hs ∧
    onWillSent hs pk = notify .onWillSent (.pkt pk) hs ∧
    onClientExpired hs = notify .onClientExpired .unit hs ∧
    onRetainedExpired hs b = notify .onRetainedExpired (.str b) hs := by
  refine ⟨rfl, rfl, rfl, rfl, rfl, rfl, rfl, rfl, rfl, rfl, rfl, rfl, rfl, rfl, rfl, rfl, rfl, rfl, rfl, rfl, rfl⟩

/-- the dispatchers that never return early consult EVERY providing hook, in registration order -/
theorem C19_order_all_consulted (hs : List Hook) (pk : Pkt) (subs : Bytes) :
    idxs (onPacketEncode hs pk).2 = providers .onPacketEncode hs ∧
    idxs (onSubscribe hs pk).2 = providers .onSubscribe hs ∧
    idxs (onUnsubscribe hs pk).2 = providers .onUnsubscribe hs ∧
    idxs (onSelectSubscribers hs subs pk).2 = providers .onSelectSubscribers hs ∧
    idxs (onWill hs pk).2 = providers .onWill hs := by
  refine ⟨?_, ?_, ?_, ?_, ?_⟩
  · exact loop_idxs_all _ _ _ (fun h s => ⟨_, rfl⟩) hs 0 pk
  · exact loop_idxs_all _ _ _ (fun h s => ⟨_, rfl⟩) hs 0 pk
  · exact loop_idxs_all _ _ _ (fun h s => ⟨_, rfl⟩) hs 0 pk
  · exact loop_idxs_all _ _ _ (fun h s => ⟨_, rfl⟩) hs 0 subs
  · refine loop_idxs_all _ _ _ (fun h s => ?_) hs 0 pk
    simp only [willBody]; split <;> exact ⟨_, rfl⟩

/-- the dispatchers that may return early consult an INITIAL SEGMENT of the providing hooks, in registration
    order: no hook is skipped, none is consulted twice, none after the one that made the dispatcher return -/
theorem C19_order_prefix (hs : List Hook) (pk : Pkt) (topic : Bytes) (w : Bool) :
    idxs (onPacketRead hs pk).2 <+: providers .onPacketRead hs ∧
    idxs (onAuthPacket hs pk).2 <+: providers .onAuthPacket hs ∧
    idxs (onPublish hs pk).2 <+: providers .onPublish hs ∧
    idxs (onConnect hs pk).2 <+: providers .onConnect hs ∧
    idxs (onConnectAuthenticate hs pk).2 <+: providers .onConnectAuthenticate hs ∧
    idxs (onACLCheck hs topic w).2 <+: providers .onACLCheck hs ∧
    idxs (storedClients hs).2 <+: providers .storedClients hs ∧
    idxs (storedSubscriptions hs).2 <+: providers .storedSubscriptions hs ∧
    idxs (storedInflightMessages hs).2 <+: providers .storedInflightMessages hs ∧
    idxs (storedRetainedMessages hs).2 <+: providers .storedRetainedMessages hs ∧
    idxs (storedSysInfo hs).2 <+: providers .storedSysInfo hs :=
  ⟨loop_idxs_prefix _ _ _ hs 0 pk, loop_idxs_prefix _ _ _ hs 0 pk, loop_idxs_prefix _ _ _ hs 0 pk,
   loop_idxs_prefix _ _ _ hs 0 (), loop_idxs_prefix _ _ _ hs 0 (), loop_idxs_prefix _ _ _ hs 0 (),
   loop_idxs_prefix _ _ _ hs 0 (), loop_idxs_prefix _ _ _ hs 0 (), loop_idxs_prefix _ _ _ hs 0 (),
   loop_idxs_prefix _ _ _ hs 0 (), loop_idxs_prefix _ _ _ hs 0 ()⟩

/-- every call in a trace is the named method of the hook at that position, which provides it, applied to the
    recorded arguments, and the recorded result is what that hook returns for them (packet-to-packet chains) -/
theorem C19_calls_faithful_pure (hs : List Hook) (pk : Pkt) :
    (∀ c ∈ (onPacketEncode hs pk).2, c.method = .onPacketEncode ∧ ∃ h p, hs[c.idx]? = some h ∧
      h.provides .onPacketEncode = true ∧ c.input = .pkt p ∧ c.output = .pkt (h.onPacketEncode p)) ∧
    (∀ c ∈ (onSubscribe hs pk).2, c.method = .onSubscribe ∧ ∃ h p, hs[c.idx]? = some h ∧
      h.provides .onSubscribe = true ∧ c.input = .pkt p ∧ c.output = .pkt (h.onSubscribe p)) ∧
    (∀ c ∈ (onUnsubscribe hs pk).2, c.method = .onUnsubscribe ∧ ∃ h p, hs[c.idx]? = some h ∧
      h.provides .onUnsubscribe = true ∧ c.input = .pkt p ∧ c.output = .pkt (h.onUnsubscribe p)) := by
  refine ⟨fun c hc => ?_, fun c hc => ?_, fun c hc => ?_⟩ <;>
  · obtain ⟨hm, _, h, p, hg, hp, hi, ho⟩ := loop_call_sound _ _ _ hs 0 pk c hc
    exact ⟨hm, h, p, by simpa using hg, hp, hi, ho⟩

/-- … and for the chains whose hooks may also return an error -/
theorem C19_calls_faithful_err (hs : List Hook) (pk : Pkt) :
    (∀ c ∈ (onPacketRead hs pk).2, c.method = .onPacketRead ∧ ∃ h p, hs[c.idx]? = some h ∧
      h.provides .onPacketRead = true ∧ c.input = .pkt p ∧ c.output = .pktErr (h.onPacketRead p).1 (h.onPacketRead p).2) ∧
    (∀ c ∈ (onAuthPacket hs pk).2, c.method = .onAuthPacket ∧ ∃ h p, hs[c.idx]? = some h ∧
      h.provides .onAuthPacket = true ∧ c.input = .pkt p ∧ c.output = .pktErr (h.onAuthPacket p).1 (h.onAuthPacket p).2) ∧
    (∀ c ∈ (onPublish hs pk).2, c.method = .onPublish ∧ ∃ h p, hs[c.idx]? = some h ∧
      h.provides .onPublish = true ∧ c.input = .pkt p ∧ c.output = .pktErr (h.onPublish p).1 (h.onPublish p).2) ∧
    (∀ c ∈ (onWill hs pk).2, c.method = .onWill ∧ ∃ h p, hs[c.idx]? = some h ∧
      h.provides .onWill = true ∧ c.input = .pkt p ∧ c.output = .pktErr (h.onWill p).1 (h.onWill p).2) := by
  refine ⟨fun c hc => ?_, fun c hc => ?_, fun c hc => ?_, fun c hc => ?_⟩ <;>
  · obtain ⟨hm, _, h, p, hg, hp, hi, ho⟩ := loop_call_sound _ _ _ hs 0 pk c hc
    exact ⟨hm, h, p, by simpa using hg, hp, hi, ho⟩

/-! ## Threading: "each packet-modifying hook sees the previous hook's output" -/

/-- **Chains, as the property states them.**  In `OnPacketEncode`, `OnSubscribe`, `OnUnsubscribe`,
    `OnSelectSubscribers` (the subscriber set; the packet is the same for all), `OnPublish` and `OnAuthPacket`
    the first consulted hook receives the dispatcher's argument and the i-th consulted hook receives exactly what
    the (i-1)-th consulted hook returned; the four that cannot fail return what the last consulted hook returned
    (their argument when no hook provides the method). -/
theorem C19_order_chain (hs : List Hook) (pk : Pkt) (subs : Bytes) :
    (Chained nextLiteral (.pkt pk) (onPacketEncode hs pk).2 ∧
      chainEnd nextLiteral (.pkt pk) (onPacketEncode hs pk).2 = .pkt (onPacketEncode hs pk).1) ∧
    (Chained nextLiteral (.pkt pk) (onSubscribe hs pk).2 ∧
      chainEnd nextLiteral (.pkt pk) (onSubscribe hs pk).2 = .pkt (onSubscribe hs pk).1) ∧
    (Chained nextLiteral (.pkt pk) (onUnsubscribe hs pk).2 ∧
      chainEnd nextLiteral (.pkt pk) (onUnsubscribe hs pk).2 = .pkt (onUnsubscribe hs pk).1) ∧
    (Chained nextLiteral (.subs subs pk) (onSelectSubscribers hs subs pk).2 ∧
      chainEnd nextLiteral (.subs subs pk) (onSelectSubscribers hs subs pk).2 = .subs (onSelectSubscribers hs subs pk).1 pk) ∧
    Chained nextLiteral (.pkt pk) (onPublish hs pk).2 ∧
    Chained nextLiteral (.pkt pk) (onAuthPacket hs pk).2 := by
  have pure : ∀ (m : Method) (f : Hook → Pkt → Pkt),
      Chained nextLiteral (.pkt pk) (loop m (pureBody f) (fun p => p) 0 pk hs).2 ∧
      chainEnd nextLiteral (.pkt pk) (loop m (pureBody f) (fun p => p) 0 pk hs).2 =
        .pkt (loop m (pureBody f) (fun p => p) 0 pk hs).1 := by
    intro m f
    have h1 : ∀ (h : Hook) (s : Pkt), (pureBody f h s).input = Arg.pkt s := fun _ _ => rfl
    have h2 : ∀ (h : Hook) (s s' : Pkt), (pureBody f h s).step = .next s' →
        Arg.pkt s' = nextLiteral (Arg.pkt s) (pureBody f h s).output := by
      intro h s s' hst; simp only [pureBody] at hst; cases hst; rfl
    refine ⟨loop_chained m _ _ Arg.pkt nextLiteral h1 h2 hs 0 pk, ?_⟩
    obtain ⟨z, hz1, hz2⟩ := loop_chainEnd m (pureBody f) (fun p => p) Arg.pkt nextLiteral h1 h2 (fun h s => ⟨_, rfl⟩) hs 0 pk
    rw [← hz2, hz1]
  refine ⟨pure _ _, pure _ _, pure _ _, ?_, ?_, ?_⟩
  · have h1 : ∀ (h : Hook) (s : Bytes), (selectBody pk h s).input = Arg.subs s pk := fun _ _ => rfl
    have h2 : ∀ (h : Hook) (s s' : Bytes), (selectBody pk h s).step = .next s' →
        Arg.subs s' pk = nextLiteral (Arg.subs s pk) (selectBody pk h s).output := by
      intro h s s' hst; simp only [selectBody] at hst; cases hst; rfl
    refine ⟨loop_chained _ _ _ (fun s => Arg.subs s pk) nextLiteral h1 h2 hs 0 subs, ?_⟩
    obtain ⟨z, hz1, hz2⟩ := loop_chainEnd .onSelectSubscribers (selectBody pk) (fun s => s) (fun s => Arg.subs s pk)
      nextLiteral h1 h2 (fun h s => ⟨_, rfl⟩) hs 0 subs
    simp only [onSelectSubscribers]
    rw [← hz2, hz1]
  · refine loop_chained _ _ _ Arg.pkt nextLiteral (fun _ _ => rfl) ?_ hs 0 pk
    intro h s s' hst
    simp only [publishBody] at hst
    split at hst
    · split at hst
      · cases hst
      · split at hst <;> cases hst
    · cases hst; rfl
  · refine loop_chained _ _ _ Arg.pkt nextLiteral (fun _ _ => rfl) ?_ hs 0 pk
    intro h s s' hst
    simp only [authBody] at hst
    split at hst
    · cases hst
    · cases hst; rfl

/-- the property's chain clause for `OnPacketRead` and for `OnWill` -/
def chainLiteralRead (hs : List Hook) (pk : Pkt) : Prop := Chained nextLiteral (.pkt pk) (onPacketRead hs pk).2
def chainLiteralWill (hs : List Hook) (w : Pkt) : Prop := Chained nextLiteral (.pkt w) (onWill hs w).2

instance (hs : List Hook) (pk : Pkt) : Decidable (chainLiteralRead hs pk) := by unfold chainLiteralRead; infer_instance
instance (hs : List Hook) (pk : Pkt) : Decidable (chainLiteralWill hs pk) := by unfold chainLiteralWill; infer_instance

/-- a hook that appends `k` to the payload and returns the error `e` with it (for every method with that shape) -/
def markHook (k : Nat) (e : Option Err) : Hook :=
  { provides := fun _ => true,
    onPacketRead := fun p => ({ p with payload := p.payload ++ [k] }, e),
    onPublish := fun p => ({ p with payload := p.payload ++ [k] }, e),
    onAuthPacket := fun p => ({ p with payload := p.payload ++ [k] }, e),
    onWill := fun p => ({ p with payload := p.payload ++ [k] }, e) }

/-- **F19c (counterexample to the literal chain clause, `OnPacketRead`).**  Hook 0 returns a modified packet
    together with an error that is not `ErrRejectPacket`; hook 1 then does NOT receive hook 0's output: it
    receives the packet hook 0 received, the error is dropped and the dispatcher reports success.
    Replayed on the real `mqtt.Hooks` on every run: corpus/C19/f19c-error-output-discarded.ops. -/
theorem C19_order_chain_read_counterexample :
    ¬ chainLiteralRead [markHook 65 (some (.other 65)), markHook 66 none] { kind := 3, payload := [1] } := by decide

/-- the same for `OnWill` -/
theorem C19_order_chain_will_counterexample :
    ¬ chainLiteralWill [markHook 65 (some (.other 65)), markHook 66 none] { kind := 1, payload := [1] } := by decide

example : (onPacketRead [markHook 65 (some (.other 65)), markHook 66 none] { kind := 3, payload := [1] }).1
    = ({ kind := 3, payload := [1, 66] }, none) := by decide

/-- **what `OnPacketRead` and `OnWill` do, for every hook list**: the next consulted hook receives the output of
    the nearest earlier consulted hook that returned NO error (the dispatcher's argument if there is none) -/
theorem C19_order_chain_accepted (hs : List Hook) (pk : Pkt) :
    Chained nextAccepted (.pkt pk) (onPacketRead hs pk).2 ∧
    (Chained nextAccepted (.pkt pk) (onWill hs pk).2 ∧
      chainEnd nextAccepted (.pkt pk) (onWill hs pk).2 = .pkt (onWill hs pk).1) := by
  have hw1 : ∀ (h : Hook) (s : Pkt), (willBody h s).input = Arg.pkt s := fun _ _ => rfl
  have hw2 : ∀ (h : Hook) (s s' : Pkt), (willBody h s).step = .next s' →
      Arg.pkt s' = nextAccepted (Arg.pkt s) (willBody h s).output := by
    intro h s s' hst
    simp only [willBody] at hst ⊢
    split at hst
    · rename_i e he; cases hst; rw [he]; rfl
    · rename_i he; cases hst; rw [he]; rfl
  refine ⟨?_, loop_chained _ _ _ Arg.pkt nextAccepted hw1 hw2 hs 0 pk, ?_⟩
  · refine loop_chained _ _ _ Arg.pkt nextAccepted (fun _ _ => rfl) ?_ hs 0 pk
    intro h s s' hst
    simp only [readBody] at hst ⊢
    split at hst
    · rename_i e he
      split at hst
      · cases hst
      · cases hst; rw [he]; rfl
    · rename_i he; cases hst; rw [he]; rfl
  · obtain ⟨z, hz1, hz2⟩ := loop_chainEnd .onWill willBody (fun w => w) Arg.pkt nextAccepted hw1 hw2
      (fun h s => by simp only [willBody]; split <;> exact ⟨_, rfl⟩) hs 0 pk
    simp only [onWill]
    rw [← hz2, hz1]

/-- **`_partial`: the literal clause holds outside F19c's signature** — whenever no consulted hook that is followed
    by another consulted hook returned an error -/
theorem C19_order_chain_read_partial (hs : List Hook) (pk : Pkt)
    (hsig : ∀ c ∈ (onPacketRead hs pk).2.dropLast, c.output.error = none) : chainLiteralRead hs pk := by
  refine chained_congr nextAccepted nextLiteral _ _ ?_ (C19_order_chain_accepted hs pk).1
  intro c hc
  have := hsig c hc
  cases ho : c.output <;> simp_all [nextAccepted, Out.error]

theorem C19_order_chain_will_partial (hs : List Hook) (w : Pkt)
    (hsig : ∀ c ∈ (onWill hs w).2.dropLast, c.output.error = none) : chainLiteralWill hs w := by
  refine chained_congr nextAccepted nextLiteral _ _ ?_ (C19_order_chain_accepted hs w).2.1
  intro c hc
  have := hsig c hc
  cases ho : c.output <;> simp_all [nextAccepted, Out.error]

/-! ## `OnPacketRead`: what it returns; a rejected packet produces no handler step -/

/-- **`OnPacketRead`, the two outcomes.**  (A) no consulted hook returned a reject error: every providing hook was
    consulted and the result is `(p, nil)` with `p` the end of the accepted chain — errors that are not
    `ErrRejectPacket` leave no mark on the result.  (B) the LAST consulted hook returned an error `e` that is (wraps)
    `ErrRejectPacket`: the result is `(pk, e)` with the ORIGINAL packet, later hooks are not consulted. -/
theorem C19_read_verdict (hs : List Hook) (pk : Pkt) :
    ((∀ c ∈ (onPacketRead hs pk).2, c.output.rejects = false) ∧
      idxs (onPacketRead hs pk).2 = providers .onPacketRead hs ∧
      ∃ p, (onPacketRead hs pk).1 = (p, none) ∧ Arg.pkt p = chainEnd nextAccepted (.pkt pk) (onPacketRead hs pk).2)
    ∨ (∃ c e, (onPacketRead hs pk).2.getLast? = some c ∧ c.output.error = some e ∧ e.isReject = true ∧
        (onPacketRead hs pk).1 = (pk, some e) ∧ ∀ c' ∈ (onPacketRead hs pk).2.dropLast, c'.output.rejects = false) := by
  have hiff : ∀ (h : Hook) (s : Pkt), (readBody pk h s).output.rejects = true ↔ ∃ r, (readBody pk h s).step = .stop r := by
    intro h s
    simp only [readBody, Out.rejects, Out.error]
    cases he : (h.onPacketRead s).2 with
    | none => simp
    | some e => cases hr : e.isReject <;> simp [hr]
  have h2 : ∀ (h : Hook) (s s' : Pkt), (readBody pk h s).step = .next s' →
      Arg.pkt s' = nextAccepted (Arg.pkt s) (readBody pk h s).output := by
    intro h s s' hst
    simp only [readBody] at hst ⊢
    split at hst
    · rename_i e he
      split at hst
      · cases hst
      · cases hst; rw [he]; rfl
    · rename_i he; cases hst; rw [he]; rfl
  rcases loop_cases .onPacketRead (readBody pk) (fun pkx => (pkx, none)) Out.rejects hiff Arg.pkt nextAccepted
      (fun _ _ => rfl) h2 hs 0 pk with ⟨hall, hidx, z, hz1, hz2⟩ | ⟨c, h, s', hlast, hstop, _, _, _, _, hco, hstep, hpre⟩
  · exact Or.inl ⟨hall, hidx, z, hz1, hz2⟩
  · right
    simp only [readBody] at hstep hco
    cases he : (h.onPacketRead s').2 with
    | none => rw [he] at hstep; cases hstep
    | some e =>
      rw [he] at hstep hco
      cases hr : e.isReject with
      | false => simp [hr] at hstep
      | true =>
        simp [hr] at hstep
        exact ⟨c, e, hlast, by rw [hco]; rfl, hr, hstep.symm, hpre⟩

/-- the only error `OnPacketRead` ever returns is a reject error, and with it the original packet -/
theorem C19_read_error_is_reject (hs : List Hook) (pk : Pkt) (e : Err) (h : (onPacketRead hs pk).1.2 = some e) :
    e.isReject = true ∧ (onPacketRead hs pk).1.1 = pk := by
  rcases C19_read_verdict hs pk with ⟨_, _, p, hp, _⟩ | ⟨c, e', _, _, hr, hret, _⟩
  · rw [hp] at h; cases h
  · rw [hret] at h ⊢; cases h; exact ⟨hr, rfl⟩

/-- if some consulted read hook returns a reject error, the dispatcher returns an error -/
theorem C19_read_reject_reported (hs : List Hook) (pk : Pkt)
    (h : ∃ c ∈ (onPacketRead hs pk).2, c.output.rejects = true) : (onPacketRead hs pk).1.2 ≠ none := by
  rcases C19_read_verdict hs pk with ⟨hall, _, _⟩ | ⟨c, e', _, _, _, hret, _⟩
  · obtain ⟨c, hc, hr⟩ := h; rw [hall c hc] at hr; cases hr
  · rw [hret]; simp

/-- **a rejected packet produces no handler step** (`Client.Read` over the decoded packets of a stream): the
    packets before the first one the read hooks reject are handed to the handler (as the hooks left them); the
    rejected packet and everything after it are not, and `Read` ends with the reject error -/
theorem C19_rejected_read (hs : List Hook) (pre : List Pkt) (pk : Pkt) (post : List Pkt) (e : Err)
    (hpre : ∀ q ∈ pre, (onPacketRead hs q).1.2 = none) (hrej : (onPacketRead hs pk).1.2 = some e) :
    (readLoop hs (pre ++ pk :: post)).1 = (pre.map (fun q => (onPacketRead hs q).1.1), some e) := by
  induction pre with
  | nil => simp [readLoop, hrej]
  | cons q pre ih =>
    have hq : (onPacketRead hs q).1.2 = none := hpre q (by simp)
    have := ih (fun q' hq' => hpre q' (by simp [hq']))
    simp [readLoop, hq, this]

/-- … and when the read hooks reject nothing every packet is handled -/
theorem C19_read_all_handled (hs : List Hook) (pkts : List Pkt) (hall : ∀ q ∈ pkts, (onPacketRead hs q).1.2 = none) :
    (readLoop hs pkts).1 = (pkts.map (fun q => (onPacketRead hs q).1.1), none) := by
  induction pkts with
  | nil => simp [readLoop]
  | cons q pkts ih =>
    have hq : (onPacketRead hs q).1.2 = none := hall q (by simp)
    have := ih (fun q' hq' => hall q' (by simp [hq']))
    simp [readLoop, hq, this]

/-! ## Any-of: authentication and access control -/

/-- **a client is admitted iff SOME providing hook allows it**; with no providing hook: refused; hooks after the
    first one that allows are not consulted -/
theorem C19_any_auth (hs : List Hook) (pk : Pkt) :
    ((onConnectAuthenticate hs pk).1 = true ↔
      ∃ h ∈ hs, h.provides .onConnectAuthenticate = true ∧ h.onConnectAuthenticate pk = true) ∧
    ((∀ h ∈ hs, h.provides .onConnectAuthenticate = false) → (onConnectAuthenticate hs pk).1 = false) ∧
    (∀ c ∈ (onConnectAuthenticate hs pk).2.dropLast, c.output = .bool false) := by
  have hiff := any_ret .onConnectAuthenticate (.pkt pk) (·.onConnectAuthenticate pk) hs 0
  refine ⟨hiff, fun hno => ?_, ?_⟩
  · cases hr : (onConnectAuthenticate hs pk).1 with
    | false => rfl
    | true =>
      obtain ⟨h, hm, hp, _⟩ := hiff.1 hr
      rw [hno h hm] at hp; cases hp
  · intro c hc
    have := loop_stop_last .onConnectAuthenticate (anyBody (.pkt pk) (·.onConnectAuthenticate pk)) (fun _ => false)
      Out.isYes
      (by intro h s; cases hb : h.onConnectAuthenticate pk <;> simp [anyBody, Out.isYes, hb]) hs 0 () c hc
    obtain ⟨_, _, h, s', _, _, _, ho⟩ := loop_call_sound _ _ _ hs 0 () c (List.dropLast_subset _ hc)
    simp only [anyBody] at ho
    rw [ho] at this ⊢
    cases hb : h.onConnectAuthenticate pk <;> simp_all [Out.isYes]

/-- **an access is permitted iff SOME providing hook allows it**; with no providing hook: refused -/
theorem C19_any_acl (hs : List Hook) (topic : Bytes) (write : Bool) :
    ((onACLCheck hs topic write).1 = true ↔
      ∃ h ∈ hs, h.provides .onACLCheck = true ∧ h.onACLCheck topic write = true) ∧
    ((∀ h ∈ hs, h.provides .onACLCheck = false) → (onACLCheck hs topic write).1 = false) ∧
    (∀ c ∈ (onACLCheck hs topic write).2.dropLast, c.output = .bool false) := by
  have hiff := any_ret .onACLCheck (.acl topic write) (·.onACLCheck topic write) hs 0
  refine ⟨hiff, fun hno => ?_, ?_⟩
  · cases hr : (onACLCheck hs topic write).1 with
    | false => rfl
    | true =>
      obtain ⟨h, hm, hp, _⟩ := hiff.1 hr
      rw [hno h hm] at hp; cases hp
  · intro c hc
    have := loop_stop_last .onACLCheck (anyBody (.acl topic write) (·.onACLCheck topic write)) (fun _ => false)
      Out.isYes
      (by intro h s; cases hb : h.onACLCheck topic write <;> simp [anyBody, Out.isYes, hb]) hs 0 () c hc
    obtain ⟨_, _, h, s', _, _, _, ho⟩ := loop_call_sound _ _ _ hs 0 () c (List.dropLast_subset _ hc)
    simp only [anyBody] at ho
    rw [ho] at this ⊢
    cases hb : h.onACLCheck topic write <;> simp_all [Out.isYes]

/-! ## First error -/

/-- **`OnConnect`**: the result is the first error, in registration order, that a providing hook returns (nil if
    none does); the hook that returned it is the last one consulted — later hooks are NOT consulted; without an
    error every providing hook is consulted -/
theorem C19_first_error (hs : List Hook) (pk : Pkt) :
    (onConnect hs pk).1 = (hs.filter (·.provides .onConnect)).findSome? (·.onConnect pk) ∧
    (∀ c ∈ (onConnect hs pk).2.dropLast, c.output = .err none) ∧
    (∀ e, (onConnect hs pk).1 = some e → ∃ c, (onConnect hs pk).2.getLast? = some c ∧ c.output = .err (some e)) ∧
    ((onConnect hs pk).1 = none → idxs (onConnect hs pk).2 = providers .onConnect hs) := by
  have hiff : ∀ (h : Hook) (s : Unit), (connectBody pk h s).output.error.isSome = true ↔ ∃ r, (connectBody pk h s).step = .stop r := by
    intro h s; simp only [connectBody, Out.error]; cases h.onConnect pk <;> simp
  refine ⟨connect_ret pk hs 0, ?_, ?_, ?_⟩
  · intro c hc
    have := loop_stop_last .onConnect (connectBody pk) (fun _ => none) (fun o => o.error.isSome) hiff hs 0 () c hc
    obtain ⟨_, _, h, s', _, _, _, ho⟩ := loop_call_sound _ _ _ hs 0 () c (List.dropLast_subset _ hc)
    simp only [connectBody] at ho
    rw [ho] at this ⊢
    cases hb : h.onConnect pk <;> simp_all [Out.error]
  · intro e he
    rcases loop_cases .onConnect (connectBody pk) (fun _ => none) (fun o => o.error.isSome) hiff (fun _ => .pkt pk)
        (fun a _ => a) (fun _ _ => rfl) (fun _ _ _ _ => rfl) hs 0 () with ⟨_, _, z, hz1, _⟩ | ⟨c, h, s', hlast, _, _, _, _, _, hco, hstep, _⟩
    · simp only [onConnect] at he; rw [hz1] at he; cases he
    · refine ⟨c, hlast, ?_⟩
      simp only [connectBody] at hstep hco
      simp only [onConnect] at he
      cases hb : h.onConnect pk with
      | none => rw [hb] at hstep; cases hstep
      | some e' =>
        rw [hb] at hstep hco
        simp at hstep
        rw [← hstep] at he; cases he
        exact hco
  · intro hnone
    rcases loop_cases .onConnect (connectBody pk) (fun _ => none) (fun o => o.error.isSome) hiff (fun _ => .pkt pk)
        (fun a _ => a) (fun _ _ => rfl) (fun _ _ _ _ => rfl) hs 0 () with ⟨_, hidx, _⟩ | ⟨c, h, s', _, _, _, _, _, _, _, hstep, _⟩
    · exact hidx
    · simp only [connectBody] at hstep
      simp only [onConnect] at hnone
      cases hb : h.onConnect pk with
      | none => rw [hb] at hstep; cases hstep
      | some e' =>
        rw [hb] at hstep; simp at hstep
        rw [← hstep] at hnone; cases hnone

/-! ## `OnPublish` and `OnAuthPacket`: the verdict -/

/-- **`Hooks.OnPublish`, the two outcomes.**  (A) no consulted hook returned an error: every providing hook was
    consulted and the result is `(p, nil)`, `p` what the last of them returned.  (B) the LAST consulted hook returned
    an error `e` — `ErrRejectPacket`, `CodeSuccessIgnore`, either of them wrapped, or any other error, all alike —:
    the result is `(pk, e)` with the ORIGINAL packet (what earlier hooks changed is discarded); the hooks after it
    are not consulted; no earlier consulted hook had returned an error. -/
theorem C19_publish_verdict (hs : List Hook) (pk : Pkt) :
    ((∀ c ∈ (onPublish hs pk).2, c.output.error = none) ∧
      idxs (onPublish hs pk).2 = providers .onPublish hs ∧
      ∃ p, (onPublish hs pk).1 = (p, none) ∧ Arg.pkt p = chainEnd nextLiteral (.pkt pk) (onPublish hs pk).2)
    ∨ (∃ c e, (onPublish hs pk).2.getLast? = some c ∧ c.output.error = some e ∧
        (onPublish hs pk).1 = (pk, some e) ∧ ∀ c' ∈ (onPublish hs pk).2.dropLast, c'.output.error = none) := by
  have hiff : ∀ (h : Hook) (s : Pkt), (publishBody pk h s).output.error.isSome = true ↔ ∃ r, (publishBody pk h s).step = .stop r := by
    intro h s
    simp only [publishBody, Out.error]
    cases he : (h.onPublish s).2 with
    | none => simp
    | some e => cases e.isReject <;> cases e.isIgnore <;> simp
  have h2 : ∀ (h : Hook) (s s' : Pkt), (publishBody pk h s).step = .next s' →
      Arg.pkt s' = nextLiteral (Arg.pkt s) (publishBody pk h s).output := by
    intro h s s' hst
    simp only [publishBody] at hst
    split at hst
    · split at hst
      · cases hst
      · split at hst <;> cases hst
    · cases hst; rfl
  rcases loop_cases .onPublish (publishBody pk) (fun pkx => (pkx, none)) (fun o => o.error.isSome) hiff Arg.pkt nextLiteral
      (fun _ _ => rfl) h2 hs 0 pk with ⟨hall, hidx, z, hz1, hz2⟩ | ⟨c, h, s', hlast, hstop, _, _, _, _, hco, hstep, hpre⟩
  · left
    refine ⟨fun c hc => ?_, hidx, z, hz1, hz2⟩
    have := hall c hc
    cases hb : c.output.error <;> simp_all
  · right
    simp only [publishBody] at hstep hco
    cases he : (h.onPublish s').2 with
    | none => rw [he] at hstep; cases hstep
    | some e =>
      rw [he] at hstep hco
      have hret : (onPublish hs pk).1 = (pk, some e) := by
        simp only [onPublish]
        cases hr : e.isReject <;> cases hi : e.isIgnore <;> simp [hr, hi] at hstep <;> exact hstep.symm
      refine ⟨c, e, hlast, by rw [hco]; rfl, hret, fun c' hc' => ?_⟩
      have := hpre c' hc'
      cases hb : c'.output.error <;> simp_all

/-- the dispatcher reports an error iff some consulted `OnPublish` hook returned one, and then returns the
    packet it was given -/
theorem C19_publish_blocked_iff (hs : List Hook) (pk : Pkt) :
    ((onPublish hs pk).1.2 ≠ none ↔ ∃ c ∈ (onPublish hs pk).2, c.output.error ≠ none) ∧
    (∀ e, (onPublish hs pk).1.2 = some e → (onPublish hs pk).1.1 = pk) := by
  rcases C19_publish_verdict hs pk with ⟨hall, _, p, hp, _⟩ | ⟨c, e, hlast, hce, hret, _⟩
  · refine ⟨?_, fun e he => ?_⟩
    · rw [hp]; simp
      intro c hc; exact hall c hc
    · rw [hp] at he; cases he
  · refine ⟨?_, fun e' _ => by rw [hret]⟩
    rw [hret]; simp
    exact ⟨c, List.mem_of_getLast? hlast, by rw [hce]; simp⟩

/-- hook 0 modifies the packet and hook 1 rejects / ignores / fails (bare or wrapped): the dispatcher returns the
    ORIGINAL packet with hook 1's error; hook 1 had received hook 0's output -/
example : ∀ e ∈ [Err.reject, .ignore, .wrapReject 66, .wrapIgnore 66, .other 66],
    onPublish [markHook 65 none, markHook 66 (some e)] { kind := 3, payload := [1] } =
      (({ kind := 3, payload := [1] }, some e),
       [⟨0, .onPublish, .pkt { kind := 3, payload := [1] }, .pktErr { kind := 3, payload := [1, 65] } none⟩,
        ⟨1, .onPublish, .pkt { kind := 3, payload := [1, 65] }, .pktErr { kind := 3, payload := [1, 65, 66] } (some e)⟩]) := by
  decide

/-- an earlier hook fails: the later hook is not run, the original packet comes back with the error -/
example : onPublish [markHook 65 (some (.other 65)), markHook 66 none] { kind := 3, payload := [1] } =
      (({ kind := 3, payload := [1] }, some (.other 65)),
       [⟨0, .onPublish, .pkt { kind := 3, payload := [1] }, .pktErr { kind := 3, payload := [1, 65] } (some (.other 65))⟩]) := by
  decide

/-- **`OnAuthPacket`**: the same two outcomes as `OnPublish` (first error wins, original packet returned) -/
theorem C19_first_error_auth (hs : List Hook) (pk : Pkt) :
    ((∀ c ∈ (onAuthPacket hs pk).2, c.output.error = none) ∧
      idxs (onAuthPacket hs pk).2 = providers .onAuthPacket hs ∧
      ∃ p, (onAuthPacket hs pk).1 = (p, none) ∧ Arg.pkt p = chainEnd nextLiteral (.pkt pk) (onAuthPacket hs pk).2)
    ∨ (∃ c e, (onAuthPacket hs pk).2.getLast? = some c ∧ c.output.error = some e ∧
        (onAuthPacket hs pk).1 = (pk, some e) ∧ ∀ c' ∈ (onAuthPacket hs pk).2.dropLast, c'.output.error = none) := by
  have hiff : ∀ (h : Hook) (s : Pkt), (authBody pk h s).output.error.isSome = true ↔ ∃ r, (authBody pk h s).step = .stop r := by
    intro h s
    simp only [authBody, Out.error]
    cases he : (h.onAuthPacket s).2 <;> simp
  have h2 : ∀ (h : Hook) (s s' : Pkt), (authBody pk h s).step = .next s' →
      Arg.pkt s' = nextLiteral (Arg.pkt s) (authBody pk h s).output := by
    intro h s s' hst
    simp only [authBody] at hst
    split at hst
    · cases hst
    · cases hst; rfl
  rcases loop_cases .onAuthPacket (authBody pk) (fun pkx => (pkx, none)) (fun o => o.error.isSome) hiff Arg.pkt nextLiteral
      (fun _ _ => rfl) h2 hs 0 pk with ⟨hall, hidx, z, hz1, hz2⟩ | ⟨c, h, s', hlast, hstop, _, _, _, _, hco, hstep, hpre⟩
  · left
    refine ⟨fun c hc => ?_, hidx, z, hz1, hz2⟩
    have := hall c hc
    cases hb : c.output.error <;> simp_all
  · right
    simp only [authBody] at hstep hco
    cases he : (h.onAuthPacket s').2 with
    | none => rw [he] at hstep; cases hstep
    | some e =>
      rw [he] at hstep hco
      simp at hstep
      refine ⟨c, e, hlast, by rw [hco]; rfl, hstep.symm, fun c' hc' => ?_⟩
      have := hpre c' hc'
      cases hb : c'.output.error <;> simp_all

/-! ## Stored data -/

/-- **`Stored*`: the first providing hook (registration order) that answers with an error or with something
    non-empty wins** — its `(v, err)` is returned as it is (an error comes with that hook's `v`); providing hooks
    that answer `(empty, nil)` are passed over; if every one does, the zero values. Nothing is merged. -/
theorem C19_stored_first (hs : List Hook) :
    (storedClients hs).1 = (((hs.filter (·.provides .storedClients)).map (·.storedClients)).find? storedDecides).getD ([], none) ∧
    (storedSubscriptions hs).1 = (((hs.filter (·.provides .storedSubscriptions)).map (·.storedSubscriptions)).find? storedDecides).getD ([], none) ∧
    (storedInflightMessages hs).1 = (((hs.filter (·.provides .storedInflightMessages)).map (·.storedInflightMessages)).find? storedDecides).getD ([], none) ∧
    (storedRetainedMessages hs).1 = (((hs.filter (·.provides .storedRetainedMessages)).map (·.storedRetainedMessages)).find? storedDecides).getD ([], none) ∧
    (storedSysInfo hs).1 = (((hs.filter (·.provides .storedSysInfo)).map (·.storedSysInfo)).find? storedDecides).getD ([], none) :=
  ⟨stored_ret _ _ hs 0, stored_ret _ _ hs 0, stored_ret _ _ hs 0, stored_ret _ _ hs 0, stored_ret _ _ hs 0⟩

/-- a second store behind a first one that has data is never asked -/
example : (storedClients [{ provides := fun _ => true, storedClients := ([1], none) },
                          { provides := fun _ => true, storedClients := ([2, 3], none) }]) =
    (([1], none), [⟨0, .storedClients, .unit, .stored [1] none⟩]) := by decide

end Mochi.Hooks
