import Mochi.Model.Broker
import Mochi.Lemmas.BrokerInv
/-!
# C10 — Packet identifiers are unique per direction and never cross-contaminate

Model: `nextPacketID` (clients.go `NextPacketID`), `flSet`/`flGet`/`flDelete` (inflight.go).
Proved: every identifier the allocator hands out lies in 1..max and is not in use — for every
in-flight map, cursor position and maximum (wrap-around included).
Known finding F10 (recorded, structural): one identifier-keyed map serves both directions, so a
client PUBLISH with id k deletes the broker's outbound record k (`C10_cross_counterexample`).
-/
namespace Mochi.Broker

theorem nextPacketIDLoop_spec (c : Client) (maxID started : Nat) (fuel i : Nat) (ov : Bool) (r : Nat)
    (h : nextPacketIDLoop c maxID started fuel i ov = some r) : 1 ≤ r ∧ r ≤ maxID ∧ flGet c r = none := by
  induction fuel generalizing i ov with
  | zero => simp [nextPacketIDLoop] at h
  | succ fuel ih =>
    unfold nextPacketIDLoop at h
    split at h
    · simp at h
    · split at h
      · exact ih _ _ h
      · rename_i hlt
        simp only [] at h
        split at h
        · rename_i hn
          injection h with h; subst h
          refine ⟨by omega, by omega, ?_⟩
          simpa using hn
        · exact ih _ _ h

/-- **Allocation**: an allocated identifier is in 1..max and unused by any in-flight message -/
theorem C10_alloc (c : Client) (maxID r : Nat) (h : nextPacketID c maxID = some r) :
    1 ≤ r ∧ r ≤ maxID ∧ flGet c r = none :=
  nextPacketIDLoop_spec c maxID c.packetID _ _ _ r h

/-- storing the new message under that identifier does not replace anything -/
theorem C10_alloc_fresh (c : Client) (maxID r : Nat) (m : Msg) (h : nextPacketID c maxID = some r) :
    (flSet c { m with id := r }).2 = true := by
  have := (C10_alloc c maxID r h).2.2
  unfold flSet; simp [this]

/-- F10: the inbound and outbound directions share the map — a client PUBLISH whose id equals an
    outbound in-flight id removes the broker's message (counterexample on a concrete state) -/
theorem C10_cross_counterexample :
    let c : Client := { id := [99], ver := 5, recvQuota := 10, maxRecv := 10, inflight := [{ type := 3, id := 1, qos := 1, topic := [120] }] }
    let s : Server := { init {} with objs := (init {}).objs ++ [c], clients := [(inlineID, 0), ([99], 1)], connOf := [(1, 1)] }
    ((getObj (processPublish s 1 1 false false 1 [97] [98] 0 none).1 1).inflight.filter (fun m => m.type == 3)) = [] := by
  decide

/-- wrap-around: with the cursor at the maximum the scan continues from 1 -/
example : nextPacketID { packetID := 5, inflight := [{ id := 1 }] } 5 = some 2 := by decide
/-- exhaustion is reported, not looped on -/
example : nextPacketID { packetID := 1, inflight := [{ id := 1 }, { id := 2 }] } 2 = none := by decide

end Mochi.Broker

/-! ## All histories

The in-flight map has one record per packet identifier in every state the broker model can reach:
a corollary of the well-formedness invariant `WF` (`Mochi/Lemmas/BrokerInv.lean`), proved by induction
over `step` for every op sequence whose `connect` ops use fresh connection numbers (`OpsFresh`). -/
namespace Mochi.Broker

theorem C10_inflight_ids_unique_all_histories :
    ∀ caps ops, OpsFresh (init caps) ops → ∀ c ∈ (run (init caps) ops).objs, (c.inflight.map (·.id)).Nodup :=
  fun caps ops h c hc => ((WF_run caps ops h).objs c hc).ids_nodup

/-- non-vacuity: the hypothesis holds on a concrete history (a QoS 1 delivery deferred by Receive
    Maximum 1, its release by a PUBACK, a parked CONNECT released) and the in-flight list is not empty -/
example : OpsFresh (init {}) demoHistory := by decide
example : ∃ c ∈ (run (init {}) demoHistory).objs, c.inflight ≠ [] := by decide
example : (getObj (run (init {}) demoHistory) 1).inflight.map (·.id) = [3] := by decide

end Mochi.Broker
