import Mochi.Model.Broker
import Mochi.Lemmas.BrokerInv
import Mochi.Lemmas.BrokerQosDelivery
/-!
# C10 — Packet identifiers are unique per direction and never cross-contaminate

Model: `nextPacketID` (clients.go `NextPacketID`), `flSet`/`flGet`/`flDelete` (inflight.go).
Proved: every identifier the allocator hands out lies in 1..max and is not in use — for every
in-flight map, cursor position and maximum (wrap-around included).
Known finding F10 (recorded, structural): one identifier-keyed map serves both directions, so a
client PUBLISH with id k deletes the broker's outbound record k (`C10_cross_counterexample`).
-/
namespace Mochi.Broker

theorem nextPacketIDLoop_spec (c : Client) (maxID started : Nat) (fuel i : Nat) (ov : Bool) (r : Nat)
    (h : nextPacketIDLoop c maxID started fuel i ov = some r) : 1 ≤ r ∧ r ≤ maxID ∧ flGet c r = none := by
  induction fuel generalizing i ov with
  | zero => simp [nextPacketIDLoop] at h
  | succ fuel ih =>
    unfold nextPacketIDLoop at h
    split at h
    · simp at h
    · split at h
      · exact ih _ _ h
      · rename_i hlt
        simp only [] at h
        split at h
        · rename_i hn
          injection h with h; subst h
          refine ⟨by omega, by omega, ?_⟩
          simpa using hn
        · exact ih _ _ h

/-- **Allocation**: an allocated identifier is in 1..max and unused by any in-flight message -/
theorem C10_alloc (c : Client) (maxID r : Nat) (h : nextPacketID c maxID = some r) :
    1 ≤ r ∧ r ≤ maxID ∧ flGet c r = none :=
  nextPacketIDLoop_spec c maxID c.packetID _ _ _ r h

/-- storing the new message under that identifier does not replace anything -/
theorem C10_alloc_fresh (c : Client) (maxID r : Nat) (m : Msg) (h : nextPacketID c maxID = some r) :
    (flSet c { m with id := r }).2 = true := by
  have := (C10_alloc c maxID r h).2.2
  unfold flSet; simp [this]

/-- F10: the inbound and outbound directions share the map — a client PUBLISH whose id equals an
    outbound in-flight id removes the broker's message (counterexample on a concrete state) -/
theorem C10_cross_counterexample :
    let c : Client := { id := [99], ver := 5, recvQuota := 10, maxRecv := 10, inflight := [{ type := 3, id := 1, qos := 1, topic := [120] }] }
    let s : Server := { init {} with objs := (init {}).objs ++ [c], clients := [(inlineID, 0), ([99], 1)], connOf := [(1, 1)] }
    ((getObj (processPublish s 1 1 false false 1 [97] [98] 0 none).1 1).inflight.filter (fun m => m.type == 3)) = [] := by
  decide

/-- wrap-around: with the cursor at the maximum the scan continues from 1 -/
example : nextPacketID { packetID := 5, inflight := [{ id := 1 }] } 5 = some 2 := by decide
/-- exhaustion is reported, not looped on -/
example : nextPacketID { packetID := 1, inflight := [{ id := 1 }, { id := 2 }] } 2 = none := by decide

end Mochi.Broker

/-! ## All histories

The in-flight map has one record per packet identifier in every state the broker model can reach:
a corollary of the well-formedness invariant `WF` (`Mochi/Lemmas/BrokerInv.lean`), proved by induction
over `step` for every op sequence whose `connect` ops use fresh connection numbers (`OpsFresh`). -/
namespace Mochi.Broker

theorem C10_inflight_ids_unique_all_histories :
    ∀ caps ops, OpsFresh (init caps) ops → ∀ c ∈ (run (init caps) ops).objs, (c.inflight.map (·.id)).Nodup :=
  fun caps ops h c hc => ((WF_run caps ops h).objs c hc).ids_nodup

/-- non-vacuity: the hypothesis holds on a concrete history (a QoS 1 delivery deferred by Receive
    Maximum 1, its release by a PUBACK, a parked CONNECT released) and the in-flight list is not empty -/
example : OpsFresh (init {}) demoHistory := by decide
example : ∃ c ∈ (run (init {}) demoHistory).objs, c.inflight ≠ [] := by decide
example : (getObj (run (init {}) demoHistory) 1).inflight.map (·.id) = [3] := by decide

end Mochi.Broker

/-! ## A delivery of QoS > 0, classified completely (C03 / C04 / C10 / C11)

Lemmas: `Mochi/Lemmas/BrokerQosDelivery.lean` (namespace `Q1`: `verdict`, `core_eq`).  Client object `i` is a live
network client (`Q1.Live`: exists, open, not inline, peer not gone, no outbound topic aliases); `pk` is an application
message whose copy for the subscription `sub` has QoS `shapeQos s.caps sub pk.qos > 0`.  The four cases are decidable
conditions on the state BEFORE the delivery; `Q1.copyOf s i sub pk pid` is `shapeOut …` with `id := pid`;
`Q1.droppedState s` is `s` with `inflightDropped + 1`; `Q1.storedState s i m dq` is `s` with the record `m` APPENDED to
the in-flight list of object `i`, its cursor set to `m.id`, `dq` taken from its send quota, and `info.inflight + 1`. -/
namespace Mochi.Broker

/-- **Item 1.**  (a) in-flight limit reached: nothing written, dropped counter + 1, nothing stored.
    (b) `nextPacketID = none`: nothing written, dropped counter + 1, the exhaustion event.
    (c) send quota exhausted under a Receive Maximum (`maxSend > 0 ∧ sendQuota = 0`): nothing written, the copy is
    STORED under a fresh identifier with `expiry = -1` (deferred), in-flight counter + 1, quota untouched.
    (d) otherwise: exactly one output, `.wrote conn (.publish ver m …)` with `m` the copy — QoS `q`, `dup = false`, the
    identifier `pid` returned by `nextPacketID`; the same record is appended to the in-flight list, send quota − 1,
    in-flight counter + 1.  In (c) and (d) `pid` is in `1..maximumPacketID` and NOT the identifier of any record of
    the client's in-flight list (`C10_alloc`). -/
theorem publishToClientCore_qos_shape (s : Server) (i : Nat) (sub : Mochi.Topics.Sub) (pk : Msg) (h : Q1.Live s i) (ht : pk.type = 3)
    (hq : shapeQos s.caps sub pk.qos > 0) :
    ((getObj s i).inflight.length ≥ s.caps.maximumInflight →
      publishToClientCore s i sub false pk = (Q1.droppedState s, [])) ∧
    (¬ (getObj s i).inflight.length ≥ s.caps.maximumInflight →
      nextPacketID (getObj s i) s.caps.maximumPacketID = none →
      publishToClientCore s i sub false pk = (Q1.droppedState s, [.event s!"idexh({hexStr (getObj s i).id})"])) ∧
    (∀ pid, ¬ (getObj s i).inflight.length ≥ s.caps.maximumInflight →
      nextPacketID (getObj s i) s.caps.maximumPacketID = some pid →
      (1 ≤ pid ∧ pid ≤ s.caps.maximumPacketID ∧ ∀ m ∈ (getObj s i).inflight, m.id ≠ pid) ∧
      (((getObj s i).sendQuota = 0 ∧ (getObj s i).maxSend > 0) →
        publishToClientCore s i sub false pk =
          (Q1.storedState s i { Q1.copyOf s i sub pk pid with expiry := -1 } 0, [])) ∧
      (¬ ((getObj s i).sendQuota = 0 ∧ (getObj s i).maxSend > 0) →
        publishToClientCore s i sub false pk =
          (Q1.storedState s i (Q1.copyOf s i sub pk pid) 1,
           [.wrote (getObj s i).conn (.publish (getObj s i).ver (Q1.copyOf s i sub pk pid)
              (decide ((Q1.copyOf s i sub pk pid).expiry > 0) || decide ((Q1.copyOf s i sub pk pid).msgExpiry > 0)))]) ∧
        (Q1.copyOf s i sub pk pid).qos = shapeQos s.caps sub pk.qos ∧ (Q1.copyOf s i sub pk pid).dup = false ∧
        (Q1.copyOf s i sub pk pid).id = pid ∧ (Q1.copyOf s i sub pk pid).payload = pk.payload)) := by
  have e := Q1.core_eq s i sub pk h ht hq
  unfold Q1.coreResult at e
  refine ⟨fun ha => ?_, fun ha hn => ?_, fun pid ha hn => ⟨?_, fun hd => ?_, fun hd => ⟨?_, rfl, rfl, rfl, rfl⟩⟩⟩
  · rw [e, Q1.verdict_limit s i ha]; rfl
  · rw [e, Q1.verdict_exhausted s i ha hn]; rfl
  · obtain ⟨a1, a2, a3⟩ := C10_alloc _ _ _ hn
    refine ⟨a1, a2, fun m hm hid => ?_⟩
    have := fc11_flGet_none a3 m hm
    rw [hid] at this
    simp at this
  · rw [e, Q1.verdict_deferred s i pid ha hn hd]; rfl
  · rw [e, Q1.verdict_sent s i pid ha hn hd]; rfl

/-- what `Q1.storedState` and `Q1.droppedState` are, field by field: the record is the LAST of the in-flight list, the
    other records are kept, the quota loses `dq`, the counters move by one -/
theorem C10_storedState_fields (s : Server) (i : Nat) (m : Msg) (dq : Nat) (hi : i < s.objs.length) :
    (getObj (Q1.storedState s i m dq) i).inflight = (getObj s i).inflight ++ [m] ∧
    (getObj (Q1.storedState s i m dq) i).sendQuota = (getObj s i).sendQuota - dq ∧
    (getObj (Q1.storedState s i m dq) i).packetID = m.id ∧
    (Q1.storedState s i m dq).info.inflight = s.info.inflight + 1 ∧
    (Q1.storedState s i m dq).info.inflightDropped = s.info.inflightDropped ∧
    (Q1.droppedState s).info.inflightDropped = s.info.inflightDropped + 1 ∧
    (Q1.droppedState s).info.inflight = s.info.inflight ∧ (Q1.droppedState s).objs = s.objs ∧
    ∀ k, k ≠ i → getObj (Q1.storedState s i m dq) k = getObj s k := by
  rw [Q1.getObj_stored s i m dq hi]
  exact ⟨rfl, rfl, rfl, rfl, rfl, rfl, rfl, rfl, (Q1.only_stored s i m dq).other⟩

end Mochi.Broker

#print axioms Mochi.Broker.publishToClientCore_qos_shape
#print axioms Mochi.Broker.C10_storedState_fields
