import Mochi.Model.Broker
import Mochi.Props.C26
import Mochi.Props.C07
import Mochi.Lemmas.BrokerWellFormedOut
import Mochi.Lemmas.BrokerPublishShape
/-!
# C23 — Everything the broker writes is well-formed for the client's protocol version

Codec side (model M1): for a client whose protocol version is not 5 the encoders emit **no property
block** (CONNACK is two bytes, acknowledgements are the identifier only, SUBACK is identifier + codes);
what the acknowledgement and MQTT 3 PUBLISH encoders write decodes again (C26).
Broker side (model M3) + correspondence: every byte the real broker writes in the generated histories
is decoded by the independent reference decoder of the harness (go/cmd/vharness/refdec.go).
Known findings (recorded): F23a — a CONNACK refusal code outside `V5CodesToV3` is sent raw to an
MQTT 3 client (0x80, 0x82, 0x9A, 0x9B …); F23b — `DisconnectClient` writes a DISCONNECT packet to
MQTT 3 clients (`C23_disconnect_v3_counterexample`).  Both are required by the existing test suite
(`TestServerEstablishConnectionInvalidConnect`, `TestServerRecievePacketDisconnectClient`), so they
are recorded, not repaired.
Partial: "packets never interleave" rests on every connection write happening under the client
mutex (lock facts of the extractor); "nothing follows a DISCONNECT" is a schedule property (F14).
-/
namespace Mochi.Codec

/-- MQTT 3 CONNACK: acknowledge flags and return code, nothing else -/
theorem C23_v3_connack_body (pk : Packet) (hv : pk.protocolVersion ≠ 5) :
    connackEncode pk = .ok (withHeader pk [encodeBool pk.sessionPresent, pk.reasonCode % 256]) := by
  have : (pk.protocolVersion == 5) = false := by simpa using hv
  simp [connackEncode, this]

/-- MQTT 3 acknowledgements: the packet identifier only -/
theorem C23_v3_ack_body (pk : Packet) (hv : pk.protocolVersion ≠ 5) :
    ackEncode pk = .ok (withHeader pk (encodeUint16 pk.packetID)) := by
  have : (pk.protocolVersion == 5) = false := by simpa using hv
  simp [ackEncode, this]

/-- MQTT 3 SUBACK: identifier and return codes, no properties -/
theorem C23_v3_suback_body (pk : Packet) (hv : pk.protocolVersion ≠ 5) :
    subackEncode pk = .ok (withHeader pk (encodeUint16 pk.packetID ++ pk.reasonCodes)) := by
  have : (pk.protocolVersion == 5) = false := by simpa using hv
  simp [subackEncode, this]

/-- MQTT 3 UNSUBACK: identifier only -/
theorem C23_v3_unsuback_body (pk : Packet) (hv : pk.protocolVersion ≠ 5) :
    unsubackEncode pk = .ok (withHeader pk (encodeUint16 pk.packetID)) := by
  have : (pk.protocolVersion == 5) = false := by simpa using hv
  simp [unsubackEncode, this]

end Mochi.Codec

namespace Mochi.Broker

/-- F23b: an open MQTT 3.1.1 client is written a DISCONNECT packet -/
theorem C23_disconnect_v3_counterexample :
    let c : Client := { conn := 7, id := [99], ver := 4 }
    let s : Server := { init {} with objs := (init {}).objs ++ [c] }
    (disconnectClient s 1 0x8E).2.head? = some (.wrote 7 (.disconnect 4 0x8E)) := by decide

/-- MQTT 5 clients: the DISCONNECT carries the reason code -/
example :
    let c : Client := { conn := 7, id := [99], ver := 5 }
    let s : Server := { init {} with objs := (init {}).objs ++ [c] }
    (disconnectClient s 1 0x8E).2.head? = some (.wrote 7 (.disconnect 5 0x8E)) := by decide

end Mochi.Broker

/-! ## Broker level (model M3): what `step` writes, for which version, in which order

`Mochi/Lemmas/BrokerWellFormedOut.lean` walks every function of the sequential broker that writes.  The theorems
below hold for every state satisfying `W23.Inv` (one connection per object, the tables point at existing objects, a
stopped object is closed: `C23_inv_reachable` — every state reached from `init` by covered ops with fresh connection
numbers) and every op but `.connectHold` / `.release` (`W23.Covered`; the two ops that park / resume a CONNECTING
handler inside `attachClient` are NOT covered — that is why the version theorem is `_partial`).
-/
namespace Mochi.Broker
open Mochi.Topics

/-- the hypotheses of the op-level theorems hold in every state reached from `init` by covered ops -/
theorem C23_inv_reachable (caps : Caps) (ops : List Op) (hc : ∀ op ∈ ops, W23.Covered op = true)
    (hf : OpsFresh (init caps) ops) : W23.Inv (run (init caps) ops) := W23.Inv_run caps ops hc hf

/-- **version agreement.**  Every packet an op writes to connection `conn` is encoded for the protocol version of
    the client object the connection table maps `conn` to (the RECEIVER's version for fan-out writes; for a CONNECT
    the object is created in the step, hence the post-state).
    FULL statement = this for every `op`; missing: `.connectHold`, `.release`. -/
theorem C23_written_version_matches_partial (s : Server) (op : Op) (h : W23.Inv s) (hc : W23.Covered op = true)
    (hf : OpFresh s op) (conn : Nat) (pk : WPk) (hw : Out.wrote conn pk ∈ (step s op).2) :
    ∃ j, assocGet (step s op).1.connOf conn = some j ∧ j < (step s op).1.objs.length ∧
      ∀ v, W23.verOf pk = some v → v = (getObj (step s op).1 j).ver :=
  W23.step_version s op h hc hf conn pk hw

/-- **MQTT 3 SUBACK codes, every covered op.**  A SUBACK encoded for MQTT 3 carries only 0, 1, 2, 0x80 — in every
    state of the invariant, for every covered op, whatever the packet identifier (before fix e36320d the statement
    needed the exception "or 0x91 for every filter": the counterexample of this theorem was replayed on the real
    broker and repaired; `C23_v3_suback_in_use_downgraded` is the same history now) -/
theorem C23_v3_suback_codes_all (s : Server) (op : Op) (h : W23.Inv s) (hc : W23.Covered op = true)
    (hf : OpFresh s op) (conn v id : Nat) (rcs : List Nat) (hw : Out.wrote conn (.suback v id rcs) ∈ (step s op).2)
    (hv : v < 5) : ∀ c ∈ rcs, W23.V3SubCode c :=
  W23.step_shape s op h hc hf conn _ hw hv

/-- **MQTT 3 SUBACK codes.**  SUBSCRIBE from a live MQTT 3 client whose packet identifier is not in use: the op's
    first output is the SUBACK, and every code is 0, 1, 2 or 0x80 -/
theorem C23_v3_suback_codes (s : Server) (conn i id subId : Nat) (fs : List Sub) (L : R07.Live s conn i)
    (hne : fs ≠ []) (hv : (getObj s i).ver < 5) (hfree : (flGet (getObj s i) id).isSome = false) :
    ∃ rest, (step s (.recv conn (.subscribe id subId fs))).2 =
        .wrote conn (.suback (getObj s i).ver id (fs.map (R07.subCode s i id))) :: rest ∧
      ∀ c ∈ fs.map (R07.subCode s i id), W23.V3SubCode c := by
  obtain ⟨rest, hr⟩ := R07.step_prefix L (.subscribe id subId fs)
  have hh : R07.handler s i (.subscribe id subId fs) = processSubscribe s i id subId fs := by
    show (if fs.isEmpty then _ else _) = _
    rw [if_neg (by simpa using hne)]
  obtain ⟨_, replay, hp⟩ := R07.processSubscribe_out L id subId fs
  refine ⟨replay ++ rest, ?_, ?_⟩
  · rw [hr, hh, hp]; rfl
  · intro c hc
    obtain ⟨sub, _, rfl⟩ := List.mem_map.mp hc
    have fin' : ∀ x, W23.V3SubCode (R07.finCode (getObj s i).ver x) := fun x => W23.fin_v3 _ x hv
    unfold R07.subCode
    rw [if_neg (by rw [hfree]; decide)]
    repeat' split
    all_goals exact fin' _

/-- **MQTT 3 CONNACK codes** (partial: the three codes of finding F23a — 0x80, 0x9A, 0x9B — excluded): the return
    code on the wire (`v3code` of the reason code, as `WPk.render` computes it) is at most 5 -/
theorem C23_v3_connack_codes_partial (s : Server) (op : Op) (h : W23.Inv s) (hc : W23.Covered op = true)
    (hf : OpFresh s op) (conn v code rm mq : Nat) (sp : Bool) (sei : Option Nat)
    (hw : Out.wrote conn (.connack v sp code rm mq sei) ∈ (step s op).2) (hv : v < 5)
    (hF : code ≠ 0x80 ∧ code ≠ 0x9A ∧ code ≠ 0x9B) : (if code ≥ 0x80 then v3code code else code) ≤ 5 := by
  have := W23.step_shape s op h hc hf conn _ hw hv
  rcases this with rfl | rfl | rfl | rfl | rfl | rfl | rfl
  · decide
  · decide
  · decide
  · decide
  · exact absurd rfl hF.1
  · exact absurd rfl hF.2.1
  · exact absurd rfl hF.2.2

/-- … and without the exclusion: the code is one of seven -/
theorem C23_v3_connack_code_table (s : Server) (op : Op) (h : W23.Inv s) (hc : W23.Covered op = true)
    (hf : OpFresh s op) (conn v code rm mq : Nat) (sp : Bool) (sei : Option Nat)
    (hw : Out.wrote conn (.connack v sp code rm mq sei) ∈ (step s op).2) (hv : v < 5) : W23.V3ConnackCode code :=
  W23.step_shape s op h hc hf conn _ hw hv

/-- **nothing follows a DISCONNECT** on its connection within one op, and every object on that connection is closed
    at the end of the op -/
theorem C23_nothing_follows_disconnect (s : Server) (op : Op) (h : W23.Inv s) (hc : W23.Covered op = true)
    (hf : OpFresh s op) (o1 o2 : List Out) (conn v code : Nat)
    (e : (step s op).2 = o1 ++ Out.wrote conn (.disconnect v code) :: o2) :
    (∀ pk, Out.wrote conn pk ∉ o2) ∧ W23.ClosedOn (step s op).1 conn :=
  W23.step_disc s op h hc hf o1 o2 conn v code e

/-! ### concrete histories: the hypotheses are satisfiable, the conclusions not vacuous -/

/-- an MQTT 3.1.1 subscriber "s" on connection 1, an MQTT 5 publisher "p" on connection 2 -/
def c23Demo : List Op :=
  [.connect 1 { ver := 4, id := [115] }, .recv 1 (.subscribe 1 0 [{ filter := [97], qos := 1 }]),
   .connect 2 { ver := 5, id := [112] }, .recv 2 (.publish 1 false false 9 [97] [120] 0 none)]

/-- (connection, version the packet is encoded for) of every write -/
def c23Tags (o : List Out) : List (Nat × Option Nat) :=
  o.filterMap (fun x => match x with | .wrote c pk => some (c, W23.verOf pk) | _ => none)

set_option maxRecDepth 1000000 in
/-- the publisher's PUBACK is encoded for MQTT 5, the copy delivered to the subscriber for MQTT 4 -/
theorem C23_demo_versions : (R07.outsOf (init {}) c23Demo).map c23Tags =
    [[(1, some 4)], [(1, some 4)], [(2, some 5)], [(2, some 5), (1, some 4)]] := by decide

set_option maxRecDepth 1000000 in
theorem C23_demo_valid : (∀ op ∈ c23Demo, W23.Covered op = true) ∧ OpsFresh (init {}) c23Demo := by
  refine ⟨by decide, by decide⟩

set_option maxRecDepth 1000000 in
/-- **fixed (e36320d): SUBACK for a packet identifier in use, MQTT 3 client.**  An MQTT 3.1.1 client sends a QoS 2
    PUBLISH with packet identifier 7 (the PUBREC record is filed under 7 in the one in-flight map, F10) and then
    SUBSCRIBE with identifier 7: the refusal 0x91, which MQTT 3 does not define, is downgraded to 0x80 (before the fix
    this history ended in `suback 4 7 [0x91]`, on the model and on the real broker) -/
theorem C23_v3_suback_in_use_downgraded :
    (R07.outsOf (init {}) [.connect 1 { ver := 4, id := [99] }, .recv 1 (.publish 2 false false 7 [97] [120] 0 none),
      .recv 1 (.subscribe 7 0 [{ filter := [97] }])]).getLast? = some [.wrote 1 (.suback 4 7 [0x80])] := by decide

set_option maxRecDepth 1000000 in
/-- **F23a** on the initial state: an MQTT 3 CONNECT with an empty client id and Clean Session 0 is refused with the
    raw MQTT 5 code 0x80 (rendered `!bad(connack-return-code-128-…)` by the independent decoder) -/
theorem C23_F23a_counterexample :
    (step (init {}) (.connect 1 { ver := 4, clean := false, id := [] })).2 =
      [.wrote 1 (.connack 4 false 0x80 1024 2 none), .closed 1] := by decide

set_option maxRecDepth 1000000 in
/-- a take-over: the DISCONNECT (0x8E) goes to the old connection, encoded for ITS version (4: finding F23b), nothing
    more is written to connection 1; the CONNACK on connection 2 follows -/
theorem C23_demo_takeover :
    (R07.outsOf (init {}) [.connect 1 { ver := 4, id := [112] }, .connect 2 { ver := 5, id := [112] }]).getLast? =
      some [.wrote 1 (.disconnect 4 0x8E), .closed 1, .wrote 2 (.connack 5 false 0 1024 2 none)] := by decide

end Mochi.Broker

#print axioms Mochi.Broker.C23_inv_reachable
#print axioms Mochi.Broker.C23_written_version_matches_partial
#print axioms Mochi.Broker.C23_v3_suback_codes_all
#print axioms Mochi.Broker.C23_v3_suback_codes
#print axioms Mochi.Broker.C23_v3_connack_codes_partial
#print axioms Mochi.Broker.C23_v3_connack_code_table
#print axioms Mochi.Broker.C23_nothing_follows_disconnect
#print axioms Mochi.Broker.C23_demo_versions
#print axioms Mochi.Broker.C23_v3_suback_in_use_downgraded
#print axioms Mochi.Broker.C23_F23a_counterexample
#print axioms Mochi.Broker.C23_demo_takeover

/-! ## Broker level, second part: the shape of every written PUBLISH, its topic, the DISCONNECT code table

`Mochi/Lemmas/BrokerPublishShape.lean` (namespace `P23`) walks every function of the sequential broker once more,
carrying the state invariant `P23.SG T` and the output predicate `P23.OutP T`.  Unlike the `W23` walk it needs no bound
on object indices, so these theorems hold for EVERY op (`.connectHold` and `.release` included) and every list of ops,
fresh connection numbers or not.

* `P23.Inv s` (= `SG (fun _ => True) s`): `s.caps.maximumQos ≤ 2`, and every in-flight record of every client object
  that is a PUBLISH (type 3) has QoS 1 or 2 and a non-zero packet identifier.
* `P23.InvNW s` (= `SG NoWild s`): the same, and no `+`/`#` in the topic of any in-flight PUBLISH record, retained
  message, pending delayed will, registered will of a client object, or inbound topic-alias binding.

Where QoS comes from.  The model's inbound QoS (`InPk.publish qos …`, `Will.qos`, `.inlinePublish … qos`, `Sub.qos`) is a
`Nat` and nothing in M3 refuses a value above 2 (`publishValidate` does not look at it; the real broker cannot receive
one: `fixedHeaderDecode` — `Model/Codec.lean`, "ErrProtocolViolationQosOutOfRange" when both QoS bits are set — and
`subscribeDecode` for `sub.qos > 2` refuse it, `ConnectValidate` refuses a will QoS above 2).  What bounds the QoS of
every OUTBOUND copy is `shapeQos` (`publishToClient`: minimum of the message's QoS, the subscription's QoS and
`Capabilities.MaximumQos`), so the only hypothesis is `caps.maximumQos ≤ 2` — no hypothesis on inbound QoS, will QoS or
subscription QoS is needed.  It IS needed: `C23_publish_shape_needs_caps_counterexample` (model level only; Go's
`Capabilities.MaximumQos` is a byte that `NewServer` does not clamp, default 2).
-/
namespace Mochi.Broker
open Mochi.Topics

/-- `P23.Inv` in every state reached from `init caps` by ANY list of ops, provided the configured maximum QoS is a QoS -/
theorem C23_publish_inv_reachable (caps : Caps) (hc : caps.maximumQos ≤ 2) (ops : List Op) :
    P23.Inv (run (init caps) ops) :=
  P23.SG_run P23.TOK_true caps hc ops (fun op _ => P23.OpT_true op)

/-- `P23.Inv` is kept by every op -/
theorem C23_publish_inv_step (s : Server) (op : Op) (h : P23.Inv s) : P23.Inv (step s op).1 :=
  (P23.step_g P23.TOK_true s op h (P23.OpT_true op)).1

/-- **PUBLISH shape.**  Every PUBLISH an op writes — first delivery, retained replay, will, release of a deferred
    record by `NextImmediate`, resend after a session resumption — is a PUBLISH (type 3) with QoS ≤ 2, packet
    identifier 0 when QoS is 0 and a non-zero packet identifier when QoS > 0.  Every op, every state of `P23.Inv`.
    `_partial` only in this: `P23.Inv` contains `s.caps.maximumQos ≤ 2` (FULL statement = the same without a condition
    on the configuration, for inputs with QoS ≤ 2; it would need the QoS of retained messages, wills and delayed wills
    tracked in the invariant, which is not done). -/
theorem C23_publish_shape_partial (s : Server) (op : Op) (h : P23.Inv s) (conn ver : Nat) (m : Msg) (meSet : Bool)
    (hw : Out.wrote conn (.publish ver m meSet) ∈ (step s op).2) : P23.PubShape m :=
  ((P23.step_g P23.TOK_true s op h (P23.OpT_true op)).2 _ hw).1

/-- … along a whole history from `init` -/
theorem C23_publish_shape_history (caps : Caps) (hc : caps.maximumQos ≤ 2) (ops : List Op) (op : Op) (conn ver : Nat)
    (m : Msg) (meSet : Bool) (hw : Out.wrote conn (.publish ver m meSet) ∈ (step (run (init caps) ops) op).2) :
    P23.PubShape m :=
  C23_publish_shape_partial _ op (C23_publish_inv_reachable caps hc ops) conn ver m meSet hw

/-- `P23.InvNW` in every state reached from `init caps` by ops whose CONNECT packets carry wildcard-free will topics -/
theorem C23_publish_nw_inv_reachable (caps : Caps) (hc : caps.maximumQos ≤ 2) (ops : List Op)
    (hop : ∀ op ∈ ops, P23.OpT P23.NoWild op) : P23.InvNW (run (init caps) ops) :=
  P23.SG_run P23.TOK_noWild caps hc ops hop

theorem C23_publish_nw_inv_step (s : Server) (op : Op) (h : P23.InvNW s) (hop : P23.OpT P23.NoWild op) :
    P23.InvNW (step s op).1 :=
  (P23.step_g P23.TOK_noWild s op h hop).1

/-- **no wildcard in an outbound topic.**  In a state of `P23.InvNW`, every PUBLISH written by ANY op (`hop`: if the op
    is a CONNECT with a will, the will topic has no wildcard) has a topic without `+` and `#` (possibly empty: the
    alias-only form).  `publishValidate` refuses a wildcard topic name, and every other topic the broker ever sends is a
    copy of an accepted one — EXCEPT will topics, which nothing validates (finding F28b,
    `C23_F28b_will_wildcard_counterexample`): hence `_partial`.  FULL statement (false) = the same without `hop` and
    with `P23.Inv` for `P23.InvNW`. -/
theorem C23_publish_no_wildcard_partial (s : Server) (op : Op) (h : P23.InvNW s) (hop : P23.OpT P23.NoWild op)
    (conn ver : Nat) (m : Msg) (meSet : Bool) (hw : Out.wrote conn (.publish ver m meSet) ∈ (step s op).2) :
    P23.NoWild m.topic :=
  ((P23.step_g P23.TOK_noWild s op h hop).2 _ hw).2

/-- the fan-out of an inbound packet (in particular of `.recv conn (.publish …)`, the `processPublish` path), the
    record `NextImmediate` releases after it and whatever the teardown publishes: no hypothesis on the op -/
theorem C23_publish_fanout_no_wildcard (s : Server) (conn0 : Nat) (pk : InPk) (h : P23.InvNW s)
    (conn ver : Nat) (m : Msg) (meSet : Bool)
    (hw : Out.wrote conn (.publish ver m meSet) ∈ (step s (.recv conn0 pk)).2) : P23.NoWild m.topic :=
  C23_publish_no_wildcard_partial s (.recv conn0 pk) h trivial conn ver m meSet hw

/-- the handler alone (`processPublish` after `publishValidate`), for ANY state of `P23.Inv` extended by wildcard-free
    stores — stated on `receivePacket`, which `recvOn` calls: what it writes and the state it leaves -/
theorem C23_receivePacket_no_wildcard (s : Server) (i : Nat) (pk : InPk) (h : P23.InvNW s) :
    P23.InvNW (receivePacket s i pk).1 ∧ ∀ conn ver m meSet,
      Out.wrote conn (.publish ver m meSet) ∈ (receivePacket s i pk).2.1 → P23.NoWild m.topic :=
  have g := P23.receivePacket_g P23.TOK_noWild s i pk h
  ⟨g.1, fun _ _ _ _ hw => (g.2.1 _ hw).2⟩

/-- **the DISCONNECT code table.**  Every DISCONNECT packet an op writes carries 0x82, 0x87, 0x8E, 0x90, 0x93 or 0x94
    (`P23.DiscCode`; the keep-alive DISCONNECT is not in M3 — model M6 `Keepalive`).  Every op, every state of
    `P23.Inv`; the table is tight (`C23_demo_disconnect_codes`). -/
theorem C23_disconnect_code_table (s : Server) (op : Op) (h : P23.Inv s) (conn ver code : Nat)
    (hw : Out.wrote conn (.disconnect ver code) ∈ (step s op).2) : P23.DiscCode code :=
  (P23.step_g P23.TOK_true s op h (P23.OpT_true op)).2 _ hw

/-! ### concrete histories -/

/-- what is shown of a written PUBLISH -/
structure C23Pub where
  conn : Nat
  ver : Nat
  qos : Nat
  id : Nat
  dup : Bool
  topic : Str
deriving DecidableEq, Repr

/-- (connection, version, QoS, packet id, DUP, topic) of every PUBLISH written -/
def c23Pubs (o : List Out) : List C23Pub :=
  o.filterMap (fun x => match x with
    | .wrote c (.publish v m _) => some ⟨c, v, m.qos, m.id, m.dup, m.topic⟩ | _ => none)

/-- (connection, version, code) of every DISCONNECT written -/
def c23Discs (o : List Out) : List (Nat × Nat × Nat) :=
  o.filterMap (fun x => match x with | .wrote c (.disconnect v code) => some (c, v, code) | _ => none)

/-- every written PUBLISH has the shape, checked by evaluation -/
def c23AllShaped (o : List Out) : Bool :=
  o.all (fun x => match x with | .wrote _ (.publish _ m _) => decide (P23.PubShape m ∧ P23.NoWild m.topic) | _ => true)

/-- a subscriber "s" (MQTT 5, persistent session, Receive Maximum 1, QoS 2 on `a`), a publisher "p": a QoS 1 delivery,
    a QoS 2 copy deferred by flow control (stored, not written), a QoS 0 delivery, then "s" reconnects (take-over,
    resend with DUP, release of the deferred record), acknowledges, a retained message is published and replayed -/
def c23ShapeDemo : List Op :=
  [.connect 1 { ver := 5, id := [115], clean := false, sei := some 100, rm := some 1 },
   .recv 1 (.subscribe 1 0 [{ filter := [97], qos := 2 }]),
   .connect 2 { ver := 5, id := [112] },
   .recv 2 (.publish 1 false false 9 [97] [120] 0 none),
   .recv 2 (.publish 2 false false 10 [97] [121] 0 none),
   .recv 2 (.publish 0 false false 0 [97] [122] 0 none),
   .connect 3 { ver := 5, id := [115], clean := false, sei := some 100, rm := some 5 },
   .recv 3 (.puback 1 0),
   .recv 2 (.publish 1 false true 11 [97] [119] 0 none),
   .recv 3 (.subscribe 2 0 [{ filter := [35], qos := 1 }])]

set_option maxRecDepth 1000000 in
/-- the conclusions of `C23_publish_shape_partial` / `C23_publish_no_wildcard_partial` are not vacuous: first delivery
    (QoS 1, id 1), QoS 0 (id 0), resend with DUP of the records 1 and 2 and the release of record 2, a new delivery, the
    retained replay (QoS 1, id 2); the take-over writes DISCONNECT 0x8E -/
theorem C23_demo_publish_shape :
    (R07.outsOf (init {}) c23ShapeDemo).map c23Pubs =
      [[], [], [], [⟨1, 5, 1, 1, false, [97]⟩], [], [⟨1, 5, 0, 0, false, [97]⟩],
       [⟨3, 5, 1, 1, true, [97]⟩, ⟨3, 5, 2, 2, true, [97]⟩, ⟨3, 5, 2, 2, false, [97]⟩], [],
       [⟨3, 5, 1, 1, false, [97]⟩], [⟨3, 5, 1, 2, false, [97]⟩]] ∧
    (R07.outsOf (init {}) c23ShapeDemo).all c23AllShaped = true ∧
    (R07.outsOf (init {}) c23ShapeDemo).map c23Discs = [[], [], [], [], [], [], [(1, 5, 0x8E)], [], [], []] ∧
    (∀ op ∈ c23ShapeDemo, P23.OpT P23.NoWild op) := by
  refine ⟨by decide, by decide, by decide, by decide⟩

set_option maxRecDepth 1000000 in
/-- **F28b (recorded): a will topic is not validated.**  An MQTT 3.1.1 client connects with the will topic `+/b`; its
    connection drops; the subscriber of `#` is written a PUBLISH whose topic NAME is `+/b` (43 47 98).  This is the
    counterexample of `C23_publish_no_wildcard_partial` without `hop`. -/
theorem C23_F28b_will_wildcard_counterexample :
    (R07.outsOf (init {})
      [.connect 1 { ver := 4, id := [115] }, .recv 1 (.subscribe 1 0 [{ filter := [35], qos := 1 }]),
       .connect 2 { ver := 4, id := [119], will := some { topic := [43, 47, 98], payload := [120], qos := 1 } },
       .drop 2]).map c23Pubs = [[], [], [], [⟨1, 4, 1, 1, false, [43, 47, 98]⟩]] := by decide

set_option maxRecDepth 1000000 in
/-- the hypothesis `caps.maximumQos ≤ 2` of `P23.Inv` is needed IN THE MODEL: with `maximumQos := 3` a subscription and
    a PUBLISH of "QoS 3" (undecodable on the wire: `fixedHeaderDecode` / `subscribeDecode` refuse it) yield a written
    PUBLISH with QoS 3.  Not a defect of the Go code. -/
theorem C23_publish_shape_needs_caps_counterexample :
    (R07.outsOf (init { maximumQos := 3 })
      [.connect 1 { ver := 4, id := [115] }, .recv 1 (.subscribe 1 0 [{ filter := [97], qos := 3 }]),
       .connect 2 { ver := 4, id := [112] }, .recv 2 (.publish 3 false false 9 [97] [120] 0 none)]).map c23Pubs =
      [[], [], [], [⟨1, 4, 3, 1, false, [97]⟩]] := by decide

/-- Receive Maximum 1, Topic Alias Maximum 5, client "d" may not publish to `a` -/
def c23DiscStart : Server :=
  { init { receiveMaximum := 1, topicAliasMaximum := 5 } with aclDeny := [([100], [97], true)] }

/-- one history per code of the table -/
def c23DiscDemo : List Op :=
  [.connect 1 { ver := 5, id := [97] },
   .recv 1 (.publish 2 false false 1 [116] [120] 0 none),
   .recv 1 (.publish 1 false false 2 [116] [120] 0 none),          -- receive maximum exceeded: 0x93
   .connect 2 { ver := 5, id := [98] },
   .recv 2 (.publish 0 false false 0 [116] [120] 0 (some 6)),       -- alias above the maximum: 0x94
   .connect 3 { ver := 4, id := [100] },
   .recv 3 (.publish 1 false false 1 [97] [120] 0 none),            -- not authorized, MQTT 3: 0x87 (F23b)
   .connect 4 { ver := 4, id := [101] },
   .recv 4 (.publish 1 false false 1 [36, 83, 89, 83, 47, 120] [120] 0 none),  -- `$SYS/x`, MQTT 3: 0x90 (F23b)
   .connect 5 { ver := 5, id := [102] },
   .connect 6 { ver := 5, id := [102] },                            -- take-over: 0x8E
   .connect 7 { ver := 5, id := [103] },
   .recv 7 (.subscribe 1 0 [])]                                     -- no filter: 0x82

set_option maxRecDepth 1000000 in
/-- `C23_disconnect_code_table` is tight: each of the six codes is written by some op; `c23DiscStart` satisfies
    `P23.Inv` trivially (no in-flight record) -/
theorem C23_demo_disconnect_codes :
    ((R07.outsOf c23DiscStart c23DiscDemo).map c23Discs).flatten =
      [(1, 5, 0x93), (2, 5, 0x94), (3, 4, 0x87), (4, 4, 0x90), (5, 5, 0x8E), (7, 5, 0x82)] := by decide

theorem C23_demo_disconnect_start_inv : P23.Inv c23DiscStart :=
  P23.SG.upd (P23.SG_init P23.TOK_true { receiveMaximum := 1, topicAliasMaximum := 5 } (by decide)) rfl rfl rfl rfl

set_option maxRecDepth 1000000 in
/-- why `W23.Covered` (the version / "written to an OPEN object" walk) cannot simply be extended to `.release`: a
    connection parked in the authentication hook (`connectHold … 1`) is dropped — its object is closed — and then
    released: the MODEL writes the CONNACK on that connection although the object is closed (`admitConnack` does not
    look at `isOpen`; the real `SendConnack` fails on the closed connection).  `W23.OutOK` ("… is OPEN") is false for
    this `.release`; an extension needs the hypothesis that no stage-1 parked connection is dropped, or a model change.
    The `P23` theorems above do cover `.connectHold` / `.release` (they do not speak about `isOpen`). -/
theorem C23_hold_drop_release_counterexample :
    (getObj (run (init {}) [.connectHold 1 { ver := 4, id := [97] } 1, .drop 1]) 1).isOpen = false ∧
    (R07.outsOf (init {}) [.connectHold 1 { ver := 4, id := [97] } 1, .drop 1, .release 1]).getLast? =
      some [.wrote 1 (.connack 4 false 0 1024 2 none)] := by decide

end Mochi.Broker

#print axioms Mochi.Broker.C23_hold_drop_release_counterexample
#print axioms Mochi.Broker.C23_publish_inv_reachable
#print axioms Mochi.Broker.C23_publish_inv_step
#print axioms Mochi.Broker.C23_publish_shape_partial
#print axioms Mochi.Broker.C23_publish_shape_history
#print axioms Mochi.Broker.C23_publish_nw_inv_reachable
#print axioms Mochi.Broker.C23_publish_nw_inv_step
#print axioms Mochi.Broker.C23_publish_no_wildcard_partial
#print axioms Mochi.Broker.C23_publish_fanout_no_wildcard
#print axioms Mochi.Broker.C23_receivePacket_no_wildcard
#print axioms Mochi.Broker.C23_disconnect_code_table
#print axioms Mochi.Broker.C23_demo_publish_shape
#print axioms Mochi.Broker.C23_F28b_will_wildcard_counterexample
#print axioms Mochi.Broker.C23_publish_shape_needs_caps_counterexample
#print axioms Mochi.Broker.C23_demo_disconnect_codes
#print axioms Mochi.Broker.C23_demo_disconnect_start_inv
