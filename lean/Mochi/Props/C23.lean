import Mochi.Model.Broker
import Mochi.Props.C26
/-!
# C23 — Everything the broker writes is well-formed for the client's protocol version

Codec side (model M1): for a client whose protocol version is not 5 the encoders emit **no property
block** (CONNACK is two bytes, acknowledgements are the identifier only, SUBACK is identifier + codes);
what the acknowledgement and MQTT 3 PUBLISH encoders write decodes again (C26).
Broker side (model M3) + correspondence: every byte the real broker writes in the generated histories
is decoded by the independent reference decoder of the harness (go/cmd/vharness/refdec.go).
Known findings (recorded): F23a — a CONNACK refusal code outside `V5CodesToV3` is sent raw to an
MQTT 3 client (0x80, 0x82, 0x9A, 0x9B …); F23b — `DisconnectClient` writes a DISCONNECT packet to
MQTT 3 clients (`C23_disconnect_v3_counterexample`).  Both are required by the existing test suite
(`TestServerEstablishConnectionInvalidConnect`, `TestServerRecievePacketDisconnectClient`), so they
are recorded, not repaired.
Partial: "packets never interleave" rests on every connection write happening under the client
mutex (lock facts of the extractor); "nothing follows a DISCONNECT" is a schedule property (F14).
-/
namespace Mochi.Codec

/-- MQTT 3 CONNACK: acknowledge flags and return code, nothing else -/
theorem C23_v3_connack_body (pk : Packet) (hv : pk.protocolVersion ≠ 5) :
    connackEncode pk = .ok (withHeader pk [encodeBool pk.sessionPresent, pk.reasonCode % 256]) := by
  have : (pk.protocolVersion == 5) = false := by simpa using hv
  simp [connackEncode, this]

/-- MQTT 3 acknowledgements: the packet identifier only -/
theorem C23_v3_ack_body (pk : Packet) (hv : pk.protocolVersion ≠ 5) :
    ackEncode pk = .ok (withHeader pk (encodeUint16 pk.packetID)) := by
  have : (pk.protocolVersion == 5) = false := by simpa using hv
  simp [ackEncode, this]

/-- MQTT 3 SUBACK: identifier and return codes, no properties -/
theorem C23_v3_suback_body (pk : Packet) (hv : pk.protocolVersion ≠ 5) :
    subackEncode pk = .ok (withHeader pk (encodeUint16 pk.packetID ++ pk.reasonCodes)) := by
  have : (pk.protocolVersion == 5) = false := by simpa using hv
  simp [subackEncode, this]

/-- MQTT 3 UNSUBACK: identifier only -/
theorem C23_v3_unsuback_body (pk : Packet) (hv : pk.protocolVersion ≠ 5) :
    unsubackEncode pk = .ok (withHeader pk (encodeUint16 pk.packetID)) := by
  have : (pk.protocolVersion == 5) = false := by simpa using hv
  simp [unsubackEncode, this]

end Mochi.Codec

namespace Mochi.Broker

/-- F23b: an open MQTT 3.1.1 client is written a DISCONNECT packet -/
theorem C23_disconnect_v3_counterexample :
    let c : Client := { conn := 7, id := [99], ver := 4 }
    let s : Server := { init {} with objs := (init {}).objs ++ [c] }
    (disconnectClient s 1 0x8E).2.head? = some (.wrote 7 (.disconnect 4 0x8E)) := by decide

/-- MQTT 5 clients: the DISCONNECT carries the reason code -/
example :
    let c : Client := { conn := 7, id := [99], ver := 5 }
    let s : Server := { init {} with objs := (init {}).objs ++ [c] }
    (disconnectClient s 1 0x8E).2.head? = some (.wrote 7 (.disconnect 5 0x8E)) := by decide

end Mochi.Broker
