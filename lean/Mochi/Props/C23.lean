import Mochi.Model.Broker
import Mochi.Props.C26
import Mochi.Props.C07
import Mochi.Lemmas.BrokerWellFormedOut
/-!
# C23 — Everything the broker writes is well-formed for the client's protocol version

Codec side (model M1): for a client whose protocol version is not 5 the encoders emit **no property
block** (CONNACK is two bytes, acknowledgements are the identifier only, SUBACK is identifier + codes);
what the acknowledgement and MQTT 3 PUBLISH encoders write decodes again (C26).
Broker side (model M3) + correspondence: every byte the real broker writes in the generated histories
is decoded by the independent reference decoder of the harness (go/cmd/vharness/refdec.go).
Known findings (recorded): F23a — a CONNACK refusal code outside `V5CodesToV3` is sent raw to an
MQTT 3 client (0x80, 0x82, 0x9A, 0x9B …); F23b — `DisconnectClient` writes a DISCONNECT packet to
MQTT 3 clients (`C23_disconnect_v3_counterexample`).  Both are required by the existing test suite
(`TestServerEstablishConnectionInvalidConnect`, `TestServerRecievePacketDisconnectClient`), so they
are recorded, not repaired.
Partial: "packets never interleave" rests on every connection write happening under the client
mutex (lock facts of the extractor); "nothing follows a DISCONNECT" is a schedule property (F14).
-/
namespace Mochi.Codec

/-- MQTT 3 CONNACK: acknowledge flags and return code, nothing else -/
theorem C23_v3_connack_body (pk : Packet) (hv : pk.protocolVersion ≠ 5) :
    connackEncode pk = .ok (withHeader pk [encodeBool pk.sessionPresent, pk.reasonCode % 256]) := by
  have : (pk.protocolVersion == 5) = false := by simpa using hv
  simp [connackEncode, this]

/-- MQTT 3 acknowledgements: the packet identifier only -/
theorem C23_v3_ack_body (pk : Packet) (hv : pk.protocolVersion ≠ 5) :
    ackEncode pk = .ok (withHeader pk (encodeUint16 pk.packetID)) := by
  have : (pk.protocolVersion == 5) = false := by simpa using hv
  simp [ackEncode, this]

/-- MQTT 3 SUBACK: identifier and return codes, no properties -/
theorem C23_v3_suback_body (pk : Packet) (hv : pk.protocolVersion ≠ 5) :
    subackEncode pk = .ok (withHeader pk (encodeUint16 pk.packetID ++ pk.reasonCodes)) := by
  have : (pk.protocolVersion == 5) = false := by simpa using hv
  simp [subackEncode, this]

/-- MQTT 3 UNSUBACK: identifier only -/
theorem C23_v3_unsuback_body (pk : Packet) (hv : pk.protocolVersion ≠ 5) :
    unsubackEncode pk = .ok (withHeader pk (encodeUint16 pk.packetID)) := by
  have : (pk.protocolVersion == 5) = false := by simpa using hv
  simp [unsubackEncode, this]

end Mochi.Codec

namespace Mochi.Broker

/-- F23b: an open MQTT 3.1.1 client is written a DISCONNECT packet -/
theorem C23_disconnect_v3_counterexample :
    let c : Client := { conn := 7, id := [99], ver := 4 }
    let s : Server := { init {} with objs := (init {}).objs ++ [c] }
    (disconnectClient s 1 0x8E).2.head? = some (.wrote 7 (.disconnect 4 0x8E)) := by decide

/-- MQTT 5 clients: the DISCONNECT carries the reason code -/
example :
    let c : Client := { conn := 7, id := [99], ver := 5 }
    let s : Server := { init {} with objs := (init {}).objs ++ [c] }
    (disconnectClient s 1 0x8E).2.head? = some (.wrote 7 (.disconnect 5 0x8E)) := by decide

end Mochi.Broker

/-! ## Broker level (model M3): what `step` writes, for which version, in which order

`Mochi/Lemmas/BrokerWellFormedOut.lean` walks every function of the sequential broker that writes.  The theorems
below hold for every state satisfying `W23.Inv` (one connection per object, the tables point at existing objects, a
stopped object is closed: `C23_inv_reachable` — every state reached from `init` by covered ops with fresh connection
numbers) and every op but `.connectHold` / `.release` (`W23.Covered`; the two ops that park / resume a CONNECTING
handler inside `attachClient` are NOT covered — that is why the version theorem is `_partial`).
-/
namespace Mochi.Broker
open Mochi.Topics

/-- the hypotheses of the op-level theorems hold in every state reached from `init` by covered ops -/
theorem C23_inv_reachable (caps : Caps) (ops : List Op) (hc : ∀ op ∈ ops, W23.Covered op = true)
    (hf : OpsFresh (init caps) ops) : W23.Inv (run (init caps) ops) := W23.Inv_run caps ops hc hf

/-- **version agreement.**  Every packet an op writes to connection `conn` is encoded for the protocol version of
    the client object the connection table maps `conn` to (the RECEIVER's version for fan-out writes; for a CONNECT
    the object is created in the step, hence the post-state).
    FULL statement = this for every `op`; missing: `.connectHold`, `.release`. -/
theorem C23_written_version_matches_partial (s : Server) (op : Op) (h : W23.Inv s) (hc : W23.Covered op = true)
    (hf : OpFresh s op) (conn : Nat) (pk : WPk) (hw : Out.wrote conn pk ∈ (step s op).2) :
    ∃ j, assocGet (step s op).1.connOf conn = some j ∧ j < (step s op).1.objs.length ∧
      ∀ v, W23.verOf pk = some v → v = (getObj (step s op).1 j).ver :=
  W23.step_version s op h hc hf conn pk hw

/-- **MQTT 3 SUBACK codes, every covered op.**  A SUBACK encoded for MQTT 3 carries only 0, 1, 2, 0x80 — in every
    state of the invariant, for every covered op, whatever the packet identifier (before fix e36320d the statement
    needed the exception "or 0x91 for every filter": the counterexample of this theorem was replayed on the real
    broker and repaired; `C23_v3_suback_in_use_downgraded` is the same history now) -/
theorem C23_v3_suback_codes_all (s : Server) (op : Op) (h : W23.Inv s) (hc : W23.Covered op = true)
    (hf : OpFresh s op) (conn v id : Nat) (rcs : List Nat) (hw : Out.wrote conn (.suback v id rcs) ∈ (step s op).2)
    (hv : v < 5) : ∀ c ∈ rcs, W23.V3SubCode c :=
  W23.step_shape s op h hc hf conn _ hw hv

/-- **MQTT 3 SUBACK codes.**  SUBSCRIBE from a live MQTT 3 client whose packet identifier is not in use: the op's
    first output is the SUBACK, and every code is 0, 1, 2 or 0x80 -/
theorem C23_v3_suback_codes (s : Server) (conn i id subId : Nat) (fs : List Sub) (L : R07.Live s conn i)
    (hne : fs ≠ []) (hv : (getObj s i).ver < 5) (hfree : (flGet (getObj s i) id).isSome = false) :
    ∃ rest, (step s (.recv conn (.subscribe id subId fs))).2 =
        .wrote conn (.suback (getObj s i).ver id (fs.map (R07.subCode s i id))) :: rest ∧
      ∀ c ∈ fs.map (R07.subCode s i id), W23.V3SubCode c := by
  obtain ⟨rest, hr⟩ := R07.step_prefix L (.subscribe id subId fs)
  have hh : R07.handler s i (.subscribe id subId fs) = processSubscribe s i id subId fs := by
    show (if fs.isEmpty then _ else _) = _
    rw [if_neg (by simpa using hne)]
  obtain ⟨_, replay, hp⟩ := R07.processSubscribe_out L id subId fs
  refine ⟨replay ++ rest, ?_, ?_⟩
  · rw [hr, hh, hp]; rfl
  · intro c hc
    obtain ⟨sub, _, rfl⟩ := List.mem_map.mp hc
    have fin' : ∀ x, W23.V3SubCode (R07.finCode (getObj s i).ver x) := fun x => W23.fin_v3 _ x hv
    unfold R07.subCode
    rw [if_neg (by rw [hfree]; decide)]
    repeat' split
    all_goals exact fin' _

/-- **MQTT 3 CONNACK codes** (partial: the three codes of finding F23a — 0x80, 0x9A, 0x9B — excluded): the return
    code on the wire (`v3code` of the reason code, as `WPk.render` computes it) is at most 5 -/
theorem C23_v3_connack_codes_partial (s : Server) (op : Op) (h : W23.Inv s) (hc : W23.Covered op = true)
    (hf : OpFresh s op) (conn v code rm mq : Nat) (sp : Bool) (sei : Option Nat)
    (hw : Out.wrote conn (.connack v sp code rm mq sei) ∈ (step s op).2) (hv : v < 5)
    (hF : code ≠ 0x80 ∧ code ≠ 0x9A ∧ code ≠ 0x9B) : (if code ≥ 0x80 then v3code code else code) ≤ 5 := by
  have := W23.step_shape s op h hc hf conn _ hw hv
  rcases this with rfl | rfl | rfl | rfl | rfl | rfl | rfl
  · decide
  · decide
  · decide
  · decide
  · exact absurd rfl hF.1
  · exact absurd rfl hF.2.1
  · exact absurd rfl hF.2.2

/-- … and without the exclusion: the code is one of seven -/
theorem C23_v3_connack_code_table (s : Server) (op : Op) (h : W23.Inv s) (hc : W23.Covered op = true)
    (hf : OpFresh s op) (conn v code rm mq : Nat) (sp : Bool) (sei : Option Nat)
    (hw : Out.wrote conn (.connack v sp code rm mq sei) ∈ (step s op).2) (hv : v < 5) : W23.V3ConnackCode code :=
  W23.step_shape s op h hc hf conn _ hw hv

/-- **nothing follows a DISCONNECT** on its connection within one op, and every object on that connection is closed
    at the end of the op -/
theorem C23_nothing_follows_disconnect (s : Server) (op : Op) (h : W23.Inv s) (hc : W23.Covered op = true)
    (hf : OpFresh s op) (o1 o2 : List Out) (conn v code : Nat)
    (e : (step s op).2 = o1 ++ Out.wrote conn (.disconnect v code) :: o2) :
    (∀ pk, Out.wrote conn pk ∉ o2) ∧ W23.ClosedOn (step s op).1 conn :=
  W23.step_disc s op h hc hf o1 o2 conn v code e

/-! ### concrete histories: the hypotheses are satisfiable, the conclusions not vacuous -/

/-- an MQTT 3.1.1 subscriber "s" on connection 1, an MQTT 5 publisher "p" on connection 2 -/
def c23Demo : List Op :=
  [.connect 1 { ver := 4, id := [115] }, .recv 1 (.subscribe 1 0 [{ filter := [97], qos := 1 }]),
   .connect 2 { ver := 5, id := [112] }, .recv 2 (.publish 1 false false 9 [97] [120] 0 none)]

/-- (connection, version the packet is encoded for) of every write -/
def c23Tags (o : List Out) : List (Nat × Option Nat) :=
  o.filterMap (fun x => match x with | .wrote c pk => some (c, W23.verOf pk) | _ => none)

set_option maxRecDepth 1000000 in
/-- the publisher's PUBACK is encoded for MQTT 5, the copy delivered to the subscriber for MQTT 4 -/
theorem C23_demo_versions : (R07.outsOf (init {}) c23Demo).map c23Tags =
    [[(1, some 4)], [(1, some 4)], [(2, some 5)], [(2, some 5), (1, some 4)]] := by decide

set_option maxRecDepth 1000000 in
theorem C23_demo_valid : (∀ op ∈ c23Demo, W23.Covered op = true) ∧ OpsFresh (init {}) c23Demo := by
  refine ⟨by decide, by decide⟩

set_option maxRecDepth 1000000 in
/-- **fixed (e36320d): SUBACK for a packet identifier in use, MQTT 3 client.**  An MQTT 3.1.1 client sends a QoS 2
    PUBLISH with packet identifier 7 (the PUBREC record is filed under 7 in the one in-flight map, F10) and then
    SUBSCRIBE with identifier 7: the refusal 0x91, which MQTT 3 does not define, is downgraded to 0x80 (before the fix
    this history ended in `suback 4 7 [0x91]`, on the model and on the real broker) -/
theorem C23_v3_suback_in_use_downgraded :
    (R07.outsOf (init {}) [.connect 1 { ver := 4, id := [99] }, .recv 1 (.publish 2 false false 7 [97] [120] 0 none),
      .recv 1 (.subscribe 7 0 [{ filter := [97] }])]).getLast? = some [.wrote 1 (.suback 4 7 [0x80])] := by decide

set_option maxRecDepth 1000000 in
/-- **F23a** on the initial state: an MQTT 3 CONNECT with an empty client id and Clean Session 0 is refused with the
    raw MQTT 5 code 0x80 (rendered `!bad(connack-return-code-128-…)` by the independent decoder) -/
theorem C23_F23a_counterexample :
    (step (init {}) (.connect 1 { ver := 4, clean := false, id := [] })).2 =
      [.wrote 1 (.connack 4 false 0x80 1024 2 none), .closed 1] := by decide

set_option maxRecDepth 1000000 in
/-- a take-over: the DISCONNECT (0x8E) goes to the old connection, encoded for ITS version (4: finding F23b), nothing
    more is written to connection 1; the CONNACK on connection 2 follows -/
theorem C23_demo_takeover :
    (R07.outsOf (init {}) [.connect 1 { ver := 4, id := [112] }, .connect 2 { ver := 5, id := [112] }]).getLast? =
      some [.wrote 1 (.disconnect 4 0x8E), .closed 1, .wrote 2 (.connack 5 false 0 1024 2 none)] := by decide

end Mochi.Broker

#print axioms Mochi.Broker.C23_inv_reachable
#print axioms Mochi.Broker.C23_written_version_matches_partial
#print axioms Mochi.Broker.C23_v3_suback_codes_all
#print axioms Mochi.Broker.C23_v3_suback_codes
#print axioms Mochi.Broker.C23_v3_connack_codes_partial
#print axioms Mochi.Broker.C23_v3_connack_code_table
#print axioms Mochi.Broker.C23_nothing_follows_disconnect
#print axioms Mochi.Broker.C23_demo_versions
#print axioms Mochi.Broker.C23_v3_suback_in_use_downgraded
#print axioms Mochi.Broker.C23_F23a_counterexample
#print axioms Mochi.Broker.C23_demo_takeover
