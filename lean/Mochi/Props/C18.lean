import Mochi.Spec.Ledger
import Mochi.Lemmas.Topics
import Mochi.Lemmas.Scan
/-!
# C18 — Auth ledger decisions are deterministic and use MQTT level semantics

Model: `rmatches`, `matchTopic`, `authOk`, `aclOk` (hooks/auth/ledger.go after the repairs
"fix: ledger MatchTopic requires every topic level to be consumed by the filter" and
"fix: ledger user ACL decision no longer depends on map iteration order").
Go's `Users` and `Filters` maps are association lists in an arbitrary iteration order; determinism is
invariance of the decision under every permutation of those lists.
-/
namespace Mochi.Ledger
open Mochi.Topics

/-- **Level semantics.** For a filter whose `#` (if any) is its last level, `MatchTopic` is the
    level-by-level rule. -/
theorem C18_match_levels (fs ts : Path) (h : hashOnlyLast fs = true) :
    matchLoop fs ts = specLedgerMatch fs ts := by
  induction fs generalizing ts with
  | nil => cases ts <;> simp [matchLoop, specLedgerMatch]
  | cons f rest ih =>
    cases ts with
    | nil => simp [matchLoop, specLedgerMatch]
    | cons t ts =>
      have hrest : hashOnlyLast rest = true := by
        cases rest with
        | nil => simp [hashOnlyLast]
        | cons r rs => simp [hashOnlyLast] at h; exact h.2
      simp only [matchLoop, specLedgerMatch]
      by_cases hp : f = [plus]
      · subst hp
        simp [ih ts hrest]
      · by_cases hh : f = [hash]
        · subst hh
          have : rest = [] := by
            cases rest with
            | nil => rfl
            | cons r rs => simp [hashOnlyLast] at h
          subst this; simp
        · by_cases ht : f = t
          · subst ht; simp [hp, hh, ih ts hrest]
          · simp [hp, hh, ht]

/-- a filter without wildcards matches only the identical topic -/
theorem C18_literal_identical (f t : Str)
    (hw : ∀ l ∈ splitLevels f, l ≠ [plus] ∧ l ≠ [hash]) :
    matchTopic f t = true ↔ f = t := by
  unfold matchTopic
  have key : ∀ (fs ts : Path), (∀ l ∈ fs, l ≠ [plus] ∧ l ≠ [hash]) → (matchLoop fs ts = true ↔ fs = ts) := by
    intro fs
    induction fs with
    | nil => intro ts _; cases ts <;> simp [matchLoop]
    | cons a rest ih =>
      intro ts hl
      cases ts with
      | nil => simp [matchLoop]
      | cons b ts =>
        have ha := hl a (by simp)
        simp only [matchLoop]
        simp only [beq_iff_eq, ha.1, ha.2, if_false, bne_iff_ne, ne_eq, ite_not]
        by_cases hab : a = b
        · subst hab
          simp only [if_true]
          rw [ih ts (fun l hl' => hl l (by simp [hl']))]
          simp
        · simp [hab]
  rw [key _ _ hw]
  constructor
  · intro h
    have := congrArg joinLevels h
    rwa [join_split, join_split] at this
  · intro h; rw [h]

/-- `assocGet` on a map with unique keys does not depend on the iteration order -/
theorem assocGet_perm {β} (m m' : List (Str × β)) (hp : m.Perm m') (hn : (m.map Prod.fst).Nodup) (k : Str) :
    assocGet m k = assocGet m' k := by
  induction hp with
  | nil => rfl
  | cons x _ ih =>
    obtain ⟨a, b⟩ := x
    simp only [assocGet]
    split
    · rfl
    · exact ih (by simp at hn; exact hn.2)
  | swap x y l =>
    obtain ⟨a, b⟩ := x
    obtain ⟨c, d⟩ := y
    simp only [assocGet]
    simp only [List.map_cons, List.nodup_cons, List.mem_cons, not_or] at hn
    by_cases h1 : c = k <;> by_cases h2 : a = k <;> simp [h1, h2]
    exfalso; exact hn.1.1 (h1.trans h2.symm)
  | trans p1 p2 ih1 ih2 =>
    rw [ih1 hn, ih2]
    exact (p1.map Prod.fst).nodup_iff.mp hn

theorem userDecision_perm (u u' : UserRule) (hp : u.acl.Perm u'.acl) (t : Str) (w : Bool) :
    userDecision u t w = userDecision u' t w := by
  unfold userDecision
  rw [hp.isEmpty_eq, hp.any_eq, hp.any_eq]

theorem aclRuleDecision_perm (r r' : ACLRule) (h1 : r.client = r'.client) (h2 : r.username = r'.username)
    (h3 : r.remote = r'.remote) (hp : r.filters.Perm r'.filters) (cl : Cl) (t : Str) (w : Bool) :
    aclRuleDecision r cl t w = aclRuleDecision r' cl t w := by
  unfold aclRuleDecision
  rw [h1, h2, h3, hp.isEmpty_eq, hp.any_eq, hp.any_eq]

/-- two global rule lists that agree rule by rule up to the order of each rule's `Filters` map -/
inductive RulesPerm : List ACLRule → List ACLRule → Prop
  | nil : RulesPerm [] []
  | cons (r r' : ACLRule) (rs rs' : List ACLRule) (h1 : r.client = r'.client) (h2 : r.username = r'.username)
      (h3 : r.remote = r'.remote) (hp : r.filters.Perm r'.filters) (hr : RulesPerm rs rs') :
      RulesPerm (r :: rs) (r' :: rs')

theorem aclRules_perm (rs rs' : List ACLRule) (h : RulesPerm rs rs') (cl : Cl) (t : Str) (w : Bool) (n : Nat) :
    aclRules cl t w rs n = aclRules cl t w rs' n := by
  induction h generalizing n with
  | nil => rfl
  | cons r r' rs rs' h1 h2 h3 hp _ ih =>
    simp only [aclRules]
    rw [aclRuleDecision_perm r r' h1 h2 h3 hp]
    cases aclRuleDecision r' cl t w with
    | some ok => rfl
    | none => exact ih (n + 1)

/-- **Determinism of global rules**: the decision is the same for every iteration order of every
    rule's filter map. -/
theorem C18_deterministic_global (l : Ledger) (acl' : List ACLRule) (h : RulesPerm l.acl acl')
    (hu : l.users = none) (cl : Cl) (t : Str) (w : Bool) :
    aclOk l cl t w = aclOk { l with acl := acl' } cl t w := by
  unfold aclOk
  simp only [hu]
  exact aclRules_perm _ _ h cl t w 0

/-- **Determinism of a user's own rules**: the decision is the same for every iteration order of the
    `Users` map (unique user names) and of that user's filter map. -/
theorem C18_deterministic_user (l : Ledger) (us us' : List (Str × UserRule))
    (hus : l.users = some us) (hp : us.Perm us') (hn : (us.map Prod.fst).Nodup)
    (cl : Cl) (t : Str) (w : Bool) :
    aclOk l cl t w = aclOk { l with users := some us' } cl t w := by
  unfold aclOk
  simp only [hus]
  rw [assocGet_perm us us' hp hn]

/-- … and for every iteration order of that user's own filter map. -/
theorem C18_deterministic_user_acl (l l' : Ledger) (us us' : List (Str × UserRule)) (u u' : UserRule)
    (hus : l.users = some us) (hus' : l'.users = some us') (hacl : l.acl = l'.acl) (cl : Cl)
    (hget : assocGet us cl.username = some u) (hget' : assocGet us' cl.username = some u')
    (hp : u.acl.Perm u'.acl) (t : Str) (w : Bool) :
    aclOk l cl t w = aclOk l' cl t w := by
  unfold aclOk
  simp only [hus, hus', hget, hget', Option.bind_some, hacl]
  rw [userDecision_perm u u' hp]

/-- **First matching rule decides** (global rules, list order). -/
theorem C18_first_rule (cl : Cl) (t : Str) (w : Bool) (pre post : List ACLRule) (r : ACLRule) (ok : Bool)
    (hpre : ∀ r' ∈ pre, aclRuleDecision r' cl t w = none) (hr : aclRuleDecision r cl t w = some ok) (n : Nat) :
    aclRules cl t w (pre ++ r :: post) n = (n + pre.length, ok) := by
  induction pre generalizing n with
  | nil => simp [aclRules, hr]
  | cons p rest ih =>
    simp only [List.cons_append, aclRules]
    rw [hpre p (by simp)]
    simp only
    rw [ih (fun r' h => hpre r' (by simp [h])) (n + 1)]
    simp; omega

/-- no rule decides ⇒ allowed (the ledger's default) -/
theorem C18_default_allow (cl : Cl) (t : Str) (w : Bool) (rules : List ACLRule)
    (h : ∀ r ∈ rules, aclRuleDecision r cl t w = none) (n : Nat) : aclRules cl t w rules n = (0, true) := by
  induction rules generalizing n with
  | nil => rfl
  | cons p rest ih =>
    simp only [aclRules]; rw [h p (by simp)]; exact ih (fun r hr => h r (by simp [hr])) (n + 1)

/-- **A user's own rules take precedence** over every global rule. -/
theorem C18_user_first (l : Ledger) (us : List (Str × UserRule)) (u : UserRule) (cl : Cl) (t : Str) (w ok : Bool)
    (hus : l.users = some us) (hget : assocGet us cl.username = some u) (hd : userDecision u t w = some ok) :
    aclOk l cl t w = (0, ok) := by
  unfold aclOk; simp [hus, hget, hd]

/-- the user's decision: granted iff some matching filter grants; refused iff filters match and none grants -/
theorem C18_user_decision (u : UserRule) (t : Str) (w : Bool) (hne : u.acl ≠ []) :
    userDecision u t w =
      if (∃ fa ∈ u.acl, matchTopic fa.1 t = true ∧ grants fa.2 w = true) then some true
      else if (∃ fa ∈ u.acl, matchTopic fa.1 t = true) then some false else none := by
  unfold userDecision
  have : u.acl.isEmpty = false := by cases h : u.acl <;> simp_all
  simp only [this, Bool.false_eq_true, if_false, List.any_eq_true, Bool.and_eq_true]

/-- witnesses of the repaired defects + non-vacuity -/
example : matchTopic [97] [97, 47, 98] = false := by decide                 -- "a" vs "a/b"
example : matchTopic [97, 47, 43] [97, 47, 98, 47, 99] = false := by decide  -- "a/+" vs "a/b/c"
example : matchTopic [97, 47, 35] [97, 47, 98, 47, 99] = true := by decide   -- "a/#" vs "a/b/c"
example : matchTopic [97, 47, 35] [97] = false := by decide                  -- "a/#" needs a further level
example : userDecision { acl := [([97, 47, 35], .deny), ([97, 47, 98], .readWrite)] } [97, 47, 98] true = some true ∧
          userDecision { acl := [([97, 47, 98], .readWrite), ([97, 47, 35], .deny)] } [97, 47, 98] true = some true := by decide

end Mochi.Ledger
