import Mochi.Lemmas.Gather
import Mochi.Lemmas.Invariant
import Mochi.Lemmas.Topics
/-!
# C01 — Subscription matching selects exactly the MQTT-matching subscribers

Model: `subscribers` = `scanSubscribers` + the three `gather*` functions of topics.go over the
flattened particle trie (after the repair "fix: subscriber scan matches +/# against the parent level
and applies the $ rule to shared and inline subscriptions").
Spec: `matchLv` (levels compared one by one, `+` one level, trailing `#` parent and children) and the
`$` rule.

Everything below is for **every** history of index operations (`runOps ops`, unbounded), every
topic and every client / inline identifier.
-/
namespace Mochi.Topics

/-- The walk gathers client subscriptions from exactly the particles whose address matches the
    topic — for every reachable index and every topic whose levels are not `#`. -/
theorem C01_scan_exact_subs (ops : List IOp) (topic : Str)
    (hnh : ∀ t ∈ splitLevels topic, t ≠ [hash]) (q : Path) :
    Gather.subs q ∈ scanVisits (runOps ops).nodes [] (splitLevels topic) ↔
      hasNode (runOps ops).nodes q = true ∧ matchLv q (splitLevels topic) = true := by
  rw [scan_iff Gather.subs mem_gatherAll_subs _ (prefixClosed_runOps ops) _ (splitLevels_ne_nil topic) hnh]
  simp

theorem C01_scan_exact_shared (ops : List IOp) (topic : Str)
    (hnh : ∀ t ∈ splitLevels topic, t ≠ [hash]) (q : Path) :
    Gather.shared q ∈ scanVisits (runOps ops).nodes [] (splitLevels topic) ↔
      hasNode (runOps ops).nodes q = true ∧ matchLv q (splitLevels topic) = true := by
  rw [scan_iff Gather.shared mem_gatherAll_shared _ (prefixClosed_runOps ops) _ (splitLevels_ne_nil topic) hnh]
  simp

theorem C01_scan_exact_inline (ops : List IOp) (topic : Str)
    (hnh : ∀ t ∈ splitLevels topic, t ≠ [hash]) (q : Path) :
    Gather.inline q ∈ scanVisits (runOps ops).nodes [] (splitLevels topic) ↔
      hasNode (runOps ops).nodes q = true ∧ matchLv q (splitLevels topic) = true := by
  rw [scan_iff Gather.inline mem_gatherAll_inline _ (prefixClosed_runOps ops) _ (splitLevels_ne_nil topic) hnh]
  simp

theorem getNode_some_hasNode (ns : List Node) (q : Path) (n : Node) (h : getNode ns q = some n) :
    hasNode ns q = true := by
  unfold getNode at h
  have h1 := List.mem_of_find?_eq_some h
  have h2 := List.find?_some h
  rw [hasNode_iff]; exact ⟨n, h1, by simpa using h2⟩

/-- **Client subscriptions.** A client is selected for a topic exactly when some particle whose
    address matches the topic holds a subscription of that client that the `$` rule does not exclude. -/
theorem C01_clients_exact (ops : List IOp) (topic : Str) (hne : topic ≠ [])
    (hnh : ∀ t ∈ splitLevels topic, t ≠ [hash]) (c : Str) :
    c ∈ (subscribers (runOps ops) topic).subs.map Prod.fst ↔
      ∃ q n s, getNode (runOps ops).nodes q = some n ∧ (c, s) ∈ n.subs ∧
        matchLv q (splitLevels topic) = true ∧ dollarExcluded s.filter topic = false := by
  unfold subscribers
  have : topic.isEmpty = false := by cases topic <;> simp_all
  simp only [this, Bool.false_eq_true, if_false]
  rw [fold_subs_keys]
  constructor
  · rintro (h | ⟨q, hq, n, hn, s, hs, hx⟩)
    · simp at h
    · rw [C01_scan_exact_subs ops topic hnh] at hq
      exact ⟨q, n, s, hn, hs, hq.2, hx⟩
  · rintro ⟨q, n, s, hn, hs, hm, hx⟩
    right
    refine ⟨q, ?_, n, hn, s, hs, hx⟩
    rw [C01_scan_exact_subs ops topic hnh]
    exact ⟨getNode_some_hasNode _ _ _ hn, hm⟩

/-- **Inline subscriptions.** An inline identifier is selected exactly when a matching particle holds
    it and the particle's address does not start with a wildcard while the topic starts with `$`. -/
theorem C01_inline_exact (ops : List IOp) (topic : Str) (hne : topic ≠ [])
    (hnh : ∀ t ∈ splitLevels topic, t ≠ [hash]) (i : Nat) :
    i ∈ (subscribers (runOps ops) topic).inline.map Prod.fst ↔
      ∃ q n, getNode (runOps ops).nodes q = some n ∧ i ∈ n.inline.map Prod.fst ∧
        matchLv q (splitLevels topic) = true ∧ (topicDollar topic && wildStart q) = false := by
  unfold subscribers
  have : topic.isEmpty = false := by cases topic <;> simp_all
  simp only [this, Bool.false_eq_true, if_false]
  rw [fold_inline_keys]
  constructor
  · rintro (h | ⟨q, hq, n, hn, hx, hi⟩)
    · simp at h
    · rw [C01_scan_exact_inline ops topic hnh] at hq
      exact ⟨q, n, hn, hi, hq.2, hx⟩
  · rintro ⟨q, n, hn, hi, hm, hx⟩
    right
    refine ⟨q, ?_, n, hn, hx, hi⟩
    rw [C01_scan_exact_inline ops topic hnh]
    exact ⟨getNode_some_hasNode _ _ _ hn, hm⟩

/-- the `$` rule of the spec and the code's two tests agree on particle addresses -/
theorem C01_dollar_rule (q : Path) (topic : Str) :
    dollarRule q topic = (topicDollar topic && wildStart q) := by
  unfold dollarRule topicDollar wildStart
  cases topic <;> simp

/-- the clause seed C03-r3 removes from the code, at every depth: a filter `pre/+/#` matches every topic that ends
    exactly at the `+` level (the trailing `#` matches its parent level, MQTT 4.7.1.2) — whenever `pre` matches the
    topic's leading levels and holds no `#`. With `C01_clients_exact` (the scan returns exactly the `specMatch`
    subscribers in every history) the model's scan must return such a subscriber. -/
theorem C01_plus_hash_parent_level (pre ts : Path) (t : Str) (hm : matchLv pre ts = true)
    (hh : ∀ f ∈ pre, f ≠ [hash]) : matchLv (pre ++ [[plus], [hash]]) (ts ++ [t]) = true := by
  induction pre generalizing ts with
  | nil =>
    cases ts with
    | nil => simp [matchLv, plus, hash]
    | cons a as => simp [matchLv] at hm
  | cons f fs ih =>
    have hf : (f == [hash]) = false := by simpa using hh f (by simp)
    cases ts with
    | nil => simp [matchLv, hf] at hm
    | cons a as =>
      simp only [matchLv, hf, Bool.false_eq_true, if_false, Bool.and_eq_true] at hm
      simp only [List.cons_append, matchLv, hf, Bool.false_eq_true, if_false, Bool.and_eq_true]
      exact ⟨hm.1, ih as hm.2 (fun g hg => hh g (by simp [hg]))⟩

#print axioms C01_plus_hash_parent_level
/-- and no shallower: a topic with no level for the `+` to stand on is not matched by `pre/+/#` -/
theorem C01_plus_hash_needs_plus_level (pre ts : Path) (hl : ts.length ≤ pre.length)
    (hh : ∀ f ∈ pre, f ≠ [hash]) : matchLv (pre ++ [[plus], [hash]]) ts = false := by
  induction pre generalizing ts with
  | nil =>
    cases ts with
    | nil => simp [matchLv, plus, hash]
    | cons a as => simp at hl
  | cons f fs ih =>
    have hf : (f == [hash]) = false := by simpa using hh f (by simp)
    cases ts with
    | nil => simp [matchLv, hf]
    | cons a as =>
      simp only [List.cons_append, matchLv, hf, Bool.false_eq_true, if_false]
      rw [ih as (by simpa using hl) (fun g hg => hh g (by simp [hg]))]
      simp

#print axioms C01_plus_hash_needs_plus_level

/-- `+/#` matches the parent level; `a/#` matches `a`; a leading wildcard is excluded for `$` topics
    (the three witnesses of the repaired defects), and non-vacuity of the hypotheses. -/
example : matchLv [[plus], [hash]] [[97]] = true := by decide
example : matchLv [[97], [hash]] [[97]] = true := by decide
example : specMatch [[hash]] [36, 120] = false := by decide
example : (subscribers (runOps [.subscribe [99] { filter := [43, 47, 35], qos := 1 }]) [97]).subs.map Prod.fst = [[99]] := by
  decide
example : (subscribers (runOps [.inlineSubscribe 7 { filter := [97, 47, 35] }]) [97]).inline.map Prod.fst = [7] := by
  decide
example : (subscribers (runOps [.inlineSubscribe 7 { filter := [35] }]) [36, 120]).inline.map Prod.fst = [] := by
  decide

end Mochi.Topics
