import Mochi.Model.Broker
import Mochi.Lemmas.AckRes
import Mochi.Lemmas.BrokerInbound
import Mochi.Props.C08Demo
/-!
# C08 — Inbound QoS 2 messages are forwarded exactly once

Model: the duplicate detection of `processPublish` (an in-flight record of type PUBREC under the
client's packet identifier) and `processPubrel`.
Proved: while the PUBREC record exists a retransmitted PUBLISH is **not** forwarded and not retained
(index and retained store untouched), it is answered on the publisher's connection only, and the
record survives; PUBREL removes the record.
Known finding F08 (recorded): the answer to the retransmission is PUBREC with reason 0x91 "packet
identifier in use" — a failure code — for MQTT 5 (`C08_retransmit_reason`).

Operation and history level (sections below; lemmas in `Mochi/Lemmas/BrokerInbound.lean`, the survival walk in
`Mochi/Lemmas/BrokerInboundWalk.lean`, the concrete history and the counterexamples in `Mochi/Props/C08Demo.lean`):
`C08_inbound_record_survives_step/_run/_history` (the open exchange survives every op — all 12 kinds — not in `InEnds`),
`C08_accepted_qos2_shape/_tail/_opens` (PUBREC 0x00 first, ONE `publishToSubscribers` call, the record filed),
`C08_retransmit_not_forwarded_op(_quiet)` (the retransmission: PUBREC 0x91 on its own connection, nothing routed or
retained, every other object untouched), `C08_forwarded_exactly_once(_seq)` (histories
`pre ++ [PUBLISH q2 k] ++ mid ++ [PUBREL k]`).
-/
namespace Mochi.Broker
open Mochi.Topics

/-- a retransmitted QoS 2 PUBLISH (record still present) is not forwarded, whatever the state of the
    connection: the handler's result is that of `return cl.WritePacket(PUBREC 0x91)` -/
theorem C08_retransmit_ackRes (s : Server) (i q id : Nat) (d r : Bool) (topic payload : Str) (me : Nat) (al : Option Nat)
    (pki : Msg) (hin : (getObj s i).inline = false) (hvalid : isValidFilter topic true = true)
    (hq : (getObj s i).recvQuota ≠ 0) (hacl : aclOk s (getObj s i).id topic true = true)
    (hrec : flGet (getObj s i) id = some pki) (ht : pki.type = 5) :
    processPublish s i q d r id topic payload me al = ackRes s i 5 id 0x91 := by
  unfold processPublish
  have hq' : ((getObj s i).recvQuota == 0) = false := by simpa using hq
  simp [hin, hvalid, hq', hacl, hrec, ht]

/-- … so the state is unchanged on a dead connection too (the write fails, nothing else happens) -/
theorem C08_retransmit_state_unchanged (s : Server) (i q id : Nat) (d r : Bool) (topic payload : Str) (me : Nat) (al : Option Nat)
    (pki : Msg) (hin : (getObj s i).inline = false) (hvalid : isValidFilter topic true = true)
    (hq : (getObj s i).recvQuota ≠ 0) (hacl : aclOk s (getObj s i).id topic true = true)
    (hrec : flGet (getObj s i) id = some pki) (ht : pki.type = 5) :
    (processPublish s i q d r id topic payload me al).1 = s := by
  rw [C08_retransmit_ackRes s i q id d r topic payload me al pki hin hvalid hq hacl hrec ht]
  exact ackRes_fst s i 5 id 0x91

/-- a retransmitted QoS 2 PUBLISH (record still present) is not forwarded: nothing but one PUBREC to
    the publisher, state unchanged -/
theorem C08_retransmit_not_forwarded (s : Server) (i q id : Nat) (d r : Bool) (topic payload : Str) (me : Nat) (al : Option Nat)
    (pki : Msg) (hin : (getObj s i).inline = false) (hvalid : isValidFilter topic true = true)
    (hq : (getObj s i).recvQuota ≠ 0) (hacl : aclOk s (getObj s i).id topic true = true)
    (hrec : flGet (getObj s i) id = some pki) (ht : pki.type = 5)
    (hopen : (getObj s i).isOpen = true) (hpg : (getObj s i).peerGone = false) :
    processPublish s i q d r id topic payload me al = (s, writeAck s i 5 id 0x91, none) := by
  rw [C08_retransmit_ackRes s i q id d r topic payload me al pki hin hvalid hq hacl hrec ht]
  exact ackRes_live s i 5 id 0x91 (dead_of_live hopen hpg)

/-- F08: the reason code of that PUBREC is 0x91, which signals failure to an MQTT 5 client -/
theorem C08_retransmit_reason : (0x91 : Nat) ≥ 0x80 := by decide

/-- PUBREL for a stored exchange removes the record, so the next PUBLISH with that id is new -/
theorem C08_pubrel_releases (c : Client) (id : Nat) : flGet (flDelete c id).1 id = none := by
  unfold flDelete flGet
  simp only []
  rw [List.find?_eq_none]
  intro m hm
  have := (List.mem_filter.mp hm).2
  simpa using this

/-! ## The open inbound exchange survives every op that does not end it (all 12 op kinds, all histories)

Definitions (`Mochi/Lemmas/BrokerInbound.lean`, `BrokerInboundWalk.lean`): `InOpen s cid k` — the object REGISTERED under
`cid` holds under packet identifier `k` an in-flight record of type 5 (PUBREC) that is not deferred by flow control
(`0 ≤ expiry`; `processPublish` files it with `expiry = NOW + maximum`); `InEnds s cid k op` (decidable) — the ops that may
end the exchange in state `s`: the client's PUBREL `k`; PUBACK / PUBCOMP / PUBREC `k` from the client (one in-flight map for
both directions, F10 — PUBREC `k` with a success code REPLACES the record by a PUBREL record and is answered PUBREL);
an admitted CONNECT for `cid` with Clean Start or over an MQTT 3 clean session; the `clients` tick when the session is
due; the `inflight` tick when the record is due; the end of a connection of `cid` whose session ends with it (drop,
DISCONNECT, an erroring packet, a parked handler's clean-up).  NOT in the list: a PUBLISH of the client under the same
identifier at any QoS (it is answered PUBREC 0x91 and nothing else happens — `processPublish`, server.go:920-925; for
QoS 1 the answer is a PUBREC too, to an MQTT 3 client with reason 0 on the wire); an outbound delivery to the client
(`NextPacketID` skips identifiers in use: `nextPacketID_fresh`). -/

/-- **C08, one op.**  The inbound exchange `k` of `cid` is still open after EVERY op — of any of the 12 kinds — that
    `InEnds s cid k` does not list (after a resumption / take-over the record is in the NEW object). -/
theorem C08_inbound_record_survives_step (s : Server) (op : Op) (cid : Str) (k : Nat) (hw : WF s)
    (hsync : SyncInv s) (hf : OpFresh s op) (h : InOpen s cid k) (hne : ¬ InEnds s cid k op) :
    InOpen (step s op).1 cid k := by
  obtain ⟨m, hm⟩ := (InOpen_iff s cid k).mp h
  exact (InOpen_iff _ cid k).mpr ⟨m, inbound_record_survives_step s op cid k m hw hsync hf hm hne⟩

/-- … and it is the very same record (`InOpenRec s cid k m`: the registered object's record under `k` is `m`) -/
theorem C08_inbound_record_same_step (s : Server) (op : Op) (cid : Str) (k : Nat) (m : Msg) (hw : WF s)
    (hsync : SyncInv s) (hf : OpFresh s op) (h : InOpenRec s cid k m) (hne : ¬ InEnds s cid k op) :
    InOpenRec (step s op).1 cid k m :=
  inbound_record_survives_step s op cid k m hw hsync hf h hne

/-- **C08, op lists** (`InNoEnds`: no op of the list is in `InEnds` in the state it is applied to) -/
theorem C08_inbound_record_survives_run (s : Server) (ops : List Op) (cid : Str) (k : Nat) (hw : WF s)
    (hsync : SyncInv s) (hf : OpsFresh s ops) (hok : OpsSchedOK s ops) (h : InOpen s cid k)
    (hne : InNoEnds s cid k ops) : InOpen (run s ops) cid k := by
  obtain ⟨m, hm⟩ := (InOpen_iff s cid k).mp h
  exact (InOpen_iff _ cid k).mpr ⟨m, inbound_record_survives_run s ops cid k m hw hsync hf hok hm hne⟩

theorem q08_OpsFresh_app {s : Server} {a b : List Op} (h : OpsFresh s (a ++ b)) :
    OpsFresh s a ∧ OpsFresh (run s a) b := by
  induction a generalizing s with
  | nil => exact ⟨trivial, h⟩
  | cons x xs ih =>
    obtain ⟨h1, h2⟩ := ih h.2
    exact ⟨⟨h.1, h1⟩, h2⟩

theorem q08_OpsSchedOK_app {s : Server} {a b : List Op} (h : OpsSchedOK s (a ++ b)) :
    OpsSchedOK s a ∧ OpsSchedOK (run s a) b := by
  induction a generalizing s with
  | nil => exact ⟨trivial, h⟩
  | cons x xs ih =>
    obtain ⟨h1, h2⟩ := ih h.2
    exact ⟨⟨h.1, h1⟩, h2⟩

theorem q08_run_append (s : Server) (a b : List Op) : run s (a ++ b) = run (run s a) b := by
  unfold run; rw [List.foldl_append]

/-- **C08, histories from the initial state**: once the exchange is open (after `pre`), it is open after any
    continuation none of whose ops ends it — through disconnections, resumptions and take-overs. -/
theorem C08_inbound_record_survives_history (caps : Caps) (pre ops : List Op) (cid : Str) (k : Nat)
    (hf : OpsFresh (init caps) (pre ++ ops)) (hok : OpsSchedOK (init caps) (pre ++ ops))
    (h : InOpen (run (init caps) pre) cid k) (hne : InNoEnds (run (init caps) pre) cid k ops) :
    InOpen (run (init caps) (pre ++ ops)) cid k := by
  rw [q08_run_append]
  obtain ⟨f1, f2⟩ := q08_OpsFresh_app hf
  obtain ⟨o1, o2⟩ := q08_OpsSchedOK_app hok
  exact C08_inbound_record_survives_run _ ops cid k (WF_run caps pre f1) (SyncInv_run caps pre f1 o1) f2 o2 h hne

/-! ## The accepted QoS 2 PUBLISH, and its retransmission while the exchange is open -/

/-- **C08, the accepted publish.**  An inbound QoS 2 PUBLISH that passes the gates `AcceptedQ2` (live network client,
    valid non-empty topic, identifier ≠ 0, receive quota left, write permission, NO in-flight record under the
    identifier, no hook mode, the broker grants QoS 2), on the connection of client object `i`: the op's outputs are
    PUBREC with reason 0x00 to the publisher FIRST, then what ONE call of `publishToSubscribers` writes
    (`q2Routed … = publishToSubscribers (pubrecFiled (retainedState s m) i id) m`, `m = inboundMsg …`: the state with the
    retained store updated and the PUBREC record filed), then the release tail (the publisher's own deferred messages,
    `C08_accepted_qos2_tail`). -/
theorem C08_accepted_qos2_shape (s : Server) (conn i : Nat) (dup retain : Bool) (id : Nat) (topic payload : Str) (me : Nat)
    (hc : assocGet s.connOf conn = some i) (h : AcceptedQ2 s i id topic) :
    step s (.recv conn (.publish 2 dup retain id topic payload me none)) =
      ((nextImmediate (nextImmediate (q2Routed s i dup retain id topic payload me).1 i).1 i).1,
       [Out.wrote (getObj s i).conn (.ack (getObj s i).ver 5 id 0)] ++ (q2Routed s i dup retain id topic payload me).2 ++
       (nextImmediate (q2Routed s i dup retain id topic payload me).1 i).2 ++
       (nextImmediate (nextImmediate (q2Routed s i dup retain id topic payload me).1 i).1 i).2) :=
  step_recv_publish_q2 s conn i dup retain id topic payload me hc h

/-- the release tail of that op: at most two outputs, all on the PUBLISHER's connection -/
theorem C08_accepted_qos2_tail (s : Server) (i : Nat) (dup retain : Bool) (id : Nat) (topic payload : Str) (me : Nat) :
    ((nextImmediate (q2Routed s i dup retain id topic payload me).1 i).2 ++
      (nextImmediate (nextImmediate (q2Routed s i dup retain id topic payload me).1 i).1 i).2).length ≤ 2 ∧
    ∀ x ∈ (nextImmediate (q2Routed s i dup retain id topic payload me).1 i).2 ++
      (nextImmediate (nextImmediate (q2Routed s i dup retain id topic payload me).1 i).1 i).2,
      ∃ pk, x = Out.wrote (getObj s i).conn pk := by
  have := nextImmediate_twice_out (q2Routed s i dup retain id topic payload me).1 i
  rw [q2Routed_conn] at this
  exact this

/-- … and it files the PUBREC record: the exchange is open afterwards, its record is `pubrecMsg s id` (type 5, the
    identifier, created NOW, expiry NOW + the server's maximum message expiry) -/
theorem C08_accepted_qos2_opens (s : Server) (conn i : Nat) (dup retain : Bool) (id : Nat) (topic payload : Str)
    (me : Nat) (cid : Str) (hw : WF s) (hc : assocGet s.connOf conn = some i) (h : AcceptedQ2 s i id topic)
    (hreg : assocGet s.clients cid = some i) :
    InOpenRec (step s (.recv conn (.publish 2 dup retain id topic payload me none))).1 cid id (pubrecMsg s id) ∧
    InOpen (step s (.recv conn (.publish 2 dup retain id topic payload me none))).1 cid id := by
  have := step_recv_publish_q2_open s conn i dup retain id topic payload me cid hw hc h hreg
  exact ⟨this, (InOpen_iff _ cid id).mpr ⟨_, this⟩⟩

/-- **C08, the retransmission, op level.**  While the exchange `id` of `cid` is open (`InOpen`), a QoS 2 PUBLISH with
    that identifier on the connection of the session's object `i` (gates `RetransmitGates`: live network client, valid
    topic, receive quota left, write permission — those of the original publish):
    * the op is PUBREC with reason 0x91 to THAT connection (F08: a failure code to an MQTT 5 client; an MQTT 3 client
      is written a plain PUBREC — `renderAck` puts reason codes on the wire for version 5 only), followed by the release
      tail, and the state is the state before but for those releases: neither `publishToSubscribers` nor `retainMsg`
      is called;
    * every output is a write to that connection (so: no `Out.inline`, no write to any subscriber);
    * every output other than the PUBREC is one of the PUBLISHER's own deferred in-flight messages (`expiry < 0`) being
      released — never the retransmitted message;
    * the retained store, the index and every other object (with its in-flight records) are unchanged. -/
theorem C08_retransmit_not_forwarded_op (s : Server) (conn i : Nat) (dup retain : Bool) (id : Nat) (topic payload : Str)
    (me : Nat) (cid : Str) (hc : assocGet s.connOf conn = some i) (hreg : assocGet s.clients cid = some i)
    (hopen : InOpen s cid id) (h : RetransmitGates s i id topic) :
    step s (.recv conn (.publish 2 dup retain id topic payload me none)) =
      ((nextImmediate (nextImmediate s i).1 i).1,
       [Out.wrote (getObj s i).conn (.ack (getObj s i).ver 5 id 0x91)] ++ (nextImmediate s i).2 ++
       (nextImmediate (nextImmediate s i).1 i).2) ∧
    (∀ x ∈ (step s (.recv conn (.publish 2 dup retain id topic payload me none))).2,
      ∃ pk, x = Out.wrote (getObj s i).conn pk) ∧
    (∀ x ∈ (step s (.recv conn (.publish 2 dup retain id topic payload me none))).2,
      x = Out.wrote (getObj s i).conn (.ack (getObj s i).ver 5 id 0x91) ∨
      ∃ m ∈ (getObj s i).inflight, m.expiry < 0 ∧ x ∈ writeMsg s i m) ∧
    (step s (.recv conn (.publish 2 dup retain id topic payload me none))).1.rmsgs = s.rmsgs ∧
    (step s (.recv conn (.publish 2 dup retain id topic payload me none))).1.topics = s.topics ∧
    (∀ x, x ≠ i → getObj (step s (.recv conn (.publish 2 dup retain id topic payload me none))).1 x = getObj s x) := by
  obtain ⟨pki, hrec, ht, _⟩ := hopen.rec_at hreg
  have e := step_recv_publish_dup s conn i dup retain id topic payload me pki hc h hrec ht
  obtain ⟨a1, a2, a3⟩ := nextImmediate_store s i
  obtain ⟨b1, b2, b3⟩ := nextImmediate_store (nextImmediate s i).1 i
  refine ⟨e, ?_, ?_, ?_, ?_, ?_⟩
  · rw [e]
    intro x hx
    rw [List.append_assoc] at hx
    rcases List.mem_append.mp hx with hx | hx
    · rw [List.mem_singleton] at hx; exact ⟨_, hx⟩
    · exact (nextImmediate_twice_out s i).2 x hx
  · rw [e]
    intro x hx
    rw [List.append_assoc] at hx
    rcases List.mem_append.mp hx with hx | hx
    · rw [List.mem_singleton] at hx; exact Or.inl hx
    · exact Or.inr (nextImmediate_twice_deferred s i x hx)
  · rw [e]; exact b1.trans a1
  · rw [e]; exact b2.trans a2
  · rw [e]; intro x hx; exact (b3 x hx).trans (a3 x hx)

/-- … and when the publisher holds no deferred message (`0 ≤ expiry` for all its in-flight records): the op is that one
    PUBREC and NOTHING else — the whole broker state is unchanged (no `.wrote _ (.publish …)`, no `Out.inline`, `rmsgs`,
    index and all in-flight records as before) -/
theorem C08_retransmit_not_forwarded_op_quiet (s : Server) (conn i : Nat) (dup retain : Bool) (id : Nat)
    (topic payload : Str) (me : Nat) (cid : Str) (hc : assocGet s.connOf conn = some i)
    (hreg : assocGet s.clients cid = some i) (hopen : InOpen s cid id) (h : RetransmitGates s i id topic)
    (hd : ∀ m ∈ (getObj s i).inflight, 0 ≤ m.expiry) :
    step s (.recv conn (.publish 2 dup retain id topic payload me none)) =
      (s, [Out.wrote (getObj s i).conn (.ack (getObj s i).ver 5 id 0x91)]) := by
  obtain ⟨pki, hrec, ht, _⟩ := hopen.rec_at hreg
  exact step_recv_publish_dup_quiet s conn i dup retain id topic payload me pki hc h hrec ht hd

/-- the answer an MQTT 3 publisher sees: the reason code is not on the wire -/
theorem C08_retransmit_render_v3 (id : Nat) : (WPk.ack 4 5 id 0x91).render = (WPk.ack 4 5 id 0).render := by
  simp [WPk.render, renderAck]

/-! ## Forwarded exactly once, over histories

A sequential history `pre ++ [PUBLISH q2 k] ++ mid ++ [PUBREL k]`: the PUBLISH is accepted in the state `s0` after `pre`;
no op of `mid` is in `InEnds` (`InNoEnds` — retransmissions of the PUBLISH are NOT in `InEnds`, so `mid` may contain any
number of them, on the original connection or, after a reconnect with session present, on a new one).  "Forwarded
exactly once" is stated as the facts: (1) the first PUBLISH is answered PUBREC 0x00 and routed by ONE call of
`publishToSubscribers`; (2) the exchange is open in every state of `mid`; (3) every retransmission in `mid` (a QoS 2
PUBLISH with identifier `k` on a connection of the session that passes `RetransmitGates`) writes to its own connection
only — the PUBREC 0x91 and releases of the publisher's own deferred messages — and leaves the retained store, the index
and every other object untouched: it calls neither `publishToSubscribers` nor `retainMsg`; (4) so does the PUBREL, which
is answered PUBCOMP and closes the exchange (the next PUBLISH with identifier `k` is a new message).
A copy of the message for the PUBLISHER itself (it subscribes to its own topic) that flow control deferred is a record the
first op filed; when a later op of the publisher releases it, that is the one copy of (1) being written, not a second
forwarding. -/

/-- **C08, forwarded exactly once** — from any well-formed state `s0` satisfying the index/session invariant. -/
theorem C08_forwarded_exactly_once (s0 : Server) (hw : WF s0) (hsync : SyncInv s0) (mid : List Op)
    (conn i k : Nat) (dup retain : Bool) (topic payload : Str) (me : Nat) (cid : Str)
    (hf : OpsFresh s0 (.recv conn (.publish 2 dup retain k topic payload me none) :: mid))
    (hok : OpsSchedOK s0 (.recv conn (.publish 2 dup retain k topic payload me none) :: mid))
    (hc : assocGet s0.connOf conn = some i) (hreg : assocGet s0.clients cid = some i)
    (hacc : AcceptedQ2 s0 i k topic)
    (hmid : InNoEnds (step s0 (.recv conn (.publish 2 dup retain k topic payload me none))).1 cid k mid) :
    -- (1) the first PUBLISH: PUBREC 0x00 first, ONE fan-out, the release tail
    (step s0 (.recv conn (.publish 2 dup retain k topic payload me none))).2 =
      [Out.wrote (getObj s0 i).conn (.ack (getObj s0 i).ver 5 k 0)] ++ (q2Routed s0 i dup retain k topic payload me).2 ++
       (nextImmediate (q2Routed s0 i dup retain k topic payload me).1 i).2 ++
       (nextImmediate (nextImmediate (q2Routed s0 i dup retain k topic payload me).1 i).1 i).2 ∧
    -- (2) the exchange is open in every state of `mid`
    (∀ a b, mid = a ++ b →
      InOpen (run (step s0 (.recv conn (.publish 2 dup retain k topic payload me none))).1 a) cid k) ∧
    -- (3) no retransmission in `mid` is forwarded
    (∀ a b conn' i' d r t p me', mid = a ++ [.recv conn' (.publish 2 d r k t p me' none)] ++ b →
      assocGet (run (step s0 (.recv conn (.publish 2 dup retain k topic payload me none))).1 a).connOf conn' = some i' →
      assocGet (run (step s0 (.recv conn (.publish 2 dup retain k topic payload me none))).1 a).clients cid = some i' →
      RetransmitGates (run (step s0 (.recv conn (.publish 2 dup retain k topic payload me none))).1 a) i' k t →
      (∀ x ∈ (step (run (step s0 (.recv conn (.publish 2 dup retain k topic payload me none))).1 a)
            (.recv conn' (.publish 2 d r k t p me' none))).2,
        x = Out.wrote (getObj (run (step s0 (.recv conn (.publish 2 dup retain k topic payload me none))).1 a) i').conn
              (.ack (getObj (run (step s0 (.recv conn (.publish 2 dup retain k topic payload me none))).1 a) i').ver 5 k 0x91) ∨
        ∃ m ∈ (getObj (run (step s0 (.recv conn (.publish 2 dup retain k topic payload me none))).1 a) i').inflight,
          m.expiry < 0 ∧
          x ∈ writeMsg (run (step s0 (.recv conn (.publish 2 dup retain k topic payload me none))).1 a) i' m) ∧
      (step (run (step s0 (.recv conn (.publish 2 dup retain k topic payload me none))).1 a)
          (.recv conn' (.publish 2 d r k t p me' none))).1.rmsgs =
        (run (step s0 (.recv conn (.publish 2 dup retain k topic payload me none))).1 a).rmsgs ∧
      (step (run (step s0 (.recv conn (.publish 2 dup retain k topic payload me none))).1 a)
          (.recv conn' (.publish 2 d r k t p me' none))).1.topics =
        (run (step s0 (.recv conn (.publish 2 dup retain k topic payload me none))).1 a).topics ∧
      (∀ x, x ≠ i' →
        getObj (step (run (step s0 (.recv conn (.publish 2 dup retain k topic payload me none))).1 a)
          (.recv conn' (.publish 2 d r k t p me' none))).1 x =
        getObj (run (step s0 (.recv conn (.publish 2 dup retain k topic payload me none))).1 a) x)) ∧
    -- (4) the PUBREL after `mid`: PUBCOMP to the publisher, the exchange closed, nothing routed
    (∀ conn' i',
      assocGet (run (step s0 (.recv conn (.publish 2 dup retain k topic payload me none))).1 mid).connOf conn' = some i' →
      assocGet (run (step s0 (.recv conn (.publish 2 dup retain k topic payload me none))).1 mid).clients cid = some i' →
      (getObj (run (step s0 (.recv conn (.publish 2 dup retain k topic payload me none))).1 mid) i').isOpen = true →
      (getObj (run (step s0 (.recv conn (.publish 2 dup retain k topic payload me none))).1 mid) i').peerGone = false →
      (getObj (run (step s0 (.recv conn (.publish 2 dup retain k topic payload me none))).1 mid) i').inline = false →
      ¬ InOpen (step (run (step s0 (.recv conn (.publish 2 dup retain k topic payload me none))).1 mid)
          (.recv conn' (.pubrel k 0))).1 cid k ∧
      (step (run (step s0 (.recv conn (.publish 2 dup retain k topic payload me none))).1 mid)
          (.recv conn' (.pubrel k 0))).1.rmsgs =
        (run (step s0 (.recv conn (.publish 2 dup retain k topic payload me none))).1 mid).rmsgs ∧
      (step (run (step s0 (.recv conn (.publish 2 dup retain k topic payload me none))).1 mid)
          (.recv conn' (.pubrel k 0))).1.topics =
        (run (step s0 (.recv conn (.publish 2 dup retain k topic payload me none))).1 mid).topics ∧
      (∀ x, x ≠ i' →
        getObj (step (run (step s0 (.recv conn (.publish 2 dup retain k topic payload me none))).1 mid)
          (.recv conn' (.pubrel k 0))).1 x =
        getObj (run (step s0 (.recv conn (.publish 2 dup retain k topic payload me none))).1 mid) x) ∧
      (∀ x ∈ (step (run (step s0 (.recv conn (.publish 2 dup retain k topic payload me none))).1 mid)
          (.recv conn' (.pubrel k 0))).2,
        ∃ pk, x = Out.wrote
          (getObj (run (step s0 (.recv conn (.publish 2 dup retain k topic payload me none))).1 mid) i').conn pk)) := by
  generalize hop : Op.recv conn (.publish 2 dup retain k topic payload me none) = op at hf hok hmid ⊢
  have e1 := congrArg Prod.snd (C08_accepted_qos2_shape s0 conn i dup retain k topic payload me hc hacc)
  rw [hop] at e1
  have hopen1 : InOpen (step s0 op).1 cid k := by
    rw [← hop]
    exact (C08_accepted_qos2_opens s0 conn i dup retain k topic payload me cid hw hc hacc hreg).2
  generalize hs1 : (step s0 op).1 = s1 at hf hok hmid hopen1 ⊢
  have w1 : WF s1 := hs1 ▸ WF_step s0 op hw hf.1
  have y1 : SyncInv s1 := hs1 ▸ SyncInv_step s0 op hsync hw hf.1 hok.1
  have f1 : OpsFresh s1 mid := hs1 ▸ hf.2
  have o1 : OpsSchedOK s1 mid := hs1 ▸ hok.2
  have open_at : ∀ a b, mid = a ++ b → InOpen (run s1 a) cid k := by
    intro a b hab
    rw [hab] at f1 o1 hmid
    exact C08_inbound_record_survives_run s1 a cid k w1 y1 (q08_OpsFresh_app f1).1 (q08_OpsSchedOK_app o1).1 hopen1
      (InNoEnds_app hmid).1
  refine ⟨e1, open_at, ?_, ?_⟩
  · intro a b conn' i' d r t p me' hab hc' hreg' hg
    have ho := open_at a _ (by rw [hab, List.append_assoc])
    obtain ⟨_, _, h3, h4, h5, h6⟩ := C08_retransmit_not_forwarded_op (run s1 a) conn' i' d r k t p me' cid hc' hreg' ho hg
    exact ⟨h3, h4, h5, h6⟩
  · intro conn' i' hc' hreg' hopn hpeer hin
    have ho := open_at mid [] (List.append_nil mid).symm
    exact step_recv_pubrel_closes (run s1 mid) conn' i' k cid hc' hreg' ho hopn hpeer hin

/-- **C08, forwarded exactly once, histories from the initial state** `pre ++ [PUBLISH q2 k] ++ mid` (++ `[PUBREL k]`:
    clause (4)): the conclusions of `C08_forwarded_exactly_once` for `s0 = run (init caps) pre`. -/
theorem C08_forwarded_exactly_once_seq (caps : Caps) (pre mid : List Op)
    (conn i k : Nat) (dup retain : Bool) (topic payload : Str) (me : Nat) (cid : Str)
    (hf : OpsFresh (init caps) (pre ++ (.recv conn (.publish 2 dup retain k topic payload me none) :: mid)))
    (hok : OpsSchedOK (init caps) (pre ++ (.recv conn (.publish 2 dup retain k topic payload me none) :: mid)))
    (hc : assocGet (run (init caps) pre).connOf conn = some i)
    (hreg : assocGet (run (init caps) pre).clients cid = some i)
    (hacc : AcceptedQ2 (run (init caps) pre) i k topic)
    (hmid : InNoEnds (step (run (init caps) pre) (.recv conn (.publish 2 dup retain k topic payload me none))).1 cid k mid) :
    (step (run (init caps) pre) (.recv conn (.publish 2 dup retain k topic payload me none))).2 =
      [Out.wrote (getObj (run (init caps) pre) i).conn (.ack (getObj (run (init caps) pre) i).ver 5 k 0)] ++
       (q2Routed (run (init caps) pre) i dup retain k topic payload me).2 ++
       (nextImmediate (q2Routed (run (init caps) pre) i dup retain k topic payload me).1 i).2 ++
       (nextImmediate (nextImmediate (q2Routed (run (init caps) pre) i dup retain k topic payload me).1 i).1 i).2 ∧
    (∀ a b, mid = a ++ b →
      InOpen (run (init caps) (pre ++ (.recv conn (.publish 2 dup retain k topic payload me none) :: a))) cid k) := by
  obtain ⟨f1, f2⟩ := q08_OpsFresh_app hf
  obtain ⟨o1, o2⟩ := q08_OpsSchedOK_app hok
  obtain ⟨h1, h2, _, _⟩ := C08_forwarded_exactly_once (run (init caps) pre) (WF_run caps pre f1) (SyncInv_run caps pre f1 o1)
    mid conn i k dup retain topic payload me cid f2 o2 hc hreg hacc hmid
  refine ⟨h1, fun a b hab => ?_⟩
  rw [q08_run_append]
  exact h2 a b hab

set_option maxRecDepth 100000 in
/-- the history of `Mochi/Props/C08Demo.lean` is an instance of `C08_forwarded_exactly_once_seq` (`pre` = ops 0–2, the
    PUBLISH = op 3, `mid` = ops 4–7: retransmission, drop, resumption, retransmission): its hypotheses hold, so the
    exchange is open in every state of `mid` -/
theorem C08_demo_history_instance :
    ∀ a b, (c08History.drop 4).take 4 = a ++ b →
      InOpen (run (init {}) (c08History.take 3 ++ (.recv 2 (.publish 2 false false 7 [116] [97] 0 none) :: a))) [112] 7 :=
  (C08_forwarded_exactly_once_seq {} (c08History.take 3) ((c08History.drop 4).take 4) 2 2 7 false false [116] [97] 0 [112]
    (by decide) (by decide) (by decide) (by decide)
    ⟨by decide, by decide, by decide, by decide, by decide, by decide, by decide, by decide, by decide, by decide,
      by decide⟩
    (by decide)).2

end Mochi.Broker
