import Mochi.Model.Broker
import Mochi.Lemmas.AckRes
/-!
# C08 — Inbound QoS 2 messages are forwarded exactly once

Model: the duplicate detection of `processPublish` (an in-flight record of type PUBREC under the
client's packet identifier) and `processPubrel`.
Proved: while the PUBREC record exists a retransmitted PUBLISH is **not** forwarded and not retained
(index and retained store untouched), it is answered on the publisher's connection only, and the
record survives; PUBREL removes the record.
Known finding F08 (recorded): the answer to the retransmission is PUBREC with reason 0x91 "packet
identifier in use" — a failure code — for MQTT 5 (`C08_retransmit_reason`).
-/
namespace Mochi.Broker
open Mochi.Topics

/-- a retransmitted QoS 2 PUBLISH (record still present) is not forwarded, whatever the state of the
    connection: the handler's result is that of `return cl.WritePacket(PUBREC 0x91)` -/
theorem C08_retransmit_ackRes (s : Server) (i q id : Nat) (d r : Bool) (topic payload : Str) (me : Nat) (al : Option Nat)
    (pki : Msg) (hin : (getObj s i).inline = false) (hvalid : isValidFilter topic true = true)
    (hq : (getObj s i).recvQuota ≠ 0) (hacl : aclOk s (getObj s i).id topic true = true)
    (hrec : flGet (getObj s i) id = some pki) (ht : pki.type = 5) :
    processPublish s i q d r id topic payload me al = ackRes s i 5 id 0x91 := by
  unfold processPublish
  have hq' : ((getObj s i).recvQuota == 0) = false := by simpa using hq
  simp [hin, hvalid, hq', hacl, hrec, ht]

/-- … so the state is unchanged on a dead connection too (the write fails, nothing else happens) -/
theorem C08_retransmit_state_unchanged (s : Server) (i q id : Nat) (d r : Bool) (topic payload : Str) (me : Nat) (al : Option Nat)
    (pki : Msg) (hin : (getObj s i).inline = false) (hvalid : isValidFilter topic true = true)
    (hq : (getObj s i).recvQuota ≠ 0) (hacl : aclOk s (getObj s i).id topic true = true)
    (hrec : flGet (getObj s i) id = some pki) (ht : pki.type = 5) :
    (processPublish s i q d r id topic payload me al).1 = s := by
  rw [C08_retransmit_ackRes s i q id d r topic payload me al pki hin hvalid hq hacl hrec ht]
  exact ackRes_fst s i 5 id 0x91

/-- a retransmitted QoS 2 PUBLISH (record still present) is not forwarded: nothing but one PUBREC to
    the publisher, state unchanged -/
theorem C08_retransmit_not_forwarded (s : Server) (i q id : Nat) (d r : Bool) (topic payload : Str) (me : Nat) (al : Option Nat)
    (pki : Msg) (hin : (getObj s i).inline = false) (hvalid : isValidFilter topic true = true)
    (hq : (getObj s i).recvQuota ≠ 0) (hacl : aclOk s (getObj s i).id topic true = true)
    (hrec : flGet (getObj s i) id = some pki) (ht : pki.type = 5)
    (hopen : (getObj s i).isOpen = true) (hpg : (getObj s i).peerGone = false) :
    processPublish s i q d r id topic payload me al = (s, writeAck s i 5 id 0x91, none) := by
  rw [C08_retransmit_ackRes s i q id d r topic payload me al pki hin hvalid hq hacl hrec ht]
  exact ackRes_live s i 5 id 0x91 (dead_of_live hopen hpg)

/-- F08: the reason code of that PUBREC is 0x91, which signals failure to an MQTT 5 client -/
theorem C08_retransmit_reason : (0x91 : Nat) ≥ 0x80 := by decide

/-- PUBREL for a stored exchange removes the record, so the next PUBLISH with that id is new -/
theorem C08_pubrel_releases (c : Client) (id : Nat) : flGet (flDelete c id).1 id = none := by
  unfold flDelete flGet
  simp only []
  rw [List.find?_eq_none]
  intro m hm
  have := (List.mem_filter.mp hm).2
  simpa using this

end Mochi.Broker
