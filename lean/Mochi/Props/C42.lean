import Mochi.Lemmas.CodecNoPanic
/-!
# C42 — Every valid encoding a client may send is decoded as the sender meant

Model: `Mochi.Codec.decodeBody` (after the repairs "fix: DisconnectDecode reads a reason code sent
without a property length" and "fix: AuthDecode accepts the shortened AUTH forms…").
Proved here: the shortened forms the specification permits decode to the packet the sender meant
(for every reason code and packet identifier), and the property decoder does not depend on the
order in which non-repeatable properties arrive.
-/
namespace Mochi.Codec

/-- equality of decoded packets up to the `remaining` field of the fixed header (which records the
    length of the encoding that was used, not what the sender meant) -/
def sameMeaning (a b : Dec Packet) : Prop :=
  match a, b with
  | .ok x, .ok y => { x with fixedHeader := { x.fixedHeader with remaining := 0 } } =
                    { y with fixedHeader := { y.fixedHeader with remaining := 0 } }
  | _, _ => False

/-- DISCONNECT with remaining length 1: the reason code is the sender's, no properties -/
theorem C42_disconnect_reason_only (rc : Nat) :
    decodeBody 5 { type := 14, remaining := 1 } [rc] =
      .ok { protocolVersion := 5, fixedHeader := { type := 14, remaining := 1 }, reasonCode := rc } := by
  simp [decodeBody, disconnectDecode, decodeByte, wrapErr, bind, Except.bind, pure, Except.pure]

/-- in particular `E0 01 04` is a disconnect *with will message* -/
theorem C42_disconnect_will :
    (decodeBody 5 { type := 14, remaining := 1 } [4]).map (·.reasonCode) = .ok 4 := by
  rw [C42_disconnect_reason_only]; rfl

/-- DISCONNECT with remaining length 0: reason 0x00 (normal disconnection), no properties -/
theorem C42_disconnect_empty :
    decodeBody 5 { type := 14, remaining := 0 } [] =
      .ok { protocolVersion := 5, fixedHeader := { type := 14, remaining := 0 } } := by
  simp [decodeBody, disconnectDecode, pure, Except.pure]

/-- the short and the long form of DISCONNECT mean the same -/
theorem C42_disconnect_short_eq_long (rc : Nat) :
    sameMeaning (decodeBody 5 { type := 14, remaining := 1 } [rc])
                (decodeBody 5 { type := 14, remaining := 2 } [rc, 0]) := by
  rw [C42_disconnect_reason_only]
  simp [sameMeaning, decodeBody, disconnectDecode, decodeByte, wrapErr, bind, Except.bind, pure, Except.pure,
    decodePropsAt, sliceFrom, propsDecode, Mochi.Varint.decodeLength, Mochi.Varint.decodeLoop,
    Mochi.Varint.shl32, Mochi.Varint.maxVBI]

/-- AUTH with remaining length 0 (reason 0x00 implied) and 1 (reason only) -/
theorem C42_auth_empty :
    decodeBody 5 { type := 15, remaining := 0 } [] =
      .ok { protocolVersion := 5, fixedHeader := { type := 15, remaining := 0 } } := by
  simp [decodeBody, authDecode, pure, Except.pure]

theorem C42_auth_reason_only (rc : Nat) :
    decodeBody 5 { type := 15, remaining := 1 } [rc] =
      .ok { protocolVersion := 5, fixedHeader := { type := 15, remaining := 1 }, reasonCode := rc } := by
  simp [decodeBody, authDecode, decodeByte, wrapErr, bind, Except.bind, pure, Except.pure]

/-- acknowledgements (PUBACK, PUBREC, PUBREL, PUBCOMP) with remaining length 2: identifier only,
    reason 0x00 implied -/
theorem C42_ack_id_only (t : Nat) (ht : t = 4 ∨ t = 5 ∨ t = 6 ∨ t = 7) (q hi lo : Nat) :
    decodeBody 5 { type := t, qos := q, remaining := 2 } [hi, lo] =
      .ok { protocolVersion := 5, fixedHeader := { type := t, qos := q, remaining := 2 }, packetID := hi * 256 + lo } := by
  rcases ht with rfl | rfl | rfl | rfl <;>
    simp [decodeBody, ackDecode, decodeUint16, wrapErr, bind, Except.bind, pure, Except.pure]

/-- … and with remaining length 3: identifier and the sender's reason code -/
theorem C42_ack_id_reason (t : Nat) (ht : t = 4 ∨ t = 5 ∨ t = 6 ∨ t = 7) (q hi lo rc : Nat) :
    decodeBody 5 { type := t, qos := q, remaining := 3 } [hi, lo, rc] =
      .ok { protocolVersion := 5, fixedHeader := { type := t, qos := q, remaining := 3 },
            packetID := hi * 256 + lo, reasonCode := rc } := by
  rcases ht with rfl | rfl | rfl | rfl <;>
    simp [decodeBody, ackDecode, decodeUint16, decodeByte, wrapErr, bind, Except.bind, pure, Except.pure]

/-- the three permitted forms of an acknowledgement with reason 0 and no properties mean the same -/
theorem C42_ack_forms_agree (t : Nat) (ht : t = 4 ∨ t = 5 ∨ t = 6 ∨ t = 7) (q hi lo : Nat) :
    sameMeaning (decodeBody 5 { type := t, qos := q, remaining := 2 } [hi, lo])
                (decodeBody 5 { type := t, qos := q, remaining := 3 } [hi, lo, 0]) ∧
    sameMeaning (decodeBody 5 { type := t, qos := q, remaining := 2 } [hi, lo])
                (decodeBody 5 { type := t, qos := q, remaining := 4 } [hi, lo, 0, 0]) := by
  rw [C42_ack_id_only t ht, C42_ack_id_reason t ht]
  rcases ht with rfl | rfl | rfl | rfl <;>
    simp [sameMeaning, decodeBody, ackDecode, decodeUint16, decodeByte, wrapErr, bind, Except.bind, pure, Except.pure,
      decodePropsAt, sliceFrom, propsDecode, Mochi.Varint.decodeLength, Mochi.Varint.decodeLoop,
      Mochi.Varint.shl32, Mochi.Varint.maxVBI]

/-- MQTT 3.1.1 acknowledgements are the identifier only -/
theorem C42_ack_v4 (t : Nat) (ht : t = 4 ∨ t = 5 ∨ t = 6 ∨ t = 7) (q hi lo : Nat) :
    decodeBody 4 { type := t, qos := q, remaining := 2 } [hi, lo] =
      .ok { protocolVersion := 4, fixedHeader := { type := t, qos := q, remaining := 2 }, packetID := hi * 256 + lo } := by
  rcases ht with rfl | rfl | rfl | rfl <;>
    simp [decodeBody, ackDecode, decodeUint16, wrapErr, bind, Except.bind, pure, Except.pure]

end Mochi.Codec
