import Mochi.Lemmas.Topics
/-!
# C30 — Filter and topic-name validation follows the MQTT rules

Model: `isValidFilter` (topics.go `IsValidFilter`, after the repairs "fix: IsValidFilter enforces
whole-level wildcards…" and "fix: IsValidFilter does not apply share-filter rules to publish topic
names").  Spec: `specFilterOK`, `specTopicOK` (Spec/Topics.lean).  Both theorems are for every byte
string.  The `$share`/`$SYS` prefixes are compared as the code compares them (Unicode simple case
folding), which is the reading fixed in DESIGN.md §7.
-/
namespace Mochi.Topics

/-- A subscription filter is accepted exactly when it is non-empty, `#` occupies only the whole last
    level, `+` occupies only whole levels, and a `$share` filter has a non-empty wildcard-free share
    name followed by a non-empty filter. -/
theorem C30_filter_iff (f : Str) : isValidFilter f false = specFilterOK f := by
  unfold isValidFilter specFilterOK
  simp only [Bool.not_false, Bool.true_and, Bool.false_and, Bool.false_eq_true, if_false]
  by_cases hf : f.isEmpty = true
  · simp [hf]
  · simp only [hf, if_false, Bool.not_false, Bool.true_and]
    rw [levelsOK_eq]
    have hj := join_split f
    cases hs : splitLevels f with
    | nil => exact absurd hs (splitLevels_ne_nil f)
    | cons l0 rest =>
      cases hok : specLevelsOK (l0 :: rest)
      · simp
      · simp only [Bool.not_true, Bool.false_eq_true, if_false, Bool.true_and]
        cases rest with
        | nil =>
          simp only [isolate]
          by_cases hsh : isShare l0 = true <;> simp [hsh]
        | cons g r =>
          cases r with
          | nil =>
            simp only [isolate]
            by_cases hsh : isShare l0 = true <;> simp [hsh]
          | cons r2 r3 =>
            simp only [isolate]
            by_cases hsh : isShare l0 = true
            · simp only [hsh, Bool.not_true, Bool.false_and, Bool.false_eq_true, if_false, Bool.true_and, if_true]
              rw [hs] at hj
              have hlen : f.length = l0.length + g.length + 2 + (joinLevels (r2 :: r3)).length := by
                rw [← hj]; simp [joinLevels]; omega
              by_cases hw : (g.isEmpty || g.contains plus || g.contains hash) = true
              · simp only [hw, if_true]
                simp only [Bool.or_eq_true] at hw
                rcases hw with (hw | hw) | hw
                · simp [hw]
                · have : plus ∈ g := by simpa using hw
                  simp [hw]; intro _ h; exact absurd this h
                · have : hash ∈ g := by simpa using hw
                  simp [hw]; intro _ _ h; exact absurd this h
              · simp only [hw, if_false]
                simp only [Bool.or_eq_true, not_or, Bool.not_eq_true] at hw
                obtain ⟨⟨h1, h2⟩, h3⟩ := hw
                rw [h1, h2, h3, hlen]
                cases hjn : joinLevels (r2 :: r3) with
                | nil => simp
                | cons a b =>
                  have : ¬ (l0.length + g.length + 2 + (b.length + 1) ≤ l0.length + g.length + 2) := by omega
                  simp [this]
            · simp [hsh]

/-- A client publish topic is accepted exactly when it contains no wildcard and does not start with
    `$SYS`. -/
theorem C30_topic_iff (t : Str) : isValidFilter t true = specTopicOK t := by
  unfold isValidFilter specTopicOK
  cases h1 : (decide (t.length ≥ 4) && (t.take 4).map upper == sysUpper) <;>
  cases h2 : t.contains plus <;> cases h3 : t.contains hash <;> simp_all

/-- non-vacuity / the formerly accepted malformed filters are rejected -/
example : isValidFilter [97, 47, 98, 35] false = false := by decide            -- "a/b#"
example : isValidFilter [97, 43] false = false := by decide                    -- "a+"
example : isValidFilter [36,115,104,97,114,101,47,103,47] false = false := by decide     -- "$share/g/"
example : isValidFilter [36,115,104,97,114,101,47,47,97] false = false := by decide      -- "$share//a"
example : isValidFilter [36,115,104,97,114,101,47,103,47,97,47,35] false = true := by decide -- "$share/g/a/#"
example : isValidFilter [43, 47, 35] false = true := by decide                  -- "+/#"

end Mochi.Topics
