import Mochi.Model.Topics
import Mochi.Gen.Programs
/-!
# Tie A — the two walks of the topic trie the matching theorems rest on

`Model/Topics.lean` (M2) says: `trim` cuts a particle, walking upwards, only while it has no children, no
subscriptions of any kind AND no retained message (`retainPath == ""` is part of the loop condition, so every
ancestor is tested — seeded change C02-r3 hoists it out of the loop); `scanSubscribers` follows, per level, the
literal key and `+`, and at the last level gathers the particle's own subscribers and those of its `#` child for
BOTH of them (`filter/#` matches `filter`, MQTT 4.7.1.2 — seeded change C03-r3 keeps the clause for the literal
key only), then the `#` child of the current particle. Both functions of topics.go are reduced to their statement
lists on every run and compared with the lists the model was written against. The `topics` / `broker` suites
(tie B) sample histories; this obligation pins the loop header and the nesting themselves.
-/
namespace Mochi.TieA

def topicsTrimExpected : List String := [
  "for n.parent != nil && n.retainPath == \"\" && n.particles.len() + n.subscriptions.Len() + n.shared.Len() + n.inlineSubscriptions.Len() == 0 {",
  "key := n.key",
  "n = n.parent",
  "n.particles.delete(key)",
  "}"]

def topicsScanSubscribersExpected : List String := [
  "if len(topic) == 0 {", "return subs", "}",
  "isolateParticle(topic, d)",
  "range []string{…} {",                                   -- {key, "+"}
  "n.particles.get(partKey)", "particle := n.particles.get(partKey)",
  "if particle != nil {",
  "if hasNext {",
  "x.scanSubscribers(topic, d + 1, particle, subs)",
  "} else {",
  "x.gatherSubscriptions(topic, particle, subs)",
  "x.gatherSharedSubscriptions(topic, particle, subs)",
  "x.gatherInlineSubscriptions(topic, particle, subs)",
  "particle.particles.get(\"#\")", "wild := particle.particles.get(\"#\")",   -- inside the loop: for key AND "+"
  "if wild != nil {",
  "x.gatherSubscriptions(topic, wild, subs)",
  "x.gatherSharedSubscriptions(topic, wild, subs)",
  "x.gatherInlineSubscriptions(topic, wild, subs)",
  "}", "}", "}", "}",
  "n.particles.get(\"#\")", "particle := n.particles.get(\"#\")",
  "if particle != nil {",
  "x.gatherSubscriptions(topic, particle, subs)",
  "x.gatherSharedSubscriptions(topic, particle, subs)",
  "x.gatherInlineSubscriptions(topic, particle, subs)",
  "}",
  "return subs"]

/-- **C02 / C05 (tie A).** `TopicsIndex.trim` tests the retained message of EVERY particle it is about to cut. -/
theorem C02_trim_order_tied : Mochi.Gen.topicsTrimOrder = topicsTrimExpected := by decide +kernel

/-- **C01 / C03 (tie A).** `TopicsIndex.scanSubscribers` applies the parent-level clause under the literal key and under `+`. -/
theorem C01_scanSubscribers_order_tied : Mochi.Gen.topicsScanSubscribersOrder = topicsScanSubscribersExpected := by decide +kernel

end Mochi.TieA

#print axioms Mochi.TieA.C02_trim_order_tied
#print axioms Mochi.TieA.C01_scanSubscribers_order_tied
