import Mochi.Model.Broker
import Mochi.Gen.Codes
/-!
# Tie A — the reason codes of the broker model are the ones in packets/codes.go

`Mochi.Gen.Codes` is regenerated from `/repo` on every `bin/check` run (`go/cmd/vextract/tables.go`):
every `packets.Code` variable with its code byte, the map `V5CodesToV3` and the map `QosCodes`.

The broker model (`Model/Broker.lean`, `Model/Session.lean`) writes reason codes as hex literals. The
obligations below say, per literal, which Go constant it stands for and that the constant still has that
value; for the pure functions of the model that produce codes (`refuseCode`, `publishValidate`, `v3code`)
the statement is about the function itself. Used by C07 (which acknowledgement / reason code answers a
request) and C23 (what an MQTT 3 client is sent). They stop building when a constant changes its value,
is renamed, or an entry of one of the two maps changes.
-/
namespace Mochi.TieA
open Mochi.Broker Mochi.Topics

/-- the code byte of the Go variable `packets.<n>` (999 if there is no such variable) -/
def codeOf (n : String) : Nat := (Mochi.Gen.codeConsts.lookup n).getD 999

/-- what `SendConnack` sends to an MQTT 3 client for the Go variable `packets.<n>`: `V5CodesToV3[n]` if `n`
    is a key (the map is keyed by the whole struct, i.e. by variable, not by byte), else the code itself -/
def v3Of (n : String) : Nat :=
  match Mochi.Gen.v5CodesToV3.find? (·.1 == n) with
  | some e => e.2.2
  | none => codeOf n

/-! ## `V5CodesToV3` and the model's `v3code` -/

/-- keys of `V5CodesToV3` that never reach `SendConnack`: they are returned by `ConnectDecode`, and
    `readConnectionPacket` then fails before any CONNACK is written. The model's `v3code` (keyed by byte)
    leaves their byte 0x81 alone. -/
def v3DecodeOnly : List String := ["ErrMalformedUsername", "ErrMalformedPassword"]

/-- the reason codes `attachClient` can pass to `SendConnack` (Go variables named in `attachClient` /
    `validateConnect` / `ConnectValidate`): the model's `refuseCode` and `Session.connectDecoded` -/
def connackCodes : List String :=
  ["CodeSuccess", "ErrServerUnavailable", "ErrServerBusy", "ErrUnspecifiedError", "ErrUnsupportedProtocolVersion",
   "ErrQosNotSupported", "ErrRetainNotSupported", "ErrBadUsernameOrPassword",
   "ErrProtocolViolationProtocolName", "ErrProtocolViolationProtocolVersion", "ErrProtocolViolationReservedBit",
   "ErrProtocolViolationUsernameNoFlag", "ErrProtocolViolationFlagNoPassword", "ErrProtocolViolationPasswordNoFlag",
   "ErrProtocolViolationWillFlagNoPayload", "ErrProtocolViolationQosOutOfRange",
   "ErrProtocolViolationWillFlagSurplusRetain"]

/-- `Broker.v3code` is `V5CodesToV3`:
    1. on every key (except the two decode-only ones) it gives the map's value;
    2. for every Go variable `attachClient` can hand to `SendConnack`, the by-byte `v3code` gives what the
       by-variable Go lookup gives;
    3. the only variable that shares a byte with a key without being a key (other than the 0x81 family) is
       `ErrClientIdentifierTooLong` — a decode error like the 0x85 key itself, never passed to `SendConnack`. -/
theorem C23_v3_codes_tied :
    (∀ e ∈ Mochi.Gen.v5CodesToV3, e.1 ∈ v3DecodeOnly ∨ v3code e.2.1 = e.2.2) ∧
    (∀ n ∈ connackCodes, v3code (codeOf n) = v3Of n) ∧
    (Mochi.Gen.codeConsts.filter (fun e => e.2 != 0x81 && (Mochi.Gen.v5CodesToV3.map (·.2.1)).contains e.2
        && !(Mochi.Gen.v5CodesToV3.map (·.1)).contains e.1)) = [("ErrClientIdentifierTooLong", 0x85)] := by
  decide

/-- outside the key bytes of `V5CodesToV3`, `Broker.v3code` is the identity (every code < 256) -/
theorem C23_v3_identity_tied :
    ∀ c ∈ List.range 256, c ∈ Mochi.Gen.v5CodesToV3.map (·.2.1) ∨ v3code c = c := by
  decide +kernel

/-- the map itself, as the model's comment and the independent decoder's "CONNACK 0–5" rule read it -/
theorem C23_v3_map_tied :
    Mochi.Gen.v5CodesToV3 =
      [("ErrUnsupportedProtocolVersion", 0x84, 1), ("ErrClientIdentifierNotValid", 0x85, 2),
       ("ErrServerUnavailable", 0x88, 3), ("ErrMalformedUsername", 0x81, 4), ("ErrMalformedPassword", 0x81, 4),
       ("ErrBadUsernameOrPassword", 0x86, 5)] := by decide

/-! ## `QosCodes` -/

/-- `QosCodes[q].Code = q` for q = 0, 1, 2 and there is no other key. `processPublish` answers a QoS 1
    PUBLISH with `buildAck(…, Puback, …, QosCodes[pk.FixedHeader.Qos])` and a QoS 2 PUBLISH with
    `buildAck(…, Pubrec, …, CodeSuccess)` (pinned by `C07_publish_order_tied`); the model's
    `ackRC := if pk.qos == 2 then 0 else pk.qos` is that. -/
theorem C07_qos_codes_tied :
    Mochi.Gen.qosCodes = [(0, "CodeGrantedQos0", 0), (1, "CodeGrantedQos1", 1), (2, "CodeGrantedQos2", 2)] ∧
    (∀ q ∈ [1, 2], (if q == 2 then codeOf "CodeSuccess" else ((Mochi.Gen.qosCodes.lookup q).map (·.2)).getD 999)
        = (if q == 2 then 0 else q)) := by decide

/-! ## the literals of the model -/

/-- (Go variable, the literal the model writes, where the model writes it) -/
def modelLiterals : List (String × Nat × String) := [
  ("CodeSuccess", 0x00, "Broker: admitConnack, ack of processPubrec/processPubrel, processUnsubscribe, reasonValid"),
  ("CodeGrantedQos2", 0x02, "Broker.processSubscribe: `rc > 2` MQTT 3 downgrade"),
  ("CodeDisconnectWillMessage", 0x04, "Broker.processDisconnect"),
  ("CodeNoMatchingSubscribers", 0x10, "Broker.reasonValid (PUBREC)"),
  ("CodeNoSubscriptionExisted", 0x11, "Broker.processUnsubscribe"),
  ("CodeContinueAuthentication", 0x18, "Session.recvAuth"),
  ("CodeReAuthenticate", 0x19, "Session.recvAuth"),
  ("ErrUnspecifiedError", 0x80, "Broker: `≥ 0x80` tests (receivePacket, processPubrec/processPubrel, retained loop of processSubscribe, CONNACK rendering), refuseCode, processSubscribe"),
  ("ErrProtocolViolationNoPacketID", 0x82, "Broker.publishValidate; Session.recvSubscribe/recvUnsubscribe"),
  ("ErrProtocolViolationSurplusPacketID", 0x82, "Broker.publishValidate"),
  ("ErrProtocolViolationSurplusWildcard", 0x82, "Broker.publishValidate"),
  ("ErrProtocolViolationNoTopic", 0x82, "Broker.publishValidate"),
  ("ErrProtocolViolationSurplusSubID", 0x82, "Session.recvPublish"),
  ("ErrProtocolViolationInvalidSharedNoLocal", 0x82, "Broker.processSubscribe"),
  ("ErrProtocolViolationNoFilters", 0x82, "Broker.receivePacket (SUBSCRIBE/UNSUBSCRIBE without filters)"),
  ("ErrProtocolViolationZeroNonZeroExpiry", 0x82, "Broker.processDisconnect"),
  ("ErrProtocolViolationSecondConnect", 0x82, "Session.recvSecondConnect"),
  ("ErrProtocolViolationInvalidReason", 0x82, "Session.recvAuth"),
  ("ErrProtocolViolationProtocolName", 0x82, "Session.connectDecoded (ConnectValidate)"),
  ("ErrProtocolViolationProtocolVersion", 0x82, "Session.connectDecoded (ConnectValidate)"),
  ("ErrProtocolViolationReservedBit", 0x82, "Session.connectDecoded (ConnectValidate)"),
  ("ErrProtocolViolationUsernameNoFlag", 0x82, "Session.connectDecoded (ConnectValidate)"),
  ("ErrProtocolViolationFlagNoPassword", 0x82, "Session.connectDecoded (ConnectValidate)"),
  ("ErrProtocolViolationPasswordNoFlag", 0x82, "Session.connectDecoded (ConnectValidate)"),
  ("ErrProtocolViolationWillFlagNoPayload", 0x82, "Session.connectDecoded (ConnectValidate)"),
  ("ErrProtocolViolationQosOutOfRange", 0x82, "Session.connectDecoded (ConnectValidate)"),
  ("ErrProtocolViolationWillFlagSurplusRetain", 0x82, "Session.connectDecoded (ConnectValidate)"),
  ("ErrImplementationSpecificError", 0x83, "Broker.reasonValid (PUBREC)"),
  ("ErrUnsupportedProtocolVersion", 0x84, "Broker.refuseCode, v3code"),
  ("ErrClientIdentifierNotValid", 0x85, "Broker.v3code"),
  ("ErrBadUsernameOrPassword", 0x86, "Broker.refuseCode, connectHold, v3code"),
  ("ErrNotAuthorized", 0x87, "Broker.processPublish (ACL), processSubscribe (ACL), reasonValid; the harness's OnPublish `err` outcome"),
  ("ErrServerUnavailable", 0x88, "Broker.refuseCode (client limit, MQTT 3), v3code"),
  ("ErrServerBusy", 0x89, "Broker.refuseCode (client limit, MQTT 5)"),
  ("ErrSessionTakenOver", 0x8E, "Broker.admitA (inheritClientSession)"),
  ("ErrTopicFilterInvalid", 0x8F, "Broker.processSubscribe"),
  ("ErrTopicNameInvalid", 0x90, "Broker.processPublish, reasonValid"),
  ("ErrPacketIdentifierInUse", 0x91, "Broker.processPublish, processSubscribe, processUnsubscribe, reasonValid"),
  ("ErrPacketIdentifierNotFound", 0x92, "Broker.processPubrec, processPubrel, reasonValid"),
  ("ErrReceiveMaximum", 0x93, "Broker.processPublish"),
  ("ErrTopicAliasInvalid", 0x94, "Broker.publishValidate"),
  ("ErrQuotaExceeded", 0x97, "Broker.reasonValid (PUBREC)"),
  ("ErrPayloadFormatInvalid", 0x99, "Broker.reasonValid (PUBREC)"),
  ("ErrRetainNotSupported", 0x9A, "Broker.refuseCode"),
  ("ErrQosNotSupported", 0x9B, "Broker.refuseCode"),
  ("Err3UnsupportedProtocolVersion", 1, "Broker.v3code"),
  ("Err3ClientIdentifierNotValid", 2, "Broker.v3code"),
  ("Err3ServerUnavailable", 3, "Broker.v3code"),
  ("Err3NotAuthorized", 5, "Broker.v3code")]

/-- every literal of the model is the current value of the Go variable it stands for -/
theorem C07_reason_codes_tied : ∀ e ∈ modelLiterals, codeOf e.1 = e.2.1 := by decide

/-! ## the code-producing functions of the model, stated with the Go names -/

/-- `refuseCode` = the refusals of `attachClient` in order: client limit (`ErrServerUnavailable` to MQTT 3,
    `ErrServerBusy` to MQTT 5), then `validateConnect` (`ErrUnspecifiedError`,
    `ErrUnsupportedProtocolVersion`, `ErrQosNotSupported`, `ErrRetainNotSupported`), then the
    authentication hook (`ErrBadUsernameOrPassword`) -/
theorem C13_refuse_codes_tied (s : Server) (k : Connect) (c : Client) :
    refuseCode s k c =
      if s.info.connected ≥ s.caps.maximumClients then
        some (if k.ver < 5 then codeOf "ErrServerUnavailable" else codeOf "ErrServerBusy")
      else if k.ver < 5 && !k.clean && k.id.isEmpty then some (codeOf "ErrUnspecifiedError")
      else if k.ver < s.caps.minimumProtocolVersion then some (codeOf "ErrUnsupportedProtocolVersion")
      else if c.will.flag && c.will.qos > s.caps.maximumQos then some (codeOf "ErrQosNotSupported")
      else if c.will.flag && c.will.retain && s.caps.retainAvailable == 0 then some (codeOf "ErrRetainNotSupported")
      else if !authAllows s k.id then some (codeOf "ErrBadUsernameOrPassword")
      else none := by
  have h1 : codeOf "ErrServerUnavailable" = 0x88 := by decide
  have h2 : codeOf "ErrServerBusy" = 0x89 := by decide
  have h3 : codeOf "ErrUnspecifiedError" = 0x80 := by decide
  have h4 : codeOf "ErrUnsupportedProtocolVersion" = 0x84 := by decide
  have h5 : codeOf "ErrQosNotSupported" = 0x9B := by decide
  have h6 : codeOf "ErrRetainNotSupported" = 0x9A := by decide
  have h7 : codeOf "ErrBadUsernameOrPassword" = 0x86 := by decide
  rw [h1, h2, h3, h4, h5, h6, h7]
  rfl

/-- `publishValidate` = `Packet.PublishValidate` (without its last test), with the Go names -/
theorem C07_publish_validate_codes_tied (s : Server) (qos id : Nat) (topic : Str) (alias : Option Nat) :
    publishValidate s qos id topic alias =
      if qos > 0 && id == 0 then some (codeOf "ErrProtocolViolationNoPacketID")
      else if qos == 0 && id > 0 then some (codeOf "ErrProtocolViolationSurplusPacketID")
      else if topic.contains plus || topic.contains hash then some (codeOf "ErrProtocolViolationSurplusWildcard")
      else if (alias.getD 0) > s.caps.topicAliasMaximum then some (codeOf "ErrTopicAliasInvalid")
      else if topic.isEmpty && (alias.getD 0) == 0 then some (codeOf "ErrProtocolViolationNoTopic")
      else if alias == some 0 then some (codeOf "ErrTopicAliasInvalid")
      else none := by
  have h1 : codeOf "ErrProtocolViolationNoPacketID" = 0x82 := by decide
  have h2 : codeOf "ErrProtocolViolationSurplusPacketID" = 0x82 := by decide
  have h3 : codeOf "ErrProtocolViolationSurplusWildcard" = 0x82 := by decide
  have h4 : codeOf "ErrTopicAliasInvalid" = 0x94 := by decide
  have h5 : codeOf "ErrProtocolViolationNoTopic" = 0x82 := by decide
  rw [h1, h2, h3, h4, h5]
  rfl

/-- `reasonValid` = `Packet.ReasonCodeValid` for PUBREC and PUBREL/PUBCOMP, with the Go names -/
theorem C07_reason_valid_tied (rc : Nat) :
    reasonValid 5 rc = (["CodeSuccess", "CodeNoMatchingSubscribers", "ErrUnspecifiedError",
        "ErrImplementationSpecificError", "ErrNotAuthorized", "ErrTopicNameInvalid", "ErrPacketIdentifierInUse",
        "ErrQuotaExceeded", "ErrPayloadFormatInvalid"].map codeOf).contains rc ∧
    reasonValid 6 rc = (["CodeSuccess", "ErrPacketIdentifierNotFound"].map codeOf).contains rc ∧
    reasonValid 7 rc = (["CodeSuccess", "ErrPacketIdentifierNotFound"].map codeOf).contains rc := by
  have h1 : (["CodeSuccess", "CodeNoMatchingSubscribers", "ErrUnspecifiedError",
        "ErrImplementationSpecificError", "ErrNotAuthorized", "ErrTopicNameInvalid", "ErrPacketIdentifierInUse",
        "ErrQuotaExceeded", "ErrPayloadFormatInvalid"].map codeOf) = [0x00, 0x10, 0x80, 0x83, 0x87, 0x90, 0x91, 0x97, 0x99] := by
    decide
  have h2 : (["CodeSuccess", "ErrPacketIdentifierNotFound"].map codeOf) = [0x00, 0x92] := by decide
  rw [h1, h2]
  exact ⟨rfl, rfl, rfl⟩

end Mochi.TieA
