import Mochi.Model.Codec
import Mochi.Gen.PropTable
/-!
# Tie A — the property table of the codec model is the one in packets/properties.go

`Mochi.Gen.PropTable` is regenerated from `/repo` on every `bin/check` run (`go/cmd/vextract/tables.go`):
`validPacketProperties` with the constants evaluated by go/types, rows sorted by property id and packet
types sorted ascending (`WillProperties` is 99 in the Go code as in the model). The model's copy
(`Mochi.Codec.propTable`, read by `propAllowed`, hence by `propsLoop`/`Properties.Decode` and by the
encoder's `canEncode`) is written in the same normal form, so "equal modulo order" is plain equality.

Used by C26 (round trip of the property block), C27 (decoding is total: `propsLoop` rejects a property
that the table does not allow for the packet type) and C42 (every permitted encoding is decoded as meant).
These obligations stop building when a row, a packet type or a constant of the Go table changes.
-/
namespace Mochi.TieA
open Mochi.Codec

/-- the model's `propTable` IS `validPacketProperties`; and every entry of the Go table has the value 1,
    so that its two readers (`validPacketProperties[k][pkt] == 1` in `canEncode`, presence of the key in
    `Properties.Decode`) agree, as the single `propAllowed` of the model assumes -/
theorem C26_prop_table_tied :
    Mochi.Codec.propTable = Mochi.Gen.propTable ∧ Mochi.Gen.propTableOdd = [] := by decide

/-- the packet type constants the models use (`Mochi.Codec.tConnect` …, and the bare numbers 1–15 of the
    broker model's `Msg.type`, `ackName`) are the values of the Go constants -/
theorem C26_packet_types_tied :
    Mochi.Gen.packetTypes =
      [("Reserved", 0), ("Connect", tConnect), ("Connack", tConnack), ("Publish", tPublish), ("Puback", tPuback),
       ("Pubrec", tPubrec), ("Pubrel", tPubrel), ("Pubcomp", tPubcomp), ("Subscribe", tSubscribe),
       ("Suback", tSuback), ("Unsubscribe", tUnsubscribe), ("Unsuback", tUnsuback), ("Pingreq", tPingreq),
       ("Pingresp", tPingresp), ("Disconnect", tDisconnect), ("Auth", tAuth), ("WillProperties", tWillProperties)] := by
  decide

/-- every declared `Prop*` constant has a row and every row is a declared constant (the model's
    `decodePropValue` switches on these numbers) -/
theorem C26_prop_ids_tied :
    Mochi.Gen.propIds.map (·.2) = Mochi.Codec.propTable.map (·.1) ∧
    Mochi.Gen.propIds.map (·.1) =
      ["PropPayloadFormat", "PropMessageExpiryInterval", "PropContentType", "PropResponseTopic",
       "PropCorrelationData", "PropSubscriptionIdentifier", "PropSessionExpiryInterval", "PropAssignedClientID",
       "PropServerKeepAlive", "PropAuthenticationMethod", "PropAuthenticationData", "PropRequestProblemInfo",
       "PropWillDelayInterval", "PropRequestResponseInfo", "PropResponseInfo", "PropServerReference",
       "PropReasonString", "PropReceiveMaximum", "PropTopicAliasMaximum", "PropTopicAlias", "PropMaximumQos",
       "PropRetainAvailable", "PropUser", "PropMaximumPacketSize", "PropWildcardSubAvailable",
       "PropSubIDAvailable", "PropSharedSubAvailable"] := by decide

end Mochi.TieA
