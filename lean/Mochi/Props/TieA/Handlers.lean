import Mochi.Model.Broker
import Mochi.Gen.Programs
/-!
# Tie A — the statement order of the packet handlers the broker model assumes

Same scheme as `TieA/Attach.lean`: `Mochi.Gen.Programs` is regenerated from `/repo` on every `bin/check` run
(`go/cmd/vextract/order.go`); the lists below are what `Model/Broker.lean` was written against.

* `processSubscribe` — the model stores every accepted filter (topic index, client's subscription map: the
  calls that reach the storage hook `OnSubscribed`) before the SUBACK is written, and publishes retained
  messages after it; a packet identifier in use answers 0x91 for every filter and `continue`s past the MQTT 3
  downgrade (C21: an acknowledged subscription is stored; C07/C23: the reason codes).
* `processPubrec` / `processPubrel` — the in-flight record of the answer is `Set` before the answer is written;
  the quota changes (C09: what a reconnection finds; C07: the answers to an unknown identifier).
* `processPublish` — the refusals in order, the in-flight `Set` of the acknowledgement before it is written,
  `QosCodes[qos]` for PUBACK and `CodeSuccess` for PUBREC (C07).
-/
namespace Mochi.TieA

/-- `processSubscribe` (server.go), as `Broker.processSubscribe` reads it -/
def processSubscribeExpected : List String :=
  ["s.hooks.OnSubscribe",
   -- `inUse`: decided once, before the loop
   "code := packets.CodeSuccess",
   "cl.State.Inflight.Get(pk.PacketID)",
   "if ok {",
   "code = packets.ErrPacketIdentifierInUse",
   "}",
   -- the fold over the filters: one reason code per filter, tests in this order
   "range pk.Filters {",
   "if code != packets.CodeSuccess {",
   "reasonCodes[i] = code.Code",                -- no `continue` (fix e36320d): the MQTT 3 downgrade at the end of the body applies
   "} else {",
   "IsValidFilter(sub.Filter, false)",
   "if !IsValidFilter(sub.Filter, false) {",
   "reasonCodes[i] = packets.ErrTopicFilterInvalid.Code",
   "} else {",
   "IsSharedFilter(sub.Filter)",
   "if sub.NoLocal && IsSharedFilter(sub.Filter) {",
   "reasonCodes[i] = packets.ErrProtocolViolationInvalidSharedNoLocal.Code",
   "} else {",
   "s.hooks.OnACLCheck(cl, sub.Filter, false)",
   "if !s.hooks.OnACLCheck(cl, sub.Filter, false) {",
   "reasonCodes[i] = packets.ErrNotAuthorized.Code",
   "if s.Options.Capabilities.Compatibilities.ObscureNotAuthorized {",
   "reasonCodes[i] = packets.ErrUnspecifiedError.Code",
   "}",
   "} else {",
   -- accepted: topic index, counter, the client's map; granted QoS
   "s.Topics.Subscribe(cl.ID, sub)",
   "if isNew {",
   "atomic.AddInt64(&s.Info.Subscriptions, 1)",
   "}",
   "cl.State.Subscriptions.Add(sub.Filter, sub)",
   "filterExisted[i] = !isNew",
   "reasonCodes[i] = sub.Qos",
   "}", "}", "}", "}",
   -- `fin`: the MQTT 3 downgrade
   "if reasonCodes[i] > packets.CodeGrantedQos2.Code && cl.Properties.ProtocolVersion < 5 {",
   "reasonCodes[i] = packets.ErrUnspecifiedError.Code",
   "}",
   "}",
   -- the storage hook runs BEFORE the SUBACK is written; a failed write ends the handler
   "s.hooks.OnSubscribed",
   "cl.WritePacket(ack)",
   "if err != nil {", "return err", "}",
   -- retained messages after the SUBACK, only for accepted filters
   "range pk.Filters {",
   "if reasonCodes[i] >= packets.ErrUnspecifiedError.Code {",
   "continue",
   "}",
   "s.publishRetainedToClient(cl, sub, filterExisted[i])",
   "}",
   "return nil"]

/-- **in `processSubscribe` every accepted filter is stored (topic index, client map, `OnSubscribed` hook)
    before the SUBACK is written**, and the rest of the handler has the order the model was written against -/
theorem C21_suback_after_store_tied : Mochi.Gen.processSubscribeOrder = processSubscribeExpected := by decide +kernel

/-- `processPubrec` (server.go), as `Broker.processPubrec` reads it -/
def processPubrecExpected : List String :=
  ["cl.State.Inflight.Get(pk.PacketID)",
   "if !ok {",
   "s.buildAck(pk.PacketID, packets.Pubrel, 1, pk.Properties, packets.ErrPacketIdentifierNotFound)",
   "cl.WritePacket",
   "return _",
   "}",
   "pk.ReasonCodeValid",
   "if pk.ReasonCode >= packets.ErrUnspecifiedError.Code || !pk.ReasonCodeValid() {",
   "cl.State.Inflight.Delete(pk.PacketID)",
   "if ok {",
   "atomic.AddInt64(&s.Info.Inflight, -1)",
   "}",
   "cl.ops.hooks.OnQosDropped",
   "return nil",
   "}",
   -- the PUBREL replaces the PUBLISH in the in-flight map BEFORE it is written (a reconnection resends PUBREL)
   "s.buildAck(pk.PacketID, packets.Pubrel, 1, pk.Properties, packets.CodeSuccess)",
   "cl.State.Inflight.DecreaseReceiveQuota",
   "cl.State.Inflight.Set(ack)",
   "cl.WritePacket",
   "return _"]

theorem C09_pubrec_order_tied : Mochi.Gen.processPubrecOrder = processPubrecExpected := by decide +kernel

/-- `processPubrel` (server.go), as `Broker.processPubrel` reads it -/
def processPubrelExpected : List String :=
  ["cl.State.Inflight.Get(pk.PacketID)",
   "if !ok {",
   "s.buildAck(pk.PacketID, packets.Pubcomp, 0, pk.Properties, packets.ErrPacketIdentifierNotFound)",
   "cl.WritePacket",
   "return _",
   "}",
   "pk.ReasonCodeValid",
   "if pk.ReasonCode >= packets.ErrUnspecifiedError.Code || !pk.ReasonCodeValid() {",
   "cl.State.Inflight.Delete(pk.PacketID)",
   "if ok {",
   "atomic.AddInt64(&s.Info.Inflight, -1)",
   "}",
   "cl.ops.hooks.OnQosDropped",
   "return nil",
   "}",
   -- PUBCOMP recorded, then written; on a failed write the record stays and no quota is returned
   "s.buildAck(pk.PacketID, packets.Pubcomp, 0, pk.Properties, packets.CodeSuccess)",
   "cl.State.Inflight.Set(ack)",
   "cl.WritePacket",
   "if err != nil {", "return err", "}",
   "cl.State.Inflight.IncreaseReceiveQuota",
   "cl.State.Inflight.IncreaseSendQuota",
   "cl.State.Inflight.Delete(pk.PacketID)",
   "if ok {",
   "atomic.AddInt64(&s.Info.Inflight, -1)",
   "s.hooks.OnQosComplete",
   "}",
   "return nil"]

theorem C09_pubrel_order_tied : Mochi.Gen.processPubrelOrder = processPubrelExpected := by decide +kernel

/-- `processPublish` (server.go), as `Broker.processPublish` reads it -/
def processPublishExpected : List String :=
  -- refusal 1: invalid topic — QoS 0 dropped, MQTT 3 disconnected, MQTT 5 answered 0x90 (PUBREC for QoS 2)
  ["IsValidFilter(pk.TopicName, true)",
   "if !cl.Net.Inline && !IsValidFilter(pk.TopicName, true) {",
   "if pk.FixedHeader.Qos == 0 {", "return nil", "}",
   "if cl.Properties.ProtocolVersion != 5 {",
   "s.DisconnectClient(cl, packets.ErrTopicNameInvalid)",
   "return _",
   "}",
   "ackType := packets.Puback",
   "if pk.FixedHeader.Qos == 2 {", "ackType = packets.Pubrec", "}",
   "s.buildAck(pk.PacketID, ackType, 0, pk.Properties, packets.ErrTopicNameInvalid)",
   "cl.WritePacket",
   "return _",
   "}",
   -- refusal 2: receive quota exhausted
   "atomic.LoadInt32(&cl.State.Inflight.receiveQuota)",
   "if atomic.LoadInt32(&cl.State.Inflight.receiveQuota) == 0 {",
   "s.DisconnectClient(cl, packets.ErrReceiveMaximum)",
   "return _",
   "}",
   -- refusal 3: ACL
   "s.hooks.OnACLCheck(cl, pk.TopicName, true)",
   "if !cl.Net.Inline && !s.hooks.OnACLCheck(cl, pk.TopicName, true) {",
   "if pk.FixedHeader.Qos == 0 {", "return nil", "}",
   "if cl.Properties.ProtocolVersion != 5 {",
   "s.DisconnectClient(cl, packets.ErrNotAuthorized)",
   "return _",
   "}",
   "ackType := packets.Puback",
   "if pk.FixedHeader.Qos == 2 {", "ackType = packets.Pubrec", "}",
   "s.buildAck(pk.PacketID, ackType, 0, pk.Properties, packets.ErrNotAuthorized)",
   "cl.WritePacket",
   "return _",
   "}",
   -- `pre`: an in-flight record under the packet id: PUBREC → 0x91, anything else is replaced
   "if !cl.Net.Inline {",
   "cl.State.Inflight.Get(pk.PacketID)",
   "if ok {",
   "if pki.FixedHeader.Type == packets.Pubrec {",
   "s.buildAck(pk.PacketID, packets.Pubrec, 0, pk.Properties, packets.ErrPacketIdentifierInUse)",
   "cl.WritePacket",
   "return _",
   "}",
   "cl.State.Inflight.Delete(pk.PacketID)",
   "if ok {", "atomic.AddInt64(&s.Info.Inflight, -1)", "}",
   "}",
   "}",
   -- inbound alias, QoS clamp, OnPublish outcomes (reject / ignore / error answered with a PUBACK to MQTT 5)
   "if pk.Properties.TopicAliasFlag && pk.Properties.TopicAlias > 0 {",
   "cl.State.TopicAliases.Inbound.Set",
   "}",
   -- an alias that is not bound on this connection: protocol error (model: the 0x82 exit of `processPublish`)
   "if !cl.Net.Inline && pk.TopicName == \"\" {",
   "s.DisconnectClient(cl, packets.ErrProtocolViolationNoTopic)",
   "return _",
   "}",
   "if pk.FixedHeader.Qos > s.Options.Capabilities.MaximumQos {",
   "pk.FixedHeader.Qos = s.Options.Capabilities.MaximumQos",
   "}",
   "s.hooks.OnPublish",
   "if err == nil {",
   "} else {",
   "if errors.Is(err, packets.ErrRejectPacket) {",
   "return nil",
   "} else {",
   "if errors.Is(err, packets.CodeSuccessIgnore) {",
   "pk.Ignore = true",
   "} else {",
   "if cl.Properties.ProtocolVersion == 5 && pk.FixedHeader.Qos > 0 && errors.As(err, new(packets.Code)) {",
   -- the refusal carries the hook's code in the acknowledgement OF THE PUBLISH'S QoS (PUBREC for QoS 2, fix cacb33b)
   "ackType := packets.Puback",
   "if pk.FixedHeader.Qos == 2 {",
   "ackType = packets.Pubrec",
   "}",
   "s.buildAck(pk.PacketID, ackType, 0, pk.Properties, err.(packets.Code))",
   "cl.WritePacket",
   "if err != nil {", "return err", "}",
   "return nil",
   "}",
   "}", "}", "}",
   -- retain, then QoS 0 / inline: fan-out and done
   "if pk.FixedHeader.Retain {", "s.retainMessage", "}",
   "if pk.FixedHeader.Qos == 0 || cl.Net.Inline {",
   "s.publishToSubscribers",
   "return nil",
   "}",
   -- QoS 1/2: quota, the acknowledgement (`ackRC`: QosCodes[qos] for PUBACK, success for PUBREC) is
   -- recorded BEFORE it is written; a failed write ends the handler before the fan-out
   "cl.State.Inflight.DecreaseReceiveQuota",
   "s.buildAck(pk.PacketID, packets.Puback, 0, pk.Properties, packets.QosCodes[pk.FixedHeader.Qos])",
   "if pk.FixedHeader.Qos == 2 {",
   "s.buildAck(pk.PacketID, packets.Pubrec, 0, pk.Properties, packets.CodeSuccess)",
   "}",
   "cl.State.Inflight.Set(ack)",
   "if ok {", "atomic.AddInt64(&s.Info.Inflight, 1)", "}",
   "cl.WritePacket",
   "if err != nil {", "return err", "}",
   "if pk.FixedHeader.Qos == 1 {",
   "cl.State.Inflight.Delete(ack.PacketID)",
   "if ok {", "atomic.AddInt64(&s.Info.Inflight, -1)", "}",
   "cl.State.Inflight.IncreaseReceiveQuota",
   "}",
   "s.publishToSubscribers",
   "return nil"]

theorem C07_publish_order_tied : Mochi.Gen.processPublishOrder = processPublishExpected := by decide +kernel

/-! ## `receivePacket` and the dispatch `processPacket` (C07)

The model's `receivePacket` ends the connection on every error a handler returns (`(s, o, some code)`: DISCONNECT with
the code for an MQTT 5 client when it is a failure code, then the read loop ends and the handler tears the connection
down): "answered or closed". In Go that is the `return err` of `receivePacket` — an added branch that returns nil for
some error (e.g. `ErrPacketTooLarge` from a refused acknowledgement) leaves the request unanswered on a connection
that is still served, which no history without a client Maximum Packet Size exhibits. The dispatch is pinned too:
validation before the handler, the handler's error returned before the release of a deferred message. -/

def receivePacketExpected : List String := [
  "s.processPacket",
  "if err != nil {",
  "if ok && cl.Properties.ProtocolVersion == 5 && code.Code >= packets.ErrUnspecifiedError.Code {",
  "s.DisconnectClient(cl, code)",
  "}",
  "return err",
  "}",
  "return nil"
]

def processPacketExpected : List String := [
  "switch pk.FixedHeader.Type {",
  "case packets.Connect {",
  "s.processConnect",
  "}",
  "case packets.Disconnect {",
  "s.processDisconnect",
  "}",
  "case packets.Pingreq {",
  "s.processPingreq",
  "}",
  "case packets.Publish {",
  "pk.PublishValidate",
  "if code != packets.CodeSuccess {",
  "return code",
  "}",
  "s.processPublish",
  "}",
  "case packets.Puback {",
  "s.processPuback",
  "}",
  "case packets.Pubrec {",
  "s.processPubrec",
  "}",
  "case packets.Pubrel {",
  "s.processPubrel",
  "}",
  "case packets.Pubcomp {",
  "s.processPubcomp",
  "}",
  "case packets.Subscribe {",
  "pk.SubscribeValidate",
  "if code != packets.CodeSuccess {",
  "return code",
  "}",
  "s.processSubscribe",
  "}",
  "case packets.Unsubscribe {",
  "pk.UnsubscribeValidate",
  "if code != packets.CodeSuccess {",
  "return code",
  "}",
  "s.processUnsubscribe",
  "}",
  "case packets.Auth {",
  "pk.AuthValidate",
  "if code != packets.CodeSuccess {",
  "return code",
  "}",
  "s.processAuth",
  "}",
  "default {",
  "return _",
  "}",
  "}",
  "s.hooks.OnPacketProcessed",
  "if err != nil {",
  "return err",
  "}",
  "if cl.State.Inflight.Len() > 0 && atomic.LoadInt32(&cl.State.Inflight.sendQuota) > 0 {",
  "cl.State.Inflight.NextImmediate",
  "if ok {",
  "cl.WritePacket(next)",
  "cl.State.Inflight.Delete(next.PacketID)",
  "if ok {",
  "atomic.AddInt64(&s.Info.Inflight, -1)",
  "}",
  "cl.State.Inflight.DecreaseSendQuota",
  "}",
  "}",
  "return nil"
]

/-- **C07 (tie A).** `receivePacket` returns every handler error to the read loop. -/
theorem C07_receive_packet_order_tied : Mochi.Gen.receivePacketOrder = receivePacketExpected := by decide +kernel

/-- **C07 (tie A).** `processPacket`: validate, dispatch, return the handler's error, release one deferred message. -/
theorem C07_process_packet_order_tied : Mochi.Gen.processPacketOrder = processPacketExpected := by decide +kernel

end Mochi.TieA
