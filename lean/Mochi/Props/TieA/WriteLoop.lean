import Mochi.Model.WriteBuf
import Mochi.Gen.Programs
/-!
# Tie A — the statement order of `Client.WriteLoop` the write-path model assumes

`Model/WriteBuf.lean` (`step .dequeue`, `loopWrite true`): one iteration takes the oldest queued packet,
calls `WritePacket`, and when that fails flushes what earlier writes buffered if nothing further is queued
(under the client lock); `outboundQty` is decremented after the write, whatever its outcome.
-/
namespace Mochi.TieA

def writeLoopExpected : List String :=
  ["for {",
   "select {",
   "case pk := <-cl.State.outbound {",          -- WriteBuf.Op.dequeue
   "yield writeloop.afterDequeue",
   "cl.WritePacket(*pk)",                        -- WriteBuf.loopWrite: writePacket
   "if err != nil {",
   "cl.Lock",
   "if len(cl.State.outbound) == 0 {",           -- `flushOnRefusal && queue.length == 0`
   "cl.flushOutbuf",
   "}",
   "cl.Unlock",
   "}",
   "atomic.AddInt32(&cl.State.outboundQty, -1)", -- after the write and the flush
   "}",
   "case <-cl.State.open.Done() {",
   "return",
   "}",
   "}",
   "}"]

theorem C34_writeloop_order_tied : Mochi.Gen.writeLoopOrder = writeLoopExpected := by decide +kernel

end Mochi.TieA
