import Mochi.Model.BufPool
import Mochi.Gen.Programs
/-!
# Tie A — the statement order of the buffer pool's `Put`

`Model/BufPool.lean` hands a buffer back in one atomic step: emptied, then available. In mempool/bufpool.go that is
two statements, and their order is what makes the model faithful under concurrency (C41 quantifies over schedules):
`Buffer.Put` calls `x.Reset()` BEFORE `b.pool.Put(x)` — once the buffer is in the pool it may already belong to
another goroutine, which a later `Reset` would wipe —, and `BufferWithCap.Put` tests the capacity before it keeps
the buffer. A stress run finds the swapped order only with luck (the window is two instructions wide); the order
itself is checked here on every run.
-/
namespace Mochi.TieA

def bufferPutExpected : List String := ["x.Reset", "b.pool.Put(x)"]

def bufferWithCapPutExpected : List String :=
  ["x.Cap", "if x.Cap() > b.max {", "return", "}", "b.bp.Put(x)"]

/-- **C41 (tie A).** `Buffer.Put` resets the buffer before it returns it to the pool. -/
theorem C41_put_order_tied : Mochi.Gen.bufferPutOrder = bufferPutExpected := by decide

/-- **C41 (tie A).** `BufferWithCap.Put` drops a buffer above the cap before anything else. -/
theorem C41_capped_put_order_tied : Mochi.Gen.bufferWithCapPutOrder = bufferWithCapPutExpected := by decide

end Mochi.TieA
