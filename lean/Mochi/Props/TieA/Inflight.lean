import Mochi.Model.InflOrder
import Mochi.Gen.Programs
/-!
# Tie A — the order in which the in-flight store is handed out

`Model/InflOrder.lean` (M14) says: `getAll(immediate)` collects the records (all, or those with `Expiry < 0`) and
sorts them by `Created`, and `NextImmediate` is the first of `getAll(true)`. Both functions of inflight.go are
reduced to their statement lists on every run; the comparator of the sort is a `return` without a call and is
therefore part of the list AS WRITTEN: a comparator over another field (packet id, expiry), over a truncated value
(`uint16(m[i].Created)` — the code before fix 9f2c, which renders as `return _`) or a reversed one changes the list.
The `inflorder` suite (tie B) runs the same two functions on the real store with creation times at the 16/31/32-bit
boundaries; this obligation pins what no sampled store can: the comparator itself.
-/
namespace Mochi.TieA

def inflightGetAllExpected : List String := [
  "m := []packets.Packet{}",
  "range i.internal {",
  "if !immediate || (immediate && v.Expiry < 0) {",   -- `candidates`
  "m = append(m, v)",
  "}", "}",
  "func {",
  "return m[i].Created < m[j].Created",                -- `leCreated` (strict here, ties either way: F12)
  "}",
  "sort.Slice",
  "return m"]

def inflightNextImmediateExpected : List String := [
  "i.RLock", "defer i.RUnlock",
  "i.getAll(true)", "m := i.getAll(true)",             -- `getAll s true`
  "if len(m) > 0 {", "return m[0], true", "}",         -- `.head?`
  "return packets.Packet{}, false"]

/-- **C12 (tie A).** `Inflight.getAll` filters the deferred records and sorts by the full creation time. -/
theorem C12_getAll_order_tied : Mochi.Gen.inflightGetAllOrder = inflightGetAllExpected := by decide

/-- **C12 (tie A).** `Inflight.NextImmediate` returns the first element of `getAll(true)`. -/
theorem C12_nextImmediate_order_tied : Mochi.Gen.inflightNextImmediateOrder = inflightNextImmediateExpected := by decide

end Mochi.TieA
