import Mochi.Model.Shutdown
import Mochi.Gen.Programs
/-!
# Tie A — the accept loop and `Close` of the TCP listener, as the shutdown model assumes them

`Model/Shutdown.lean` lets a listener hand a connection to the broker (`spawn`) only while the listener has not been
told to stop. In listeners/tcp.go that is: `Serve` reads the `end` flag before `Accept` AND AGAIN after `Accept`
returned — a connection accepted after `Close` raised the flag is not handed to `establish` —, and `Close` raises
the flag (compare-and-swap) BEFORE it disconnects the clients and closes the socket. Dropping the second read, or
raising the flag later, admits a client after shutdown has begun: `Server.Close` then waits for it for ever or
returns while its handler runs.
-/
namespace Mochi.TieA

def tcpServeExpected : List String := [
  "for {",
  "atomic.LoadUint32(&l.end)",
  "if atomic.LoadUint32(&l.end) == 1 {",
  "return",
  "}",
  "l.listen.Accept",
  "if err != nil {",
  "return",
  "}",
  "atomic.LoadUint32(&l.end)",
  "if atomic.LoadUint32(&l.end) == 0 {",
  "go func {",
  "establish",
  "}",
  "}",
  "}"
]

def tcpCloseExpected : List String := [
  "l.Lock",
  "defer l.Unlock",
  "atomic.CompareAndSwapUint32(&l.end, 0, 1)",
  "if atomic.CompareAndSwapUint32(&l.end, 0, 1) {",
  "closeClients(l.id)",
  "}",
  "if l.listen != nil {",
  "l.listen.Close",
  "if err != nil {",
  "return",
  "}",
  "}"
]

/-- **C36 (tie A).** The TCP listener's accept loop re-reads the end flag after `Accept` before it spawns a handler. -/
theorem C36_tcp_serve_order_tied : Mochi.Gen.tcpServeOrder = tcpServeExpected := by decide

/-- **C36 (tie A).** `TCP.Close` raises the end flag, then disconnects the clients, then closes the socket. -/
theorem C36_tcp_close_order_tied : Mochi.Gen.tcpCloseOrder = tcpCloseExpected := by decide

end Mochi.TieA
