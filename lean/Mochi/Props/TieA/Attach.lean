import Mochi.Model.Broker
import Mochi.Gen.Programs
/-!
# Tie A — the statement order of `attachClient` and `inheritClientSession` the schedule model assumes

`Mochi.Gen.Programs` is regenerated from `/repo` on every `bin/check` run (`go/cmd/vextract/order.go`): per
function, the marker statements in source order, inside the `if`/`for`/`select` skeleton they sit in (token
grammar in order.go). The lists below are the order the broker model (`Model/Broker.lean`) was written
against, cut into the pieces that correspond to model functions. A marker that moves across another one,
into or out of a branch, disappears or is duplicated makes the generated list differ and these
obligations stop building.

What the model takes from the order (ops `connectHold`/`connectRelease`/`dropHold`/`dropHoldEarly`/`release`):
* `connectHold` stage 1 parks the handler in the authentication hook: the `MaximumClients` test and
  `validateConnect` are behind it, the `ClientsConnected` increment, `inheritClientSession`, `Clients.Add`
  and the CONNACK are ahead (`refuseCode` is evaluated at park time, `admitClient` at release).
* `connectHold` stage 2 parks at `attach.afterClientsAdd`: `admitA` (increment, inherit, `Clients.Add`) is
  behind, `admitConnack` (`SendConnack`) and `admitC` (`willDelayed.Delete`, `ResendInflightMessages`) ahead;
  a failed `SendConnack` returns before the read loop, only the deferred decrement runs (`connectRelease`).
* `dropHoldEarly` parks at `attach.afterRead` (before `detachA`: `sendLWT`, `Stop`), `dropHold` at
  `attach.beforeCleanup` (between `detachA` and `detachB`: `OnDisconnect`, the `expire && !IsTakenOver`
  clean-up, the deferred decrement).
-/
namespace Mochi.TieA

/-- `attachClient` (server.go), as the model reads it -/
def attachClientExpected : List String :=
  -- set-up; the deferred `cl.Stop(nil)` / `ClientsWg.Done` run at every return
  ["defer s.Listeners.ClientsWg.Done",
   "s.Listeners.ClientsWg.Add",
   "go cl.WriteLoop",
   "defer cl.Stop(nil)",
   -- Session.connectDecoded / Reader: the CONNECT is read first; a read error ends the handler silently
   "s.readConnectionPacket",
   "if err != nil {", "return _", "}",
   "yield attach.afterReadConnect",
   -- Broker.connect / connectHold: `parseConnect`, then `refuseCode` in this order:
   "cl.ParseConnect",
   "yield attach.beforeLimitCheck",
   -- (1) refuseCode, first test: the client limit, read BEFORE the increment below (C35);
   --     0x88→0x03 to MQTT 3, 0x89 to MQTT 5
   "atomic.LoadInt64(&s.Info.ClientsConnected)",
   "if atomic.LoadInt64(&s.Info.ClientsConnected) >= s.Options.Capabilities.MaximumClients {",
   "if cl.Properties.ProtocolVersion < 5 {",
   "s.SendConnack(cl, packets.ErrServerUnavailable, false, nil)",
   "} else {",
   "s.SendConnack(cl, packets.ErrServerBusy, false, nil)",
   "}",
   "return packets.ErrServerBusy",
   "}",
   -- (2) refuseCode, tests 2–5: validateConnect; refused with its code and no session
   "s.validateConnect",
   "if code != packets.CodeSuccess {",
   "s.SendConnack(cl, code, false, nil)",
   "if err != nil {", "return _", "}",
   "return code",
   "}",
   "s.hooks.OnConnect",
   "if err != nil {", "return err", "}",
   -- (3) refuseCode, last test: the authentication hook — where `connectHold` stage 1 parks
   "s.hooks.OnConnectAuthenticate",
   "if !s.hooks.OnConnectAuthenticate(cl, pk) {",
   "s.SendConnack(cl, packets.ErrBadUsernameOrPassword, false, nil)",
   "if err != nil {", "return _", "}",
   "return packets.ErrBadUsernameOrPassword",
   "}",
   -- Broker.admitA: increment (its decrement deferred: runs at every later return, `detachB` /
   -- `connectRelease`), inheritClientSession, Clients.Add
   "atomic.AddInt64(&s.Info.ClientsConnected, 1)",
   "defer atomic.AddInt64(&s.Info.ClientsConnected, -1)",
   "yield attach.afterCountIncrement",
   "s.inheritClientSession",
   "yield attach.afterInherit",
   "s.Clients.Add(cl)",
   -- `connectHold` stage 2 parks here (known finding F13: the session is routable before its CONNACK)
   "yield attach.afterClientsAdd",
   -- Broker.admitConnack; `connectRelease`: a failed write returns before the read loop
   "s.SendConnack(cl, code, sessionPresent, nil)",
   "if err != nil {", "return _", "}",
   "yield attach.afterConnack",
   -- Broker.admitC: delayed will removed AFTER the CONNACK, then the resend (session present only)
   "s.loop.willDelayed.Delete(cl.ID)",
   "yield attach.afterWillDelete",
   "if sessionPresent {",
   "cl.ResendInflightMessages(true)",
   "if err != nil {", "return _", "}",
   "}",
   "yield attach.beforeRead",
   -- the read loop (Broker.recvOn → receivePacket)
   "cl.Read(s.receivePacket)",
   -- `dropHoldEarly` parks here
   "yield attach.afterRead",
   -- Broker.detachA: will + Stop on error, will discarded on a normal end
   "if err != nil {",
   "s.sendLWT(cl)",
   "cl.Stop(err)",
   "} else {",
   "cl.Properties.Will = Will{}",
   "}",
   -- `dropHold` parks here
   "yield attach.beforeCleanup",
   -- Broker.detachB: `expire`, clean-up unless taken over, then (deferred) the decrement
   "expire := (cl.Properties.ProtocolVersion == 5 && cl.Properties.Props.SessionExpiryInterval == 0) || (cl.Properties.ProtocolVersion < 5 && cl.Properties.Clean)",
   "s.hooks.OnDisconnect",
   "cl.IsTakenOver",
   "if expire && !cl.IsTakenOver() {",
   "cl.ClearInflights",
   "s.UnsubscribeClient(cl)",
   "s.Clients.Delete(cl.ID)",
   "}",
   "return err"]

/-- **`attachClient` has the statement order the schedule model was written against** (C13: `Clients.Add`
    before `SendConnack`; C35: limit test before the increment, both before `Clients.Add`; C16: the delayed
    will is removed after the CONNACK, `sendLWT` only on the error path and before the clean-up; C14: the
    clean-up is skipped for a taken-over client) -/
theorem C13_attach_order_tied : Mochi.Gen.attachClientOrder = attachClientExpected := by decide +kernel

/-- `inheritClientSession` (server.go), as `Broker.admitA` reads it -/
def inheritClientSessionExpected : List String :=
  ["s.Clients.Get(cl.ID)",
   "if ok {",
   -- the old connection is disconnected (0x8E) BEFORE either branch (C14: it receives nothing afterwards)
   "s.DisconnectClient(existing, packets.ErrSessionTakenOver)",
   -- clean start, or the old session was an MQTT 3 clean session: nothing survives, session present 0;
   -- isTakenOver is set only after the unsubscribe (so that UnsubscribeClient really unsubscribes)
   "if pk.Connect.Clean || (existing.Properties.Clean && existing.Properties.ProtocolVersion < 5) {",
   "yield inherit.afterDisconnectExisting",
   "s.UnsubscribeClient(existing)",
   "existing.ClearInflights",
   "existing.State.isTakenOver.Store(true)",
   "return false",
   "}",
   -- resume: isTakenOver first (the later UnsubscribeClient(existing) then leaves the topic index alone),
   -- inflight cloned, subscriptions re-added under the same id, then the old object is emptied
   "yield inherit.afterDisconnectExisting",
   "existing.State.isTakenOver.Store(true)",
   "if existing.State.Inflight.Len() > 0 {",
   "cl.State.Inflight = existing.State.Inflight.Clone()",
   "atomic.AddInt64(&s.Info.Inflight, int64(cl.State.Inflight.Len()))",
   "if cl.State.Inflight.maximumReceiveQuota == 0 && cl.ops.options.Capabilities.ReceiveMaximum != 0 {",
   "cl.State.Inflight.ResetReceiveQuota",
   "cl.State.Inflight.ResetSendQuota",
   "}",
   "}",
   "existing.State.Subscriptions.GetAll",
   "range existing.State.Subscriptions.GetAll() {",
   "s.Topics.Subscribe(cl.ID, sub)",
   "if !existed {",
   "atomic.AddInt64(&s.Info.Subscriptions, 1)",
   "}",
   "cl.State.Subscriptions.Add(sub.Filter, sub)",
   "}",
   "s.UnsubscribeClient(existing)",
   "existing.ClearInflights",
   "return true",
   "}",
   -- no session for the id: session present 0 (the ClientsMaximum statistic is not in the model)
   "if atomic.LoadInt64(&s.Info.ClientsConnected) > atomic.LoadInt64(&s.Info.ClientsMaximum) {",
   "atomic.AddInt64(&s.Info.ClientsMaximum, 1)",
   "}",
   "return false"]

/-- **`inheritClientSession` has the statement order `Broker.admitA` was written against** (also C09: the
    in-flight transfer; C21: the superseded client's in-flight records and subscriptions are cleared — through
    the storage hooks — after the new client's were written) -/
theorem C14_inherit_order_tied : Mochi.Gen.inheritClientSessionOrder = inheritClientSessionExpected := by decide +kernel

end Mochi.TieA
