import Mochi.Model.WsConn
/-!
# C39 — WebSocket transport is byte-transparent

Model: `Mochi.WsConn.read` (listeners/websocket.go `wsConn.Read`).  For every list of messages,
every requested read size and **every chunking** of gorilla's message reader.
Partial: gorilla's framing, the HTTP upgrade and `bufio.Reader` above the connection are trusted.
-/
namespace Mochi.WsConn

theorem innerLoop_conserve (fuel : Nat) (rem : List Nat) (want : Nat) (chunks acc : List Nat) :
    (innerLoop fuel rem want chunks acc).1 ++ ((innerLoop fuel rem want chunks acc).2.getD []) = acc ++ rem := by
  induction fuel generalizing rem chunks acc with
  | zero => simp [innerLoop]
  | succ fuel ih =>
    unfold innerLoop
    split
    · simp
    · split
      · rename_i h; simp at h; simp [h]
      · simp only []
        rw [ih]
        simp [List.append_assoc]

theorem innerLoop_le (fuel : Nat) (rem : List Nat) (want : Nat) (chunks acc : List Nat)
    (h : acc.length ≤ want) : (innerLoop fuel rem want chunks acc).1.length ≤ want := by
  induction fuel generalizing rem chunks acc with
  | zero => simpa [innerLoop]
  | succ fuel ih =>
    unfold innerLoop
    split
    · exact h
    · split
      · exact h
      · apply ih
        simp only [List.length_append, List.length_take]
        have : acc.length ≠ want := by rename_i h1 _; simpa using h1
        generalize hkdef : Nat.min (Nat.max 1 (chunks.headD rem.length)) (Nat.min rem.length (want - acc.length)) = k
        have hk1 : k ≤ want - acc.length := by
          rw [← hkdef]; exact Nat.le_trans (Nat.min_le_right _ _) (Nat.min_le_right _ _)
        have hk2 : min k rem.length ≤ k := Nat.min_le_left _ _
        omega

/-- **No byte dropped, duplicated or reordered**: whatever a successful `Read` returns, followed by
    what is still pending afterwards, is exactly what was pending before. -/
theorem C39_read_conserves (ws : WS) (want : Nat) (chunks out : List Nat) (ws' : WS)
    (h : read ws want chunks = (ws', .ok out)) : out ++ pending ws' = pending ws := by
  unfold read at h
  cases hc : ws.cur with
  | some rem =>
    simp only [hc] at h
    injection h with h1 h2
    injection h2 with h2
    subst h1 h2
    simp only [pending, hc, Option.getD_some]
    rw [← List.append_assoc, innerLoop_conserve]; simp
  | none =>
    simp only [hc] at h
    cases hm : ws.msgs with
    | nil => simp [hm] at h
    | cons m rest =>
      obtain ⟨isBin, payload⟩ := m
      simp only [hm] at h
      cases isBin with
      | false => simp at h
      | true =>
        simp only [Bool.not_true, Bool.false_eq_true, if_false] at h
        injection h with h1 h2
        injection h2 with h2
        subst h1 h2
        simp only [pending, hc, Option.getD_none, List.nil_append, hm, pendingMsgs]
        rw [← List.append_assoc, innerLoop_conserve]; simp

/-- a `Read` never returns more than the caller's buffer holds -/
theorem C39_read_fits (ws : WS) (want : Nat) (chunks out : List Nat) (ws' : WS)
    (h : read ws want chunks = (ws', .ok out)) : out.length ≤ want := by
  unfold read at h
  cases hc : ws.cur with
  | some rem =>
    simp only [hc] at h
    injection h with h1 h2; injection h2 with h2; subst h2
    exact innerLoop_le _ _ _ _ _ (by simp)
  | none =>
    simp only [hc] at h
    cases hm : ws.msgs with
    | nil => simp [hm] at h
    | cons m rest =>
      obtain ⟨isBin, payload⟩ := m
      simp only [hm] at h
      cases isBin with
      | false => simp at h
      | true =>
        simp only [Bool.not_true, Bool.false_eq_true, if_false] at h
        injection h with h1 h2; injection h2 with h2; subst h2
        exact innerLoop_le _ _ _ _ _ (by simp)

/-- a sequence of reads: delivered bytes so far -/
def reads (ws : WS) : List (Nat × List Nat) → WS × List Nat × Option RErr
  | [] => (ws, [], none)
  | (want, chunks) :: rest =>
    match read ws want chunks with
    | (ws', .ok out) =>
      let r := reads ws' rest
      (r.1, out ++ r.2.1, r.2.2)
    | (ws', .error e) => (ws', [], some e)

/-- **Transparency over any sequence of reads**: the concatenation of everything delivered, plus what
    is still pending, is the concatenation of the binary payloads — for every segmentation of the
    stream into messages, every read size and every chunking. -/
theorem C39_stream_transparent (ws : WS) (rs : List (Nat × List Nat)) :
    (reads ws rs).2.1 ++ pending (reads ws rs).1 = pending ws ∨ (reads ws rs).2.2.isSome := by
  induction rs generalizing ws with
  | nil => left; simp [reads]
  | cons r rest ih =>
    obtain ⟨want, chunks⟩ := r
    simp only [reads]
    cases hr : read ws want chunks with
    | mk ws' res =>
      cases res with
      | error e => right; simp
      | ok out =>
        simp only
        rcases ih ws' with h | h
        · left
          rw [List.append_assoc, h]
          exact C39_read_conserves ws want chunks out ws' hr
        · right; exact h

/-- **A non-binary message ends the stream only after every earlier byte was delivered**: the error
    is raised only when no part of a started message is outstanding, and nothing is returned with it. -/
theorem C39_non_binary (ws : WS) (want : Nat) (chunks : List Nat) (ws' : WS)
    (h : read ws want chunks = (ws', .error .invalid)) :
    ws.cur = none ∧ ∃ p rest, ws.msgs = (false, p) :: rest := by
  unfold read at h
  cases hc : ws.cur with
  | some rem => simp [hc] at h
  | none =>
    simp only [hc] at h
    cases hm : ws.msgs with
    | nil => simp [hm] at h
    | cons m rest =>
      obtain ⟨isBin, payload⟩ := m
      cases isBin with
      | true => simp [hm] at h
      | false => exact ⟨rfl, payload, rest, rfl⟩

/-- each `Write p` is one binary message with payload `p` -/
theorem C39_write (p : List Nat) : write p = (true, p) := rfl

/-- non-vacuity: a packet split over two messages, read in buffers of 3 with 1-byte chunks -/
example : (reads { msgs := [(true, [1, 2]), (true, [3, 4, 5])] } [(3, [1, 1]), (3, []), (3, [1]), (3, [])]).2.1
    = [1, 2, 3, 4, 5] := by decide
example : (reads { msgs := [(true, [1, 2]), (false, [9]), (true, [3])] } [(8, []), (8, []), (8, [])]).2
    = ([1, 2], some .invalid) := by decide

end Mochi.WsConn
