import Mochi.Lemmas.Invariant
import Mochi.Lemmas.Refine
import Mochi.Lemmas.IndexConc
import Mochi.Gen.RootLock
/-!
# C31 — The topic index stays consistent under any concurrent history (sequential core)

Proved here, for every history of index operations:
* the particle list stays prefix-closed (the structural invariant every query relies on);
* `trim` never removes a particle that holds a subscription, shared or inline subscription or a
  retained path.
* `C31_seq_refines` — every reachable index holds exactly the subscriptions, shared and inline
  subscriptions and retained records of the plain sets and maps (`absRun`) — so every query is answered
  from the same data as the simple set/map would hold (C01/C02 turn that into the query answers);
* `C31_return_values` — Subscribe/InlineSubscribe report is-new, Unsubscribe/InlineUnsubscribe report
  existed, RetainMessage its counter delta, exactly as the plain sets and maps would;
* `C31_serializable` — for any number of goroutines, any programs of mutators and **any schedule**: when
  every mutator brackets its read-compute-write with the root lock (the fact regenerated from
  topics.go, `Gen/RootLock.lean`), the index at every moment equals the sequential run of the mutators in
  the order of their writes, and that order preserves each goroutine's program order; together with the
  two theorems above: the index answers as the plain sets/maps after that serial order.
  `C31_unlocked_counterexample` shows the lock fact is what carries this (a lost update without it).
Tie: the `topicsconc` suite runs random batches on several goroutines against the real index and the
driver searches the serial order that explains the observed return values and final index.
-/
namespace Mochi.Topics

/-- structural invariant of every reachable index -/
theorem C31_prefix_closed (ops : List IOp) : PrefixClosed (runOps ops).nodes :=
  prefixClosed_runOps ops

/-- removing empty index nodes never drops a live subscription or retained message -/
theorem C31_trim_safe (ns : List Node) (p : Path) (fuel : Nat) (q : Path) (n : Node)
    (hn : getNode ns q = some n) (hlive : live n) : getNode (trim ns p fuel) q = some n :=
  trim_keeps ns p fuel q n hn hlive

/-- the trie holds exactly what the plain sets and maps hold, after every history -/
theorem C31_seq_refines (ops : List IOp) : Refines (runOps ops) (absRun ops) := refines_runOps_all ops

/-- return values: is-new / existed / retained-counter delta, as the plain sets and maps give them -/
theorem C31_return_values (ops : List IOp) (op : IOp) :
    opResult (runOps ops) op = (absRun ops).opResult op := opResult_refines ops op

open Conc in
/-- **Serialisability under the root lock**, for every set of goroutine programs and every schedule:
    the index equals the sequential run of the mutators in the order of their writes (`log`), and for
    every goroutine the mutators it has written so far followed by those it has still to write are its
    program — the serial order respects every goroutine's program order. -/
theorem C31_serializable (progs : List (List IOp)) (sched : List Nat) :
    let s := runSched true (start progs) sched
    s.idx = runOps (s.log.map (·.2)) ∧
    (∀ (i : Nat) (t : Thr), s.thrs[i]? = some t → doneOf s i ++ remaining t = progs[i]?.getD []) ∧
    Refines s.idx (absRun (s.log.map (·.2))) := by
  intro s
  have h := inv_run progs sched _ (inv_start progs)
  refine ⟨h.idx, h.order, ?_⟩
  rw [h.idx]
  exact refines_runOps_all _

open Conc in
/-- when every goroutine has finished, its whole program is in the serial order -/
theorem C31_serializable_finished (progs : List (List IOp)) (sched : List Nat)
    (hfin : finished (runSched true (start progs) sched) = true) (i : Nat) (hi : i < progs.length) :
    doneOf (runSched true (start progs) sched) i = progs[i]?.getD [] := by
  have h := inv_run progs sched _ (inv_start progs)
  have hlen : i < (runSched true (start progs) sched).thrs.length := by rw [h.len]; exact hi
  have ht : (runSched true (start progs) sched).thrs[i]? = some ((runSched true (start progs) sched).thrs[i]) := by
    simp [hlen]
  have ho := h.order i _ ht
  have hempty : ((runSched true (start progs) sched).thrs[i]).ops = [] := by
    have := List.all_eq_true.1 hfin _ (List.getElem_mem hlen)
    simpa using this
  rw [← ho]
  simp [remaining, hempty]

open Conc in
/-- without the lock two goroutines lose an update: both read the empty index, both write; the index
    ends with one subscription although two mutators ran — no serial order yields that -/
theorem C31_unlocked_counterexample :
    let progs : List (List IOp) := [[.subscribe [1] { filter := [97] }], [.subscribe [2] { filter := [97] }]]
    let s := runSched false (start progs) [0, 1, 0, 1]
    finished s = true ∧ s.log.length = 2 ∧
    s.idx.nodes ≠ (runOps (s.log.map (·.2))).nodes ∧
    s.idx.nodes ≠ (runOps ((s.log.map (·.2)).reverse)).nodes := by decide

open Conc in
/-- non-vacuity of `C31_serializable`: a schedule on which two goroutines really interleave (the second
    is refused the lock, then gets it) and both finish -/
example :
    let progs : List (List IOp) := [[.subscribe [1] { filter := [97] }, .unsubscribe [97] [2]], [.subscribe [2] { filter := [97] }]]
    let s := runSched true (start progs) [0, 1, 0, 0, 0, 1, 1, 1, 1, 0, 0, 0, 0]
    finished s = true ∧ s.log.map (·.1) = [0, 1, 0] ∧ (s.idx.nodes.map (·.subs.length)) = [1] := by decide

/-- **The root-lock fact, regenerated from topics.go on every run (tie A).** Each of the five mutators
    of `TopicsIndex` begins with `x.root.Lock()` followed by `defer x.root.Unlock()` — the premise under
    which `C31_serializable` describes the code (`locked = true`). A mutator that loses the bracket turns
    its entry to `false` in `Gen/RootLock.lean` and this obligation fails. -/
theorem C31_root_lock_fact :
    Mochi.Gen.rootLockFacts.length = 5 ∧ (Mochi.Gen.rootLockFacts.map (·.2)) = [true, true, true, true, true] := by decide

/-- non-vacuity: unsubscribing one of two clients keeps the particle, unsubscribing both removes the
    whole branch -/
example : ((runOps [.subscribe [1] { filter := [97, 47, 98] }, .subscribe [2] { filter := [97, 47, 98] },
                    .unsubscribe [97, 47, 98] [1]]).nodes.map (·.path)) = [[[97]], [[97], [98]]] := by decide
example : ((runOps [.subscribe [1] { filter := [97, 47, 98] }, .subscribe [2] { filter := [97, 47, 98] },
                    .unsubscribe [97, 47, 98] [1], .unsubscribe [97, 47, 98] [2]]).nodes.map (·.path)) = [] := by decide

end Mochi.Topics
