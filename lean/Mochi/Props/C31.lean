import Mochi.Lemmas.Invariant
/-!
# C31 — The topic index stays consistent under any concurrent history (sequential core)

Proved here, for every history of index operations:
* the particle list stays prefix-closed (the structural invariant every query relies on);
* `trim` never removes a particle that holds a subscription, shared or inline subscription or a
  retained path.
The return-value clause (is-new / existed) and the refinement to plain sets and maps are in
`C31_refines` (Props/C31R.lean) once present; serialisability of concurrent batches rests on the
root-lock fact regenerated from the source (tie A) and on the concurrent correspondence run.
-/
namespace Mochi.Topics

/-- structural invariant of every reachable index -/
theorem C31_prefix_closed (ops : List IOp) : PrefixClosed (runOps ops).nodes :=
  prefixClosed_runOps ops

/-- removing empty index nodes never drops a live subscription or retained message -/
theorem C31_trim_safe (ns : List Node) (p : Path) (fuel : Nat) (q : Path) (n : Node)
    (hn : getNode ns q = some n) (hlive : live n) : getNode (trim ns p fuel) q = some n :=
  trim_keeps ns p fuel q n hn hlive

/-- non-vacuity: unsubscribing one of two clients keeps the particle, unsubscribing both removes the
    whole branch -/
example : ((runOps [.subscribe [1] { filter := [97, 47, 98] }, .subscribe [2] { filter := [97, 47, 98] },
                    .unsubscribe [97, 47, 98] [1]]).nodes.map (·.path)) = [[[97]], [[97], [98]]] := by decide
example : ((runOps [.subscribe [1] { filter := [97, 47, 98] }, .subscribe [2] { filter := [97, 47, 98] },
                    .unsubscribe [97, 47, 98] [1], .unsubscribe [97, 47, 98] [2]]).nodes.map (·.path)) = [] := by decide

end Mochi.Topics
