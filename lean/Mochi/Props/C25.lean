import Mochi.Model.Broker
/-!
# C25 — Expired messages are not delivered and expiry intervals only shrink

Model: `minimumNZ` (server.go `minimum`), the expiry stamping of `processPublish` /
`publishToSubscribers`, the housekeeping predicates of `tickRetained` / `tickInflight`.
Partial: the Message Expiry Interval *value* written to the wire is `Expiry - time.Now()` (clients.go
`WritePacket`); wall-clock time is an input of the model, so "no larger than the time remaining" is
stated on the stamped expiry time. Known finding F25a (recorded): a copy deferred by flow control is
stored with `Expiry = -1` and is exempt from per-message expiry.
-/
namespace Mochi.Broker

/-- the effective interval is the smaller non-zero of the publisher's interval and the server maximum -/
theorem C25_eff_expiry (a b : Nat) :
    minimumNZ a b = (if a = 0 then b else if b = 0 then a else min a b) := by
  unfold minimumNZ
  by_cases ha : a = 0 <;> by_cases hb : b = 0 <;> simp_all <;> (split <;> omega)

/-- it never exceeds a non-zero server maximum, nor a non-zero publisher interval -/
theorem C25_interval_shrinks (serverMax pubInterval : Nat) :
    (serverMax ≠ 0 → minimumNZ serverMax pubInterval ≤ serverMax) ∧
    (pubInterval ≠ 0 → minimumNZ serverMax pubInterval ≤ pubInterval) := by
  rw [C25_eff_expiry]
  constructor <;> intro h <;> (repeat' split) <;> omega

/-- a retained message whose expiry time lies strictly before the housekeeping time is removed -/
theorem C25_retained_removed (s : Server) (now : Int) (topic : Topics.Str) (m : Msg)
    (hm : s.rmsgs = [(topic, m)]) (hv : m.ver = 5) (he : m.expiry > 0) (hlt : m.expiry < now) :
    (tickRetained s now).rmsgs = [] := by
  unfold tickRetained tickRetained.tickRetainedLoop
  simp [hm, hv, he, hlt, Topics.assocDel]

/-- housekeeping never removes a retained message that has not expired and is within the server maximum -/
theorem C25_retained_kept (s : Server) (now : Int) (topic : Topics.Str) (m : Msg)
    (hm : s.rmsgs = [(topic, m)]) (he : m.expiry = 0 ∨ now ≤ m.expiry)
    (hmax : s.caps.maxMessageExpiry = 0 ∨ now - m.created ≤ s.caps.maxMessageExpiry) :
    (tickRetained s now).rmsgs = [(topic, m)] := by
  unfold tickRetained tickRetained.tickRetainedLoop
  have h1 : ¬ (m.expiry > 0 ∧ m.expiry < now) := by omega
  have h2 : ¬ (s.caps.maxMessageExpiry > 0 ∧ now - m.created > s.caps.maxMessageExpiry) := by omega
  simp only [hm, List.foldl_cons, List.foldl_nil]
  split
  · rename_i h
    simp only [Bool.or_eq_true, Bool.and_eq_true, decide_eq_true_eq, beq_iff_eq] at h
    rcases h with ⟨⟨_, h⟩, h'⟩ | ⟨h, h'⟩
    · exact absurd ⟨h, h'⟩ h1
    · exact absurd ⟨h, h'⟩ h2
  · exact hm

example : minimumNZ 86400 0 = 86400 ∧ minimumNZ 86400 10 = 10 ∧ minimumNZ 0 10 = 10 ∧ minimumNZ 0 0 = 0 ∧ minimumNZ 5 10 = 5 := by
  decide

end Mochi.Broker
