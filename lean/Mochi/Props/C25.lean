import Mochi.Model.Broker
import Mochi.Lemmas.BrokerRetained
import Mochi.Lemmas.BrokerRetInfl
import Mochi.Lemmas.BrokerReplay
/-!
# C25 — Expired messages are not delivered and expiry intervals only shrink

Model: `minimumNZ` (server.go `minimum`), the expiry stamping of `processPublish` /
`publishToSubscribers`, the housekeeping predicates of `tickRetained` / `tickInflight`.
Partial: the Message Expiry Interval *value* written to the wire is `Expiry - time.Now()` (clients.go
`WritePacket`); wall-clock time is an input of the model, so "no larger than the time remaining" is
stated on the stamped expiry time. Known finding F25a (recorded): a copy deferred by flow control is
stored with `Expiry = -1` and is exempt from per-message expiry.
-/
namespace Mochi.Broker

/-- the effective interval is the smaller non-zero of the publisher's interval and the server maximum -/
theorem C25_eff_expiry (a b : Nat) :
    minimumNZ a b = (if a = 0 then b else if b = 0 then a else min a b) := by
  unfold minimumNZ
  by_cases ha : a = 0 <;> by_cases hb : b = 0 <;> simp_all <;> (split <;> omega)

/-- it never exceeds a non-zero server maximum, nor a non-zero publisher interval -/
theorem C25_interval_shrinks (serverMax pubInterval : Nat) :
    (serverMax ≠ 0 → minimumNZ serverMax pubInterval ≤ serverMax) ∧
    (pubInterval ≠ 0 → minimumNZ serverMax pubInterval ≤ pubInterval) := by
  rw [C25_eff_expiry]
  constructor <;> intro h <;> (repeat' split) <;> omega

/-- a retained message whose expiry time lies strictly before the housekeeping time is removed -/
theorem C25_retained_removed (s : Server) (now : Int) (topic : Topics.Str) (m : Msg)
    (hm : s.rmsgs = [(topic, m)]) (hv : m.ver = 5) (he : m.expiry > 0) (hlt : m.expiry < now) :
    (tickRetained s now).rmsgs = [] := by
  unfold tickRetained tickRetained.tickRetainedLoop
  simp [hm, hv, he, hlt, Topics.assocDel]

/-- housekeeping never removes a retained message that has not expired and is within the server maximum -/
theorem C25_retained_kept (s : Server) (now : Int) (topic : Topics.Str) (m : Msg)
    (hm : s.rmsgs = [(topic, m)]) (he : m.expiry = 0 ∨ now ≤ m.expiry)
    (hmax : s.caps.maxMessageExpiry = 0 ∨ now - m.created ≤ s.caps.maxMessageExpiry) :
    (tickRetained s now).rmsgs = [(topic, m)] := by
  unfold tickRetained tickRetained.tickRetainedLoop
  have h1 : ¬ (m.expiry > 0 ∧ m.expiry < now) := by omega
  have h2 : ¬ (s.caps.maxMessageExpiry > 0 ∧ now - m.created > s.caps.maxMessageExpiry) := by omega
  simp only [hm, List.foldl_cons, List.foldl_nil]
  split
  · rename_i h
    simp only [Bool.or_eq_true, Bool.and_eq_true, decide_eq_true_eq, beq_iff_eq] at h
    rcases h with ⟨⟨_, h⟩, h'⟩ | ⟨h, h'⟩
    · exact absurd ⟨h, h'⟩ h1
    · exact absurd ⟨h, h'⟩ h2
  · exact hm

example : minimumNZ 86400 0 = 86400 ∧ minimumNZ 86400 10 = 10 ∧ minimumNZ 0 10 = 10 ∧ minimumNZ 0 0 = 0 ∧ minimumNZ 5 10 = 5 := by
  decide


/-! ## After housekeeping: the retained store (over histories)

`retDue caps now m` (`Mochi/Lemmas/BrokerRetained.lean`) is the test of `tickRetained` (server.go `clearExpiredRetainedMessages`):
the message comes from an MQTT 5 publisher and its expiry time lies strictly before `now`, or it is older than the server
maximum.  `NW`, `Op.avoids`, `Op.willAvoids`: see `Mochi/Props/C05.lean`. -/

/-- a message stamped by `processPublish` whose expiry time lies strictly before `now` is due: for an MQTT 5 publisher by
    its own expiry time, for every publisher when the expiry time is `created + server maximum` -/
theorem C25_due_of_expired (caps : Caps) (now : Int) (m : Msg)
    (h : (m.ver = 5 ∧ 0 < m.expiry ∧ m.expiry < now) ∨
         (0 < caps.maxMessageExpiry ∧ m.expiry = m.created + caps.maxMessageExpiry ∧ m.expiry < now)) :
    retDue caps now m = true := by
  unfold retDue
  rcases h with ⟨hv, he, hlt⟩ | ⟨hm, he, hlt⟩
  · simp [hv, he, hlt]
  · have h1 : caps.maxMessageExpiry > 0 := hm
    have h2 : now - m.created > (caps.maxMessageExpiry : Int) := by omega
    simp [h1, h2]

/-- **the retained store after housekeeping**: a retained message with effective expiry time `e = m.expiry > 0` (MQTT 5
    publisher) is gone from the store after `tick "retained" t` with `t > e` -/
theorem C25_retained_gone_after_housekeeping (s : Server) (t : Int) (topic : Topics.Str) (m : Msg)
    (hm : Topics.assocGet s.rmsgs topic = some m) (hv : m.ver = 5) (he : 0 < m.expiry) (hlt : m.expiry < t) :
    Topics.assocGet (step s (.tick "retained" t)).1.rmsgs topic = none := by
  rw [step_tick_retained]
  exact tickRetained_gone s t topic m hm (C25_due_of_expired _ _ _ (Or.inl ⟨hv, he, hlt⟩))

/-- the same for any due message (e.g. one from an MQTT 3 publisher, stamped with the server maximum) -/
theorem C25_retained_due_gone_after_housekeeping (s : Server) (t : Int) (topic : Topics.Str) (m : Msg)
    (hm : Topics.assocGet s.rmsgs topic = some m) (hd : retDue s.caps t m = true) :
    Topics.assocGet (step s (.tick "retained" t)).1.rmsgs topic = none := by
  rw [step_tick_retained]
  exact tickRetained_gone s t topic m hm hd

/-- … and housekeeping keeps what is not due (no entry under the topic is due) -/
theorem C25_retained_kept_after_housekeeping (s : Server) (t : Int) (topic : Topics.Str)
    (hk : ∀ e ∈ s.rmsgs, e.1 = topic → retDue s.caps t e.2 = false) :
    Topics.assocGet (step s (.tick "retained" t)).1.rmsgs topic = Topics.assocGet s.rmsgs topic := by
  rw [step_tick_retained]
  exact tickRetained_kept s t topic hk

/-- **it stays gone**: after the housekeeping at `t > e`, no later op other than a new retained publish on that topic
    (client, inline, or a will with the retain flag) brings anything back under the topic — over any further history
    `post` (sequential or not) that avoids the topic; a later `tick "retained"` is allowed too -/
theorem C25_expired_retained_stays_gone (s : Server) (t : Int) (topic : Topics.Str) (m : Msg) (post : List Op)
    (hm : Topics.assocGet s.rmsgs topic = some m) (hv : m.ver = 5) (he : 0 < m.expiry) (hlt : m.expiry < t)
    (hnw : NW (fun u => u = topic) s)
    (hpost : ∀ op ∈ post, op.avoids (fun u => u = topic) (fun u => u = topic) ∨ ∃ t', op = .tick "retained" t') :
    Topics.assocGet (run s (.tick "retained" t :: post)).rmsgs topic = none := by
  rw [run_cons_rk]
  have h0 := C25_retained_gone_after_housekeeping s t topic m hm hv he hlt
  have hnw0 : NW (fun u => u = topic) (step s (.tick "retained" t)).1 := NW_step s _ hnw trivial
  generalize (step s (.tick "retained" t)).1 = s1 at h0 hnw0
  clear hm hnw
  induction post generalizing s1 with
  | nil => exact h0
  | cons op ops ih =>
    rw [run_cons_rk]
    rcases hpost op List.mem_cons_self with hav | ⟨t', rfl⟩
    · have h1 := step_rk (T := fun u => u = topic) (U := fun u => u = topic) (fun _ h => h) s1 op hnw0 hav
      exact ih (fun o ho => hpost o (List.mem_cons_of_mem _ ho)) _ ((h1.2 topic rfl).trans h0) h1.1
    · refine ih (fun o ho => hpost o (List.mem_cons_of_mem _ ho)) _ ?_ (NW_step s1 _ hnw0 trivial)
      rcases tickRetained_mono s1 t' topic with h | h
      · rw [step_tick_retained]; exact h
      · rw [step_tick_retained, h]; exact h0

/-! ## After housekeeping: a session's stored copies (`Mochi/Lemmas/BrokerRetInfl.lean`)

`dueAt caps now m` is the test of `tickInflight`.  After `tick "inflight" now` no REGISTERED session (connected or offline)
holds a record that was due; `admitC` — `ResendInflightMessages` of a resumed session — writes only records the session
holds.  Known finding F25a: a copy deferred by flow control is stored with `expiry = -1`, is therefore never due by its own
expiry time, survives the housekeeping and is released later (`C25_deferred_exempt_counterexample`). -/

/-- **a session's stored copy after housekeeping**: a record of a registered session (connected or offline) with expiry
    time `e > 0` (MQTT 5 publisher) is gone from the session after `tick "inflight" t` with `t > e` -/
theorem C25_inflight_gone_after_housekeeping (s : Server) (t : Int) (cid : Topics.Str) (i : Nat) (m : Msg)
    (hm : m ∈ (getObj s i).inflight) (hreg : (cid, i) ∈ s.clients) (hv : m.ver = 5) (he : 0 < m.expiry)
    (hlt : m.expiry < t) : m ∉ (getObj (step s (.tick "inflight" t)).1 i).inflight := by
  rw [step_tick_inflight_hk]
  exact C25_inflight_gone s t cid i m hm hreg hv he hlt

/-- … and no later resumption resends it: every PUBLISH that `ResendInflightMessages` writes for a registered session
    after the housekeeping is (the `dup` copy of) a record of that session that was NOT due -/
theorem C25_inflight_not_resent_after_housekeeping (s : Server) (t : Int) (cid : Topics.Str) (i : Nat)
    (hreg : (cid, i) ∈ s.clients) (k : Connect) (present : Bool) :
    ∀ o ∈ (admitC (step s (.tick "inflight" t)).1 i k present).2,
      (∃ conn ver m' me, o = Out.wrote conn (.publish ver m' me)) →
      ∃ m ∈ (getObj s i).inflight, dueAt s.caps t m = false ∧ m.type = 3 ∧
        ∃ conn ver me, o = Out.wrote conn (.publish ver { m with dup := true } me) := by
  rw [step_tick_inflight_hk]
  exact C25_no_resend_due_hk s t cid i hreg k present

/-- **F25a, kept**: a copy deferred by flow control (`expiry = -1`) survives the housekeeping at a time later than its
    message's expiry time and is released — written to the subscriber — afterwards (closed history, by `decide`) -/
theorem C25_deferred_exempt_counterexample :
    -- after `tick "inflight" (NOW + 100)` the subscriber still holds the deferred copy of a message with Message Expiry
    -- Interval 10 (expired from `NOW + 10` on) …
    (getObj (run (init {}) (deferredHistory_hk 1000)) 1).inflight.map (fun m => (m.id, m.payload, m.expiry))
      = [(1, [1], NOW + 1000), (2, [2], -1)] ∧
    -- … and the subscriber's next PUBACK releases it: payload 2 is written to the subscriber's connection
    (step (run (init {}) (deferredHistory_hk 1000)) (.recv 1 (.puback 1 0))).2.any (isPublishTo_hk 1 [2]) = true :=
  ⟨C25_deferred_exempt_counterexample_hk.2.2.1, C25_deferred_exempt_counterexample_hk.2.2.2.1⟩

/-- **the effective interval** stamped on an accepted publish: `NOW + minimumNZ serverMax pubInterval`, the interval being
    the smaller non-zero of the two (`C25_eff_expiry`) and at most each non-zero bound (`C25_interval_shrinks`) -/
theorem C25_effective_interval (s : Server) (i qos : Nat) (dup retain : Bool) (id : Nat) (topic payload : Topics.Str)
    (me : Nat) (h : 0 < minimumNZ s.caps.maxMessageExpiry me) :
    (inboundMsg s i qos dup retain id topic payload me).expiry = NOW + minimumNZ s.caps.maxMessageExpiry me ∧
    (s.caps.maxMessageExpiry ≠ 0 → minimumNZ s.caps.maxMessageExpiry me ≤ s.caps.maxMessageExpiry) ∧
    (me ≠ 0 → minimumNZ s.caps.maxMessageExpiry me ≤ me) := by
  refine ⟨?_, (C25_interval_shrinks _ _).1, (C25_interval_shrinks _ _).2⟩
  show (if minimumNZ s.caps.maxMessageExpiry me > 0 then _ else _) = _
  rw [if_pos h]


/-- **an expired retained message is never replayed**: in the history `pre ++ [tick "retained" t] ++ post` where the
    message stored at `topic` before the tick had expiry time `< t`, `post` contains no new retained publish on `topic`
    (client, inline; no CONNECT of the history carries a retained will on it), the replay of ANY later subscription
    (`publishRetainedToClient` in the final state; restrictions as in `C05_subscribe_replays_exactly`) writes no PUBLISH
    with that topic -/
theorem C25_expired_retained_never_replayed_seq (caps : Caps) (pre post : List Op) (t : Int) (topic : Topics.Str) (m : Msg)
    (hpre : ∀ op ∈ pre, op.willAvoids (fun u => u = topic))
    (hm : Topics.assocGet (run (init caps) pre).rmsgs topic = some m) (hv : m.ver = 5) (he : 0 < m.expiry)
    (hlt : m.expiry < t)
    (hpost : ∀ op ∈ post, op.avoids (fun u => u = topic) (fun u => u = topic) ∨ ∃ t', op = .tick "retained" t')
    (i : Nat) (sub : Topics.Sub) (ex : Bool) (k : Nat)
    (hc : ReplayClient (run (init caps) (pre ++ .tick "retained" t :: post)) i) (hq : sub.qos = 0)
    (hsp : StoredPub (run (init caps) (pre ++ .tick "retained" t :: post)))
    (hns : Topics.isSharedFilter sub.filter = false) (hrh : ((sub.rh == 1 && ex) || sub.rh == 2) = false)
    (hne : Topics.assocGet (run (init caps) (pre ++ .tick "retained" t :: post)).rmsgs [] = none)
    (hf : sub.filter ≠ []) (hok : Topics.specLevelsOK (Topics.splitLevels sub.filter) = true) :
    ∀ o ∈ (publishRetainedToClient (run (init caps) (pre ++ .tick "retained" t :: post)) i sub ex k).2,
      ∀ conn ver msg me, o = Out.wrote conn (.publish ver msg me) → msg.topic ≠ topic := by
  have hgone : Topics.assocGet (run (init caps) (pre ++ .tick "retained" t :: post)).rmsgs topic = none := by
    rw [run_append_rk]
    exact C25_expired_retained_stays_gone _ t topic m post hm hv he hlt (NW_run _ pre (NW_init _ caps) hpre) hpost
  intro o ho conn ver msg me hoe
  obtain ⟨t', pk, hg, _, _, hpk⟩ := (replay_mem_iff _ i sub ex k hc hq hsp hns hrh (RetIdxOK_run caps _)
    (RetKeys_run caps _) hne hf hok o).mp ho
  have htop : pk.topic = t' := (hsp _ (assocGet_some_mem _ _ _ hg)).2.2
  rw [hoe] at hpk
  have hmsg : msg.topic = t' := by
    unfold replayPacket at hpk
    injection hpk with _ h2
    injection h2 with _ h3 _
    rw [h3]; exact htop
  intro h
  rw [hmsg] at h
  rw [h, hgone] at hg
  cases hg

end Mochi.Broker

#print axioms Mochi.Broker.C25_retained_gone_after_housekeeping
#print axioms Mochi.Broker.C25_expired_retained_stays_gone
#print axioms Mochi.Broker.C25_expired_retained_never_replayed_seq
#print axioms Mochi.Broker.C25_inflight_gone_after_housekeeping
#print axioms Mochi.Broker.C25_inflight_not_resent_after_housekeeping
#print axioms Mochi.Broker.C25_deferred_exempt_counterexample
#print axioms Mochi.Broker.C25_effective_interval
