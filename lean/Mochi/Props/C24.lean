import Mochi.Model.Broker
import Mochi.Lemmas.Alias
import Mochi.Lemmas.BrokerAlias
/-!
# C24 — Topic aliases are always resolvable by the receiver

Model: `aliasOutSet` (topics.go `OutboundTopicAliases.Set`) and the inbound alias handling of
`processPublish` / `publishValidate`.
Known findings F24a/F24b (recorded): the alias is registered when the message is *shaped*, before it
is known to be written (deferred by flow control, dropped, or stored and resent on a new connection),
so a later packet can carry an alias the client never saw bound — exhibited by the independent
decoder of the correspondence harness.

Second part (namespace `Mochi.Alias`): the alias TABLES of topics.go with their integer widths
(`Model/Alias.lean`: cursor uint32, aliases uint16), for every Topic Alias Maximum a uint16 can hold and
every sequence of `Set` calls from the empty table: aliases stay within the maximum, bindings are
injective and permanent, `existed` means "bound by an earlier call", a full table answers 0 and does not
change (in particular at maximum 65535, where `uint16(cursor)+1` would wrap), the broker model's unbounded
`Nat` version agrees with the width-faithful one, and the inbound table resolves an alias to the topic last
bound to it. `C24_out_wrapped_counterexample` shows what computing the alias in uint16 BEFORE the bound
check does at maximum 65535. Tied to the Go code by the `alias` suite (maxima 0 … 65535).
-/
namespace Mochi.Broker
open Mochi.Topics

/-- outbound alias values never exceed the client's Topic Alias Maximum and none is used when it is 0 -/
theorem C24_alias_bound (c : Client) (topic : Str) (hinv : ∀ t a, assocGet c.aliasOut t = some a → a ≤ c.tam) :
    (aliasOutSet c topic).2.1 ≤ c.tam := by
  unfold aliasOutSet
  split
  · simp
  · split
    · rename_i a ha; exact hinv topic a ha
    · split
      · simp
      · simp; omega

theorem C24_no_alias_when_zero (c : Client) (topic : Str) (h : c.tam = 0) : (aliasOutSet c topic).2.1 = 0 := by
  unfold aliasOutSet; simp [h]

/-- an existing binding is reported as existing (so the topic may be omitted), a new one as new -/
theorem C24_new_binding_carries_topic (c : Client) (topic : Str) (h : assocGet c.aliasOut topic = none) :
    (aliasOutSet c topic).2.2 = false := by
  unfold aliasOutSet
  split
  · rfl
  · simp only [h]
    split <;> rfl

/-- inbound: an alias above the server's maximum is rejected before routing -/
theorem C24_inbound_above_max (s : Server) (q id : Nat) (topic : Str) (a : Nat)
    (hq : ¬ (q > 0 ∧ id = 0)) (hq0 : ¬ (q = 0 ∧ id > 0)) (hw : topic.contains plus = false ∧ topic.contains hash = false)
    (h : a > s.caps.topicAliasMaximum) : publishValidate s q id topic (some a) = some 0x94 := by
  unfold publishValidate
  have h1 : (decide (q > 0) && id == 0) = false := by
    by_cases hh : q > 0 <;> by_cases hi : id = 0 <;> simp_all
  have h2 : (q == 0 && decide (id > 0)) = false := by
    by_cases hh : q = 0 <;> by_cases hi : id > 0 <;> simp_all
  have w1 : ¬ plus ∈ topic := by simpa using hw.1
  have w2 : ¬ hash ∈ topic := by simpa using hw.2
  simp [h1, h2, w1, w2, h]

/-- inbound: an empty topic with no alias at all is rejected -/
theorem C24_inbound_no_topic (s : Server) (q id : Nat)
    (hq : ¬ (q > 0 ∧ id = 0)) (hq0 : ¬ (q = 0 ∧ id > 0)) : publishValidate s q id [] none = some 0x82 := by
  unfold publishValidate
  have h1 : (decide (q > 0) && id == 0) = false := by
    by_cases hh : q > 0 <;> by_cases hi : id = 0 <;> simp_all
  have h2 : (q == 0 && decide (id > 0)) = false := by
    by_cases hh : q = 0 <;> by_cases hi : id > 0 <;> simp_all
  simp [h1, h2]

/-- `DisconnectClient` retains nothing -/
theorem disconnectClient_rmsgs (s : Server) (i code : Nat) : (disconnectClient s i code).1.rmsgs = s.rmsgs := by
  unfold disconnectClient stopClient
  extract_lets c w
  split
  rename_i s' o heq
  split at heq
  · cases heq; rfl
  · cases heq; rfl

/-- `DisconnectClient` writes a DISCONNECT (and closes), never a PUBLISH -/
theorem disconnectClient_no_publish (s : Server) (i code n ver : Nat) (m : Msg) (me : Bool) :
    Out.wrote n (.publish ver m me) ∉ (disconnectClient s i code).2 := by
  unfold disconnectClient stopClient
  extract_lets c w
  split
  rename_i s' o heq
  intro hm
  rcases List.mem_append.mp hm with h | h
  · simp only [w] at h
    split at h
    · simp at h
    · cases h
  · split at heq
    · cases heq; cases h
    · cases heq
      split at h
      · cases h
      · simp at h

/-- the unbound-alias exit of `processPublish`: the whole handler is a `disconnectClient … 0x82` on a state with the
    retained messages of the start state -/
theorem processPublish_unbound_alias_shape (s : Server) (i q id : Nat) (dup retain : Bool) (payload : Str) (msgExpiry a : Nat)
    (hinl : (getObj s i).inline = false) (hquota : (getObj s i).recvQuota ≠ 0)
    (hacl : aclOk s (getObj s i).id [] true = true)
    (hfl : ∀ m, flGet (getObj s i) id = some m → (m.type == 5) = false)
    (hmax : s.caps.topicAliasMaximum > 0) (ha : a > 0)
    (hunbound : assocGet (getObj s i).aliasIn a = none) :
    ∃ s1 : Server, s1.rmsgs = s.rmsgs ∧
      processPublish s i q dup retain id [] payload msgExpiry (some a) =
        ((disconnectClient s1 i 0x82).1, (disconnectClient s1 i 0x82).2, some 0x82) := by
  have hv : isValidFilter [] true = true := by decide
  unfold processPublish
  extract_lets +onlyGivenNames c
  have hinl' : c.inline = false := hinl
  have hq : ¬ (c.recvQuota == 0) = true := by simpa using hquota
  have hacl' : aclOk s c.id [] true = true := hacl
  rw [if_neg (by simp [hinl', hv]), if_neg hq, if_neg (by simp [hacl'])]
  extract_lets +onlyGivenNames e pk pre
  have hpre : pre = none := by
    simp only [pre]
    rw [if_neg (by simp [hinl'])]
    split
    · rename_i pki hg
      rw [if_neg (by simp [hfl pki hg])]
    · rfl
  generalize pre = pre' at hpre
  split
  · cases hpre
  clear hpre
  split
  rename_i s1 c1 heq
  have h1 : s1.rmsgs = s.rmsgs ∧ s1.caps = s.caps ∧ c1.inline = false ∧ c1.aliasIn = c.aliasIn := by
    split at heq
    · cases heq; exact ⟨rfl, rfl, hinl', rfl⟩
    · cases heq; exact ⟨rfl, rfl, hinl', rfl⟩
  clear heq
  obtain ⟨hr1, hcaps1, hinl1, hal1⟩ := h1
  have hm0 : ¬ (s1.caps.topicAliasMaximum == 0) = true := by
    rw [hcaps1]; simp; omega
  have hub : assocGet c1.aliasIn a = none := by rw [hal1]; exact hunbound
  simp only [if_pos ha, if_neg hm0, hub]
  rw [if_pos (by simp [hinl1, pk])]
  exact ⟨setObj s1 i { c1 with aliasIn := assocSet c1.aliasIn a [] }, hr1, rfl⟩

/-- inbound: an empty topic with an alias that is not bound on the connection is a protocol error: DISCONNECT 0x82,
    nothing is routed (no PUBLISH written to any connection) and nothing is retained -/
theorem C24_inbound_unbound_alias (s : Server) (i q id : Nat) (dup retain : Bool) (payload : Str) (msgExpiry a : Nat)
    (hinl : (getObj s i).inline = false) (hquota : (getObj s i).recvQuota ≠ 0)
    (hacl : aclOk s (getObj s i).id [] true = true)
    (hfl : ∀ m, flGet (getObj s i) id = some m → (m.type == 5) = false)
    (hmax : s.caps.topicAliasMaximum > 0) (ha : a > 0)
    (hunbound : assocGet (getObj s i).aliasIn a = none) :
    (processPublish s i q dup retain id [] payload msgExpiry (some a)).2.2 = some 0x82 ∧
    (∀ n ver m me, Out.wrote n (.publish ver m me) ∉ (processPublish s i q dup retain id [] payload msgExpiry (some a)).2.1) ∧
    (processPublish s i q dup retain id [] payload msgExpiry (some a)).1.rmsgs = s.rmsgs := by
  obtain ⟨s1, hr, he⟩ := processPublish_unbound_alias_shape s i q id dup retain payload msgExpiry a hinl hquota hacl hfl hmax ha hunbound
  rw [he]
  exact ⟨rfl, fun n ver m me => disconnectClient_no_publish s1 i 0x82 n ver m me,
         (disconnectClient_rmsgs s1 i 0x82).trans hr⟩

/-- non-vacuity: the hypotheses of `C24_inbound_unbound_alias` hold for a fresh MQTT 5 connection with quota -/
example : (processPublish { objs := [{ ver := 5, recvQuota := 1 }] } 0 0 false false 0 [] [1] 0 (some 3)).2 =
    ([.wrote 0 (.disconnect 5 0x82), .closed 0], some 0x82) := by decide

end Mochi.Broker

/-! ## The alias tables with their integer widths (Model/Alias.lean) -/
namespace Mochi.Alias
open Mochi.Topics Mochi.Broker

/-- every alias ever returned is within the Topic Alias Maximum, none (0 = "send the topic") is returned
    when the maximum is 0, and every alias ever stored is in `1 .. maximum` -/
theorem C24_out_alias_le_max (m : Nat) (hm : m < 65536) (ts : List Str) (t : Str) :
    (((Out.new m).after ts).set t).2.1 ≤ m ∧
    (m = 0 → (((Out.new m).after ts).set t).2.1 = 0) ∧
    (∀ t' x, assocGet ((Out.new m).after ts).internal t' = some x → 1 ≤ x ∧ x ≤ m) := by
  have hinv := inv_after (inv_new m hm) ts
  have hmax : ((Out.new m).after ts).maximum = m := by rw [after_maximum, new_maximum m hm]
  have h1 := set_alias_le hinv t
  rw [hmax] at h1
  refine ⟨h1, fun h0 => by omega, ?_⟩
  intro t' x hx
  have := hinv.bound_range hx
  have := hinv.cur_le
  omega

/-- two different topics never hold the same alias, and a binding, once made, never changes: the table
    only grows -/
theorem C24_out_alias_injective (m : Nat) (hm : m < 65536) (ts : List Str) :
    (∀ t1 t2 x, assocGet ((Out.new m).after ts).internal t1 = some x →
        assocGet ((Out.new m).after ts).internal t2 = some x → t1 = t2) ∧
    (∀ t x, assocGet ((Out.new m).after ts).internal t = some x →
        ∀ ts', assocGet ((Out.new m).after (ts ++ ts')).internal t = some x) := by
  have hinv := inv_after (inv_new m hm) ts
  refine ⟨fun t1 t2 x h1 h2 => hinv.injective h1 h2, ?_⟩
  intro t x hx ts'
  rw [after_append]
  exact after_mono _ ts' t x hx

/-- `existed = true` exactly when an EARLIER call `Set(t)` of the sequence bound the topic (returned a
    non-zero alias), and then the alias returned now is the one returned then -/
theorem C24_out_existed_iff_bound (m : Nat) (hm : m < 65536) (ts : List Str) (t : Str) :
    ((((Out.new m).after ts).set t).2.2 = true ↔
        ∃ p, (p ++ [t]) <+: ts ∧ (((Out.new m).after p).set t).2.1 ≠ 0) ∧
    (∀ p, (p ++ [t]) <+: ts → (((Out.new m).after p).set t).2.1 ≠ 0 →
        (((Out.new m).after ts).set t).2.1 = (((Out.new m).after p).set t).2.1 ∧
        (((Out.new m).after ts).set t).2.2 = true ∧
        (((Out.new m).after ts).set t).1 = (Out.new m).after ts) := by
  have hinv := inv_after (inv_new m hm) ts
  constructor
  · rw [set_existed_iff hinv]
    constructor
    · rintro ⟨x, hx⟩
      obtain ⟨p, hp, hr, h0⟩ := (bound_iff_earlier m hm ts t x).1 hx
      exact ⟨p, hp, by rw [hr]; exact h0⟩
    · rintro ⟨p, hp, h0⟩
      exact ⟨_, (bound_iff_earlier m hm ts t _).2 ⟨p, hp, rfl, h0⟩⟩
  · intro p hp h0
    have hx := (bound_iff_earlier m hm ts t _).2 ⟨p, hp, rfl, h0⟩
    rw [set_existing _ t _ (hinv.max_ne_zero_of_bound hx) hx]
    exact ⟨rfl, rfl, rfl⟩

/-- when all `maximum` aliases are taken a new topic gets alias 0 ("send the topic") and the table is
    unchanged -/
theorem C24_out_full_table (m : Nat) (hm : m < 65536) (ts : List Str) (t : Str)
    (hfull : ((Out.new m).after ts).internal.length = m)
    (hnew : assocGet ((Out.new m).after ts).internal t = none) :
    ((Out.new m).after ts).set t = ((Out.new m).after ts, 0, false) := by
  have hinv := inv_after (inv_new m hm) ts
  apply set_full hinv t _ hnew
  rw [after_maximum, new_maximum m hm]; exact hfull

/-- the keys of a reachable table are topics of the sequence -/
theorem key_mem_sequence (m : Nat) (hm : m < 65536) (ts : List Str) (t : Str) (ht : t ∉ ts) :
    assocGet ((Out.new m).after ts).internal t = none := by
  cases hg : assocGet ((Out.new m).after ts).internal t with
  | none => rfl
  | some x =>
    obtain ⟨p, hp, _⟩ := (bound_iff_earlier m hm ts t x).1 hg
    exact absurd (List.IsPrefix.mem (by simp) hp) ht

/-- … and the table does fill up: `maximum` or more pairwise different topics take all the aliases, after
    which every further topic is answered 0 -/
theorem C24_out_full_table_reached (m : Nat) (hm : m < 65536) (ts : List Str) (t : Str)
    (hn : ts.Nodup) (hlen : m ≤ ts.length) (ht : t ∉ ts) :
    ((Out.new m).after ts).internal.length = m ∧
    ((Out.new m).after ts).set t = ((Out.new m).after ts, 0, false) := by
  have hl : ((Out.new m).after ts).internal.length = m := by
    rw [after_length (inv_new m hm) ts (fun _ _ => rfl) hn, new_maximum m hm]
    simp only [Out.new, List.length_nil]
    omega
  exact ⟨hl, C24_out_full_table m hm ts t hl (key_mem_sequence m hm ts t ht)⟩

/-- the boundary the widths are about: at Topic Alias Maximum 65535, after 65535 different topics, the
    next topic is answered 0 and nothing is stored (`uint16(65535)+1` is never computed) -/
theorem C24_out_full_table_65535 :
    let ts := (List.range 65535).map (fun k => [k])
    ((Out.new 65535).after ts).internal.length = 65535 ∧
    ((Out.new 65535).after ts).set [65535] = ((Out.new 65535).after ts, 0, false) := by
  intro ts
  refine C24_out_full_table_reached 65535 (by omega) ts [65535] ?_ (by simp [ts]) ?_
  · show List.Pairwise (· ≠ ·) _
    rw [List.pairwise_map]
    exact (List.nodup_range (n := 65535)).imp (fun h e => h (by simpa using e))
  · simp [ts]

/-- the relation between a width-faithful table and the alias fields of the broker model's client -/
def Rel (a : Out) (c : Client) : Prop :=
  c.tam = a.maximum ∧ c.aliasOut = a.internal ∧ c.aliasCursor = a.cursor

/-- the broker model's `aliasOutSet` iterated -/
def natAfter (c : Client) (ts : List Str) : Client := ts.foldl (fun c t => (aliasOutSet c t).1) c

/-- for every maximum a uint16 can hold, the width-faithful `Out.set` and the unbounded-`Nat`
    `aliasOutSet` of the broker model agree on the alias, the existed flag and the next state -/
theorem C24_out_refines_nat (m : Nat) (hm : m < 65536) (ts : List Str) (c : Client)
    (hr : Rel ((Out.new m).after ts) c) (t : Str) :
    (aliasOutSet c t).2.1 = (((Out.new m).after ts).set t).2.1 ∧
    (aliasOutSet c t).2.2 = (((Out.new m).after ts).set t).2.2 ∧
    Rel (((Out.new m).after ts).set t).1 (aliasOutSet c t).1 := by
  have hinv := inv_after (inv_new m hm) ts
  rw [set_eq_setNat hinv]
  generalize (Out.new m).after ts = a at hr hinv
  obtain ⟨h1, h2, h3⟩ := hr
  unfold Out.setNat aliasOutSet
  simp only [h1, h2, h3]
  by_cases hz : (a.maximum == 0) = true
  · simp [hz, Rel, h1, h2, h3]
  · cases hg : assocGet a.internal t with
    | some i => simp [hz, Rel, h1, h2, h3]
    | none =>
      by_cases hgt : a.cursor + 1 > a.maximum
      · simp [hz, hgt, Rel, h1, h2, h3]
      · simp [hz, hgt, Rel]

/-- hence over whole sequences from the empty table: the broker model's client and the width-faithful
    table stay related -/
theorem C24_out_refines_nat_run (m : Nat) (hm : m < 65536) (ts : List Str) (c : Client)
    (h1 : c.tam = m) (h2 : c.aliasOut = []) (h3 : c.aliasCursor = 0) :
    Rel ((Out.new m).after ts) (natAfter c ts) := by
  induction ts using list_snoc_induction with
  | nil =>
    show Rel (Out.new m) c
    exact ⟨by rw [new_maximum m hm]; exact h1, h2, h3⟩
  | snoc ts t ih =>
    rw [after_snoc]
    have : natAfter c (ts ++ [t]) = (aliasOutSet (natAfter c ts) t).1 := by
      simp [natAfter, List.foldl_append]
    rw [this]
    exact (C24_out_refines_nat m hm ts _ ih t).2.2

theorem in_after_maximum (a : In) (ops : List (Nat × Str)) : (a.after ops).maximum = a.maximum := by
  induction ops generalizing a with
  | nil => rfl
  | cons o ops ih => rw [in_after_cons, ih, in_set_maximum]

/-- inbound: an alias presented with an empty topic resolves to the topic last bound to it on this
    table (to the empty topic — which `processPublish` rejects — when none was) -/
theorem C24_in_resolves_last_binding (m : Nat) (h0 : 0 < m) (hm : m < 65536) (ops : List (Nat × Str)) (id : Nat) :
    (((In.new m).after ops).set id []).2 = (lastBinding ops id).getD [] ∧
    (∀ t, t ≠ [] → (((In.new m).after ops).set id t).2 = t ∧
        ((((In.new m).after ops).set id t).1.set id []).2 = t) := by
  have hmax : (In.new m).maximum ≠ 0 := by
    simp only [In.new, u16_of_lt hm]; omega
  have key : ∀ ops : List (Nat × Str), (((In.new m).after ops).set id []).2 = (lastBinding ops id).getD [] := by
    intro ops
    have hg := in_after_get (In.new m) hmax ops id none rfl
    have hz : (((In.new m).after ops).maximum == 0) = false := by
      rw [in_after_maximum]; simpa using hmax
    unfold In.set lastBinding
    simp only [hz]
    cases hc : assocGet ((In.new m).after ops).internal id with
    | some e => rw [hc] at hg; simpa using hg
    | none => rw [hc] at hg; simpa using hg
  refine ⟨key ops, ?_⟩
  intro t ht
  have hz : (((In.new m).after ops).maximum == 0) = false := by
    rw [in_after_maximum]; simpa using hmax
  have hret : (((In.new m).after ops).set id t).2 = t := by
    unfold In.set
    simp only [hz]
    cases hc : assocGet ((In.new m).after ops).internal id <;> simp [ht]
  refine ⟨hret, ?_⟩
  have := key (ops ++ [(id, t)])
  simp only [In.after, List.foldl_append, List.foldl_cons, List.foldl_nil, lastBinding] at this
  simp only [In.after]
  rw [this]
  simp [ht]

/-- inbound with maximum 0: the topic is returned unchanged and nothing is stored -/
theorem C24_in_zero_maximum (ops : List (Nat × Str)) (id : Nat) (t : Str) :
    (In.new 0).after ops = In.new 0 ∧ (((In.new 0).after ops).set id t) = (In.new 0, t) := by
  have h : ∀ ops : List (Nat × Str), (In.new 0).after ops = In.new 0 := by
    intro ops
    induction ops with
    | nil => rfl
    | cons o ops ih => rw [in_after_cons]; exact ih
  rw [h]; exact ⟨rfl, rfl⟩

/-- why the widths matter. The seeded regression computes the alias in uint16 BEFORE the bound check
    (`Out.setWrapped`). On a full table of maximum 65535 (cursor 65535) where `t0` holds alias 1: the real
    `Set` answers a new topic with 0 and stores nothing; the wrapped one stores "alias 0" for the first new
    topic `t1` and then hands alias 1 — still held by `t0` — to the second new topic `t2`. -/
theorem C24_out_wrapped_counterexample (a : Out) (t0 t1 t2 : Str)
    (hmax : a.maximum = 65535) (hcur : a.cursor = 65535)
    (h0 : assocGet a.internal t0 = some 1) (h1 : assocGet a.internal t1 = none)
    (h2 : assocGet a.internal t2 = none) (h12 : t1 ≠ t2) :
    a.set t1 = (a, 0, false) ∧
    (a.setWrapped t1).2 = (0, false) ∧
    assocGet (a.setWrapped t1).1.internal t1 = some 0 ∧
    ((a.setWrapped t1).1.setWrapped t2).2 = (1, false) ∧
    assocGet ((a.setWrapped t1).1.setWrapped t2).1.internal t0 = some 1 ∧
    assocGet ((a.setWrapped t1).1.setWrapped t2).1.internal t2 = some 1 ∧
    t0 ≠ t2 := by
  have hne : t0 ≠ t2 := by
    intro e; subst e; rw [h0] at h2; cases h2
  have e1 : a.setWrapped t1 =
      ({ a with internal := a.internal ++ [(t1, 0)], cursor := 65536 }, 0, false) := by
    unfold Out.setWrapped
    simp [hmax, hcur, h1, u16, u32]
  have hget2 : assocGet (a.internal ++ [(t1, 0)]) t2 = none := by
    rw [assocGet_append, h2]; simp [assocGet, h12]
  have e2 : (a.setWrapped t1).1.setWrapped t2 =
      ({ a with internal := a.internal ++ [(t1, 0)] ++ [(t2, 1)], cursor := 65537 }, 1, false) := by
    rw [e1]
    unfold Out.setWrapped
    simp [hmax, hget2, u16, u32]
  refine ⟨?_, ?_, ?_, ?_, ?_, ?_, hne⟩
  · unfold Out.set
    simp [hmax, hcur, h1, u32]
  · rw [e1]
  · rw [e1]; show assocGet (a.internal ++ [(t1, 0)]) t1 = some 0
    rw [assocGet_append, h1]; simp [assocGet]
  · rw [e2]
  · rw [e2]; show assocGet (a.internal ++ [(t1, 0)] ++ [(t2, 1)]) t0 = some 1
    rw [assocGet_append, assocGet_append, h0]; rfl
  · rw [e2]; show assocGet (a.internal ++ [(t1, 0)] ++ [(t2, 1)]) t2 = some 1
    rw [assocGet_append, hget2]; simp [assocGet]

/-! ### non-vacuity -/

/-- maximum 2, topics a b a c b: two bindings, `a` and `b` found again, `c` answered 0 -/
example : ((Out.new 2).run [[97], [98], [97], [99], [98]]).2 =
    [(1, false), (2, false), (1, true), (0, false), (2, true)] := by decide

example : ((Out.new 0).run [[97], [97]]).2 = [(0, false), (0, false)] := by decide

/-- the hypotheses of `C24_out_existed_iff_bound` are met: `a` was bound by the first call -/
example : ([] ++ [[97]]) <+: [[97], [98]] ∧ (((Out.new 2).after []).set [97]).2.1 ≠ 0 :=
  ⟨⟨[[98]], rfl⟩, by decide⟩

/-- the hypotheses of `C24_out_wrapped_counterexample` are met by a table (the one 65535 calls build has
    exactly this shape: `C24_out_full_table_65535`) -/
example : ∃ a : Out, a.maximum = 65535 ∧ a.cursor = 65535 ∧ assocGet a.internal [0] = some 1 ∧
    assocGet a.internal [1] = none ∧ assocGet a.internal [2] = none :=
  ⟨{ maximum := 65535, cursor := 65535, internal := [([0], 1)] }, rfl, rfl, by decide, by decide, by decide⟩

/-- the one-pass fill used by the driver and `Set` agree on an instance that crosses the boundary -/
example : (Out.new 3).fillFresh [[1], [2], [3], [4], [5]] =
    (((Out.new 3).run [[1], [2], [3], [4], [5]]).1, [1, 2, 3, 0, 0]) := by decide

/-- inbound: bind 5 to "a", rebind to "b", resolve with an empty topic; an unbound id resolves to "" -/
example : (((In.new 10).after [(5, [97]), (5, []), (5, [98]), (7, [99])]).set 5 []).2 = [98] := by decide
example : (((In.new 10).after [(5, [97])]).set 6 []).2 = [] := by decide

end Mochi.Alias

/-! ## The receiver's view over histories (`Mochi/Lemmas/BrokerAlias.lean`, namespace `A24`)

`A24.seenBindings outs conn` is what the peer of `conn` has learnt from the PUBLISH packets written to it,
`A24.Resolvable view m` says a written PUBLISH names its topic or carries an alias bound in the view,
`A24.AliasSync s outs` says the outbound alias table of every live aliased client is contained in its peer's view.
`AliasSync` is FALSE in general — the two excluded classes first, each with a history by `decide`. -/
namespace Mochi.Broker
open Mochi.Topics A24

/-- F24a: subscriber on connection 1 (Topic Alias Maximum 5, Receive Maximum 1) -/
def A24.demoF24a : List Op :=
  [.connect 1 { ver := 5, id := [115], tam := some 5, rm := some 1 },
   .recv 1 (.subscribe 1 0 [{ filter := [116, 49], qos := 1 }, { filter := [116, 50], qos := 1 }]),
   .connect 2 { ver := 5, id := [112] },
   .recv 2 (.publish 1 false false 1 [116, 49] [97] 0 none),
   .recv 2 (.publish 1 false false 2 [116, 50] [98] 0 none),
   .recv 2 (.publish 0 false false 0 [116, 50] [99] 0 none),
   .recv 1 (.puback 1 0)]

set_option maxRecDepth 100000 in
/-- F24a (Go behaviour: server.go `publishToClient` — the alias is registered at lines 1084–1093
    (`Outbound.Set(pk.TopicName)`) BEFORE the copy is deferred at lines 1121–1125 (`sentQuota == 0 …: out.Expiry = -1;
    Inflight.Set(out); return`) or dropped at 1096–1110).  The QoS 1 message on `t2` is shaped with alias 2 + topic and
    deferred (send quota 0); the next message on `t2` (QoS 0) is written with alias 2 and NO topic: the receiver has never
    seen alias 2.  Nothing was dropped (`inflightDropped = 0`); the history is outside the class only because the aliased
    client has a Receive Maximum.  The binding arrives one op later, when the PUBACK releases the deferred copy. -/
theorem C24_F24a_deferred_counterexample :
    let ops := A24.demoF24a.take 6
    let outs := runOuts (init {}) ops
    OpsFresh (init {}) A24.demoF24a ∧ ¬ OpsClass (init {}) ops ∧
    (run (init {}) ops).info.inflightDropped = 0 ∧
    (unresolved [] outs).map (fun e => (e.1, e.2.topic, e.2.alias, e.2.payload)) = [(1, [], 2, [99])] ∧
    seenBindings outs 1 = [(1, [116, 49])] ∧
    (getObj (run (init {}) ops) 1).aliasOut = [([116, 49], 1), ([116, 50], 2)] ∧
    ¬ AliasSync (run (init {}) ops) outs ∧
    seenBindings (runOuts (init {}) A24.demoF24a) 1 = [(1, [116, 49]), (2, [116, 50])] := by
  intro ops outs
  refine ⟨by decide, by decide, by decide, by decide, by decide, by decide, ?_, by decide⟩
  intro h
  exact absurd (h 1 (by decide) (by decide) [116, 50] 2 (by decide) (by decide)) (by decide)

/-- F24b: a session with one stored alias-only PUBLISH is resumed on a new connection -/
def A24.demoF24b : List Op :=
  [.connect 1 { ver := 5, id := [115], clean := false, sei := some 100, tam := some 5 },
   .recv 1 (.subscribe 1 0 [{ filter := [116], qos := 1 }]),
   .connect 2 { ver := 5, id := [112] },
   .recv 2 (.publish 1 false false 1 [116] [97] 0 none),
   .recv 2 (.publish 1 false false 2 [116] [98] 0 none),
   .recv 1 (.puback 1 0),
   .drop 1,
   .connect 3 { ver := 5, id := [115], clean := false, sei := some 100, tam := some 5 }]

set_option maxRecDepth 100000 in
/-- F24b (Go behaviour: server.go `inheritClientSession` line 586 `cl.State.Inflight = existing.State.Inflight.Clone()`,
    clients.go `ResendInflightMessages` lines 315–321 write the stored packets verbatim, while clients.go line 240
    `ParseConnect` gives the new connection a FRESH outbound alias table).  The history is inside the class (nothing
    dropped, nothing deferred, `AliasSync` keeps holding — the new table is empty) and every PUBLISH of the first seven ops
    is resolvable; the resumed connection 3 is sent the stored packet id 2 with alias 1 and no topic, and its view is
    empty. -/
theorem C24_F24b_resumption_counterexample :
    let ops := A24.demoF24b
    let outs := runOuts (init {}) ops
    OpsFresh (init {}) ops ∧ OpsClass (init {}) ops ∧
    (unresolved [] (runOuts (init {}) (ops.take 7))).isEmpty = true ∧
    (unresolved [] outs).map (fun e => (e.1, e.2.id, e.2.dup, e.2.topic, e.2.alias, e.2.payload)) =
      [(3, 2, true, [], 1, [98])] ∧
    seenBindings outs 1 = [(1, [116])] ∧ seenBindings outs 3 = [] ∧
    (getObj (run (init {}) ops) 3).aliasOut = [] := by
  intro ops outs
  refine ⟨by decide, by decide, by decide, by decide, by decide, by decide, by decide⟩

/-- inside the class: Topic Alias Maximum 2, three topics, QoS 0/1/2 -/
def A24.demoOK : List Op :=
  [.connect 1 { ver := 5, id := [115], tam := some 2 },
   .recv 1 (.subscribe 1 0 [{ filter := [116, 47, 35], qos := 1 }]),
   .connect 2 { ver := 5, id := [112] },
   .recv 2 (.publish 1 false false 1 [116, 47, 49] [97] 0 none),
   .recv 2 (.publish 0 false false 0 [116, 47, 49] [98] 0 none),
   .recv 2 (.publish 1 false true 2 [116, 47, 50] [99] 0 none),
   .recv 2 (.publish 2 false false 3 [116, 47, 51] [100] 0 none),
   .recv 2 (.publish 0 false false 0 [116, 47, 50] [101] 0 none)]

set_option maxRecDepth 100000 in
/-- non-vacuity: the history is fresh and in the class, aliases ARE used (two alias-only packets, the third topic gets
    no alias: the table is full), every PUBLISH is resolvable and the view equals the table -/
theorem C24_history_demo :
    let outs := runOuts (init {}) A24.demoOK
    OpsFresh (init {}) A24.demoOK ∧ OpsClass (init {}) A24.demoOK ∧
    (unresolved [] outs).isEmpty = true ∧
    (outs.filterMap fun x => match x with
      | .wrote n (.publish _ m _) => some (n, m.id, m.topic, m.alias) | _ => none) =
      [(1, 1, [116, 47, 49], 1), (1, 0, [], 1), (1, 2, [116, 47, 50], 2), (1, 3, [116, 47, 51], 0), (1, 0, [], 2)] ∧
    seenBindings outs 1 = [(1, [116, 47, 49]), (2, [116, 47, 50])] ∧
    (getObj (run (init {}) A24.demoOK) 1).aliasOut = [([116, 47, 49], 1), ([116, 47, 50], 2)] := by
  intro outs
  refine ⟨by decide, by decide, by decide, by decide, by decide, by decide⟩

/-- C24 at the level of one routed message (`publishToSubscribers`: every delivery of an inbound PUBLISH, a will, an
    inline publish), PARTIAL: on the class where nothing is dropped by this routing (`info.inflightDropped` unchanged:
    no in-flight limit hit, no packet-id exhaustion — server.go 1096–1110) and no aliased client has a Receive Maximum
    (`Calm`: no deferral — server.go 1121–1125), for a PUBLISH with a non-empty topic, the receiver's view stays in step
    with every live client's outbound alias table, and every PUBLISH written is resolvable in the view accumulated up to
    and including itself.  Outside the class both fail: `C24_F24a_deferred_counterexample`. -/
theorem C24_alias_sync_deliver_partial (s : Server) (pk : Msg) (pre : List Out)
    (hty : pk.type = 3) (hne : pk.topic ≠ [])
    (hcalm : ∀ k, Calm (getObj s k))
    (hnd : (publishToSubscribers s pk).1.info.inflightDropped = s.info.inflightDropped)
    (hs : AliasSync s pre) :
    AliasSync (publishToSubscribers s pk).1 (pre ++ (publishToSubscribers s pk).2) ∧
    ResOuts pre (publishToSubscribers s pk).2 ∧
    (∀ k, Calm (getObj (publishToSubscribers s pk).1 k)) :=
  let h := publishToSubscribers_ah s pk hty hne
  ⟨(h.sync hnd hcalm pre hs).1, (h.sync hnd hcalm pre hs).2, h.calm hcalm⟩

/-- the same for one delivery (`publishToClientCore`), where the three excluded outcomes are visible: the copy is
    dropped (counter), deferred (excluded by `Calm`), or the client is not live (then nothing is claimed for it) -/
theorem C24_alias_sync_core_partial (s : Server) (i : Nat) (sub : Sub) (f : Bool) (pk : Msg) (pre : List Out)
    (hty : pk.type = 3) (hne : pk.topic ≠ [])
    (hcalm : ∀ k, Calm (getObj s k))
    (hnd : (publishToClientCore s i sub f pk).1.info.inflightDropped = s.info.inflightDropped)
    (hs : AliasSync s pre) :
    AliasSync (publishToClientCore s i sub f pk).1 (pre ++ (publishToClientCore s i sub f pk).2) ∧
    ResOuts pre (publishToClientCore s i sub f pk).2 :=
  (publishToClientCore_ah s i sub f pk hty hne).sync hnd hcalm pre hs

/-- `AliasSync` holds initially (no client has a table) -/
theorem C24_alias_sync_init (caps : Caps) : AliasSync (init caps) [] := by
  intro k hl ht
  exfalso
  have : (getObj (init caps) k).tam = 0 := by
    simp only [getObj, init, List.getD_eq_getElem?_getD]
    cases k with
    | zero => rfl
    | succ n => rfl
  omega

/-- QoS 0 (the message or the subscription has QoS 0): the copy is written in the call that shapes it — nothing can be
    dropped, so the drop hypothesis of `C24_alias_sync_core_partial` is not needed (the `Calm` hypothesis is still
    carried by the relation `A24.AH`, although no QoS 0 copy is ever deferred) -/
theorem C24_qos0_core_resolvable_partial (s : Server) (i : Nat) (sub : Sub) (f : Bool) (pk : Msg) (pre : List Out)
    (hq : pk.qos = 0 ∨ sub.qos = 0) (hty : pk.type = 3) (hne : pk.topic ≠ [])
    (hcalm : ∀ k, Calm (getObj s k)) (hs : AliasSync s pre) :
    AliasSync (publishToClientCore s i sub f pk).1 (pre ++ (publishToClientCore s i sub f pk).2) ∧
    ResOuts pre (publishToClientCore s i sub f pk).2 := by
  have hnd : (publishToClientCore s i sub f pk).1.info.inflightDropped = s.info.inflightDropped := by
    obtain ⟨c1, m, _, _, he⟩ := publishToClientCore_q0 s i sub f pk hq
    rw [he]; rfl
  exact C24_alias_sync_core_partial s i sub f pk pre hty hne hcalm hnd hs

end Mochi.Broker

