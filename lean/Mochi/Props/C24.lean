import Mochi.Model.Broker
/-!
# C24 — Topic aliases are always resolvable by the receiver

Model: `aliasOutSet` (topics.go `OutboundTopicAliases.Set`) and the inbound alias handling of
`processPublish` / `publishValidate`.
Known findings F24a/F24b (recorded): the alias is registered when the message is *shaped*, before it
is known to be written (deferred by flow control, dropped, or stored and resent on a new connection),
so a later packet can carry an alias the client never saw bound — exhibited by the independent
decoder of the correspondence harness.
-/
namespace Mochi.Broker
open Mochi.Topics

/-- outbound alias values never exceed the client's Topic Alias Maximum and none is used when it is 0 -/
theorem C24_alias_bound (c : Client) (topic : Str) (hinv : ∀ t a, assocGet c.aliasOut t = some a → a ≤ c.tam) :
    (aliasOutSet c topic).2.1 ≤ c.tam := by
  unfold aliasOutSet
  split
  · simp
  · split
    · rename_i a ha; exact hinv topic a ha
    · split
      · simp
      · simp; omega

theorem C24_no_alias_when_zero (c : Client) (topic : Str) (h : c.tam = 0) : (aliasOutSet c topic).2.1 = 0 := by
  unfold aliasOutSet; simp [h]

/-- an existing binding is reported as existing (so the topic may be omitted), a new one as new -/
theorem C24_new_binding_carries_topic (c : Client) (topic : Str) (h : assocGet c.aliasOut topic = none) :
    (aliasOutSet c topic).2.2 = false := by
  unfold aliasOutSet
  split
  · rfl
  · simp only [h]
    split <;> rfl

/-- inbound: an alias above the server's maximum is rejected before routing -/
theorem C24_inbound_above_max (s : Server) (q id : Nat) (topic : Str) (a : Nat)
    (hq : ¬ (q > 0 ∧ id = 0)) (hq0 : ¬ (q = 0 ∧ id > 0)) (hw : topic.contains plus = false ∧ topic.contains hash = false)
    (h : a > s.caps.topicAliasMaximum) : publishValidate s q id topic (some a) = some 0x94 := by
  unfold publishValidate
  have h1 : (decide (q > 0) && id == 0) = false := by
    by_cases hh : q > 0 <;> by_cases hi : id = 0 <;> simp_all
  have h2 : (q == 0 && decide (id > 0)) = false := by
    by_cases hh : q = 0 <;> by_cases hi : id > 0 <;> simp_all
  have w1 : ¬ plus ∈ topic := by simpa using hw.1
  have w2 : ¬ hash ∈ topic := by simpa using hw.2
  simp [h1, h2, w1, w2, h]

/-- inbound: an empty topic with no alias at all is rejected -/
theorem C24_inbound_no_topic (s : Server) (q id : Nat)
    (hq : ¬ (q > 0 ∧ id = 0)) (hq0 : ¬ (q = 0 ∧ id > 0)) : publishValidate s q id [] none = some 0x82 := by
  unfold publishValidate
  have h1 : (decide (q > 0) && id == 0) = false := by
    by_cases hh : q > 0 <;> by_cases hi : id = 0 <;> simp_all
  have h2 : (q == 0 && decide (id > 0)) = false := by
    by_cases hh : q = 0 <;> by_cases hi : id > 0 <;> simp_all
  simp [h1, h2]

end Mochi.Broker
