import Mochi.Model.Broker
/-!
# C24 — Topic aliases are always resolvable by the receiver

Model: `aliasOutSet` (topics.go `OutboundTopicAliases.Set`) and the inbound alias handling of
`processPublish` / `publishValidate`.
Known findings F24a/F24b (recorded): the alias is registered when the message is *shaped*, before it
is known to be written (deferred by flow control, dropped, or stored and resent on a new connection),
so a later packet can carry an alias the client never saw bound — exhibited by the independent
decoder of the correspondence harness.
-/
namespace Mochi.Broker
open Mochi.Topics

/-- outbound alias values never exceed the client's Topic Alias Maximum and none is used when it is 0 -/
theorem C24_alias_bound (c : Client) (topic : Str) (hinv : ∀ t a, assocGet c.aliasOut t = some a → a ≤ c.tam) :
    (aliasOutSet c topic).2.1 ≤ c.tam := by
  unfold aliasOutSet
  split
  · simp
  · split
    · rename_i a ha; exact hinv topic a ha
    · split
      · simp
      · simp; omega

theorem C24_no_alias_when_zero (c : Client) (topic : Str) (h : c.tam = 0) : (aliasOutSet c topic).2.1 = 0 := by
  unfold aliasOutSet; simp [h]

/-- an existing binding is reported as existing (so the topic may be omitted), a new one as new -/
theorem C24_new_binding_carries_topic (c : Client) (topic : Str) (h : assocGet c.aliasOut topic = none) :
    (aliasOutSet c topic).2.2 = false := by
  unfold aliasOutSet
  split
  · rfl
  · simp only [h]
    split <;> rfl

/-- inbound: an alias above the server's maximum is rejected before routing -/
theorem C24_inbound_above_max (s : Server) (q id : Nat) (topic : Str) (a : Nat)
    (hq : ¬ (q > 0 ∧ id = 0)) (hq0 : ¬ (q = 0 ∧ id > 0)) (hw : topic.contains plus = false ∧ topic.contains hash = false)
    (h : a > s.caps.topicAliasMaximum) : publishValidate s q id topic (some a) = some 0x94 := by
  unfold publishValidate
  have h1 : (decide (q > 0) && id == 0) = false := by
    by_cases hh : q > 0 <;> by_cases hi : id = 0 <;> simp_all
  have h2 : (q == 0 && decide (id > 0)) = false := by
    by_cases hh : q = 0 <;> by_cases hi : id > 0 <;> simp_all
  have w1 : ¬ plus ∈ topic := by simpa using hw.1
  have w2 : ¬ hash ∈ topic := by simpa using hw.2
  simp [h1, h2, w1, w2, h]

/-- inbound: an empty topic with no alias at all is rejected -/
theorem C24_inbound_no_topic (s : Server) (q id : Nat)
    (hq : ¬ (q > 0 ∧ id = 0)) (hq0 : ¬ (q = 0 ∧ id > 0)) : publishValidate s q id [] none = some 0x82 := by
  unfold publishValidate
  have h1 : (decide (q > 0) && id == 0) = false := by
    by_cases hh : q > 0 <;> by_cases hi : id = 0 <;> simp_all
  have h2 : (q == 0 && decide (id > 0)) = false := by
    by_cases hh : q = 0 <;> by_cases hi : id > 0 <;> simp_all
  simp [h1, h2]

/-- `DisconnectClient` retains nothing -/
theorem disconnectClient_rmsgs (s : Server) (i code : Nat) : (disconnectClient s i code).1.rmsgs = s.rmsgs := by
  unfold disconnectClient stopClient
  extract_lets c w
  split
  rename_i s' o heq
  split at heq
  · cases heq; rfl
  · cases heq; rfl

/-- `DisconnectClient` writes a DISCONNECT (and closes), never a PUBLISH -/
theorem disconnectClient_no_publish (s : Server) (i code n ver : Nat) (m : Msg) (me : Bool) :
    Out.wrote n (.publish ver m me) ∉ (disconnectClient s i code).2 := by
  unfold disconnectClient stopClient
  extract_lets c w
  split
  rename_i s' o heq
  intro hm
  rcases List.mem_append.mp hm with h | h
  · simp only [w] at h
    split at h
    · simp at h
    · cases h
  · split at heq
    · cases heq; cases h
    · cases heq
      split at h
      · cases h
      · simp at h

/-- the unbound-alias exit of `processPublish`: the whole handler is a `disconnectClient … 0x82` on a state with the
    retained messages of the start state -/
theorem processPublish_unbound_alias_shape (s : Server) (i q id : Nat) (dup retain : Bool) (payload : Str) (msgExpiry a : Nat)
    (hinl : (getObj s i).inline = false) (hquota : (getObj s i).recvQuota ≠ 0)
    (hacl : aclOk s (getObj s i).id [] true = true)
    (hfl : ∀ m, flGet (getObj s i) id = some m → (m.type == 5) = false)
    (hmax : s.caps.topicAliasMaximum > 0) (ha : a > 0)
    (hunbound : assocGet (getObj s i).aliasIn a = none) :
    ∃ s1 : Server, s1.rmsgs = s.rmsgs ∧
      processPublish s i q dup retain id [] payload msgExpiry (some a) =
        ((disconnectClient s1 i 0x82).1, (disconnectClient s1 i 0x82).2, some 0x82) := by
  have hv : isValidFilter [] true = true := by decide
  unfold processPublish
  extract_lets +onlyGivenNames c
  have hinl' : c.inline = false := hinl
  have hq : ¬ (c.recvQuota == 0) = true := by simpa using hquota
  have hacl' : aclOk s c.id [] true = true := hacl
  rw [if_neg (by simp [hinl', hv]), if_neg hq, if_neg (by simp [hacl'])]
  extract_lets +onlyGivenNames e pk pre
  have hpre : pre = none := by
    simp only [pre]
    rw [if_neg (by simp [hinl'])]
    split
    · rename_i pki hg
      rw [if_neg (by simp [hfl pki hg])]
    · rfl
  generalize pre = pre' at hpre
  split
  · cases hpre
  clear hpre
  split
  rename_i s1 c1 heq
  have h1 : s1.rmsgs = s.rmsgs ∧ s1.caps = s.caps ∧ c1.inline = false ∧ c1.aliasIn = c.aliasIn := by
    split at heq
    · cases heq; exact ⟨rfl, rfl, hinl', rfl⟩
    · cases heq; exact ⟨rfl, rfl, hinl', rfl⟩
  clear heq
  obtain ⟨hr1, hcaps1, hinl1, hal1⟩ := h1
  have hm0 : ¬ (s1.caps.topicAliasMaximum == 0) = true := by
    rw [hcaps1]; simp; omega
  have hub : assocGet c1.aliasIn a = none := by rw [hal1]; exact hunbound
  simp only [if_pos ha, if_neg hm0, hub]
  rw [if_pos (by simp [hinl1, pk])]
  exact ⟨setObj s1 i { c1 with aliasIn := assocSet c1.aliasIn a [] }, hr1, rfl⟩

/-- inbound: an empty topic with an alias that is not bound on the connection is a protocol error: DISCONNECT 0x82,
    nothing is routed (no PUBLISH written to any connection) and nothing is retained -/
theorem C24_inbound_unbound_alias (s : Server) (i q id : Nat) (dup retain : Bool) (payload : Str) (msgExpiry a : Nat)
    (hinl : (getObj s i).inline = false) (hquota : (getObj s i).recvQuota ≠ 0)
    (hacl : aclOk s (getObj s i).id [] true = true)
    (hfl : ∀ m, flGet (getObj s i) id = some m → (m.type == 5) = false)
    (hmax : s.caps.topicAliasMaximum > 0) (ha : a > 0)
    (hunbound : assocGet (getObj s i).aliasIn a = none) :
    (processPublish s i q dup retain id [] payload msgExpiry (some a)).2.2 = some 0x82 ∧
    (∀ n ver m me, Out.wrote n (.publish ver m me) ∉ (processPublish s i q dup retain id [] payload msgExpiry (some a)).2.1) ∧
    (processPublish s i q dup retain id [] payload msgExpiry (some a)).1.rmsgs = s.rmsgs := by
  obtain ⟨s1, hr, he⟩ := processPublish_unbound_alias_shape s i q id dup retain payload msgExpiry a hinl hquota hacl hfl hmax ha hunbound
  rw [he]
  exact ⟨rfl, fun n ver m me => disconnectClient_no_publish s1 i 0x82 n ver m me,
         (disconnectClient_rmsgs s1 i 0x82).trans hr⟩

/-- non-vacuity: the hypotheses of `C24_inbound_unbound_alias` hold for a fresh MQTT 5 connection with quota -/
example : (processPublish { objs := [{ ver := 5, recvQuota := 1 }] } 0 0 false false 0 [] [1] 0 (some 3)).2 =
    ([.wrote 0 (.disconnect 5 0x82), .closed 0], some 0x82) := by decide

end Mochi.Broker
