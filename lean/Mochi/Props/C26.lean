import Mochi.Lemmas.PacketRoundtripSub
import Mochi.Lemmas.PacketRoundtripConnect
import Mochi.Lemmas.CodecNoPanic
/-!
# C26 — Packet codec round-trips every well-formed packet

Model: `encodePacket` / `decodeBody` (packets/*.go after "fix: acknowledgement encoder keeps non-zero
success reason codes").  Everything below is proved for **every** packet, string, list and number —
no enumeration, no `native_decide`.

## What is proved

* **The full statement** `C26_roundtrip : C26_full_statement normPacket WFPacket` — for every protocol
  version and all fifteen packet types: a well-formed packet is encoded as header byte, variable-byte
  remaining length and body; the header byte decodes to the packet's type and flags; the body,
  decoded with that exact remaining length, is the packet modulo the encoder's documented suppression
  (`normPacket`).  `C26_roundTrips` is the same with the body named (`bodyOf pk`), `C26_remaining_exact`
  adds that `DecodeLength` on the bytes behind the header byte returns exactly the number of bytes
  that follow, and `C26_remaining_length` (older, kept) is the length law without well-formedness.
* **Per type** (`Lemmas/PacketRoundtrip*.lean`): `C26_connect_roundtrip` (flag byte, will block with
  will properties, user name, password), `C26_connack_roundtrip`, `C26_publish_roundtrip` (all
  versions, QoS 0–2, MQTT 5 property block), `C26_ack_roundtrip` (PUBACK, PUBREC, PUBREL, PUBCOMP: the
  three wire shapes identifier / +reason code / +property block), `C26_subscribe_roundtrip` (filter
  loop, subscription-options byte), `C26_suback_roundtrip`, `C26_unsubscribe_roundtrip`,
  `C26_unsuback_roundtrip`, `C26_ping_roundtrip`, `C26_disconnect_roundtrip`, `C26_auth_roundtrip`, each of the
  form `WF… pk → RoundTrips pk (…Body pk) (…Norm pk)`; `header_roundtrip` for the fixed header byte.
* **Property block** (`Lemmas/PropsRoundtrip.lean`): `props_roundtrip` — for every packet type `pkt`,
  `WFProps p → propsBodyLen … ≤ maxVBI → propsDecode pkt (propsEncode pkt mods n p ++ rest) =
  .ok (normProps pkt mods n p, (propsEncode pkt mods n p).length)`; built from one lemma per property kind
  (`decodePropValue_byte/_u16/_u32/_str/_bin/_varint/_pair`, `decodePropValue_At`), the loop lemma
  `propsLoop_At` (order and multiplicity of repeated properties kept), `propsDecode_entries`, and the fold
  `foldl_propsToList`.  `normProps = keepProps (propKept …)`: a field keeps its value iff the encoder's
  `if` for its property fires (`propKept` lists the 27 conditions: type permits the property,
  `Mods.AllowResponseInfo`, `Mods.DisallowProblemInfo`, `Mods.MaxSize`, zero/empty values, flags), else zero.
  Small facts: `normProps_default`, `propKept_allowed`, `normProps_user`, `normProps_subIds`, `normProps_wf`,
  `normProps_of_canonical`, `normProps_of_short`, `propsBodyLen_eq` (computable length for `decide`).
* **Well-formedness** (`WFPacket`, decidable — `by decide` works on concrete packets): type 1–15 with
  the flag bits MQTT prescribes; strings valid UTF-8 without NUL and shorter than 65536 bytes, binaries
  shorter than 65536, integers within their wire width, subscription identifiers ≤ 268,435,455, user
  properties pairs of such strings, property block not longer than 268,435,455 bytes (stated with the
  computable `propsBodyLenC`, equal to the real length by `propsBodyLen_eq`); a non-zero
  packet identifier where the encoder demands one (PUBLISH QoS > 0, SUBSCRIBE, UNSUBSCRIBE); QoS ≤ 2
  and retain handling < 4 in subscription options; will QoS < 4; PINGREQ/PINGRESP: `Remaining = 0`.
  Properties the packet type does not permit need **not** be absent: the encoder drops them and
  `normProps` says so.
* **Non-vacuity**: `maxPublish` (MQTT 5 PUBLISH with two user properties, two subscription identifiers,
  multi-byte UTF-8 topic, correlation data, response topic, content type, payload format, message
  expiry, topic alias), `fullConnect`, `fullSubscribe` are well-formed, round-trip by `C26_roundTrips`,
  and `normPacket` changes nothing on them but the remaining length (and drops the encoder options).

## What `normPacket` forgets (all of it the encoder's or the wire format's doing)

encoder options `mods`; below MQTT 5: property block, reason codes of acknowledgements / UNSUBACK /
DISCONNECT; packet identifier of a QoS 0 PUBLISH; CONNECT: reserved flag bit, will fields without the
will flag, user name / password without their flags; UNSUBSCRIBE: everything but the filter string;
SUBSCRIBE: below MQTT 5 everything but filter and QoS, and each filter's `identifier` is (re)set to the
first subscription identifier of the property block; properties: see `propKept`.

## Counterexample (excluded by `WFPing`)

`C26_ping_remaining_counterexample`: PINGREQ/PINGRESP copy `FixedHeader.Remaining` to the wire instead of
computing it (packets.go `PingreqEncode` is just `pk.FixedHeader.Encode(buf)`), so a ping struct with a
stale `Remaining = 5` is encoded as `C0 05` — a length that announces bytes which do not follow.  The
model is faithful to the Go code here; every other encoder computes the length from the body.
-/
namespace Mochi.Codec
open Mochi.Varint

/-- the full-strength statement for one packet (kept visible) -/
def C26_full_statement (norm : Packet → Packet) (WF : Packet → Prop) : Prop :=
  ∀ pk : Packet, WF pk → ∃ hb body, encodePacket pk = .ok (hb :: encodeLength body.length ++ body) ∧
    (fixedHeaderDecode hb).toOption.map (fun fh => decodeBody pk.protocolVersion { fh with remaining := body.length } body)
      = some (.ok (norm pk))

theorem withHeader_shape (pk : Packet) (body : Str) :
    ∃ hb, withHeader pk body = hb :: encodeLength body.length ++ body := by
  exact ⟨(pk.fixedHeader.type * 16) % 256 ||| encodeBool pk.fixedHeader.dup * 8 ||| (pk.fixedHeader.qos * 2) % 256 |||
    encodeBool pk.fixedHeader.retain, by simp [withHeader, fixedHeaderEncode]⟩

/-- **Remaining length**: whatever any encoder writes is a header byte, the variable-byte length of
    the rest, and exactly that many bytes (PINGREQ/PINGRESP: no body, declared length as given). -/
theorem C26_remaining_length (pk : Packet) (bs : Str) (h : encodePacket pk = .ok bs)
    (hping : pk.fixedHeader.type = 12 ∨ pk.fixedHeader.type = 13 → pk.fixedHeader.remaining = 0) :
    ∃ hb body, bs = hb :: encodeLength body.length ++ body := by
  have key : ∀ body, bs = withHeader pk body → ∃ hb body, bs = hb :: encodeLength body.length ++ body := by
    intro body hb
    obtain ⟨x, hx⟩ := withHeader_shape pk body
    exact ⟨x, body, by rw [hb, hx]⟩
  unfold encodePacket at h
  simp only [] at h
  split at h
  · simp only [connectEncode] at h; injection h with h; exact key _ h.symm
  split at h
  · simp only [connackEncode] at h; injection h with h; exact key _ h.symm
  split at h
  · simp only [publishEncode] at h
    split at h
    · simp at h
    · injection h with h
      rw [← h]
      generalize (encodeBytes pk.topicName ++ (if pk.fixedHeader.qos > 0 then encodeUint16 pk.packetID else []) ++
        (if (pk.protocolVersion == 5) = true then _ else [])) = nb
      refine ⟨(pk.fixedHeader.type * 16) % 256 ||| encodeBool pk.fixedHeader.dup * 8 ||| (pk.fixedHeader.qos * 2) % 256 |||
        encodeBool pk.fixedHeader.retain, nb ++ pk.payload, ?_⟩
      simp [fixedHeaderEncode, List.append_assoc]
  split at h
  · simp only [ackEncode] at h; injection h with h; exact key _ h.symm
  split at h
  · simp only [subscribeEncode] at h
    split at h
    · simp at h
    · injection h with h; exact key _ h.symm
  split at h
  · simp only [subackEncode] at h; injection h with h; exact key _ h.symm
  split at h
  · simp only [unsubscribeEncode] at h
    split at h
    · simp at h
    · injection h with h; exact key _ h.symm
  split at h
  · simp only [unsubackEncode] at h; injection h with h; exact key _ h.symm
  split at h
  · rename_i hp
    injection h with h
    have hr : pk.fixedHeader.remaining = 0 := hping (by simpa using hp)
    exact ⟨(pk.fixedHeader.type * 16) % 256 ||| encodeBool pk.fixedHeader.dup * 8 ||| (pk.fixedHeader.qos * 2) % 256 |||
      encodeBool pk.fixedHeader.retain, [], by rw [← h]; simp [fixedHeaderEncode, hr]⟩
  split at h
  · simp only [disconnectEncode] at h; injection h with h; exact key _ h.symm
  split at h
  · simp only [authEncode] at h; injection h with h; exact key _ h.symm
  · simp at h

/-- PUBLISH, MQTT 3.1 / 3.1.1 (no property block): every well-formed packet round-trips -/
theorem C26_publish_v34_partial (ver : Nat) (hv : ver ≠ 5) (fh : FixedHeader) (topic payload : Str) (id : Nat)
    (ht : wfStr topic) (hid : id < 65536) :
    let body := encodeBytes topic ++ (if fh.qos > 0 then encodeUint16 id else []) ++ payload
    decodeBody ver { fh with type := 3, remaining := body.length } body =
      .ok { protocolVersion := ver, fixedHeader := { fh with type := 3, remaining := body.length },
            topicName := topic, packetID := if fh.qos > 0 then id else 0, payload := payload } := by
  intro body
  have hv' : (ver == 5) = false := by simpa using hv
  simp only [decodeBody, beq_self_eq_true, if_true, show (3 == 1) = false from rfl, show (3 == 2) = false from rfl,
    Bool.false_eq_true, if_false, publishDecode]
  have h1 : decodeString body 0 = .ok (topic, 0 + 2 + topic.length) := by
    have := decodeString_at [] topic ((if fh.qos > 0 then encodeUint16 id else []) ++ payload) ht.1 ht.2
    simpa [body, List.append_assoc] using this
  simp only [h1, wrapErr, bind, Except.bind]
  by_cases hq : fh.qos > 0
  · simp only [hq, if_true]
    have h2 : decodeUint16 body (0 + 2 + topic.length) = .ok (id, (0 + 2 + topic.length) + 2) := by
      have := decodeUint16_at (encodeBytes topic) id payload hid
      have hl : (encodeBytes topic).length = 0 + 2 + topic.length := by simp [encodeBytes, encodeUint16]; omega
      rw [hl] at this
      simpa [body, hq, List.append_assoc] using this
    simp only [h2, pure, Except.pure, hv', Bool.false_eq_true, if_false]
    have h3 : sliceFrom body (0 + 2 + topic.length + 2) = .ok payload := by
      unfold sliceFrom
      have hl : body.length = 0 + 2 + topic.length + 2 + payload.length := by
        simp [body, hq, encodeBytes, encodeUint16]; omega
      have : 0 + 2 + topic.length + 2 ≤ body.length := by omega
      simp only [this, if_true]
      congr 1
      have e : body = (encodeBytes topic ++ encodeUint16 id) ++ payload := by simp [body, hq, List.append_assoc]
      rw [e, List.drop_append_of_le_length (by simp [encodeBytes, encodeUint16]; omega)]
      have hl2 : (encodeBytes topic ++ encodeUint16 id).length = 0 + 2 + topic.length + 2 := by
        simp [encodeBytes, encodeUint16]; omega
      rw [← hl2, List.drop_length]; simp
    simp [h3]
  · simp only [hq, if_false, pure, Except.pure, hv', Bool.false_eq_true]
    have h3 : sliceFrom body (0 + 2 + topic.length) = .ok payload := by
      unfold sliceFrom
      have hl : body.length = 0 + 2 + topic.length + payload.length := by
        simp [body, hq, encodeBytes, encodeUint16]; omega
      have : 0 + 2 + topic.length ≤ body.length := by omega
      simp only [this, if_true]
      congr 1
      have e : body = encodeBytes topic ++ payload := by simp [body, hq]
      rw [e]
      have hl2 : (encodeBytes topic).length = 0 + 2 + topic.length := by simp [encodeBytes, encodeUint16]; omega
      rw [← hl2, List.drop_left]
    simp [h3]

/-- the encoder writes exactly that body for such a packet -/
theorem C26_publish_v34_encode (ver : Nat) (hv : ver ≠ 5) (fh : FixedHeader) (topic payload : Str) (id : Nat)
    (hq : fh.qos > 0 → id ≠ 0) :
    let pk : Packet := { protocolVersion := ver, fixedHeader := { fh with type := 3 }, topicName := topic,
                         packetID := id, payload := payload }
    let body := encodeBytes topic ++ (if fh.qos > 0 then encodeUint16 id else []) ++ payload
    encodePacket pk = .ok (fixedHeaderEncode pk.fixedHeader body.length ++ body) := by
  intro pk body
  have hv' : (ver == 5) = false := by simpa using hv
  simp only [encodePacket, pk, show (3 == 1) = false from rfl, show (3 == 2) = false from rfl, beq_self_eq_true,
    Bool.false_eq_true, if_false, if_true, publishEncode, hv']
  by_cases hq' : fh.qos > 0
  · have : id ≠ 0 := hq hq'
    simp [hq', this, body, List.append_assoc, Nat.add_assoc]
  · simp [hq', body]

/-- the four acknowledgements, MQTT 5: packet identifier and reason code survive the round trip
    (reason code 0 is omitted on the wire, any other is written) -/
theorem C26_ack_zero_partial (t : Nat) (ht : t = 4 ∨ t = 5 ∨ t = 6 ∨ t = 7) (q id : Nat) (hid : id < 65536) :
    decodeBody 5 { type := t, qos := q, remaining := 2 } (encodeUint16 id) =
      .ok { protocolVersion := 5, fixedHeader := { type := t, qos := q, remaining := 2 }, packetID := id } := by
  have hd : decodeUint16 (encodeUint16 id) 0 = .ok (id, 2) := by
    have := decodeUint16_at [] id [] hid
    simpa using this
  rcases ht with rfl | rfl | rfl | rfl <;>
    simp [decodeBody, ackDecode, hd, wrapErr, bind, Except.bind, pure, Except.pure]

theorem C26_ack_reason_partial (t : Nat) (ht : t = 4 ∨ t = 5 ∨ t = 6 ∨ t = 7) (q id rc : Nat) (hid : id < 65536) :
    decodeBody 5 { type := t, qos := q, remaining := 3 } (encodeUint16 id ++ [rc]) =
      .ok { protocolVersion := 5, fixedHeader := { type := t, qos := q, remaining := 3 },
            packetID := id, reasonCode := rc } := by
  have hd : decodeUint16 (encodeUint16 id ++ [rc]) 0 = .ok (id, 2) := by
    have := decodeUint16_at [] id [rc] hid
    simpa using this
  have hdb : decodeByte (encodeUint16 id ++ [rc]) 2 = .ok (rc, 3) := by
    have := decodeByte_at (encodeUint16 id) rc []
    simpa [encodeUint16] using this
  rcases ht with rfl | rfl | rfl | rfl <;>
    simp [decodeBody, ackDecode, hd, hdb, wrapErr, bind, Except.bind, pure, Except.pure]

theorem propsToList_default (pkt : Nat) (mods : Mods) (n : Nat) : propsToList pkt mods n {} = [] := by
  unfold propsToList
  simp [opt]

/-- … and the encoder writes exactly that body when there are no properties -/
theorem C26_ack_encode (t : Nat) (ht : t = 4 ∨ t = 5 ∨ t = 6 ∨ t = 7) (q id rc : Nat) (hrc : rc < 256) :
    let pk : Packet := { protocolVersion := 5, fixedHeader := { type := t, qos := q }, packetID := id, reasonCode := rc }
    let body := encodeUint16 id ++ (if rc != 0 then [rc] else [])
    encodePacket pk = .ok (fixedHeaderEncode pk.fixedHeader body.length ++ body) := by
  intro pk body
  have hp : ∀ n, propsEncode t {} n {} = [0] := by
    intro n
    simp only [propsEncode, propsToList_default, encodePropList, List.length_nil]
    rw [encodeLength]; simp
  have hm : rc % 256 = rc := Nat.mod_eq_of_lt hrc
  rcases ht with rfl | rfl | rfl | rfl <;>
    simp [encodePacket, pk, ackEncode, withHeader, hp, body, hm]

/-- non-vacuity: a PUBACK with reason 0x10 (formerly dropped by the encoder) round-trips -/
example : decodeBody 5 { type := 4, remaining := 3 } [0, 7, 0x10] =
    .ok { protocolVersion := 5, fixedHeader := { type := 4, remaining := 3 }, packetID := 7, reasonCode := 0x10 } := by
  have := C26_ack_reason_partial 4 (Or.inl rfl) 0 7 0x10 (by omega)
  simpa [encodeUint16] using this

/-! ## Assembly: every packet type -/

/-- the body (everything behind the fixed header) the encoder writes for `pk` -/
def bodyOf (pk : Packet) : Str :=
  if pk.fixedHeader.type = 1 then connectBody pk
  else if pk.fixedHeader.type = 2 then connackBody pk
  else if pk.fixedHeader.type = 3 then publishBody pk
  else if pk.fixedHeader.type = 4 ∨ pk.fixedHeader.type = 5 ∨ pk.fixedHeader.type = 6 ∨ pk.fixedHeader.type = 7 then
    ackBody pk
  else if pk.fixedHeader.type = 8 then subscribeBody pk
  else if pk.fixedHeader.type = 9 then subackBody pk
  else if pk.fixedHeader.type = 10 then unsubscribeBody pk
  else if pk.fixedHeader.type = 11 then unsubackBody pk
  else if pk.fixedHeader.type = 14 then disconnectBody pk
  else if pk.fixedHeader.type = 15 then authBody pk
  else []

/-- **`norm`**: the packet as a decoder sees it — fixed header with the exact remaining length, the
    fields this packet type and protocol version transmit, the property block after the encoder's
    suppression (`normProps`), everything else (including the encoder options `mods`) at its zero value -/
def normPacket (pk : Packet) : Packet :=
  if pk.fixedHeader.type = 1 then connectNorm pk
  else if pk.fixedHeader.type = 2 then connackNorm pk
  else if pk.fixedHeader.type = 3 then publishNorm pk
  else if pk.fixedHeader.type = 4 ∨ pk.fixedHeader.type = 5 ∨ pk.fixedHeader.type = 6 ∨ pk.fixedHeader.type = 7 then
    ackNorm pk
  else if pk.fixedHeader.type = 8 then subscribeNorm pk
  else if pk.fixedHeader.type = 9 then subackNorm pk
  else if pk.fixedHeader.type = 10 then unsubscribeNorm pk
  else if pk.fixedHeader.type = 11 then unsubackNorm pk
  else if pk.fixedHeader.type = 14 then disconnectNorm pk
  else if pk.fixedHeader.type = 15 then authNorm pk
  else basePacket pk []

/-- **`WF`**: a packet type 1–15 with the flag bits MQTT prescribes, every transmitted field in range
    for its wire representation (see the per-type `WF…` predicates) -/
def WFPacket (pk : Packet) : Prop :=
  if pk.fixedHeader.type = 1 then WFConnect pk
  else if pk.fixedHeader.type = 2 then WFConnack pk
  else if pk.fixedHeader.type = 3 then WFPublish pk
  else if pk.fixedHeader.type = 4 ∨ pk.fixedHeader.type = 5 ∨ pk.fixedHeader.type = 6 ∨ pk.fixedHeader.type = 7 then
    WFAck pk
  else if pk.fixedHeader.type = 8 then WFSubscribe pk
  else if pk.fixedHeader.type = 9 then WFSuback pk
  else if pk.fixedHeader.type = 10 then WFUnsubscribe pk
  else if pk.fixedHeader.type = 11 then WFUnsuback pk
  else if pk.fixedHeader.type = 12 ∨ pk.fixedHeader.type = 13 then WFPing pk
  else if pk.fixedHeader.type = 14 then WFDisconnect pk
  else if pk.fixedHeader.type = 15 then WFAuth pk
  else False

theorem roundTrips_full {pk : Packet} {body : Str} {np : Packet} (h : RoundTrips pk body np) :
    ∃ hb body, encodePacket pk = .ok (hb :: encodeLength body.length ++ body) ∧
      (fixedHeaderDecode hb).toOption.map (fun fh => decodeBody pk.protocolVersion { fh with remaining := body.length } body)
        = some (.ok np) := by
  obtain ⟨h1, h2, h3⟩ := h
  refine ⟨_, body, h1, ?_⟩
  rw [h2]
  simp only [Except.toOption, Option.map_some]
  exact congrArg some h3

/-- all ten groups of packet types, one statement: a well-formed packet round-trips to `normPacket` with
    `bodyOf` as its body -/
theorem C26_roundTrips (pk : Packet) (h : WFPacket pk) : RoundTrips pk (bodyOf pk) (normPacket pk) := by
  unfold WFPacket at h
  unfold bodyOf normPacket
  split at h
  · rename_i ht; simp only [ht, if_true]; exact C26_connect_roundtrip pk ht h
  split at h
  · rename_i _ ht; simp only [ht]; exact C26_connack_roundtrip pk ht h
  split at h
  · rename_i _ _ ht; simp only [ht]; exact C26_publish_roundtrip pk ht h
  split at h
  · rename_i h1 h2 h3 ht
    have := C26_ack_roundtrip pk ht h
    rcases ht with ht | ht | ht | ht <;> simpa [ht] using this
  split at h
  · rename_i _ _ _ _ ht; simp only [ht]; exact C26_subscribe_roundtrip pk ht h
  split at h
  · rename_i _ _ _ _ _ ht; simp only [ht]; exact C26_suback_roundtrip pk ht h
  split at h
  · rename_i _ _ _ _ _ _ ht; simp only [ht]; exact C26_unsubscribe_roundtrip pk ht h
  split at h
  · rename_i _ _ _ _ _ _ _ ht; simp only [ht]; exact C26_unsuback_roundtrip pk ht h
  split at h
  · rename_i _ _ _ _ _ _ _ _ ht
    have := C26_ping_roundtrip pk ht h
    rcases ht with ht | ht <;> simpa [ht] using this
  split at h
  · rename_i _ _ _ _ _ _ _ _ _ ht; simp only [ht]; exact C26_disconnect_roundtrip pk ht h
  split at h
  · rename_i _ _ _ _ _ _ _ _ _ _ ht; simp only [ht]; exact C26_auth_roundtrip pk ht h
  · exact h.elim

/-- **C26, full statement**: for every protocol version and every packet type, a well-formed packet is
    encoded as header byte, exact remaining length and body; the header byte decodes to the packet's
    type and flags; the body decodes to the packet modulo the encoder's documented suppression and
    the defaults of untransmitted fields (`normPacket`). -/
theorem C26_roundtrip : C26_full_statement normPacket WFPacket :=
  fun pk h => roundTrips_full (C26_roundTrips pk h)

/-- … and the remaining length the encoder wrote is exact: the variable-byte integer behind the header
    byte decodes to the number of bytes that follow it, and those bytes are the body -/
theorem C26_remaining_exact (pk : Packet) (h : WFPacket pk) (hlen : (bodyOf pk).length ≤ maxVBI) :
    ∃ hb rest k, encodePacket pk = .ok (hb :: rest) ∧ decodeLength rest = .ok ((bodyOf pk).length, k) ∧
      rest.drop k = bodyOf pk ∧ (rest.drop k).length = (bodyOf pk).length := by
  obtain ⟨h1, _, _⟩ := C26_roundTrips pk h
  refine ⟨_, _, _, h1, decodeLength_encode_append _ _ hlen, ?_, ?_⟩ <;> simp


/-! ## Decidability of the well-formedness predicates (so that `by decide` checks a concrete packet) -/

instance (pk : Packet) : Decidable (WFPing pk) := by unfold WFPing; infer_instance
instance (pk : Packet) : Decidable (WFConnack pk) := by unfold WFConnack; infer_instance
instance (pk : Packet) : Decidable (WFSuback pk) := by unfold WFSuback; infer_instance
instance (pk : Packet) : Decidable (WFUnsuback pk) := by unfold WFUnsuback; infer_instance
instance (pk : Packet) : Decidable (WFDisconnect pk) := by unfold WFDisconnect; infer_instance
instance (pk : Packet) : Decidable (WFAuth pk) := by unfold WFAuth; infer_instance
instance (pk : Packet) : Decidable (WFAck pk) := by unfold WFAck; infer_instance
instance (pk : Packet) : Decidable (WFPublish pk) := by unfold WFPublish; infer_instance
instance (pk : Packet) : Decidable (WFUnsubscribe pk) := by unfold WFUnsubscribe; infer_instance
instance (pk : Packet) : Decidable (WFSubscribe pk) := by unfold WFSubscribe; infer_instance
instance (ver : Nat) (mods : Mods) (c : ConnectParams) : Decidable (WFWill ver mods c) := by
  unfold WFWill; infer_instance
instance (pk : Packet) : Decidable (WFConnect pk) := by unfold WFConnect; infer_instance
instance (pk : Packet) : Decidable (WFPacket pk) := by unfold WFPacket; infer_instance

/-! ## Non-vacuity -/

/-- a maximal MQTT 5 PUBLISH: topic `té/€`, QoS 1, retained, two user properties (one with a multi-byte
    value), two subscription identifiers (one- and two-byte), correlation data, response topic, content
    type, payload format indicator, message expiry, topic alias -/
def maxPublish : Packet :=
  { protocolVersion := 5, fixedHeader := { type := 3, qos := 1, retain := true },
    mods := { allowResponseInfo := true },
    topicName := [0x74, 0xC3, 0xA9, 0x2F, 0xE2, 0x82, 0xAC], packetID := 7, payload := [1, 2, 3],
    properties := {
      user := [([0x61], [0x62]), ([0x61], [0xC3, 0xA9])], subscriptionIdentifier := [5, 300],
      correlationData := [0, 255], responseTopic := [0x72, 0x2F, 0x74], contentType := [0x63, 0x74],
      payloadFormat := 1, payloadFormatFlag := true, messageExpiryInterval := 60, topicAlias := 3, topicAliasFlag := true } }

theorem maxPublish_wf : WFPacket maxPublish := by decide

/-- nothing of it is suppressed: `normPacket` only fills in the remaining length and drops the encoder options -/
theorem maxPublish_norm : normPacket maxPublish =
    { maxPublish with mods := {}, fixedHeader := { maxPublish.fixedHeader with remaining := (bodyOf maxPublish).length } } := by
  have hp : normProps 3 maxPublish.mods (publishN maxPublish) maxPublish.properties = maxPublish.properties :=
    normProps_of_canonical _ _ _ _ (by decide)
  show publishNorm maxPublish = _
  unfold publishNorm
  rw [hp]
  rfl

/-- … and it round-trips **by the theorem** -/
theorem maxPublish_roundtrips : RoundTrips maxPublish (bodyOf maxPublish)
    { maxPublish with mods := {}, fixedHeader := { maxPublish.fixedHeader with remaining := (bodyOf maxPublish).length } } := by
  have h := C26_roundTrips maxPublish maxPublish_wf
  rwa [maxPublish_norm] at h

example : ∃ hb body, encodePacket maxPublish = .ok (hb :: encodeLength body.length ++ body) ∧
    (fixedHeaderDecode hb).toOption.map (fun fh => decodeBody 5 { fh with remaining := body.length } body)
      = some (.ok (normPacket maxPublish)) := C26_roundtrip maxPublish maxPublish_wf

/-- CONNECT, MQTT 5: will (QoS 1, retained, delayed, with a user property), user name, password, session expiry -/
def fullConnect : Packet :=
  { protocolVersion := 5, fixedHeader := { type := 1 },
    properties := { sessionExpiryInterval := 3600, sessionExpiryIntervalFlag := true, receiveMaximum := 10,
                    user := [([0x6B], [0x76])] },
    connect := { protocolName := [0x4D, 0x51, 0x54, 0x54], clean := true, keepalive := 30, clientIdentifier := [0x63, 0x31],
                 willFlag := true, willQos := 1, willRetain := true, willTopic := [0x77, 0x2F, 0x74], willPayload := [0, 1, 2],
                 willProperties := { willDelayInterval := 5, user := [([0x61], [0x62])] },
                 usernameFlag := true, username := [0x75], passwordFlag := true, password := [0xFF, 0x00] } }

theorem fullConnect_wf : WFPacket fullConnect := by decide

theorem fullConnect_norm : normPacket fullConnect =
    { fullConnect with fixedHeader := { fullConnect.fixedHeader with remaining := (bodyOf fullConnect).length } } := by
  have hp : normProps 1 fullConnect.mods 0 fullConnect.properties = fullConnect.properties :=
    normProps_of_canonical _ _ _ _ (by decide)
  have hwp : normProps tWillProperties fullConnect.mods 0 fullConnect.connect.willProperties =
      fullConnect.connect.willProperties := normProps_of_canonical _ _ _ _ (by decide)
  show connectNorm fullConnect = _
  unfold connectNorm
  simp only []
  rw [hp, hwp]
  rfl

theorem fullConnect_roundtrips : RoundTrips fullConnect (bodyOf fullConnect)
    { fullConnect with fixedHeader := { fullConnect.fixedHeader with remaining := (bodyOf fullConnect).length } } := by
  have h := C26_roundTrips fullConnect fullConnect_wf
  rwa [fullConnect_norm] at h

/-- SUBSCRIBE, MQTT 5: two filters with options, a subscription identifier -/
def fullSubscribe : Packet :=
  { protocolVersion := 5, fixedHeader := { type := 8, qos := 1 }, packetID := 9,
    properties := { subscriptionIdentifier := [7] },
    filters := [{ filter := [0x61, 0x2F, 0x23], qos := 2, noLocal := true, rap := true, rh := 2, identifier := 7 },
                { filter := [0x2B], qos := 0, identifier := 7 }] }

theorem fullSubscribe_wf : WFPacket fullSubscribe := by decide

theorem fullSubscribe_norm : normPacket fullSubscribe =
    { fullSubscribe with fixedHeader := { fullSubscribe.fixedHeader with remaining := (bodyOf fullSubscribe).length } } := by
  have hp : normProps 8 fullSubscribe.mods (2 + (subWire 5 fullSubscribe.filters).length) fullSubscribe.properties =
      fullSubscribe.properties := normProps_of_canonical _ _ _ _ (by decide)
  show subscribeNorm fullSubscribe = _
  unfold subscribeNorm subscribeProps
  simp only [show fullSubscribe.protocolVersion = 5 from rfl, beq_self_eq_true, if_true]
  rw [hp]
  rfl

theorem fullSubscribe_roundtrips : RoundTrips fullSubscribe (bodyOf fullSubscribe)
    { fullSubscribe with fixedHeader := { fullSubscribe.fixedHeader with remaining := (bodyOf fullSubscribe).length } } := by
  have h := C26_roundTrips fullSubscribe fullSubscribe_wf
  rwa [fullSubscribe_norm] at h

/-- suppression is visible in `normPacket`: the same PUBLISH without `Mods.AllowResponseInfo` loses response
    topic and correlation data — and only those -/
example : (normProps 3 {} (publishN maxPublish) maxPublish.properties) =
    { maxPublish.properties with responseTopic := [], correlationData := [] } := by decide

/-! ## Counterexample: the excluded region of PINGREQ/PINGRESP is real -/

/-- the encoder copies `FixedHeader.Remaining` to the wire instead of computing it, so a ping whose
    struct carries a stale remaining length announces bytes that do not follow (`WFPing` excludes it) -/
theorem C26_ping_remaining_counterexample :
    encodePacket { fixedHeader := { type := 12, remaining := 5 } } = .ok [0xC0, 5] := by
  simp [encodePacket, fixedHeaderEncode, encodeBool]
  rw [encodeLength]; simp

end Mochi.Codec

#print axioms Mochi.Codec.C26_roundtrip
#print axioms Mochi.Codec.C26_remaining_exact
#print axioms Mochi.Codec.props_roundtrip
#print axioms Mochi.Codec.maxPublish_roundtrips
#print axioms Mochi.Codec.C26_ping_remaining_counterexample
