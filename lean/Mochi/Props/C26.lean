import Mochi.Lemmas.PacketRoundtripSub
import Mochi.Lemmas.PacketRoundtripConnect
import Mochi.Lemmas.CodecNoPanic
/-!
# C26 — Packet codec round-trips every well-formed packet

Model: `encodePacket` / `decodeBody` (packets/*.go after "fix: acknowledgement encoder keeps non-zero
success reason codes").

Full statement (kept visible; `C26_full_statement` is a `Prop`, not yet a theorem):
for every version, type and well-formed packet, `encodePacket` succeeds and decoding its output
gives back the packet modulo the encoder's documented suppression.

Proved so far (`…_partial`): the remaining-length law for **all** packet types; the round trip of
every codec helper at any offset; the round trip of PUBLISH for MQTT 3.1/3.1.1 and of the four
acknowledgements for all versions (reason codes included); the property block is covered on the
wire level by `decodePropValue`/`encodePVal` lemmas and, for the struct-level claim, by the
correspondence run (`c.reenc`, spec verdict `Q`).
-/
namespace Mochi.Codec
open Mochi.Varint

/-- the full-strength statement for one packet (kept visible) -/
def C26_full_statement (norm : Packet → Packet) (WF : Packet → Prop) : Prop :=
  ∀ pk : Packet, WF pk → ∃ hb body, encodePacket pk = .ok (hb :: encodeLength body.length ++ body) ∧
    (fixedHeaderDecode hb).toOption.map (fun fh => decodeBody pk.protocolVersion { fh with remaining := body.length } body)
      = some (.ok (norm pk))

theorem withHeader_shape (pk : Packet) (body : Str) :
    ∃ hb, withHeader pk body = hb :: encodeLength body.length ++ body := by
  exact ⟨(pk.fixedHeader.type * 16) % 256 ||| encodeBool pk.fixedHeader.dup * 8 ||| (pk.fixedHeader.qos * 2) % 256 |||
    encodeBool pk.fixedHeader.retain, by simp [withHeader, fixedHeaderEncode]⟩

/-- **Remaining length**: whatever any encoder writes is a header byte, the variable-byte length of
    the rest, and exactly that many bytes (PINGREQ/PINGRESP: no body, declared length as given). -/
theorem C26_remaining_length (pk : Packet) (bs : Str) (h : encodePacket pk = .ok bs)
    (hping : pk.fixedHeader.type = 12 ∨ pk.fixedHeader.type = 13 → pk.fixedHeader.remaining = 0) :
    ∃ hb body, bs = hb :: encodeLength body.length ++ body := by
  have key : ∀ body, bs = withHeader pk body → ∃ hb body, bs = hb :: encodeLength body.length ++ body := by
    intro body hb
    obtain ⟨x, hx⟩ := withHeader_shape pk body
    exact ⟨x, body, by rw [hb, hx]⟩
  unfold encodePacket at h
  simp only [] at h
  split at h
  · simp only [connectEncode] at h; injection h with h; exact key _ h.symm
  split at h
  · simp only [connackEncode] at h; injection h with h; exact key _ h.symm
  split at h
  · simp only [publishEncode] at h
    split at h
    · simp at h
    · injection h with h
      rw [← h]
      generalize (encodeBytes pk.topicName ++ (if pk.fixedHeader.qos > 0 then encodeUint16 pk.packetID else []) ++
        (if (pk.protocolVersion == 5) = true then _ else [])) = nb
      refine ⟨(pk.fixedHeader.type * 16) % 256 ||| encodeBool pk.fixedHeader.dup * 8 ||| (pk.fixedHeader.qos * 2) % 256 |||
        encodeBool pk.fixedHeader.retain, nb ++ pk.payload, ?_⟩
      simp [fixedHeaderEncode, List.append_assoc]
  split at h
  · simp only [ackEncode] at h; injection h with h; exact key _ h.symm
  split at h
  · simp only [subscribeEncode] at h
    split at h
    · simp at h
    · injection h with h; exact key _ h.symm
  split at h
  · simp only [subackEncode] at h; injection h with h; exact key _ h.symm
  split at h
  · simp only [unsubscribeEncode] at h
    split at h
    · simp at h
    · injection h with h; exact key _ h.symm
  split at h
  · simp only [unsubackEncode] at h; injection h with h; exact key _ h.symm
  split at h
  · rename_i hp
    injection h with h
    have hr : pk.fixedHeader.remaining = 0 := hping (by simpa using hp)
    exact ⟨(pk.fixedHeader.type * 16) % 256 ||| encodeBool pk.fixedHeader.dup * 8 ||| (pk.fixedHeader.qos * 2) % 256 |||
      encodeBool pk.fixedHeader.retain, [], by rw [← h]; simp [fixedHeaderEncode, hr]⟩
  split at h
  · simp only [disconnectEncode] at h; injection h with h; exact key _ h.symm
  split at h
  · simp only [authEncode] at h; injection h with h; exact key _ h.symm
  · simp at h

/-- PUBLISH, MQTT 3.1 / 3.1.1 (no property block): every well-formed packet round-trips -/
theorem C26_publish_v34_partial (ver : Nat) (hv : ver ≠ 5) (fh : FixedHeader) (topic payload : Str) (id : Nat)
    (ht : wfStr topic) (hid : id < 65536) :
    let body := encodeBytes topic ++ (if fh.qos > 0 then encodeUint16 id else []) ++ payload
    decodeBody ver { fh with type := 3, remaining := body.length } body =
      .ok { protocolVersion := ver, fixedHeader := { fh with type := 3, remaining := body.length },
            topicName := topic, packetID := if fh.qos > 0 then id else 0, payload := payload } := by
  intro body
  have hv' : (ver == 5) = false := by simpa using hv
  simp only [decodeBody, beq_self_eq_true, if_true, show (3 == 1) = false from rfl, show (3 == 2) = false from rfl,
    Bool.false_eq_true, if_false, publishDecode]
  have h1 : decodeString body 0 = .ok (topic, 0 + 2 + topic.length) := by
    have := decodeString_at [] topic ((if fh.qos > 0 then encodeUint16 id else []) ++ payload) ht.1 ht.2
    simpa [body, List.append_assoc] using this
  simp only [h1, wrapErr, bind, Except.bind]
  by_cases hq : fh.qos > 0
  · simp only [hq, if_true]
    have h2 : decodeUint16 body (0 + 2 + topic.length) = .ok (id, (0 + 2 + topic.length) + 2) := by
      have := decodeUint16_at (encodeBytes topic) id payload hid
      have hl : (encodeBytes topic).length = 0 + 2 + topic.length := by simp [encodeBytes, encodeUint16]; omega
      rw [hl] at this
      simpa [body, hq, List.append_assoc] using this
    simp only [h2, pure, Except.pure, hv', Bool.false_eq_true, if_false]
    have h3 : sliceFrom body (0 + 2 + topic.length + 2) = .ok payload := by
      unfold sliceFrom
      have hl : body.length = 0 + 2 + topic.length + 2 + payload.length := by
        simp [body, hq, encodeBytes, encodeUint16]; omega
      have : 0 + 2 + topic.length + 2 ≤ body.length := by omega
      simp only [this, if_true]
      congr 1
      have e : body = (encodeBytes topic ++ encodeUint16 id) ++ payload := by simp [body, hq, List.append_assoc]
      rw [e, List.drop_append_of_le_length (by simp [encodeBytes, encodeUint16]; omega)]
      have hl2 : (encodeBytes topic ++ encodeUint16 id).length = 0 + 2 + topic.length + 2 := by
        simp [encodeBytes, encodeUint16]; omega
      rw [← hl2, List.drop_length]; simp
    simp [h3]
  · simp only [hq, if_false, pure, Except.pure, hv', Bool.false_eq_true]
    have h3 : sliceFrom body (0 + 2 + topic.length) = .ok payload := by
      unfold sliceFrom
      have hl : body.length = 0 + 2 + topic.length + payload.length := by
        simp [body, hq, encodeBytes, encodeUint16]; omega
      have : 0 + 2 + topic.length ≤ body.length := by omega
      simp only [this, if_true]
      congr 1
      have e : body = encodeBytes topic ++ payload := by simp [body, hq]
      rw [e]
      have hl2 : (encodeBytes topic).length = 0 + 2 + topic.length := by simp [encodeBytes, encodeUint16]; omega
      rw [← hl2, List.drop_left]
    simp [h3]

/-- the encoder writes exactly that body for such a packet -/
theorem C26_publish_v34_encode (ver : Nat) (hv : ver ≠ 5) (fh : FixedHeader) (topic payload : Str) (id : Nat)
    (hq : fh.qos > 0 → id ≠ 0) :
    let pk : Packet := { protocolVersion := ver, fixedHeader := { fh with type := 3 }, topicName := topic,
                         packetID := id, payload := payload }
    let body := encodeBytes topic ++ (if fh.qos > 0 then encodeUint16 id else []) ++ payload
    encodePacket pk = .ok (fixedHeaderEncode pk.fixedHeader body.length ++ body) := by
  intro pk body
  have hv' : (ver == 5) = false := by simpa using hv
  simp only [encodePacket, pk, show (3 == 1) = false from rfl, show (3 == 2) = false from rfl, beq_self_eq_true,
    Bool.false_eq_true, if_false, if_true, publishEncode, hv']
  by_cases hq' : fh.qos > 0
  · have : id ≠ 0 := hq hq'
    simp [hq', this, body, List.append_assoc, Nat.add_assoc]
  · simp [hq', body]

/-- the four acknowledgements, MQTT 5: packet identifier and reason code survive the round trip
    (reason code 0 is omitted on the wire, any other is written) -/
theorem C26_ack_zero_partial (t : Nat) (ht : t = 4 ∨ t = 5 ∨ t = 6 ∨ t = 7) (q id : Nat) (hid : id < 65536) :
    decodeBody 5 { type := t, qos := q, remaining := 2 } (encodeUint16 id) =
      .ok { protocolVersion := 5, fixedHeader := { type := t, qos := q, remaining := 2 }, packetID := id } := by
  have hd : decodeUint16 (encodeUint16 id) 0 = .ok (id, 2) := by
    have := decodeUint16_at [] id [] hid
    simpa using this
  rcases ht with rfl | rfl | rfl | rfl <;>
    simp [decodeBody, ackDecode, hd, wrapErr, bind, Except.bind, pure, Except.pure]

theorem C26_ack_reason_partial (t : Nat) (ht : t = 4 ∨ t = 5 ∨ t = 6 ∨ t = 7) (q id rc : Nat) (hid : id < 65536) :
    decodeBody 5 { type := t, qos := q, remaining := 3 } (encodeUint16 id ++ [rc]) =
      .ok { protocolVersion := 5, fixedHeader := { type := t, qos := q, remaining := 3 },
            packetID := id, reasonCode := rc } := by
  have hd : decodeUint16 (encodeUint16 id ++ [rc]) 0 = .ok (id, 2) := by
    have := decodeUint16_at [] id [rc] hid
    simpa using this
  have hdb : decodeByte (encodeUint16 id ++ [rc]) 2 = .ok (rc, 3) := by
    have := decodeByte_at (encodeUint16 id) rc []
    simpa [encodeUint16] using this
  rcases ht with rfl | rfl | rfl | rfl <;>
    simp [decodeBody, ackDecode, hd, hdb, wrapErr, bind, Except.bind, pure, Except.pure]

theorem propsToList_default (pkt : Nat) (mods : Mods) (n : Nat) : propsToList pkt mods n {} = [] := by
  unfold propsToList
  simp [opt]

/-- … and the encoder writes exactly that body when there are no properties -/
theorem C26_ack_encode (t : Nat) (ht : t = 4 ∨ t = 5 ∨ t = 6 ∨ t = 7) (q id rc : Nat) (hrc : rc < 256) :
    let pk : Packet := { protocolVersion := 5, fixedHeader := { type := t, qos := q }, packetID := id, reasonCode := rc }
    let body := encodeUint16 id ++ (if rc != 0 then [rc] else [])
    encodePacket pk = .ok (fixedHeaderEncode pk.fixedHeader body.length ++ body) := by
  intro pk body
  have hp : ∀ n, propsEncode t {} n {} = [0] := by
    intro n
    simp only [propsEncode, propsToList_default, encodePropList, List.length_nil]
    rw [encodeLength]; simp
  have hm : rc % 256 = rc := Nat.mod_eq_of_lt hrc
  rcases ht with rfl | rfl | rfl | rfl <;>
    simp [encodePacket, pk, ackEncode, withHeader, hp, body, hm]

/-- non-vacuity: a PUBACK with reason 0x10 (formerly dropped by the encoder) round-trips -/
example : decodeBody 5 { type := 4, remaining := 3 } [0, 7, 0x10] =
    .ok { protocolVersion := 5, fixedHeader := { type := 4, remaining := 3 }, packetID := 7, reasonCode := 0x10 } := by
  have := C26_ack_reason_partial 4 (Or.inl rfl) 0 7 0x10 (by omega)
  simpa [encodeUint16] using this

/-! ## Assembly: every packet type -/

/-- the body (everything behind the fixed header) the encoder writes for `pk` -/
def bodyOf (pk : Packet) : Str :=
  let t := pk.fixedHeader.type
  if t = 1 then connectBody pk else if t = 2 then connackBody pk else if t = 3 then publishBody pk
  else if t = 4 ∨ t = 5 ∨ t = 6 ∨ t = 7 then ackBody pk
  else if t = 8 then subscribeBody pk else if t = 9 then subackBody pk else if t = 10 then unsubscribeBody pk
  else if t = 11 then unsubackBody pk else if t = 14 then disconnectBody pk else if t = 15 then authBody pk
  else []

/-- **`norm`**: the packet as a decoder sees it — fixed header with the exact remaining length, the
    fields this packet type and protocol version transmit, the property block after the encoder's
    suppression (`normProps`), everything else (including the encoder options `mods`) at its zero value -/
def normPacket (pk : Packet) : Packet :=
  let t := pk.fixedHeader.type
  if t = 1 then connectNorm pk else if t = 2 then connackNorm pk else if t = 3 then publishNorm pk
  else if t = 4 ∨ t = 5 ∨ t = 6 ∨ t = 7 then ackNorm pk
  else if t = 8 then subscribeNorm pk else if t = 9 then subackNorm pk else if t = 10 then unsubscribeNorm pk
  else if t = 11 then unsubackNorm pk else if t = 14 then disconnectNorm pk else if t = 15 then authNorm pk
  else basePacket pk []

/-- **`WF`**: a packet type 1–15 with the flag bits MQTT prescribes, every transmitted field in range
    for its wire representation (see the per-type `WF…` predicates) -/
def WFPacket (pk : Packet) : Prop :=
  let t := pk.fixedHeader.type
  if t = 1 then WFConnect pk else if t = 2 then WFConnack pk else if t = 3 then WFPublish pk
  else if t = 4 ∨ t = 5 ∨ t = 6 ∨ t = 7 then WFAck pk
  else if t = 8 then WFSubscribe pk else if t = 9 then WFSuback pk else if t = 10 then WFUnsubscribe pk
  else if t = 11 then WFUnsuback pk else if t = 12 ∨ t = 13 then WFPing pk
  else if t = 14 then WFDisconnect pk else if t = 15 then WFAuth pk
  else False

theorem roundTrips_full {pk : Packet} {body : Str} {np : Packet} (h : RoundTrips pk body np) :
    ∃ hb body, encodePacket pk = .ok (hb :: encodeLength body.length ++ body) ∧
      (fixedHeaderDecode hb).toOption.map (fun fh => decodeBody pk.protocolVersion { fh with remaining := body.length } body)
        = some (.ok np) := by
  obtain ⟨h1, h2, h3⟩ := h
  refine ⟨_, body, h1, ?_⟩
  rw [h2]
  simp only [Except.toOption, Option.map_some]
  exact congrArg some h3

/-- all ten groups of packet types, one statement: a well-formed packet round-trips to `normPacket` with
    `bodyOf` as its body -/
theorem C26_roundTrips (pk : Packet) (h : WFPacket pk) : RoundTrips pk (bodyOf pk) (normPacket pk) := by
  unfold WFPacket at h
  unfold bodyOf normPacket
  simp only [] at h ⊢
  split at h
  · rename_i ht; simp only [ht, if_true]; exact C26_connect_roundtrip pk ht h
  split at h
  · rename_i _ ht; simp only [ht]; exact C26_connack_roundtrip pk ht h
  split at h
  · rename_i _ _ ht; simp only [ht]; exact C26_publish_roundtrip pk ht h
  split at h
  · rename_i h1 h2 h3 ht
    have := C26_ack_roundtrip pk ht h
    rcases ht with ht | ht | ht | ht <;> simpa [ht] using this
  split at h
  · rename_i _ _ _ _ ht; simp only [ht]; exact C26_subscribe_roundtrip pk ht h
  split at h
  · rename_i _ _ _ _ _ ht; simp only [ht]; exact C26_suback_roundtrip pk ht h
  split at h
  · rename_i _ _ _ _ _ _ ht; simp only [ht]; exact C26_unsubscribe_roundtrip pk ht h
  split at h
  · rename_i _ _ _ _ _ _ _ ht; simp only [ht]; exact C26_unsuback_roundtrip pk ht h
  split at h
  · rename_i _ _ _ _ _ _ _ _ ht
    have := C26_ping_roundtrip pk ht h
    rcases ht with ht | ht <;> simpa [ht] using this
  split at h
  · rename_i _ _ _ _ _ _ _ _ _ ht; simp only [ht]; exact C26_disconnect_roundtrip pk ht h
  split at h
  · rename_i _ _ _ _ _ _ _ _ _ _ ht; simp only [ht]; exact C26_auth_roundtrip pk ht h
  · exact h.elim

/-- **C26, full statement**: for every protocol version and every packet type, a well-formed packet is
    encoded as header byte, exact remaining length and body; the header byte decodes to the packet's
    type and flags; the body decodes to the packet modulo the encoder's documented suppression and
    the defaults of untransmitted fields (`normPacket`). -/
theorem C26_roundtrip : C26_full_statement normPacket WFPacket :=
  fun pk h => roundTrips_full (C26_roundTrips pk h)

/-- … and the remaining length the encoder wrote is exact: the variable-byte integer behind the header
    byte decodes to the number of bytes that follow it, and those bytes are the body -/
theorem C26_remaining_exact (pk : Packet) (h : WFPacket pk) (hlen : (bodyOf pk).length ≤ maxVBI) :
    ∃ hb rest k, encodePacket pk = .ok (hb :: rest) ∧ decodeLength rest = .ok ((bodyOf pk).length, k) ∧
      rest.drop k = bodyOf pk ∧ (rest.drop k).length = (bodyOf pk).length := by
  obtain ⟨h1, _, _⟩ := C26_roundTrips pk h
  refine ⟨_, _, _, h1, decodeLength_encode_append _ _ hlen, ?_, ?_⟩ <;> simp

end Mochi.Codec
