import Mochi.Props.TieA.PropTable
import Mochi.Props.TieA.Codes
import Mochi.Props.TieA.Attach
import Mochi.Props.TieA.Handlers
import Mochi.Props.TieA.WriteLoop
import Mochi.Props.TieA.Decode
import Mochi.Props.TieA.Listener
import Mochi.Props.TieA.Pool
import Mochi.Props.TieA.Topics
/-!
# Tie A obligations over the regenerated tables and statement orders

| module                 | generated data        | obligations                                                   | checks |
|------------------------|-----------------------|---------------------------------------------------------------|--------|
| `TieA/PropTable.lean`  | `Gen/PropTable.lean`  | `C26_prop_table_tied`, `C26_packet_types_tied`, `C26_prop_ids_tied` | C26 C27 C42 |
| `TieA/Codes.lean`      | `Gen/Codes.lean`      | `C23_v3_codes_tied`, `C23_v3_identity_tied`, `C23_v3_map_tied`, `C07_qos_codes_tied`, `C07_reason_codes_tied`, `C13_refuse_codes_tied`, `C07_publish_validate_codes_tied`, `C07_reason_valid_tied` | C07 C23 |
| `TieA/Attach.lean`     | `Gen/Programs.lean`   | `C13_attach_order_tied`, `C14_inherit_order_tied`             | C13 C14 C16 C35 C09 C21 |
| `TieA/Handlers.lean`   | `Gen/Programs.lean`   | `C21_suback_after_store_tied`, `C09_pubrec_order_tied`, `C09_pubrel_order_tied`, `C07_publish_order_tied` | C21 C09 C07 |
| `TieA/WriteLoop.lean`  | `Gen/Programs.lean`   | `C34_writeloop_order_tied`                                    | C34 |
| `TieA/Decode.lean`     | `Gen/Programs.lean`   | `C27_properties_decode_order_tied`                            | C27 C28 C26 |
| `TieA/Listener.lean`   | `Gen/Programs.lean`   | `C36_tcp_serve_order_tied`, `C36_tcp_close_order_tied`        | C36 |
| `TieA/Topics.lean`     | `Gen/Programs.lean`   | `C02_trim_order_tied`, `C01_scanSubscribers_order_tied`       | C01 C02 C03 C05 |
| `TieA/Pool.lean`       | `Gen/Programs.lean`   | `C41_put_order_tied`, `C41_capped_put_order_tied`             | C41 |

Self-test (extractor pointed at a mutated scratch copy of /repo): removing `Subscribe: 1` from the
`PropSubscriptionIdentifier` row breaks `C26_prop_table_tied`; moving `s.hooks.OnSubscribed(...)` after
`cl.WritePacket(ack)` in `processSubscribe` breaks `C21_suback_after_store_tied`; moving `s.Clients.Add(cl)` after
`s.SendConnack(...)` in `attachClient` breaks `C13_attach_order_tied` (each time only that module).
-/
