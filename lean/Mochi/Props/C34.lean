import Mochi.Model.WriteBuf
/-!
# C34 — Accepted output is flushed and every dropped message is reported

Model M11 (`Model/WriteBuf.lean`): the pending-write queue, `WriteLoop` and the buffering decision of
`Client.WritePacket` for one client, a packet being its encoded size. Everything below is for **every**
history of enqueues, write-loop steps and direct handler writes, every buffer size, every Maximum
Packet Size and every packet size.

* `C34_conservation` — nothing is lost or duplicated between "reported sent" and the connection: what was
  reported is on the connection or in the write buffer.
* `C34_flushed` — with the repaired write loop (`fix: the write loop flushes buffered output when it
  refuses the last queued packet`), in every quiescent state (nothing queued, nothing in the write
  loop's hand) the buffer is empty, so everything reported as sent has reached the connection.
* `C34_flushed_unrepaired_counterexample` — the code before the repair strands a buffered packet
  when the last queued packet is refused as too large (the recorded defect F34a, replayed on the real
  code by the `writebuf` correspondence suite).
* `C34_drops_unreported_counterexample` — a packet refused by the size test is dropped without any hook
  event (known finding F34b); `C34_refusals_never_reported` says no history ever reports one.
-/
namespace Mochi.WriteBuf

/-- a state as `newClient` makes it -/
def fresh (wbuf maxSize : Nat) : WP := { wbuf := wbuf, maxSize := maxSize }

def buffered (s : WP) : Nat := s.outbuf.getD 0

/-- the conservation invariant -/
def Cons (s : WP) : Prop := s.conn + buffered s = s.reported

/-- a non-empty buffer is only ever left behind while more is queued or in hand -/
def Pending (s : WP) : Prop := s.outbuf ≠ none → (s.queue ≠ [] ∨ s.inHand ≠ none)

theorem flush_cons (s : WP) (h : Cons s) : Cons (flush s) := by
  unfold Cons buffered flush at *
  cases hs : s.outbuf
  · simpa [hs] using h
  · simp [hs] at h ⊢; omega

theorem flush_outbuf (s : WP) : (flush s).outbuf = none := by
  unfold flush
  cases hs : s.outbuf
  · simpa using hs
  · simp

theorem flush_queue (s : WP) : (flush s).queue = s.queue ∧ (flush s).inHand = s.inHand := by
  unfold flush; cases s.outbuf <;> simp

theorem writePacket_cons (s : WP) (size : Nat) (h : Cons s) : Cons (writePacket s size).1 := by
  unfold writePacket
  split
  · simpa [Cons, buffered] using h
  · simp only
    split
    · cases hs : s.outbuf
      · simp [hs, Cons, buffered] at h ⊢; omega
      · simp only [hs]
        apply flush_cons
        simp [hs, Cons, buffered] at h ⊢; omega
    · cases hs : s.outbuf
      · simp only [hs]
        split <;> (simp [hs, Cons, buffered] at h ⊢; omega)
      · simp only [hs]
        split
        · simp [hs, Cons, buffered] at h ⊢; omega
        · apply flush_cons
          simp [hs, Cons, buffered] at h ⊢; omega

theorem writePacket_queue (s : WP) (size : Nat) :
    (writePacket s size).1.queue = s.queue ∧ (writePacket s size).1.inHand = s.inHand := by
  unfold writePacket
  split
  · simp
  · simp only
    split
    · cases hs : s.outbuf <;> simp [flush]
    · cases hs : s.outbuf
      · simp only; split <;> simp
      · simp only; split <;> simp [flush]

/-- a write made while nothing is queued, and not refused, leaves no buffer behind -/
theorem writePacket_flushes (s : WP) (size : Nat) (hq : s.queue = [])
    (hr : (writePacket s size).2 = .sent) : (writePacket s size).1.outbuf = none := by
  unfold writePacket at *
  split at hr
  · simp at hr
  · rename_i hns
    simp only [hns]
    simp [hq]
    cases hs : s.outbuf <;> simp [flush]

theorem writePacket_refused (s : WP) (size : Nat) (hr : (writePacket s size).2 = .tooLarge) :
    (writePacket s size).1.outbuf = s.outbuf := by
  unfold writePacket at *
  split
  · rfl
  · rename_i hns
    simp only [hns] at hr
    exfalso
    revert hr
    simp only [Bool.false_eq_true, if_false]
    split
    · cases s.outbuf <;> simp
    · cases s.outbuf
      · simp only; split <;> simp
      · simp only; split <;> simp

theorem step_cons (b : Bool) (s : WP) (op : Op) (h : Cons s) : Cons (step b s op) := by
  cases op with
  | enqueue size => simpa [step, Cons, buffered] using h
  | dequeue =>
    simp only [step]
    split <;> simp_all [Cons, buffered]
  | loopWrite =>
    simp only [step, loopWrite]
    cases hh : s.inHand with
    | none => simpa using h
    | some size =>
      simp only
      have hc : Cons { s with inHand := none } := by simpa [Cons, buffered] using h
      have := writePacket_cons { s with inHand := none } size hc
      cases hr : (writePacket { s with inHand := none } size).2
      · simpa [hr] using this
      · simp only [hr]
        split
        · exact flush_cons _ this
        · exact this
  | direct size => exact writePacket_cons s size h

/-- **Conservation.** In every reachable state, what has been reported as sent is exactly what is on
    the connection plus what waits in the write buffer — with or without the repair. -/
theorem C34_conservation (b : Bool) (wbuf maxSize : Nat) (ops : List Op) :
    let s := run b (fresh wbuf maxSize) ops
    s.conn + buffered s = s.reported := by
  have : ∀ (ops : List Op) (s : WP), Cons s → Cons (run b s ops) := by
    intro ops
    induction ops with
    | nil => intro s h; exact h
    | cons op rest ih => intro s h; exact ih _ (step_cons b s op h)
  exact this ops _ (by simp [Cons, buffered, fresh])

theorem step_pending (s : WP) (op : Op) (h : Pending s) : Pending (step true s op) := by
  cases op with
  | enqueue size =>
    intro _
    left
    simp [step]
  | dequeue =>
    simp only [step]
    split
    · intro _; right; simp
    · exact h
  | loopWrite =>
    simp only [step, loopWrite]
    cases hh : s.inHand with
    | none => simpa using h
    | some size =>
      simp only
      have hq := writePacket_queue { s with inHand := none } size
      cases hr : (writePacket { s with inHand := none } size).2
      · -- sent
        simp only [hr]
        intro hne
        by_cases hqe : s.queue = []
        · exact absurd (writePacket_flushes { s with inHand := none } size hqe hr) hne
        · left; rw [hq.1]; exact hqe
      · -- refused
        simp only [hr]
        split
        · intro hne; exact absurd (flush_outbuf _) hne
        · rename_i hcond
          intro _
          left
          rw [hq.1] at hcond ⊢
          intro hqe
          exact hcond (by simpa using hqe)
  | direct size =>
    simp only [step]
    have hq := writePacket_queue s size
    intro hne
    rw [hq.1, hq.2]
    cases hr : (writePacket s size).2
    · by_cases hqe : s.queue = []
      · exact absurd (writePacket_flushes s size hqe hr) hne
      · left; exact hqe
    · rw [writePacket_refused s size hr] at hne
      exact h hne

theorem run_pending (ops : List Op) (s : WP) (h : Pending s) : Pending (run true s ops) := by
  induction ops generalizing s with
  | nil => exact h
  | cons op rest ih => exact ih _ (step_pending s op h)

/-- **Flushed at quiescence (repaired write loop).** For every history: when nothing is queued and the
    write loop holds nothing, the write buffer is empty and every byte reported as sent has been
    written to the connection. -/
theorem C34_flushed (wbuf maxSize : Nat) (ops : List Op) :
    let s := run true (fresh wbuf maxSize) ops
    quiescent s = true → s.outbuf = none ∧ s.conn = s.reported := by
  intro s hq
  have hp : Pending s := run_pending ops _ (by intro h; simp [fresh] at h)
  have hnone : s.outbuf = none := by
    cases hs : s.outbuf with
    | none => rfl
    | some b =>
      exfalso
      have hne : s.outbuf ≠ none := by simp [hs]
      simp [quiescent] at hq
      rcases hp hne with h | h
      · exact h hq.1
      · exact h hq.2
  refine ⟨hnone, ?_⟩
  have hc := C34_conservation true wbuf maxSize ops
  simp only at hc
  change s.conn + buffered s = s.reported at hc
  simpa [buffered, hnone] using hc

/-- **F34a (the defect the repair removes).** Before the repair: a small packet is buffered because
    another one is queued behind it; that one is larger than the client's Maximum Packet Size and is
    refused; the broker is quiescent and the first packet — reported as sent — never reached the
    connection. -/
theorem C34_flushed_unrepaired_counterexample :
    let s := run false (fresh 2048 50) [.enqueue 12, .enqueue 200, .dequeue, .loopWrite, .dequeue, .loopWrite]
    quiescent s = true ∧ s.outbuf = some 12 ∧ s.conn = 0 ∧ s.reported = 12 := by decide

/-- the same history on the repaired write loop -/
example :
    let s := run true (fresh 2048 50) [.enqueue 12, .enqueue 200, .dequeue, .loopWrite, .dequeue, .loopWrite]
    quiescent s = true ∧ s.outbuf = none ∧ s.conn = 12 ∧ s.reported = 12 := by decide

/-- non-vacuity: a history in which buffering really happens and quiescence is reached -/
example :
    let s := run true (fresh 16 0) [.enqueue 5, .enqueue 6, .enqueue 7, .dequeue, .loopWrite, .direct 9, .dequeue, .loopWrite, .dequeue, .loopWrite]
    quiescent s = true ∧ s.conn = 27 ∧ s.reported = 27 := by decide

theorem step_dropReports (b : Bool) (s : WP) (op : Op) : (step b s op).dropReports = s.dropReports := by
  have hw : ∀ (s : WP) (size : Nat), (writePacket s size).1.dropReports = s.dropReports := by
    intro s size
    unfold writePacket
    split
    · rfl
    · simp only
      split
      · cases s.outbuf <;> simp [flush]
      · cases s.outbuf
        · simp only; split <;> simp
        · simp only; split <;> simp [flush]
  have hf : ∀ (s : WP), (flush s).dropReports = s.dropReports := by
    intro s; unfold flush; cases s.outbuf <;> simp
  cases op with
  | enqueue size => simp [step]
  | dequeue => simp only [step]; split <;> simp
  | loopWrite =>
    simp only [step, loopWrite]
    cases s.inHand with
    | none => rfl
    | some size =>
      simp only
      have := hw { s with inHand := none } size
      cases hr : (writePacket { s with inHand := none } size).2
      · simpa [hr] using this
      · simp only [hr]
        split
        · rw [hf]; simpa using this
        · simpa using this
  | direct size => exact hw s size

/-- no history ever reports a refused packet to the hooks (the code has no such call) -/
theorem C34_refusals_never_reported (b : Bool) (wbuf maxSize : Nat) (ops : List Op) :
    (run b (fresh wbuf maxSize) ops).dropReports = 0 := by
  have : ∀ (ops : List Op) (s : WP), (run b s ops).dropReports = s.dropReports := by
    intro ops
    induction ops with
    | nil => intro s; rfl
    | cons op rest ih => intro s; show (run b (step b s op) rest).dropReports = _; rw [ih, step_dropReports]
  rw [this]; rfl

/-- **F34b (known finding).** "Each such drop is reported to the hooks" fails: a queued message larger
    than the client's Maximum Packet Size is dropped without being written and without a hook event. -/
theorem C34_drops_unreported_counterexample :
    let s := run true (fresh 2048 50) [.enqueue 200, .dequeue, .loopWrite]
    s.dropped = 1 ∧ s.dropReports = 0 ∧ s.conn = 0 := by decide

end Mochi.WriteBuf
