import Mochi.Model.Broker
import Mochi.Props.C15
import Mochi.Lemmas.BrokerSession
/-!
# C14 — Session present flag and session takeover behave per clean start

Model: `sessionExisted` + `admitClient` (server.go `inheritClientSession`, `SendConnack`).
Reading (DESIGN.md §7): "a session existed" = the id is in the client map and the existing object is
not an MQTT 3 clean session.  The silence of the taken-over connection after its DISCONNECT is a
schedule property (known finding F14, concurrency model).
-/
namespace Mochi.Broker
open Mochi.Topics

/-- no session under that id ⇒ it did not exist -/
theorem C14_fresh (s : Server) (id : Str) (h : assocGet s.clients id = none) : sessionExisted s id = false := by
  unfold sessionExisted; simp [h]

/-- an MQTT 3 clean session never counts as existing -/
theorem C14_v3_clean_not_resumable (s : Server) (id : Str) (e : Nat) (h : assocGet s.clients id = some e)
    (hc : (getObj s e).clean = true) (hv : (getObj s e).ver < 5) : sessionExisted s id = false := by
  unfold sessionExisted; simp [h, hc, hv]

/-- any other stored session does -/
theorem C14_existing (s : Server) (id : Str) (e : Nat) (h : assocGet s.clients id = some e)
    (hc : (getObj s e).clean = false ∨ (getObj s e).ver ≥ 5) : sessionExisted s id = true := by
  unfold sessionExisted; simp only [h]
  rcases hc with hc | hc
  · simp [hc]
  · have : ¬ (getObj s e).ver < 5 := by omega
    simp [this]

/-- Clean Start 1 discards the previous session's in-flight messages (and `unsubscribeClient`
    empties its subscription list) -/
theorem C14_clean_discards (s : Server) (e : Nat) (h : e < s.objs.length) :
    (getObj (clearInflights s e) e).inflight = [] := by
  unfold clearInflights
  simp [getObj, setObj, h]

theorem C14_clean_discards_subs (s : Server) (e : Nat) (h : e < s.objs.length)
    (hto : (getObj s e).takenOver = true) :
    (getObj (unsubscribeClient s e) e).subs = [] := by
  unfold unsubscribeClient
  simp only [hto, if_true]
  simp [getObj, setObj, h]

/-! ### Clean Start leaves no subscription behind (`Mochi/Lemmas/BrokerIndexSync.lean`) -/

/-- after a CONNECT with Clean Start for client id `k.id` at the end of any history (respecting `OpFresh` and the
    discipline `SchedOK` of the schedule ops), if the new connection's session is the registered one, the topic index
    holds no non-inline entry (plain or shared) for that client id -/
theorem C14_clean_start_leaves_no_subscription (caps : Caps) (ops : List Op) (conn : Nat) (k : Connect)
    (hf : OpsFresh (init caps) (ops ++ [.connect conn k])) (hok : OpsSchedOK (init caps) (ops ++ [.connect conn k]))
    (hcl : k.clean = true)
    (hadm : (k.id, (run (init caps) ops).objs.length) ∈ (run (init caps) (ops ++ [.connect conn k])).clients)
    (f : Str) : (k.id, f) ∉ indexEntries (run (init caps) (ops ++ [.connect conn k])).topics := by
  obtain ⟨hf1, hf2⟩ := OpsFresh_append hf
  obtain ⟨hok1, _⟩ := OpsSchedOK_append hok
  have h := SyncInv_run caps ops hf1 hok1
  have hw := WF_run caps ops hf1
  have hw' := WF_run caps _ hf
  refine (IndexSync_run_partial caps _ hf hok).no_entry_of_no_subs k.id ?_ f
  intro i hi
  have e1 := assocGet_of_mem_nodup _ _ _ hw'.clients_nodup hi
  have e2 := assocGet_of_mem_nodup _ _ _ hw'.clients_nodup hadm
  rw [e1] at e2
  cases e2
  rw [run_append]
  exact step_connect_clean_subs h hw conn k hf2 hcl

/-- non-vacuity (`demoTakeover` of `Mochi/Props/C15.lean`: `B` is taken over with Clean Start by connection 3, object
    3): the hypotheses hold, `B`'s entry is gone and the index is not empty -/
example : OpsFresh (init {}) demoTakeover := by decide
example : OpsSchedOK (init {}) demoTakeover := by decide
example : (demoB, (run (init {}) (demoTakeover.take 4)).objs.length) ∈ (run (init {}) demoTakeover).clients := by decide
example : indexEntries (run (init {}) demoTakeover).topics = [(demoA, [97]), (demoA, demoShare)] := by decide

end Mochi.Broker

/-! ## Session present, for every sequential history (`Mochi/Lemmas/BrokerSession.lean`) -/
namespace Mochi.Broker
open Mochi.Topics

/-- **C14, session present.**  `s` reachable by a sequential history, `conn` a fresh connection number, `k` a CONNECT
    that is ADMITTED (`refuseCode … = none` in the state where the new client object exists).  The first packet written
    to `conn` is the CONNACK of the op (`C13_connack_first_seq`); here its fields are pinned:

    * its protocol version is the CONNECT's (`k.ver`), its reason code 0, receive maximum and maximum QoS the server's;
    * its session-present flag `sp` is true IFF a session is registered under `k.id` in `s` that is not an MQTT 3
      clean session, AND the CONNECT does not ask for Clean Start — `sp = sessionExisted s k.id && !k.clean`;
    * no other CONNACK is written to `conn`. -/
theorem C14_session_present_iff_seq (caps : Caps) (s : Server) (hr : ReachSeq caps s) (conn : Nat) (k : Connect)
    (hf : conn ∉ s.connOf.map (·.1))
    (hadm : refuseCode (connState s conn k) k (parseConnect s conn k) = none) :
    ∃ sp seiOut rest,
      writesTo conn (step s (.connect conn k)).2 =
        .connack k.ver sp 0 s.caps.receiveMaximum s.caps.maximumQos seiOut :: rest ∧
      (∀ pk ∈ rest, pk.isConnack = false) ∧
      (sp = true ↔
        (∃ e, assocGet s.clients k.id = some e ∧ ¬ ((getObj s e).clean = true ∧ (getObj s e).ver < 5)) ∧
          k.clean = false) ∧
      sp = (sessionExisted s k.id && !k.clean) := by
  obtain ⟨hs, hw, hcm, _⟩ := hr.inv
  obtain ⟨c', pre, seiOut, post, hc', hto, ho, hnp⟩ := sp14_connect_admitted_out s hs hw hcm conn k hadm hf
  refine ⟨sessionExisted s k.id && !k.clean, seiOut, writesTo conn post, ?_, writesTo_noConnack hnp, ?_, rfl⟩
  · rw [ho, writesTo_append, writesTo_append, writesTo_takeover hto hc']
    simp [writesTo]
  · unfold sessionExisted
    cases he : assocGet s.clients k.id with
    | none => simp
    | some e => cases hcl : k.clean <;> cases hc : (getObj s e).clean <;> simp [hc]

end Mochi.Broker

namespace Mochi.Broker
open Mochi.Topics

/-- Clean Start never resumes; neither does a CONNECT over an MQTT 3 clean session (`C14_v3_clean_not_resumable`) -/
theorem C14_discard_of_clean (s : Server) (k : Connect) (h : k.clean = true) :
    (sessionExisted s k.id && !k.clean) = false := by rw [h]; simp

/-- **C14, Clean Start discards / no Clean Start inherits.**  `s` reachable by a sequential history, `conn` fresh, `k`
    admitted; `i = s.objs.length` the new client object, `A` the state right after `Clients.Add` (`inheritClientSession`
    done, the object registered — `C13_admitted_registered_seq`), `r` the result of the op.

    * **discarded** (`sessionExisted s k.id && !k.clean = false`: Clean Start, or the registered session is an MQTT 3
      clean session, or there is none): at `Clients.Add` the new object is exactly the parsed CONNECT's object — no
      in-flight record, no subscription; at the end of the op it still has no subscription and the topic index holds NO
      entry (plain or shared) for `k.id`;
    * **resumed** (`… = true`, `e` the object registered under `k.id` in `s`): at `Clients.Add` the new object's in-flight
      records are EXACTLY the old object's, its subscription map is the old one re-subscribed in order
      (`sp14_inheritSubs`) — equal to the old map when that has no duplicate key; at the end of the op the
      subscription map is still that one.

    The in-flight records at the END of the op are not claimed: in between, the taken-over connection's will is
    published (possibly to the resumed session itself), `ResendInflightMessages` drops the PUBACK / PUBCOMP records it
    resent, and the barrier releases a deferred message. -/
theorem C14_clean_start_discards_seq (caps : Caps) (s : Server) (hr : ReachSeq caps s) (conn : Nat) (k : Connect)
    (hf : conn ∉ s.connOf.map (·.1))
    (hadm : refuseCode (connState s conn k) k (parseConnect s conn k) = none) :
    let i := s.objs.length
    let A := (admitA (connState s conn k) i k).1
    let r := step s (.connect conn k)
    ((sessionExisted s k.id && !k.clean) = false →
      getObj A i = parseConnect s conn k ∧ (getObj A i).inflight = [] ∧ (getObj A i).subs = [] ∧
      (getObj r.1 i).subs = [] ∧ ∀ f, (k.id, f) ∉ indexEntries r.1.topics) ∧
    (∀ e, assocGet s.clients k.id = some e → (sessionExisted s k.id && !k.clean) = true →
      (getObj A i).inflight = (getObj s e).inflight ∧
      (getObj A i).subs = sp14_inheritSubs (getObj s e).subs [] ∧
      (((getObj s e).subs.map (·.1)).Nodup → (getObj A i).subs = (getObj s e).subs) ∧
      (getObj r.1 i).subs = (getObj A i).subs) := by
  intro i A r
  obtain ⟨hs, hw, _, hn⟩ := hr.inv
  obtain ⟨_, C, _, _, _, S, _, _, F, R, _, _⟩ := sp14_step_connect_admitted s hs hw conn k hf hadm
  rw [sp14_present_eq] at F R
  have hw' : WF r.1 := WF_step s (.connect conn k) hw hf
  have hs' : SyncInv r.1 := SyncInv_step s (.connect conn k) hs hw hf (hn.schedOK _)
  constructor
  · intro hd
    have hA : getObj A i = parseConnect s conn k := F hd
    have hsub : (getObj r.1 i).subs = [] := by
      show (getObj (step s (.connect conn k)).1 s.objs.length).subs = []
      rw [S]
      show (getObj A i).subs = []
      rw [hA]; rfl
    refine ⟨hA, by rw [hA]; rfl, by rw [hA]; rfl, hsub, ?_⟩
    refine hs'.indexSync.no_entry_of_no_subs k.id ?_
    intro j hj
    have e1 := assocGet_of_mem_nodup _ _ _ hw'.clients_nodup hj
    have e2 : assocGet r.1.clients k.id = some i := by
      show assocGet (step s (.connect conn k)).1.clients k.id = _
      rw [C, assocGet_assocSet]; simp only [if_true]; rfl
    rw [e1] at e2
    cases e2
    exact hsub
  · intro e he hp
    obtain ⟨r1, r2⟩ := R e he hp
    refine ⟨r1, r2, fun hnd => ?_, S⟩
    rw [r2]
    exact sp14_inheritSubs_eq _ (fun fs hfs => ((hs.key e) fs hfs).1) hnd

end Mochi.Broker

/-! ## Non-vacuity: a resumed session, a Clean Start over it, a refused CONNECT at the limit -/
namespace Mochi.Broker
open Mochi.Topics

/-- limit 2.  `c1` (MQTT 5, session expiry 100) subscribes to `a` with QoS 1; `c2` publishes to `a` with QoS 1 — `c1`
    holds an unacknowledged in-flight record; `c1`'s connection is lost: its session stays registered (object 1) -/
def c14History : List Op :=
  [.connect 1 { ver := 5, clean := false, id := [99, 49], sei := some 100 },
   .recv 1 (.subscribe 5 0 [{ filter := [97], qos := 1 }]),
   .connect 2 { ver := 4, id := [99, 50] },
   .recv 2 (.publish 1 false false 7 [97] [1] 0 none),
   .drop 1]

def c14Caps : Caps := { maximumClients := 2 }
def c14State : Server := run (init c14Caps) c14History
/-- `c1` again, without Clean Start -/
def c14Resume : Connect := { ver := 5, clean := false, id := [99, 49], sei := some 100 }
/-- `c1` again, with Clean Start -/
def c14Clean : Connect := { ver := 5, clean := true, id := [99, 49] }

theorem c14State_reach : ReachSeq c14Caps c14State := ReachSeq.init.run c14History (by decide) (by decide)

example : assocGet c14State.clients [99, 49] = some 1 ∧ (getObj c14State 1).inflight.length = 1 ∧
    (getObj c14State 1).subs.map (·.1) = [[97]] ∧ c14State.objs.length = 3 := by decide

/-- **resumed**: both CONNECTs are admitted on the fresh connection 3 -/
theorem c14Resume_admitted : refuseCode (connState c14State 3 c14Resume) c14Resume (parseConnect c14State 3 c14Resume) = none := by
  decide
theorem c14Clean_admitted : refuseCode (connState c14State 3 c14Clean) c14Clean (parseConnect c14State 3 c14Clean) = none := by
  decide

/-- the resumed session: session present 1, then the in-flight PUBLISH is resent with DUP -/
example : (writesTo 3 (step c14State (.connect 3 c14Resume)).2).map (fun pk => match pk with
      | .connack v sp c _ _ _ => (0, v, sp, c)
      | .publish _ m _ => (1, m.id, m.dup, m.qos)
      | _ => (2, 0, false, 0)) = [(0, 5, true, 0), (1, 1, true, 1)] := by decide
/-- Clean Start over it: session present 0, nothing else; no index entry for `c1` afterwards -/
example : writesTo 3 (step c14State (.connect 3 c14Clean)).2 = [.connack 5 false 0 1024 2 none] ∧
    indexEntries (step c14State (.connect 3 c14Clean)).1.topics = [] ∧
    indexEntries (step c14State (.connect 3 c14Resume)).1.topics = [([99, 49], [97])] := by decide

/-- `C14_session_present_iff_seq` instantiated: session present is true for the resuming CONNECT … -/
example : ∃ sp seiOut rest, writesTo 3 (step c14State (.connect 3 c14Resume)).2 = .connack 5 sp 0 1024 2 seiOut :: rest ∧
    (∀ pk ∈ rest, pk.isConnack = false) ∧ sp = true := by
  obtain ⟨sp, seiOut, rest, h1, h2, _, h4⟩ :=
    C14_session_present_iff_seq c14Caps c14State c14State_reach 3 c14Resume (by decide) c14Resume_admitted
  exact ⟨sp, seiOut, rest, h1, h2, h4.trans (by decide)⟩
/-- … and false for the one with Clean Start -/
example : ∃ sp seiOut rest, writesTo 3 (step c14State (.connect 3 c14Clean)).2 = .connack 5 sp 0 1024 2 seiOut :: rest ∧
    (∀ pk ∈ rest, pk.isConnack = false) ∧ sp = false := by
  obtain ⟨sp, seiOut, rest, h1, h2, _, h4⟩ :=
    C14_session_present_iff_seq c14Caps c14State c14State_reach 3 c14Clean (by decide) c14Clean_admitted
  exact ⟨sp, seiOut, rest, h1, h2, h4.trans (by decide)⟩

/-- `C14_clean_start_discards_seq` instantiated: the resumed object 3 has object 1's record and subscription map … -/
example : (getObj (admitA (connState c14State 3 c14Resume) 3 c14Resume).1 3).inflight = (getObj c14State 1).inflight ∧
    (getObj (admitA (connState c14State 3 c14Resume) 3 c14Resume).1 3).subs = (getObj c14State 1).subs ∧
    (getObj c14State 1).inflight ≠ [] ∧ (getObj c14State 1).subs ≠ [] := by
  obtain ⟨a, _, c, _⟩ := (C14_clean_start_discards_seq c14Caps c14State c14State_reach 3 c14Resume (by decide)
    c14Resume_admitted).2 1 (by decide) (by decide)
  exact ⟨a, c (by decide), by decide, by decide⟩
/-- … the Clean Start object 3 has nothing, and the index no entry for `c1` -/
example : (getObj (step c14State (.connect 3 c14Clean)).1 3).subs = [] ∧
    ∀ f, ([99, 49], f) ∉ indexEntries (step c14State (.connect 3 c14Clean)).1.topics := by
  obtain ⟨_, _, _, d, e⟩ := (C14_clean_start_discards_seq c14Caps c14State c14State_reach 3 c14Clean (by decide)
    c14Clean_admitted).1 (by decide)
  exact ⟨d, e⟩

end Mochi.Broker

namespace Mochi.Broker
open Mochi.Topics

/-- **why the in-flight records are pinned at `Clients.Add`, not at the end of the op (Go behaviour).**  `c1` (will on
    `a`, QoS 1) is subscribed to `a` with QoS 1 and holds no in-flight record; it connects again without Clean Start
    while still connected: the old connection is taken over, its will is published (`attachClient`'s tail of the old
    handler: /repo/server.go:574 `DisconnectClient(existing, ErrSessionTakenOver)`, :487 `s.sendLWT(cl)`) and delivered to the RESUMED
    session: at `Clients.Add` the new object has the old object's (zero) records, at the end of the op it has one. -/
theorem C14_inflight_end_of_op_counterexample :
    let h : List Op :=
      [.connect 1 { ver := 5, clean := false, id := [99, 49], sei := some 100,
                    will := some { topic := [97], payload := [119], qos := 1 } },
       .recv 1 (.subscribe 5 0 [{ filter := [97], qos := 1 }])]
    let k : Connect := { ver := 5, clean := false, id := [99, 49], sei := some 100 }
    let s := run (init {}) h
    (getObj s 1).inflight.length = 0 ∧
    (getObj (admitA (connState s 2 k) 2 k).1 2).inflight.length = 0 ∧
    (getObj (step s (.connect 2 k)).1 2).inflight.length = 1 := by decide

end Mochi.Broker

#print axioms Mochi.Broker.C14_session_present_iff_seq
#print axioms Mochi.Broker.c14State_reach
#print axioms Mochi.Broker.C14_clean_start_discards_seq
