import Mochi.Model.Broker
/-!
# C14 — Session present flag and session takeover behave per clean start

Model: `sessionExisted` + `admitClient` (server.go `inheritClientSession`, `SendConnack`).
Reading (DESIGN.md §7): "a session existed" = the id is in the client map and the existing object is
not an MQTT 3 clean session.  The silence of the taken-over connection after its DISCONNECT is a
schedule property (known finding F14, concurrency model).
-/
namespace Mochi.Broker
open Mochi.Topics

/-- no session under that id ⇒ it did not exist -/
theorem C14_fresh (s : Server) (id : Str) (h : assocGet s.clients id = none) : sessionExisted s id = false := by
  unfold sessionExisted; simp [h]

/-- an MQTT 3 clean session never counts as existing -/
theorem C14_v3_clean_not_resumable (s : Server) (id : Str) (e : Nat) (h : assocGet s.clients id = some e)
    (hc : (getObj s e).clean = true) (hv : (getObj s e).ver < 5) : sessionExisted s id = false := by
  unfold sessionExisted; simp [h, hc, hv]

/-- any other stored session does -/
theorem C14_existing (s : Server) (id : Str) (e : Nat) (h : assocGet s.clients id = some e)
    (hc : (getObj s e).clean = false ∨ (getObj s e).ver ≥ 5) : sessionExisted s id = true := by
  unfold sessionExisted; simp only [h]
  rcases hc with hc | hc
  · simp [hc]
  · have : ¬ (getObj s e).ver < 5 := by omega
    simp [this]

/-- Clean Start 1 discards the previous session's in-flight messages (and `unsubscribeClient`
    empties its subscription list) -/
theorem C14_clean_discards (s : Server) (e : Nat) (h : e < s.objs.length) :
    (getObj (clearInflights s e) e).inflight = [] := by
  unfold clearInflights
  simp [getObj, setObj, h]

theorem C14_clean_discards_subs (s : Server) (e : Nat) (h : e < s.objs.length)
    (hto : (getObj s e).takenOver = true) :
    (getObj (unsubscribeClient s e) e).subs = [] := by
  unfold unsubscribeClient
  simp only [hto, if_true]
  simp [getObj, setObj, h]

end Mochi.Broker
