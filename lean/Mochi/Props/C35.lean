import Mochi.Model.Broker
import Mochi.Lemmas.BrokerSession
/-!
# C35 — The connected-client limit is never exceeded (sequential part)

Model: `refuseCode` (the `MaximumClients` test of `attachClient`).  Sequentially, a connection attempt
at the limit is refused with 0x89 (MQTT 5) / 0x03 (MQTT 3, via `v3code 0x88`).  The check and the
counter increment are separate steps with validation and authentication in between (known finding F35,
recorded): under concurrent attempts the limit can be exceeded — exhibited by the schedule replay of
the concurrency suite, not by this sequential theorem.
-/
namespace Mochi.Broker

theorem C35_refused_at_limit (s : Server) (k : Connect) (c : Client) (h : s.info.connected ≥ s.caps.maximumClients) :
    refuseCode s k c = some (if k.ver < 5 then 0x88 else 0x89) := by
  unfold refuseCode; simp [h]

theorem C35_v3_code : v3code 0x88 = 3 := by decide

/-- below the limit the limit check does not refuse -/
theorem C35_admits_below_limit (s : Server) (k : Connect) (c : Client) (h : s.info.connected < s.caps.maximumClients)
    (code : Nat) (hr : refuseCode s k c = some code) : code ≠ 0x89 ∧ code ≠ 0x88 := by
  unfold refuseCode at hr
  have : ¬ s.info.connected ≥ s.caps.maximumClients := by omega
  simp only [this, if_false] at hr
  (repeat' split at hr) <;> simp_all <;> omega

end Mochi.Broker

namespace Mochi.Broker

/-- the connections that are established (open, not the inline client) -/
def established (s : Server) : Nat :=
  (s.clients.filter fun (_, i) => (getObj s i).isOpen && !(getObj s i).inline).length

def runOps (s : Server) (ops : List Op) : Server := ops.foldl (fun s op => (step s op).1) s

/-- **F35 (schedule).** Limit 1. Connection 1 passes the `MaximumClients` test and is parked in the
    authentication hook; connection 2 is established; connection 1 resumes: two established
    connections. (Replayed on the real broker on every run: corpus/C35.) -/
theorem C35_limit_counterexample :
    let s := runOps (init { maximumClients := 1 })
      [.connectHold 1 { ver := 5, id := [99, 49] } 1, .connect 2 { ver := 5, id := [99, 50] }, .release 1]
    established s = 2 ∧ s.caps.maximumClients = 1 := by decide

/-- without the interleaving the second connection is refused -/
example :
    let s := runOps (init { maximumClients := 1 }) [.connect 1 { ver := 5, id := [99, 49] }, .connect 2 { ver := 5, id := [99, 50] }]
    established s = 1 := by decide

end Mochi.Broker

/-! ## The limit holds for every history without schedule ops (`Mochi/Lemmas/BrokerSession.lean`) -/
namespace Mochi.Broker
open Mochi.Topics

/-- the invariant of the walk: reachable, counters right, capabilities as configured, `ClientsConnected ≤ MaximumClients` -/
structure fc35_J (caps : Caps) (s : Server) : Prop where
  reach : ReachSeq caps s
  cnt : Counted s
  capsEq : s.caps = caps
  le : s.info.connected ≤ caps.maximumClients

theorem fc35_J_init (caps : Caps) : fc35_J caps (init caps) :=
  ⟨ReachSeq.init, Counted_init caps, rfl, Int.natCast_nonneg _⟩

theorem fc35_J_step {caps : Caps} {s : Server} (h : fc35_J caps s) (op : Op) (hseq : op.isSeq = true)
    (hf : OpFresh s op) (hid : opIdOK op = true) : fc35_J caps (step s op).1 := by
  obtain ⟨hs, hw, _, hn1, hn2, hn3⟩ := h.reach.inv
  have hsched : OpSched s op := by
    refine ⟨fun i _ => ⟨?_, ?_⟩, hid⟩
    · rw [hn3]; intro p hp; cases hp
    · rw [hn2]; exact List.not_mem_nil
  refine ⟨h.reach.step op hseq hf, Counted_step s op hw hf hsched h.cnt, ?_, ?_⟩
  · cases op with
    | connect conn k =>
      rcases fc35_step_connect s hs hw conn k hf with ⟨c, _⟩ | r
      · rw [c, h.capsEq]
      · rw [r.caps, h.capsEq]
    | _ => rw [(fc35_step_other s _ hw h.cnt.inflight.nz hseq (fun _ _ e => by cases e)).caps, h.capsEq]
  · cases op with
    | connect conn k =>
      rcases fc35_step_connect s hs hw conn k hf with ⟨_, l⟩ | r
      · rw [← h.capsEq]; exact l
      · exact Int.le_trans r.le h.le
    | _ => exact Int.le_trans (fc35_step_other s _ hw h.cnt.inflight.nz hseq (fun _ _ e => by cases e)).le h.le

theorem fc35_J_run {caps : Caps} {s : Server} (h : fc35_J caps s) (ops : List Op) (hseq : SeqOps ops)
    (hf : OpsFresh s ops) (hid : ∀ op ∈ ops, opIdOK op = true) : fc35_J caps (run s ops) := by
  induction ops generalizing s with
  | nil => exact h
  | cons op ops ih =>
    exact ih (fc35_J_step h op (hseq op List.mem_cons_self) hf.1 (hid op List.mem_cons_self))
      (fun o ho => hseq o (List.mem_cons_of_mem _ ho)) hf.2 (fun o ho => hid o (List.mem_cons_of_mem _ ho))

/-- the established connections (registered, open, not the inline client) are among the open network clients -/
theorem fc35_established_le {s : Server} (hw : WF s) : established s ≤ liveClients s := by
  have he : established s = liveReg s := by
    unfold established liveReg
    rw [List.countP_eq_length_filter]
  rw [he]
  unfold liveReg liveClients
  rw [← List.countP_eq_length_filter, ← countP_range_getD s.objs {} (fun c => c.isOpen && !c.inline),
    (range_perm_reg hw).countP_eq, List.countP_append, List.countP_map]
  exact Nat.le_add_right _ _

/-- **C35, the limit holds sequentially.**  For every history from `init caps` without schedule ops (`SeqOps`), on fresh
    connection numbers (`OpsFresh`), in which no network client uses the inline client's id (`opIdOK`, the hypothesis
    of the counter theorem `Counted_run`): in the final state — hence, the hypotheses being prefix-closed, after every
    op — the capabilities are the configured ones, `ClientsConnected` is the number of open network client objects,
    and that number — so also the number of ESTABLISHED connections (registered, open, not the inline client) — is at
    most `MaximumClients`.

    The bound is exactly `MaximumClients` (no `max`, no `≥ 1`): the test `ClientsConnected ≥ MaximumClients → refuse` is
    evaluated before the increment, so an admitted CONNECT found the counter strictly below the limit; with
    `MaximumClients = 0` every CONNECT is refused.  With schedule ops it is false: `C35_limit_counterexample` (F35). -/
theorem C35_limit_holds_seq (caps : Caps) (ops : List Op) (hseq : SeqOps ops) (hf : OpsFresh (init caps) ops)
    (hid : ∀ op ∈ ops, opIdOK op = true) :
    (run (init caps) ops).caps = caps ∧
    (run (init caps) ops).info.connected = liveClients (run (init caps) ops) ∧
    liveClients (run (init caps) ops) ≤ caps.maximumClients ∧
    established (run (init caps) ops) ≤ caps.maximumClients := by
  have j := fc35_J_run (fc35_J_init caps) ops hseq hf hid
  obtain ⟨_, hw, _, hn⟩ := j.reach.inv
  have hq := j.cnt.connected_quiescent hn
  have hl : liveClients (run (init caps) ops) ≤ caps.maximumClients := by
    have := j.le
    rw [hq] at this
    exact Int.ofNat_le.mp this
  exact ⟨j.capsEq, hq, hl, Nat.le_trans (fc35_established_le hw) hl⟩

/-- after every op of such a history (the statement for every prefix) -/
theorem C35_limit_holds_seq_prefix (caps : Caps) (ops : List Op) (hseq : SeqOps ops) (hf : OpsFresh (init caps) ops)
    (hid : ∀ op ∈ ops, opIdOK op = true) (n : Nat) :
    established (run (init caps) (ops.take n)) ≤ caps.maximumClients := by
  have hf' : ∀ (s : Server) (l : List Op) (n : Nat), OpsFresh s l → OpsFresh s (l.take n) := by
    intro s l
    induction l generalizing s with
    | nil => intro n _; rw [List.take_nil]; trivial
    | cons o l ih =>
      intro n h
      cases n with
      | zero => trivial
      | succ n => exact ⟨h.1, ih _ n h.2⟩
  exact (C35_limit_holds_seq caps (ops.take n) (fun o ho => hseq o (List.mem_of_mem_take ho)) (hf' _ _ n hf)
    (fun o ho => hid o (List.mem_of_mem_take ho))).2.2.2

end Mochi.Broker

namespace Mochi.Broker

/-- **why `opIdOK` is a hypothesis (model artefact, not Go behaviour).**  Limit 1; a network client connects with the
    inline client's id `inline`: in the MODEL the take-over of object 0 runs the tail of `attachClient` for it
    (`detach 0 true`), whose deferred decrement brings `ClientsConnected` back to 0, so a second client is admitted: two
    established connections.  In Go the inline client is created by `NewClient(nil, LocalListener, InlineClientId, true)`
    (/repo/server.go:200-201) and never runs `attachClient`, so there is no deferred decrement for it
    (/repo/server.go:454-455 belong to the handler of a network connection): the counter stays 1 and the second CONNECT
    is refused.  The model's `connect` is faithful only for histories in which no network client uses that id — the
    hypothesis `opIdOK` of `Counted_run`, which every generated history satisfies. -/
theorem C35_limit_inline_id_counterexample :
    let ops : List Op := [.connect 1 { ver := 5, id := inlineID }, .connect 2 { ver := 5, id := [99] }]
    let s := run (init { maximumClients := 1 }) ops
    SeqOps ops ∧ OpsFresh (init { maximumClients := 1 }) ops ∧ ¬ (∀ op ∈ ops, opIdOK op = true) ∧
    established s = 2 ∧ s.info.connected = 1 ∧ s.caps.maximumClients = 1 := by decide

end Mochi.Broker

/-! ## Non-vacuity: a resumed session fills the limit, the next CONNECT is refused -/
namespace Mochi.Broker
open Mochi.Topics

/-- limit 2: `c1` and `c2` connect, `c1` is lost (its session stays), `c1` resumes on connection 3 (two established
    connections: the limit), `c3` tries on connection 4 -/
def c35History : List Op :=
  [.connect 1 { ver := 5, clean := false, id := [99, 49], sei := some 100 },
   .recv 1 (.subscribe 5 0 [{ filter := [97], qos := 1 }]),
   .connect 2 { ver := 4, id := [99, 50] },
   .recv 2 (.publish 1 false false 7 [97] [1] 0 none),
   .drop 1,
   .connect 3 { ver := 5, clean := false, id := [99, 49], sei := some 100 },
   .connect 4 { ver := 5, id := [99, 51] }]

example : SeqOps c35History ∧ OpsFresh (init { maximumClients := 2 }) c35History ∧
    (∀ op ∈ c35History, opIdOK op = true) := by decide

/-- the CONNECT at the limit is refused with 0x89 and closed; the limit is reached, not passed -/
example : (step (run (init { maximumClients := 2 }) (c35History.take 6)) (.connect 4 { ver := 5, id := [99, 51] })).2 =
      [.wrote 4 (.connack 5 false 0x89 1024 2 none), .closed 4] ∧
    established (run (init { maximumClients := 2 }) (c35History.take 6)) = 2 ∧
    established (run (init { maximumClients := 2 }) c35History) = 2 ∧
    (run (init { maximumClients := 2 }) c35History).info.connected = 2 := by decide

/-- `C35_limit_holds_seq` instantiated -/
example : established (run (init { maximumClients := 2 }) c35History) ≤ 2 :=
  (C35_limit_holds_seq { maximumClients := 2 } c35History (by decide) (by decide) (by decide)).2.2.2

end Mochi.Broker

#print axioms Mochi.Broker.C35_limit_holds_seq
#print axioms Mochi.Broker.C35_limit_holds_seq_prefix
