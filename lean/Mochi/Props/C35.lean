import Mochi.Model.Broker
/-!
# C35 — The connected-client limit is never exceeded (sequential part)

Model: `refuseCode` (the `MaximumClients` test of `attachClient`).  Sequentially, a connection attempt
at the limit is refused with 0x89 (MQTT 5) / 0x03 (MQTT 3, via `v3code 0x88`).  The check and the
counter increment are separate steps with validation and authentication in between (known finding F35,
recorded): under concurrent attempts the limit can be exceeded — exhibited by the schedule replay of
the concurrency suite, not by this sequential theorem.
-/
namespace Mochi.Broker

theorem C35_refused_at_limit (s : Server) (k : Connect) (c : Client) (h : s.info.connected ≥ s.caps.maximumClients) :
    refuseCode s k c = some (if k.ver < 5 then 0x88 else 0x89) := by
  unfold refuseCode; simp [h]

theorem C35_v3_code : v3code 0x88 = 3 := by decide

/-- below the limit the limit check does not refuse -/
theorem C35_admits_below_limit (s : Server) (k : Connect) (c : Client) (h : s.info.connected < s.caps.maximumClients)
    (code : Nat) (hr : refuseCode s k c = some code) : code ≠ 0x89 ∧ code ≠ 0x88 := by
  unfold refuseCode at hr
  have : ¬ s.info.connected ≥ s.caps.maximumClients := by omega
  simp only [this, if_false] at hr
  (repeat' split at hr) <;> simp_all <;> omega

end Mochi.Broker

namespace Mochi.Broker

/-- the connections that are established (open, not the inline client) -/
def established (s : Server) : Nat :=
  (s.clients.filter fun (_, i) => (getObj s i).isOpen && !(getObj s i).inline).length

def runOps (s : Server) (ops : List Op) : Server := ops.foldl (fun s op => (step s op).1) s

/-- **F35 (schedule).** Limit 1. Connection 1 passes the `MaximumClients` test and is parked in the
    authentication hook; connection 2 is established; connection 1 resumes: two established
    connections. (Replayed on the real broker on every run: corpus/C35.) -/
theorem C35_limit_counterexample :
    let s := runOps (init { maximumClients := 1 })
      [.connectHold 1 { ver := 5, id := [99, 49] } 1, .connect 2 { ver := 5, id := [99, 50] }, .release 1]
    established s = 2 ∧ s.caps.maximumClients = 1 := by decide

/-- without the interleaving the second connection is refused -/
example :
    let s := runOps (init { maximumClients := 1 }) [.connect 1 { ver := 5, id := [99, 49] }, .connect 2 { ver := 5, id := [99, 50] }]
    established s = 1 := by decide

end Mochi.Broker
