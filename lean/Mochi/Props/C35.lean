import Mochi.Model.Broker
/-!
# C35 — The connected-client limit is never exceeded (sequential part)

Model: `refuseCode` (the `MaximumClients` test of `attachClient`).  Sequentially, a connection attempt
at the limit is refused with 0x89 (MQTT 5) / 0x03 (MQTT 3, via `v3code 0x88`).  The check and the
counter increment are separate steps with validation and authentication in between (known finding F35,
recorded): under concurrent attempts the limit can be exceeded — exhibited by the schedule replay of
the concurrency suite, not by this sequential theorem.
-/
namespace Mochi.Broker

theorem C35_refused_at_limit (s : Server) (k : Connect) (c : Client) (h : s.info.connected ≥ s.caps.maximumClients) :
    refuseCode s k c = some (if k.ver < 5 then 0x88 else 0x89) := by
  unfold refuseCode; simp [h]

theorem C35_v3_code : v3code 0x88 = 3 := by decide

/-- below the limit the limit check does not refuse -/
theorem C35_admits_below_limit (s : Server) (k : Connect) (c : Client) (h : s.info.connected < s.caps.maximumClients)
    (code : Nat) (hr : refuseCode s k c = some code) : code ≠ 0x89 ∧ code ≠ 0x88 := by
  unfold refuseCode at hr
  have : ¬ s.info.connected ≥ s.caps.maximumClients := by omega
  simp only [this, if_false] at hr
  (repeat' split at hr) <;> simp_all <;> omega

end Mochi.Broker
