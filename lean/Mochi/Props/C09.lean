import Mochi.Model.Broker
import Mochi.Props.C08
/-!
# C09 — Unacknowledged QoS 1/2 messages survive reconnection until acknowledged

Model: the in-flight store (`flSet`/`flGet`/`flDelete`), `processPubrec`, the resend loop of `admitClient`.
Proved: a stored message stays retrievable under its identifier until deleted; after PUBREC the
record under the identifier is of type PUBREL (so PUBREL, not PUBLISH, is resent); an acknowledged
message is gone.
Known finding F09 (recorded): after a message deferred by flow control is finally written,
`processPacket` deletes its in-flight record (`nextImmediate`), so it is neither awaited nor
redelivered.  Partial: schedules.
-/
namespace Mochi.Broker
open Mochi.Topics

theorem find_map_replace (l : List Msg) (m : Msg) (h : ∃ x ∈ l, x.id = m.id) :
    (l.map (fun x => if x.id == m.id then m else x)).find? (fun x => x.id == m.id) = some m := by
  induction l with
  | nil => obtain ⟨x, hx, _⟩ := h; simp at hx
  | cons y ys ih =>
    simp only [List.map_cons, List.find?_cons]
    by_cases hy : y.id = m.id
    · simp [hy]
    · have hy' : (y.id == m.id) = false := by simpa using hy
      simp only [hy', Bool.false_eq_true, if_false]
      apply ih
      obtain ⟨x, hx, hid⟩ := h
      rcases List.mem_cons.mp hx with h1 | h1
      · subst h1; exact absurd hid hy
      · exact ⟨x, h1, hid⟩

/-- a stored message is retrievable under its identifier -/
theorem C09_stored (c : Client) (m : Msg) : flGet (flSet c m).1 m.id = some m := by
  unfold flSet
  split
  · rename_i h
    unfold flGet at h ⊢
    simp only []
    obtain ⟨x, hx⟩ := Option.isSome_iff_exists.mp h
    exact find_map_replace _ _ ⟨x, List.mem_of_find?_eq_some hx, by simpa using List.find?_some hx⟩
  · rename_i h
    unfold flGet at h ⊢
    simp only []
    rw [List.find?_append]
    have : List.find? (fun x => x.id == m.id) c.inflight = none := by simpa using h
    simp [this]

theorem getObj_setObj (s : Server) (i : Nat) (c : Client) (h : i < s.objs.length) : getObj (setObj s i c) i = c := by
  simp [getObj, setObj, h]

/-- after PUBREC (non-failure reason) the record under that identifier is a PUBREL -/
theorem C09_after_pubrec (s : Server) (i id rc : Nat) (m : Msg) (hi : i < s.objs.length)
    (hk : flGet (getObj s i) id = some m) (hrc : rc < 0x80) (hv : reasonValid 5 rc = true) :
    (flGet (getObj (processPubrec s i id rc).1 i) id).map (·.type) = some 6 := by
  unfold processPubrec
  have h1 : ¬ rc ≥ 0x80 := by omega
  simp only [hk, Option.isNone_some, Bool.false_eq_true, if_false, h1, decide_false, hv, Bool.not_true, Bool.or_self]
  have key : ∀ (c : Client) (a : Msg), a.id = id → a.type = 6 → (flGet (flSet c a).1 id).map (·.type) = some 6 := by
    intro c a hid ht
    rw [← hid, C09_stored]; simp [ht]
  -- the PUBREL write may fail (dead connection): the record is stored either way
  split <;> (rw [getObj_setObj _ _ _ hi]; exact key _ _ rfl rfl)

/-- an acknowledged message is removed and therefore never resent -/
theorem C09_acked_gone (c : Client) (id : Nat) : flGet (flDelete c id).1 id = none := C08_pubrel_releases c id

end Mochi.Broker
