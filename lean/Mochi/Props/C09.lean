import Mochi.Model.Broker
import Mochi.Props.C08
import Mochi.Lemmas.BrokerSurvive
import Mochi.Lemmas.BrokerResend
import Mochi.Props.C09Demo
/-!
# C09 — Unacknowledged QoS 1/2 messages survive reconnection until acknowledged

Model: the in-flight store (`flSet`/`flGet`/`flDelete`), `processPubrec`, the resend loop of `admitClient`.
Proved: a stored message stays retrievable under its identifier until deleted; after PUBREC the
record under the identifier is of type PUBREL (so PUBREL, not PUBLISH, is resent); an acknowledged
message is gone.
Known finding F09 (recorded): after a message deferred by flow control is finally written,
`processPacket` deletes its in-flight record (`nextImmediate`), so it is neither awaited nor
redelivered.  Partial: schedules.

## The record of an unacknowledged exchange survives every op that does not end it (all 12 op kinds)

Definitions (`Mochi/Lemmas/BrokerSurviveDefs.lean`): `Holds s cid k payload` — the object REGISTERED under `cid` has an
in-flight record under packet identifier `k` that is the PUBLISH (type 3) with that payload or the PUBREL (type 6)
`processPubrec` put in its place, and is not a record deferred by flow control (`0 ≤ expiry`; F09);
`Ends s cid k op` (decidable) — the ops that may legitimately end the exchange in state `s`.
Theorems (below): `C09_record_survives_step` (every op kind, schedule ops included — no `SchedOK` needed for the step
itself; `SyncInv` is only used for `release` of a CONNECT parked in the authentication hook),
`C09_record_survives_run` / `C09_record_survives_history` (op lists), `C09_resume_resends` (what a resumption
resends: PUBLISH with DUP for a PUBLISH record; PUBREL — and, in the resend loop, no PUBLISH with that identifier — for a
PUBREL record).  Non-vacuity and the F09 counterexample by `decide`: `Mochi/Props/C09Demo.lean`.
Go behaviour behind the two clauses of the definitions that are not in the property text: F09 — `processPacket`
(server.go:732-741) writes the next deferred message (`NextImmediate`, inflight.go:85/100: `Expiry < 0`) and then
`Inflight.Delete`s it; F10 — `processPublish` (server.go:920-929) looks the CLIENT's packet identifier up in the same
`cl.State.Inflight` map that holds the server's outbound records and deletes whatever is there (unless it is a PUBREC);
`processPubrel` (server.go:1235-1257) likewise.  Both are faithful to the Go code, not model artefacts.
-/
namespace Mochi.Broker
open Mochi.Topics

theorem find_map_replace (l : List Msg) (m : Msg) (h : ∃ x ∈ l, x.id = m.id) :
    (l.map (fun x => if x.id == m.id then m else x)).find? (fun x => x.id == m.id) = some m := by
  induction l with
  | nil => obtain ⟨x, hx, _⟩ := h; simp at hx
  | cons y ys ih =>
    simp only [List.map_cons, List.find?_cons]
    by_cases hy : y.id = m.id
    · simp [hy]
    · have hy' : (y.id == m.id) = false := by simpa using hy
      simp only [hy', Bool.false_eq_true, if_false]
      apply ih
      obtain ⟨x, hx, hid⟩ := h
      rcases List.mem_cons.mp hx with h1 | h1
      · subst h1; exact absurd hid hy
      · exact ⟨x, h1, hid⟩

/-- a stored message is retrievable under its identifier -/
theorem C09_stored (c : Client) (m : Msg) : flGet (flSet c m).1 m.id = some m := by
  unfold flSet
  split
  · rename_i h
    unfold flGet at h ⊢
    simp only []
    obtain ⟨x, hx⟩ := Option.isSome_iff_exists.mp h
    exact find_map_replace _ _ ⟨x, List.mem_of_find?_eq_some hx, by simpa using List.find?_some hx⟩
  · rename_i h
    unfold flGet at h ⊢
    simp only []
    rw [List.find?_append]
    have : List.find? (fun x => x.id == m.id) c.inflight = none := by simpa using h
    simp [this]

theorem getObj_setObj (s : Server) (i : Nat) (c : Client) (h : i < s.objs.length) : getObj (setObj s i c) i = c := by
  simp [getObj, setObj, h]

/-- after PUBREC (non-failure reason) the record under that identifier is a PUBREL -/
theorem C09_after_pubrec (s : Server) (i id rc : Nat) (m : Msg) (hi : i < s.objs.length)
    (hk : flGet (getObj s i) id = some m) (hrc : rc < 0x80) (hv : reasonValid 5 rc = true) :
    (flGet (getObj (processPubrec s i id rc).1 i) id).map (·.type) = some 6 := by
  unfold processPubrec
  have h1 : ¬ rc ≥ 0x80 := by omega
  simp only [hk, Option.isNone_some, Bool.false_eq_true, if_false, h1, decide_false, hv, Bool.not_true, Bool.or_self]
  have key : ∀ (c : Client) (a : Msg), a.id = id → a.type = 6 → (flGet (flSet c a).1 id).map (·.type) = some 6 := by
    intro c a hid ht
    rw [← hid, C09_stored]; simp [ht]
  -- the PUBREL write may fail (dead connection): the record is stored either way
  split <;> (rw [getObj_setObj _ _ _ hi]; exact key _ _ rfl rfl)

/-- an acknowledged message is removed and therefore never resent -/
theorem C09_acked_gone (c : Client) (id : Nat) : flGet (flDelete c id).1 id = none := C08_pubrel_releases c id

/-! ### the record survives every op that does not end the exchange -/

/-- **C09, one op.**  In a well-formed state, the session registered under `cid` holds the record of exchange `k`
    (payload `p`) after EVERY op — of any of the 12 kinds — that is not one of the ops `Ends s cid k` lists: after a
    resumption / take-over (`connect … {clean := false}`) the record is in the NEW object; publishes by other clients,
    drops, ticks and the schedule ops leave it where it is. -/
theorem C09_record_survives_step (s : Server) (op : Op) (cid : Str) (k : Nat) (p : Str) (hw : WF s)
    (hsync : SyncInv s) (hf : OpFresh s op) (h : Holds s cid k p) (hne : ¬ Ends s cid k op) :
    Holds (step s op).1 cid k p := by
  cases op with
  | connect conn k' => exact step_connect_holds k p cid s conn k' hw hf h hne
  | connectHold conn k' stage => exact step_connectHold_holds k p cid s conn k' stage hw hf h hne
  | release conn => exact step_release_holds k p cid s conn hw hsync h hne
  | recv conn pk => obtain ⟨i, h⟩ := h; exact (step_recv_holds k p cid s conn pk i hw h hne).holds
  | recvCut conn pk => obtain ⟨i, h⟩ := h; exact (step_recvCut_holds k p cid s conn pk i hw h hne).holds
  | drop conn => obtain ⟨i, h⟩ := h; exact (step_drop_holds k p cid s conn i hw h hne).holds
  | dropHold conn => obtain ⟨i, h⟩ := h; exact (step_dropHold_holds k p cid s conn i h).holds
  | dropHoldEarly conn => obtain ⟨i, h⟩ := h; exact (step_dropHoldEarly_holds k p cid s conn i h).holds
  | tick kind t => obtain ⟨i, h⟩ := h; exact (step_tick_holds k p cid s kind t i hw h hne).holds
  | inlinePublish topic payload retain qos =>
    obtain ⟨i, h⟩ := h; exact (step_inlinePublish_holds k p cid s topic payload retain qos i hw h hne).holds
  | inlineSubscribe id filter => obtain ⟨i, h⟩ := h; exact (step_inlineSubscribe_holds k p cid s id filter i h).holds
  | inlineUnsubscribe id filter =>
    obtain ⟨i, h⟩ := h; exact (step_inlineUnsubscribe_holds k p cid s id filter i h).holds

/-- no op of the history ends exchange `k` of `cid` in the state it is applied to (threaded like `OpsFresh`) -/
def NoEnds (s : Server) (cid : Str) (k : Nat) : List Op → Prop
  | [] => True
  | op :: ops => ¬ Ends s cid k op ∧ NoEnds (step s op).1 cid k ops

instance instDecidableNoEnds (s : Server) (cid : Str) (k : Nat) (ops : List Op) : Decidable (NoEnds s cid k ops) :=
  match ops with
  | [] => isTrue trivial
  | op :: ops =>
    match (inferInstance : Decidable (¬ Ends s cid k op)) with
    | isFalse h => isFalse (fun g => h g.1)
    | isTrue h =>
      match instDecidableNoEnds (step s op).1 cid k ops with
      | isFalse g => isFalse (fun g' => g g'.2)
      | isTrue g => isTrue ⟨h, g⟩

/-- **C09, op lists.** -/
theorem C09_record_survives_run (s : Server) (ops : List Op) (cid : Str) (k : Nat) (p : Str) (hw : WF s)
    (hsync : SyncInv s) (hf : OpsFresh s ops) (hok : OpsSchedOK s ops) (h : Holds s cid k p)
    (hne : NoEnds s cid k ops) : Holds (run s ops) cid k p := by
  induction ops generalizing s with
  | nil => exact h
  | cons op ops ih =>
    show Holds (run (step s op).1 ops) cid k p
    exact ih _ (WF_step s op hw hf.1) (SyncInv_step s op hsync hw hf.1 hok.1) hf.2 hok.2
      (C09_record_survives_step s op cid k p hw hsync hf.1 h hne.1) hne.2

theorem run_append_sv (s : Server) (a b : List Op) : run s (a ++ b) = run (run s a) b := by
  unfold run; rw [List.foldl_append]

theorem OpsFresh_app {s : Server} {a b : List Op} (h : OpsFresh s (a ++ b)) : OpsFresh s a ∧ OpsFresh (run s a) b := by
  induction a generalizing s with
  | nil => exact ⟨trivial, h⟩
  | cons x xs ih =>
    obtain ⟨h1, h2⟩ := ih h.2
    exact ⟨⟨h.1, h1⟩, h2⟩

theorem OpsSchedOK_app {s : Server} {a b : List Op} (h : OpsSchedOK s (a ++ b)) :
    OpsSchedOK s a ∧ OpsSchedOK (run s a) b := by
  induction a generalizing s with
  | nil => exact ⟨trivial, h⟩
  | cons x xs ih =>
    obtain ⟨h1, h2⟩ := ih h.2
    exact ⟨⟨h.1, h1⟩, h2⟩

/-- **C09, histories from the initial state**: once the session holds the record (after `pre`), it holds it after any
    continuation `ops` none of whose ops ends the exchange — through disconnections, resumptions and take-overs. -/
theorem C09_record_survives_history (caps : Caps) (pre ops : List Op) (cid : Str) (k : Nat) (p : Str)
    (hf : OpsFresh (init caps) (pre ++ ops)) (hok : OpsSchedOK (init caps) (pre ++ ops))
    (h : Holds (run (init caps) pre) cid k p) (hne : NoEnds (run (init caps) pre) cid k ops) :
    Holds (run (init caps) (pre ++ ops)) cid k p := by
  rw [run_append_sv]
  obtain ⟨f1, f2⟩ := OpsFresh_app hf
  obtain ⟨o1, o2⟩ := OpsSchedOK_app hok
  exact C09_record_survives_run _ ops cid k p (WF_run caps pre f1) (SyncInv_run caps pre f1 o1) f2 o2 h hne

/-- `Ends` identifies "a connection of `cid`" by the client id of the connection's object.  In every state of a
    history (`SyncInv`) and for a connection whose handler is not parked (`FreeConn`, what `SchedOK` asks of `recv`),
    such a connection that is still open IS the registered session's: an inbound packet `Ends` counts acts on the
    object that holds the record. -/
theorem C09_ends_recv_is_registered (s : Server) (cid : Str) (k conn : Nat) (pk : InPk) (b : Bool) (hw : WF s)
    (hsync : SyncInv s) (hfree : FreeConn s conn) (h : EndsRecv s cid k conn pk b) :
    ∃ j, assocGet s.connOf conn = some j ∧ assocGet s.clients cid = some j := by
  unfold EndsRecv at h
  cases hc : assocGet s.connOf conn with
  | none => rw [hc] at h; exact h.elim
  | some j =>
    rw [hc] at h
    obtain ⟨hid, hopen, _⟩ := h
    have hj : j < s.objs.length := hw.conn_valid conn j (assocGet_mem _ _ _ hc)
    have hst : (getObj s j).stopped = false := by
      have := hsync.os j
      rw [hopen] at this
      cases hs : (getObj s j).stopped with
      | false => rfl
      | true => rw [hs] at this; cases this
    have := hsync.registered_of_live hj (hfree.free hc) (fun x => x) hst
    rw [hid] at this
    exact ⟨j, rfl, this⟩

/-! ### what a resumption resends -/

/-- **C09, the resend.**  A `connect` op for `cid` that is admitted and does not discard the session (no Clean Start,
    the old session not an MQTT 3 clean one), in a state where the session holds the record `m` of exchange `k`:
    * `m` a PUBLISH (type 3): its payload is `p`, and the op's outputs contain, on the NEW connection, that PUBLISH with
      the DUP flag set (same packet identifier, same payload — `{ m with dup := true }`);
    * `m` a PUBREL (type 6): the op's outputs contain `PUBREL k` on the new connection; and the outputs of
      `attachClient` are `pre ++ resent`, `resent` being the outputs of `ResendInflightMessages`, which contain NO
      PUBLISH with packet identifier `k` (`pre` — DISCONNECT to the taken-over connection, CONNACK, what the taken-over
      handler's will publishes — is not analysed here: a will delivered to the resuming session gets a fresh packet
      identifier). -/
theorem C09_resume_resends (s : Server) (conn : Nat) (k' : Connect) (cid : Str) (k : Nat) (p : Str) (hw : WF s)
    (hf : OpFresh s (.connect conn k')) (h : Holds s cid k p) (hid : k'.id = cid)
    (hadm : refuseCode s k' (parseConnect s conn k') = none) (hne : ¬ EndsTakeover s cid k') :
    ∃ i m, assocGet s.clients cid = some i ∧ flGet (getObj s i) k = some m ∧
      (m.type = 3 → m.payload = p ∧
        Out.wrote conn (.publish k'.ver { m with dup := true } (m.expiry > 0 || m.msgExpiry > 0)) ∈
          (step s (.connect conn k')).2) ∧
      (m.type = 6 →
        Out.wrote conn (.ack k'.ver 6 k m.reasonCode) ∈ (step s (.connect conn k')).2 ∧
        ∃ pre s3, (connect s conn k').2 = pre ++ (admitC s3 s.objs.length k' true).2 ∧
          ∀ c ver m' me, Out.wrote c (.publish ver m' me) ∈ (admitC s3 s.objs.length k' true).2 → m'.id ≠ k) := by
  obtain ⟨i, hi, m, hm, hok⟩ := h
  have hE : ¬ (k'.clean = true ∨ ((getObj s i).clean && decide ((getObj s i).ver < 5)) = true) := by
    intro x
    apply hne
    refine ⟨hid, ?_⟩
    rcases x with x | x
    · exact Or.inl x
    · right
      rw [hi]
      exact x
  have hcl : k'.clean = false := Bool.eq_false_iff.mpr (fun e => hE (Or.inl e))
  have h3 : ((getObj s i).clean && decide ((getObj s i).ver < 5)) = false :=
    Bool.eq_false_iff.mpr (fun e => hE (Or.inr e))
  obtain ⟨pre, s3, hsplit, hm3, hwf3, ho, hin, hpg, hconn, hver⟩ :=
    connect_resend_split k s conn k' i m hw hf (by rw [hid]; exact hi) hm hadm hcl h3
  have R := admitC_resends s3 s.objs.length k' k m hm3 ho hin hpg
  rw [hconn, hver] at R
  refine ⟨i, m, hi, hm, fun ht => ⟨?_, ?_⟩, fun ht => ⟨?_, pre, s3, hsplit, ?_⟩⟩
  · have : recOk m p = true := hok
    simp [recOk, ht] at this
    exact this.2
  · exact step_connect_out_sub _ _ _ _ (by rw [hsplit]; exact List.mem_append_right _ (R.1 ht))
  · have h6 : m.type ≠ 3 := by rw [ht]; decide
    have := R.2 h6
    rw [ht] at this
    exact step_connect_out_sub _ _ _ _ (by rw [hsplit]; exact List.mem_append_right _ this)
  · exact admitC_no_publish s3 s.objs.length k' k m hwf3 hm3 (by rw [ht]; decide)

/-- the history of `Mochi/Props/C09Demo.lean` is an instance: from the delivery (op 3) to just before the PUBCOMP
    (op 9) no op ends the exchange -/
theorem C09_demo_noEnds : NoEnds (run (init {}) (c09History.take 4)) [115] 1 ((c09History.drop 4).take 5) := by
  decide

end Mochi.Broker
