import Mochi.Lemmas.Refine
import Mochi.Lemmas.ScanMsgs
/-!
# C02 — Retained messages returned on subscribe are exactly those matching the filter

Model: `messages` = `TopicsIndex.Messages` / `scanMessages` of topics.go over the flattened particle
trie (after `fix: retained message scan includes the parent topic for a trailing # and skips every $
topic for leading wildcards`). Spec: the retained map of the plain reference index (`absRun`) filtered
by `specMatch` — the very matcher C01 uses for live delivery.

Everything is for **every** history of index operations (subscriptions, unsubscriptions, inline
subscriptions, retained publishes and clears, unbounded), whose retained publishes carry a non-empty
topic name, and **every** filter that is non-empty and uses wildcards only as whole levels with `#`
last (`specLevelsOK`).  Helper lemmas: `Lemmas/ScanMsgs.lean` (the scan visits exactly the matching
particles, each once — `scanMsgs_perm`), `Lemmas/Refine.lean` (the trie refines the plain maps).
-/
namespace Mochi.Topics

/-- every retained record is stored under its own topic (plain maps) -/
theorem abs_retained_keys (ops : List IOp) :
    ∀ t r, assocGet (absRun ops).retained t = some r → r.topic = t := by
  have key : ∀ (ops : List IOp) (a : Abs), (∀ t r, assocGet a.retained t = some r → r.topic = t) →
      ∀ t r, assocGet (ops.foldl Abs.applyOp a).retained t = some r → r.topic = t := by
    intro ops
    induction ops with
    | nil => intro a h; exact h
    | cons op rest ih =>
      intro a h
      apply ih
      cases op with
      | subscribe c s => simp only [Abs.applyOp, Abs.subscribe]; split <;> exact h
      | unsubscribe f c => simp only [Abs.applyOp, Abs.unsubscribe]; (repeat' split) <;> exact h
      | inlineSubscribe id s => exact h
      | inlineUnsubscribe id f => exact h
      | retain t p fl =>
        intro t' r hr
        simp only [Abs.applyOp, Abs.retain] at hr
        split at hr
        · simp only [assocGet_assocSet] at hr
          split at hr
          · rename_i heq; injection hr with hr; subst hr; exact heq.symm
          · exact h t' r hr
        · simp only [assocGet_assocDel] at hr
          split at hr
          · exact absurd hr (by simp)
          · exact h t' r hr
  exact key ops {} (by intro t r h; simp [assocGet] at h)

/-- no record under the empty topic when no retained publish carried the empty topic -/
theorem abs_retained_noempty (ops : List IOp) (hret : ∀ t p fl, IOp.retain t p fl ∈ ops → t ≠ []) :
    (assocGet (absRun ops).retained []).isNone = true := by
  have key : ∀ (ops : List IOp) (a : Abs), (∀ t p fl, IOp.retain t p fl ∈ ops → t ≠ []) →
      assocGet a.retained [] = none → assocGet (ops.foldl Abs.applyOp a).retained [] = none := by
    intro ops
    induction ops with
    | nil => intro a _ h; exact h
    | cons op rest ih =>
      intro a hr h
      apply ih _ (fun t p fl hm => hr t p fl (List.mem_cons_of_mem _ hm))
      cases op with
      | subscribe c s => simp only [Abs.applyOp, Abs.subscribe]; split <;> exact h
      | unsubscribe f c => simp only [Abs.applyOp, Abs.unsubscribe]; (repeat' split) <;> exact h
      | inlineSubscribe id s => exact h
      | inlineUnsubscribe id f => exact h
      | retain t p fl =>
        have ht : t ≠ [] := hr t p fl (by simp)
        simp only [Abs.applyOp, Abs.retain]
        split
        · rw [assocGet_assocSet]; simp [Ne.symm ht, h]
        · rw [assocGet_assocDel]; simp [Ne.symm ht, h]
  have := key ops {} hret (by simp [assocGet])
  simp [absRun, this]

/-- membership in the spec's answer: the topic is currently retained and the filter matches it -/
theorem mem_messagesFor (a : Abs) (f t : Str) :
    t ∈ a.messagesFor f ↔ (∃ r, (t, r) ∈ a.retained) ∧ specMatch (splitLevels f) t = true := by
  unfold Abs.messagesFor
  simp only [List.mem_map, List.mem_filter]
  constructor
  · rintro ⟨⟨t', r⟩, ⟨hm, hs⟩, rfl⟩
    exact ⟨⟨r, hm⟩, hs⟩
  · rintro ⟨⟨r, hm⟩, hs⟩
    exact ⟨(t, r), ⟨hm, hs⟩, rfl⟩

theorem assocGet_isSome_iff {α β} [DecidableEq α] (m : List (α × β)) (k : α) :
    (assocGet m k).isSome = true ↔ ∃ v, (k, v) ∈ m := by
  induction m with
  | nil => simp [assocGet]
  | cons kv rest ih =>
    obtain ⟨k0, v0⟩ := kv
    simp only [assocGet]
    by_cases h : k0 = k
    · subst h; simp
    · simp only [h, if_false, ih, List.mem_cons, Prod.mk.injEq]
      constructor
      · rintro ⟨v, hv⟩; exact ⟨v, Or.inr hv⟩
      · rintro ⟨v, hv | hv⟩
        · exact absurd hv.1.symm h
        · exact ⟨v, hv⟩

/-- **Exactly the matching retained messages.** For every history and every well-formed filter, a
    topic is among the retained messages `Messages(filter)` returns iff it is currently retained and
    the filter matches it under the rules of live delivery (`specMatch`: levels one by one, `+` one
    level, trailing `#` parent and children, leading wildcards never match `$` topics). -/
theorem C02_messages_exact (ops : List IOp) (hret : ∀ t p fl, IOp.retain t p fl ∈ ops → t ≠ [])
    (f : Str) (hf : f ≠ []) (hok : specLevelsOK (splitLevels f) = true) (t : Str) :
    (∃ r ∈ messages (runOps ops) f, r.topic = t) ↔ t ∈ (absRun ops).messagesFor f := by
  have R := refines_runOps_all ops
  have hkeys : ∀ t r, assocGet (runOps ops).retained t = some r → r.topic = t := by
    rw [R.retained]; exact abs_retained_keys ops
  have hnoempty : (assocGet (runOps ops).retained []).isNone = true := by
    rw [R.retained]; exact abs_retained_noempty ops hret
  rw [messages_exact (runOps ops) (prefixClosed_runOps ops) (nodupPaths_runOps ops)
        (fun n hn hne => (R.retainPath_sound n hn hne).1) R.retained_has_node hkeys hnoempty f hf hok t,
      mem_messagesFor, ← R.retained, ← assocGet_isSome_iff]
  unfold specMatch
  constructor
  · rintro ⟨h1, h2, h3⟩; exact ⟨h1, by simp [h2, h3]⟩
  · rintro ⟨h1, h2⟩
    simp only [Bool.and_eq_true, Bool.not_eq_true'] at h2
    exact ⟨h1, h2.1, h2.2⟩

/-- **Each exactly once.** -/
theorem C02_each_once (ops : List IOp) (hret : ∀ t p fl, IOp.retain t p fl ∈ ops → t ≠ [])
    (f : Str) (hok : specLevelsOK (splitLevels f) = true) :
    ((messages (runOps ops) f).map (·.topic)).Nodup := by
  have R := refines_runOps_all ops
  exact messages_nodup (runOps ops) (prefixClosed_runOps ops) (nodupPaths_runOps ops)
    (fun n hn hne => (R.retainPath_sound n hn hne).1)
    (by rw [R.retained]; exact abs_retained_keys ops)
    (by rw [R.retained]; exact abs_retained_noempty ops hret) f hok

/-- **The current value.** Every returned packet is the retained map's current record for its topic —
    the latest retained publish (C05 ties the map itself to the publish history). -/
theorem C02_current (ops : List IOp) (f : Str) (r : Retained) (hr : r ∈ messages (runOps ops) f) :
    assocGet (absRun ops).retained r.topic = some r := by
  have R := refines_runOps_all ops
  rw [← R.retained]
  exact messages_current (runOps ops) (by rw [R.retained]; exact abs_retained_keys ops) f r hr

/-- **Same rules as live delivery.** A retained topic is returned for filter `f` exactly when a
    subscription made with `f` is one the declarative matcher selects for a publish on that topic. -/
theorem C02_same_as_live (ops : List IOp) (hret : ∀ t p fl, IOp.retain t p fl ∈ ops → t ≠ [])
    (f : Str) (hf : f ≠ []) (hok : specLevelsOK (splitLevels f) = true) (t : Str)
    (hcur : (assocGet (absRun ops).retained t).isSome = true) :
    (∃ r ∈ messages (runOps ops) f, r.topic = t) ↔ specMatch (splitLevels f) t = true := by
  rw [C02_messages_exact ops hret f hf hok t, mem_messagesFor]
  constructor
  · exact fun h => h.2
  · intro h; exact ⟨(assocGet_isSome_iff _ _).1 hcur, h⟩

/-! non-vacuity and the witnesses of the repaired defects: retained on `a`, `a/b`, `$x/y`; a clear; then
    `a/#` returns `a` and `a/b`, `+/#` and `#` never return `$x/y`, `$x/#` does. -/
def exOps : List IOp :=
  [.retain [97] [1] true, .retain [97, 47, 98] [2] true, .retain [36, 120, 47, 121] [3] true,
   .subscribe [99] { filter := [97, 47, 43] }, .retain [99] [4] true, .retain [99] [] true]

example : ∀ t p fl, IOp.retain t p fl ∈ exOps → t ≠ [] := by
  intro t p fl h
  simp [exOps] at h
  rcases h with h | h | h | h | h <;> simp [h.1]
example : ((messages (runOps exOps) [97, 47, 35]).map (·.topic)) = [[97], [97, 47, 98]] := by decide
example : ((messages (runOps exOps) [43, 47, 35]).map (·.topic)) = [[97], [97, 47, 98]] := by decide
example : ((messages (runOps exOps) [35]).map (·.topic)) = [[97], [97, 47, 98]] := by decide
example : ((messages (runOps exOps) [36, 120, 47, 35]).map (·.topic)) = [[36, 120, 47, 121]] := by decide
example : (absRun exOps).messagesFor [35] = [[97], [97, 47, 98]] := by decide
example : specLevelsOK (splitLevels [43, 47, 35]) = true := by decide

end Mochi.Topics
