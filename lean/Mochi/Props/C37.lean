import Mochi.Model.Keepalive
/-!
# C37 — Idle connections are closed after one and a half keepalive periods

Model: `deadlineNs` (clients.go `refreshDeadline`, after the repair "fix: keepalive deadline is one
and a half times the keepalive…").  For every `uint16` keepalive.
Partial: that `net.Conn` honours the deadline it is given is trusted (runtime behaviour).
-/
namespace Mochi.Keepalive

/-- for every keepalive K in 1 … 65535 the deadline is exactly 1.5·K seconds (no truncation, no
    wrap-around) -/
theorem C37_deadline (k : Nat) (h0 : 0 < k) (h : k < 65536) :
    deadlineNs k = some (some (1500000000 * k)) := by
  have h1 : k * second ≤ int64Max := by unfold second int64Max; omega
  have h2 : k * second * 3 ≤ int64Max := by unfold second int64Max; omega
  have e1 : mulNoWrap k second = some (k * second) := by unfold mulNoWrap; rw [if_pos h1]
  have e2 : mulNoWrap (k * second) 3 = some (k * second * 3) := by unfold mulNoWrap; rw [if_pos h2]
  have e3 : k * second * 3 / 2 = 1500000000 * k := by unfold second; omega
  unfold deadlineNs
  rw [if_pos h0, e1, Option.bind_some, e2, Option.map_some, e3]

/-- keepalive 0 disables the deadline -/
theorem C37_zero_disables : deadlineNs 0 = none := by decide

/-- closed for inactivity exactly when some gap reaches 1.5·K seconds -/
theorem C37_closed_iff (k : Nat) (h0 : 0 < k) (h : k < 65536) (gaps : List Nat) :
    closedForInactivity k gaps = true ↔ ∃ g ∈ gaps, g ≥ 1500 * k := by
  unfold closedForInactivity
  rw [C37_deadline k h0 h]
  simp only [List.any_eq_true, decide_eq_true_eq]
  constructor
  · rintro ⟨g, hg, hx⟩; exact ⟨g, hg, by omega⟩
  · rintro ⟨g, hg, hx⟩; exact ⟨g, hg, by omega⟩

/-- never closed while keepalive is 0 -/
theorem C37_never_when_zero (gaps : List Nat) : closedForInactivity 0 gaps = false := by
  unfold closedForInactivity; rw [C37_zero_disables]

/-- the formerly wrong points: K = 1 gives 1.5 s (was 1.0 s), K = 3 gives 4.5 s (was 4.0 s),
    K = 50000 gives 75000 s (wrapped before) -/
example : deadlineMs 1 = "1500" := by decide
example : deadlineMs 3 = "4500" := by decide
example : deadlineNs 50000 = some (some 75000000000000) := by decide
example : closedForInactivity 1 [1250] = false ∧ closedForInactivity 1 [1750] = true := by decide

end Mochi.Keepalive
