import Mochi.Model.Broker
import Mochi.Lemmas.AckRes
/-!
# C17 — Authorisation is enforced on every route a message can take

Model: `publishToClient`, `processPublish`, `processSubscribe` with an **arbitrary** deny relation
`aclDeny` (the test hook of the quantifier).  Known findings (recorded): the will message is published
without a write check (`sendLWT`), and a will topic is not validated as a topic name at CONNECT.
-/
namespace Mochi.Broker
open Mochi.Topics

/-- **read**: nothing is written to, queued for or stored for a client whose read permission on the
    topic is denied — for live, retained-replay and will messages alike (all go through here) -/
theorem C17_read (s : Server) (i : Nat) (sub : Sub) (fwd : Bool) (pk : Msg)
    (hden : aclOk s (getObj s i).id pk.topic false = false) :
    publishToClient s i sub fwd pk = (s, []) := by
  unfold publishToClient
  split
  · rfl
  · simp [hden]

/-- **write**: a publish by a client whose write permission is denied is neither forwarded nor
    retained: the state is unchanged except for closing the connection (MQTT 3), and the only
    output goes to the publisher -/
theorem C17_write (s : Server) (i : Nat) (q : Nat) (d r : Bool) (id : Nat) (topic payload : Str) (me : Nat) (al : Option Nat)
    (hin : (getObj s i).inline = false) (hvalid : isValidFilter topic true = true)
    (hq : (getObj s i).recvQuota ≠ 0)
    (hden : aclOk s (getObj s i).id topic true = false) :
    (processPublish s i q d r id topic payload me al).1.topics = s.topics ∧
    (processPublish s i q d r id topic payload me al).1.rmsgs = s.rmsgs := by
  unfold processPublish
  simp only [hin, hvalid, hden, Bool.not_false, Bool.not_true, Bool.false_and, Bool.true_and, Bool.false_eq_true, if_false, if_true]
  have hq' : ((getObj s i).recvQuota == 0) = false := by simpa using hq
  simp only [hq', Bool.false_eq_true, if_false]
  split
  · exact ⟨rfl, rfl⟩
  · split
    · simp [disconnectClient, stopClient, setObj]
      split <;> simp [setObj]
    · simp only [ackRes_fst, and_self]

/-- clients cannot publish to `$SYS`: the publish is refused before any routing -/
theorem C17_sys (s : Server) (i : Nat) (q : Nat) (d r : Bool) (id : Nat) (topic payload : Str) (me : Nat) (al : Option Nat)
    (hin : (getObj s i).inline = false) (hsys : isValidFilter topic true = false) :
    (processPublish s i q d r id topic payload me al).1.topics = s.topics ∧
    (processPublish s i q d r id topic payload me al).1.rmsgs = s.rmsgs := by
  unfold processPublish
  simp only [hin, hsys, Bool.not_false, Bool.true_and, if_true]
  split
  · exact ⟨rfl, rfl⟩
  · split
    · simp [disconnectClient, stopClient, setObj]
      split <;> simp [setObj]
    · simp only [ackRes_fst, and_self]

end Mochi.Broker
