import Mochi.Model.Broker
import Mochi.Lemmas.AckRes
/-!
# C17 — Authorisation is enforced on every route a message can take

Model: `publishToClient`, `processPublish`, `processSubscribe` with an **arbitrary** deny relation
`aclDeny` (the test hook of the quantifier).  Known findings (recorded): the will message is published
without a write check (`sendLWT`), and a will topic is not validated as a topic name at CONNECT.
-/
namespace Mochi.Broker
open Mochi.Topics

/-- **read**: nothing is written to, queued for or stored for a client whose read permission on the
    topic is denied — for live, retained-replay and will messages alike (all go through here) -/
theorem C17_read (s : Server) (i : Nat) (sub : Sub) (fwd : Bool) (pk : Msg)
    (hden : aclOk s (getObj s i).id pk.topic false = false) :
    publishToClient s i sub fwd pk = (s, []) := by
  unfold publishToClient
  split
  · rfl
  · simp [hden]

/-- **write**: a publish by a client whose write permission is denied is neither forwarded nor
    retained: the state is unchanged except for closing the connection (MQTT 3), and the only
    output goes to the publisher -/
theorem C17_write (s : Server) (i : Nat) (q : Nat) (d r : Bool) (id : Nat) (topic payload : Str) (me : Nat) (al : Option Nat)
    (hin : (getObj s i).inline = false) (hvalid : isValidFilter topic true = true)
    (hq : (getObj s i).recvQuota ≠ 0)
    (hden : aclOk s (getObj s i).id topic true = false) :
    (processPublish s i q d r id topic payload me al).1.topics = s.topics ∧
    (processPublish s i q d r id topic payload me al).1.rmsgs = s.rmsgs := by
  unfold processPublish
  simp only [hin, hvalid, hden, Bool.not_false, Bool.not_true, Bool.false_and, Bool.true_and, Bool.false_eq_true, if_false, if_true]
  have hq' : ((getObj s i).recvQuota == 0) = false := by simpa using hq
  simp only [hq', Bool.false_eq_true, if_false]
  split
  · exact ⟨rfl, rfl⟩
  · split
    · simp [disconnectClient, stopClient, setObj]
      split <;> simp [setObj]
    · simp only [ackRes_fst, and_self]

/-- clients cannot publish to `$SYS`: the publish is refused before any routing -/
theorem C17_sys (s : Server) (i : Nat) (q : Nat) (d r : Bool) (id : Nat) (topic payload : Str) (me : Nat) (al : Option Nat)
    (hin : (getObj s i).inline = false) (hsys : isValidFilter topic true = false) :
    (processPublish s i q d r id topic payload me al).1.topics = s.topics ∧
    (processPublish s i q d r id topic payload me al).1.rmsgs = s.rmsgs := by
  unfold processPublish
  simp only [hin, hsys, Bool.not_false, Bool.true_and, if_true]
  split
  · exact ⟨rfl, rfl⟩
  · split
    · simp [disconnectClient, stopClient, setObj]
      split <;> simp [setObj]
    · simp only [ackRes_fst, and_self]

/-! ## A refused publish is not routed

The three gates at the head of `processPublish` — topic validity (`IsValidFilter(topic, true)`: wildcard, `$SYS`),
receive quota, write permission — each end the handler before `publishToSubscribers` and `retainMsg`: whatever the
handler writes goes to the publisher (an ack with a failure code, or a DISCONNECT), no PUBLISH is written to anybody
and the retained store and the index are unchanged.  (At the level of the whole op a DISCONNECT ends the connection
with an error, and `attachClient` then publishes the client's WILL — `sendLWT`, without a write check: recorded
finding — so the statement is about the handler, like `C17_write` / `C17_sys` above.) -/

/-- no PUBLISH among the outputs -/
def NoPublishOut (o : List Out) : Prop := ∀ n ver m mes, Out.wrote n (.publish ver m mes) ∉ o

theorem NoPublishOut.nil : NoPublishOut [] := fun _ _ _ _ h => by cases h

theorem NoPublishOut.append {a b : List Out} (ha : NoPublishOut a) (hb : NoPublishOut b) : NoPublishOut (a ++ b) := by
  intro n ver m mes h
  rcases List.mem_append.mp h with h | h
  · exact ha n ver m mes h
  · exact hb n ver m mes h

theorem stopClient_noPublish (s : Server) (i : Nat) :
    NoPublishOut (stopClient s i).2 ∧ (stopClient s i).1.rmsgs = s.rmsgs ∧ (stopClient s i).1.topics = s.topics := by
  unfold stopClient
  extract_lets c
  split
  · exact ⟨NoPublishOut.nil, rfl, rfl⟩
  · refine ⟨?_, rfl, rfl⟩
    intro n ver m mes h
    split at h
    · cases h
    · rw [List.mem_singleton] at h; cases h

theorem disconnectClient_noPublish (s : Server) (i code : Nat) :
    NoPublishOut (disconnectClient s i code).2 ∧ (disconnectClient s i code).1.rmsgs = s.rmsgs ∧
    (disconnectClient s i code).1.topics = s.topics := by
  obtain ⟨h1, h2, h3⟩ := stopClient_noPublish s i
  unfold disconnectClient
  extract_lets c w
  refine ⟨NoPublishOut.append ?_ h1, h2, h3⟩
  intro n ver m mes h
  simp only [w] at h
  split at h
  · rw [List.mem_singleton] at h; cases h
  · cases h

/-- an ack (`type ≠ 3`) is not a PUBLISH -/
theorem writeAck_noPublish (s : Server) (i t id rc : Nat) (ht : t ≠ 3) : NoPublishOut (writeAck s i t id rc) := by
  intro n ver m mes h
  unfold writeAck writeMsg at h
  simp only at h
  split at h
  · cases h
  · have : (t == 3) = false := by simpa using ht
    simp only [this, Bool.false_eq_true, if_false, List.mem_singleton] at h
    cases h

theorem ackRes_noPublish (s : Server) (i t id rc : Nat) (ht : t ≠ 3) : NoPublishOut (ackRes s i t id rc).2.1 := by
  rcases ackRes_out s i t id rc with h | h <;> rw [h]
  · exact writeAck_noPublish s i t id rc ht
  · exact NoPublishOut.nil

/-- the publish is refused by one of the three gates at the head of `processPublish` -/
def RefusedPublish (s : Server) (i : Nat) (topic : Str) : Prop :=
  ((getObj s i).inline = false ∧ isValidFilter topic true = false) ∨ (getObj s i).recvQuota = 0 ∨
  ((getObj s i).inline = false ∧ aclOk s (getObj s i).id topic true = false)

/-- what a handler result `r` looks like when nothing was routed from state `s` -/
def NotRouted (s : Server) (r : HRes) : Prop :=
  NoPublishOut r.2.1 ∧ (∀ k t p, Out.inline k t p ∉ r.2.1) ∧ r.1.rmsgs = s.rmsgs ∧ r.1.topics = s.topics

theorem NotRouted.quiet (s : Server) (e : Option Nat) : NotRouted s (s, [], e) :=
  ⟨NoPublishOut.nil, (fun _ _ _ h => by cases h), rfl, rfl⟩

theorem NotRouted.disconnect (s : Server) (i code : Nat) :
    NotRouted s ((disconnectClient s i code).1, (disconnectClient s i code).2, some code) := by
  obtain ⟨h1, h2, h3⟩ := disconnectClient_noPublish s i code
  refine ⟨h1, ?_, h2, h3⟩
  intro k t p h
  unfold disconnectClient stopClient at h
  simp only at h
  rcases List.mem_append.mp h with h | h
  · split at h
    · rw [List.mem_singleton] at h; cases h
    · cases h
  · split at h
    · cases h
    · split at h
      · cases h
      · rw [List.mem_singleton] at h; cases h

theorem NotRouted.ack (s : Server) (i t id rc : Nat) (ht : t ≠ 3) : NotRouted s (ackRes s i t id rc) := by
  refine ⟨ackRes_noPublish s i t id rc ht, ?_, by rw [ackRes_fst], by rw [ackRes_fst]⟩
  intro k tp p h
  rcases ackRes_out s i t id rc with e | e <;> rw [e] at h
  · unfold writeAck writeMsg at h
    simp only at h
    split at h
    · cases h
    · split at h <;> (rw [List.mem_singleton] at h; cases h)
  · cases h

/-- **a publish that fails the topic-validity, receive-quota or write-ACL gate is not routed**: the handler writes
    no PUBLISH to any connection (only an ack with a failure code or a DISCONNECT to the publisher, or nothing),
    makes no inline delivery, and leaves the retained store and the topic index unchanged -/
theorem C17_refused_publish_not_routed (s : Server) (i : Nat) (q : Nat) (d r : Bool) (id : Nat) (topic payload : Str)
    (me : Nat) (al : Option Nat) (h : RefusedPublish s i topic) :
    NoPublishOut (processPublish s i q d r id topic payload me al).2.1 ∧
    (∀ k t p, Out.inline k t p ∉ (processPublish s i q d r id topic payload me al).2.1) ∧
    (processPublish s i q d r id topic payload me al).1.rmsgs = s.rmsgs ∧
    (processPublish s i q d r id topic payload me al).1.topics = s.topics := by
  show NotRouted s (processPublish s i q d r id topic payload me al)
  unfold processPublish
  extract_lets +onlyGivenNames c
  -- the early exit shared by the topic-validity and the write-ACL gate
  have early : ∀ code, NotRouted s
      (if (q == 0) = true then ((s, [], none) : HRes)
        else if (c.ver != 5) = true then
          match disconnectClient s i code with
          | (s, o) => (s, o, some code)
        else ackRes s i (if (q == 2) = true then 5 else 4) id code) := by
    intro code
    split
    · exact NotRouted.quiet s none
    · split
      · exact NotRouted.disconnect s i code
      · refine NotRouted.ack s i _ id code ?_
        split <;> decide
  by_cases h1 : (!c.inline && !isValidFilter topic true) = true
  · rw [if_pos h1]; exact early _
  · rw [if_neg h1]
    by_cases h2 : (c.recvQuota == 0) = true
    · rw [if_pos h2]; exact NotRouted.disconnect s i 0x93
    · rw [if_neg h2]
      by_cases h3 : (!c.inline && !aclOk s c.id topic true) = true
      · rw [if_pos h3]; exact early _
      · exfalso
        rcases h with ⟨a, b⟩ | a | ⟨a, b⟩
        · apply h1; show (!(getObj s i).inline && !isValidFilter topic true) = true; rw [a, b]; rfl
        · apply h2; show ((getObj s i).recvQuota == 0) = true; rw [a]; rfl
        · apply h3; show (!(getObj s i).inline && !aclOk s (getObj s i).id topic true) = true; rw [a, b]; rfl

end Mochi.Broker

#print axioms Mochi.Broker.C17_refused_publish_not_routed
