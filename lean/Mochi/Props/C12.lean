import Mochi.Model.Broker
/-!
# C12 — Messages on one topic from one publisher arrive in publish order

Model: `publishToClientCore` (live delivery and deferral), `nextImmediate` (release of a deferred message
when quota returns, `Inflight.NextImmediate`), the resend loop of `admitClient`
(`ResendInflightMessages` over `Inflight.GetAll(false)`).  The Go code orders both the deferred queue
and the resends by `uint16(Created)` — whole seconds — and leaves ties to Go's map iteration; the model
makes that choice explicit (`nextSeed`, `resendSeed`) and the theorems quantify over it.

* `C12_live_immediate` — a message that is not deferred is written in the very step that publishes it
  (so live deliveries to one subscriber are in publish order: each step's output precedes the next
  step's).
* `C12_single_deferred_fifo` — with at most one deferred message there is nothing to reorder: the release
  picks it whatever the map order.
* `C12_deferred_release_counterexample`, `C12_resend_counterexample` — the full property is **false** of
  the code (known finding F12): two messages published in order within one second are released /
  resent in the opposite order under a map order Go may produce.  The `brokerorder` correspondence
  suite replays this on the real broker on every run (first transmissions observed out of publish
  order after flow-control deferral and after session resumption).
-/
namespace Mochi.Broker
open Mochi.Topics

/-- the client is not subject to deferral for this delivery -/
def notDeferred (c : Client) : Prop := c.maxSend = 0 ∨ c.sendQuota > 0

/-- **Live deliveries are immediate.** A QoS 0 delivery to an open, non-inline client is written in the
    publishing step itself. -/
theorem C12_live_immediate (s : Server) (i : Nat) (sub : Sub) (pk : Msg)
    (hopen : (getObj s i).isOpen = true) (hq : shapeQos s.caps sub pk.qos = 0) (htam : (getObj s i).tam = 0)
    (hinl : (getObj s i).inline = false) (hgone : (getObj s i).peerGone = false) (ht : pk.type = 3) :
    ∃ m, (publishToClientCore s i sub false pk).2 = [.wrote (getObj s i).conn (.publish (getObj s i).ver m (m.expiry > 0 || m.msgExpiry > 0))]
      ∧ m.payload = pk.payload ∧ m.topic = pk.topic := by
  unfold publishToClientCore
  simp only [htam, Nat.lt_irrefl, if_false, gt_iff_lt]
  have hq' : (shapeOut s.caps (getObj s i).ver sub false pk).qos = 0 := by simpa [shapeOut] using hq
  simp only [hq', Nat.lt_irrefl, if_false]
  have hso : getObj (setObj s i (getObj s i)) i = getObj s i := by
    unfold getObj setObj
    simp only [List.getD_eq_getElem?_getD]
    by_cases hl : i < s.objs.length
    · simp [hl]
    · simp [hl, List.getElem?_eq_none (by omega : s.objs.length ≤ i)]
  simp only [hopen, Bool.not_true, Bool.false_eq_true, if_false]
  refine ⟨shapeOut s.caps (getObj s i).ver sub false pk, ?_, by simp [shapeOut], by simp [shapeOut]⟩
  unfold writeMsg
  simp [hso, hopen, hinl, hgone, shapeOut, ht]

/-- **One deferred message: nothing to reorder.** Whatever the map order (`nextSeed`), if exactly one
    message is deferred the release writes that one. -/
theorem C12_single_deferred_fifo (s : Server) (i : Nat) (m : Msg) (seed : Nat)
    (hone : (getObj s i).inflight.filter (fun x => x.expiry < 0) = [m]) :
    (permuteBy (seed % 64) ((getObj s i).inflight.filter (fun x => x.expiry < 0))).head? = some m := by
  rw [hone]
  simp [permuteBy, permuteFuel, Nat.mod_one]

/-- a subscriber (object 1, connection 7) with Receive Maximum exhausted and two deferred copies: `m1`
    published first, then `m2`, same publisher, same topic, same QoS -/
def exDeferred : Server :=
  let m1 : Msg := { type := 3, id := 1, qos := 1, topic := [97], payload := [1], origin := [112], expiry := -1 }
  let m2 : Msg := { type := 3, id := 2, qos := 1, topic := [97], payload := [2], origin := [112], expiry := -1 }
  { (init {}) with
    objs := (init {}).objs ++ [{ conn := 7, id := [115], ver := 5, inflight := [m1, m2], sendQuota := 1, maxSend := 1 }],
    clients := (init {}).clients ++ [([115], 1)], connOf := [(7, 1)] }

/-- **F12 (deferred release).** Under the map order `nextSeed = 1` the release writes the message that was
    published second, while the first is still waiting: first transmissions out of publish order. -/
theorem C12_deferred_release_counterexample :
    (nextImmediate { exDeferred with nextSeed := 1 } 1).2.map
        (fun o => match o with | .wrote _ (.publish _ m _) => m.payload | _ => []) = [[2]] ∧
    (nextImmediate { exDeferred with nextSeed := 0 } 1).2.map
        (fun o => match o with | .wrote _ (.publish _ m _) => m.payload | _ => []) = [[1]] := by decide

/-- a stored session (object 1, stopped) holding two unacknowledged messages published in order -/
def exSession : Server :=
  let m1 : Msg := { type := 3, id := 1, qos := 1, topic := [97], payload := [1], origin := [112] }
  let m2 : Msg := { type := 3, id := 2, qos := 1, topic := [97], payload := [2], origin := [112] }
  { (init {}) with
    objs := (init {}).objs ++ [{ conn := 7, id := [115], ver := 4, inflight := [m1, m2], isOpen := false, stopped := true }],
    clients := (init {}).clients ++ [([115], 1)], connOf := [(7, 1)] }

def resentPayloads (outs : List Out) : List Str :=
  outs.filterMap fun o => match o with | .wrote _ (.publish _ m _) => some m.payload | _ => none

/-- **F12 (resend after resumption).** The same client id resumes its session: under the map order
    `resendSeed = 1` the second message is resent before the first; under `resendSeed = 0` in order. -/
theorem C12_resend_counterexample :
    resentPayloads (connect { exSession with resendSeed := 1 } 8 { ver := 4, clean := false, id := [115] }).2 = [[2], [1]] ∧
    resentPayloads (connect { exSession with resendSeed := 0 } 8 { ver := 4, clean := false, id := [115] }).2 = [[1], [2]] := by
  decide

end Mochi.Broker
