import Mochi.Model.Broker
import Mochi.Lemmas.BrokerOrder
import Mochi.Lemmas.BrokerOrderQos
import Mochi.Lemmas.InflOrder
/-!
# C12 — Messages on one topic from one publisher arrive in publish order

Model: `publishToClientCore` (live delivery and deferral), `nextImmediate` (release of a deferred message
when quota returns, `Inflight.NextImmediate`), the resend loop of `admitClient`
(`ResendInflightMessages` over `Inflight.GetAll(false)`).  The Go code orders both the deferred queue
and the resends by `uint16(Created)` — whole seconds — and leaves ties to Go's map iteration; the model
makes that choice explicit (`nextSeed`, `resendSeed`) and the theorems quantify over it.

* `C12_live_immediate` — a message that is not deferred is written in the very step that publishes it
  (so live deliveries to one subscriber are in publish order: each step's output precedes the next
  step's).
* `C12_single_deferred_fifo` — with at most one deferred message there is nothing to reorder: the release
  picks it whatever the map order.
* `C12_deferred_release_counterexample`, `C12_resend_counterexample` — the full property is **false** of
  the code (known finding F12): two messages published in order within one second are released /
  resent in the opposite order under a map order Go may produce.  The `brokerorder` correspondence
  suite replays this on the real broker on every run (first transmissions observed out of publish
  order after flow-control deferral and after session resumption).
* History level (end of the file; lemmas in `Lemmas/BrokerOrder.lean`, namespace `O12`): `C12_history_order_partial`,
  `C12_history_order_of_first_tx`, `C12_per_op_single_copy`, `C12_routing_single_copy`,
  `C12_routing_immediate_any_qos`, `C12_qos0_stream_order`, and the demo `h12History` — the positive half of C12 for
  every history and everything outside F12.
* History level, publishes of QoS 1 and 2 (end of the file; lemmas in `Lemmas/BrokerOrderQos.lean`, namespace `O12q`):
  `C12_publish_qos1_op_outputs`, `C12_publish_qos2_op_outputs` (the op decomposed: acknowledgement, ONE routing call,
  the publisher's own release tail), `C12_history_order_qos1_partial`, `C12_history_order_qos2_partial`, and the demos
  `h12HistoryQ1`, `h12HistoryOwn` (the publisher receives its own messages), `h12HistoryQ2`.
-/
namespace Mochi.Broker
open Mochi.Topics

/-- the client is not subject to deferral for this delivery -/
def notDeferred (c : Client) : Prop := c.maxSend = 0 ∨ c.sendQuota > 0

/-- **Live deliveries are immediate.** A QoS 0 delivery to an open, non-inline client is written in the
    publishing step itself. -/
theorem C12_live_immediate (s : Server) (i : Nat) (sub : Sub) (pk : Msg)
    (hopen : (getObj s i).isOpen = true) (hq : shapeQos s.caps sub pk.qos = 0) (htam : (getObj s i).tam = 0)
    (hinl : (getObj s i).inline = false) (hgone : (getObj s i).peerGone = false) (ht : pk.type = 3) :
    ∃ m, (publishToClientCore s i sub false pk).2 = [.wrote (getObj s i).conn (.publish (getObj s i).ver m (m.expiry > 0 || m.msgExpiry > 0))]
      ∧ m.payload = pk.payload ∧ m.topic = pk.topic := by
  unfold publishToClientCore
  simp only [htam, Nat.lt_irrefl, if_false, gt_iff_lt]
  have hq' : (shapeOut s.caps (getObj s i).ver sub false pk).qos = 0 := by simpa [shapeOut] using hq
  simp only [hq', Nat.lt_irrefl, if_false]
  have hso : getObj (setObj s i (getObj s i)) i = getObj s i := by
    unfold getObj setObj
    simp only [List.getD_eq_getElem?_getD]
    by_cases hl : i < s.objs.length
    · simp [hl]
    · simp [hl, List.getElem?_eq_none (by omega : s.objs.length ≤ i)]
  simp only [hopen, Bool.not_true, Bool.false_eq_true, if_false]
  refine ⟨shapeOut s.caps (getObj s i).ver sub false pk, ?_, by simp [shapeOut], by simp [shapeOut]⟩
  unfold writeMsg
  simp [hso, hopen, hinl, hgone, shapeOut, ht]

/-- **One deferred message: nothing to reorder.** Whatever the map order (`nextSeed`), if exactly one
    message is deferred the release writes that one. -/
theorem C12_single_deferred_fifo (s : Server) (i : Nat) (m : Msg) (seed : Nat)
    (hone : (getObj s i).inflight.filter (fun x => x.expiry < 0) = [m]) :
    (permuteBy (seed % 64) ((getObj s i).inflight.filter (fun x => x.expiry < 0))).head? = some m := by
  rw [hone]
  simp [permuteBy, permuteFuel, Nat.mod_one]

/-- a subscriber (object 1, connection 7) with Receive Maximum exhausted and two deferred copies: `m1`
    published first, then `m2`, same publisher, same topic, same QoS -/
def exDeferred : Server :=
  let m1 : Msg := { type := 3, id := 1, qos := 1, topic := [97], payload := [1], origin := [112], expiry := -1 }
  let m2 : Msg := { type := 3, id := 2, qos := 1, topic := [97], payload := [2], origin := [112], expiry := -1 }
  { (init {}) with
    objs := (init {}).objs ++ [{ conn := 7, id := [115], ver := 5, inflight := [m1, m2], sendQuota := 1, maxSend := 1 }],
    clients := (init {}).clients ++ [([115], 1)], connOf := [(7, 1)] }

/-- **F12 (deferred release).** Under the map order `nextSeed = 1` the release writes the message that was
    published second, while the first is still waiting: first transmissions out of publish order. -/
theorem C12_deferred_release_counterexample :
    (nextImmediate { exDeferred with nextSeed := 1 } 1).2.map
        (fun o => match o with | .wrote _ (.publish _ m _) => m.payload | _ => []) = [[2]] ∧
    (nextImmediate { exDeferred with nextSeed := 0 } 1).2.map
        (fun o => match o with | .wrote _ (.publish _ m _) => m.payload | _ => []) = [[1]] := by decide

/-- a stored session (object 1, stopped) holding two unacknowledged messages published in order -/
def exSession : Server :=
  let m1 : Msg := { type := 3, id := 1, qos := 1, topic := [97], payload := [1], origin := [112] }
  let m2 : Msg := { type := 3, id := 2, qos := 1, topic := [97], payload := [2], origin := [112] }
  { (init {}) with
    objs := (init {}).objs ++ [{ conn := 7, id := [115], ver := 4, inflight := [m1, m2], isOpen := false, stopped := true }],
    clients := (init {}).clients ++ [([115], 1)], connOf := [(7, 1)] }

def resentPayloads (outs : List Out) : List Str :=
  outs.filterMap fun o => match o with | .wrote _ (.publish _ m _) => some m.payload | _ => none

/-- **F12 (resend after resumption).** The same client id resumes its session: under the map order
    `resendSeed = 1` the second message is resent before the first; under `resendSeed = 0` in order. -/
theorem C12_resend_counterexample :
    resentPayloads (connect { exSession with resendSeed := 1 } 8 { ver := 4, clean := false, id := [115] }).2 = [[2], [1]] ∧
    resentPayloads (connect { exSession with resendSeed := 0 } 8 { ver := 4, clean := false, id := [115] }).2 = [[1], [2]] := by
  decide

end Mochi.Broker

/-! ## History level: first transmissions follow publish order (everything outside F12)

`O12.flat s ops`: everything the history `ops` writes from state `s`, in order; `O12.pubsTo c outs`: the PUBLISH
packets written to connection `c`, in order; `run s (ops.take i)`: the state before the `i`-th op. -/
namespace Mochi.Broker
open Mochi.Topics

/-- **C12 on histories — restricted (hence `_partial`).**  `s`: any state reached without schedule ops (`ReachSeq`);
    `ops`: ANY history without schedule ops (fresh connection numbers), of any length, with arbitrary ops of other
    clients in between.  If the `i`-th and the `j`-th op (`i < j`) are PUBLISH packets of QoS 0 on connection `p` to
    the same topic `t`, each accepted in the state before it (`O12.PubQ0`: gates of the publish, no shared
    subscription matching `t`, the publisher's own release tail cannot write to `c`), and the receiving connection `c`
    is entitled to each in the state before it (`EntitledF03`), then
    * op `i` writes `c` EXACTLY ONE PUBLISH `m₁`, op `j` exactly one `m₂` — in the publishing step itself;
    * they are the copies of the two messages (payload, the publisher's id as origin, QoS 0, dup 0: first
      transmissions);
    * on `c`'s stream `m₁` comes before `m₂`: `pubsTo c (flat s ops) = A ++ m₁ :: B ++ m₂ :: C`.

    COVERED: deliveries whose copy is QoS 0 because the PUBLISH is QoS 0 — they are never deferred.
    NOT covered here (full statement: any `q₁ q₂`, copies of QoS > 0 that are immediate in the sense of `notDeferred`):
    for PUBLISH packets of QoS 1 and 2 see `C12_history_order_qos1_partial` / `C12_history_order_qos2_partial` below
    (the op decomposed: `C12_publish_qos1_op_outputs`, `C12_publish_qos2_op_outputs`); also proved: the routing call
    (`C12_routing_immediate_any_qos`: the served connection is written its copy by the call itself) and the generic
    order theorem `C12_history_order_of_first_tx`, which applies to ANY two ops once "the op writes `c` exactly this
    PUBLISH" is known.  DEFERRED deliveries and RESENDS are out by F12 (`C12_deferred_release_counterexample`,
    `C12_resend_counterexample`: the property is false there).  Also excluded: schedule ops, shared subscriptions
    matching the topic, inbound topic aliases, a publish-hook mode on the topic. -/
theorem C12_history_order_partial (caps : Caps) (s : Server) (hr : ReachSeq caps s) (ops : List Op) (hseq : SeqOps ops)
    (hf : OpsFresh s ops) (p c i j k₁ k₂ : Nat) (t : Str) (d₁ r₁ d₂ r₂ : Bool) (pay₁ pay₂ : Str) (me₁ me₂ : Nat)
    (hi : ops[i]? = some (.recv p (.publish 0 d₁ r₁ 0 t pay₁ me₁ none)))
    (hj : ops[j]? = some (.recv p (.publish 0 d₂ r₂ 0 t pay₂ me₂ none))) (hij : i < j)
    (g₁ : O12.PubQ0 (run s (ops.take i)) p k₁ c t) (g₂ : O12.PubQ0 (run s (ops.take j)) p k₂ c t)
    (e₁ : EntitledF03 (run s (ops.take i)) (inboundMsg (run s (ops.take i)) k₁ 0 d₁ r₁ 0 t pay₁ me₁) c)
    (e₂ : EntitledF03 (run s (ops.take j)) (inboundMsg (run s (ops.take j)) k₂ 0 d₂ r₂ 0 t pay₂ me₂) c) :
    ∃ m₁ m₂ A B C,
      O12.pubsTo c (step (run s (ops.take i)) (.recv p (.publish 0 d₁ r₁ 0 t pay₁ me₁ none))).2 = [m₁] ∧
      O12.pubsTo c (step (run s (ops.take j)) (.recv p (.publish 0 d₂ r₂ 0 t pay₂ me₂ none))).2 = [m₂] ∧
      O12.CopyQ0 m₁ pay₁ (getObj (run s (ops.take i)) k₁).id ∧
      O12.CopyQ0 m₂ pay₂ (getObj (run s (ops.take j)) k₂).id ∧
      O12.pubsTo c (O12.flat s ops) = A ++ m₁ :: B ++ m₂ :: C :=
  O12.history_order_q0 caps s hr ops hseq hf p c i j k₁ k₂ t d₁ r₁ d₂ r₂ pay₁ pay₂ me₁ me₂ hi hj hij g₁ g₂ e₁ e₂

/-- **order, generic: ANY state, ANY history (schedule ops included), ANY two ops `i < j`, any QoS.**  If op `i` writes
    connection `c` exactly the PUBLISH `m₁` and op `j` exactly `m₂` — each in the state the earlier ops lead to —, `m₁`
    is transmitted before `m₂` on `c`.  This is the construction of the run; what makes it C12 is that the first
    transmission of an immediate delivery is written in the publishing step (`C12_live_immediate`,
    `C12_history_order_partial`, `C12_routing_immediate_any_qos`). -/
theorem C12_history_order_of_first_tx (s : Server) (ops : List Op) (i j : Nat) (op₁ op₂ : Op) (c : Nat) (m₁ m₂ : Msg)
    (hi : ops[i]? = some op₁) (hj : ops[j]? = some op₂) (hij : i < j)
    (h₁ : O12.pubsTo c (step (run s (ops.take i)) op₁).2 = [m₁])
    (h₂ : O12.pubsTo c (step (run s (ops.take j)) op₂).2 = [m₂]) :
    ∃ A B C, O12.pubsTo c (O12.flat s ops) = A ++ m₁ :: B ++ m₂ :: C :=
  O12.order_of_first_tx s ops i j op₁ op₂ c m₁ m₂ hi hj hij h₁ h₂

/-- **one copy per op**: the accepted QoS 0 PUBLISH op writes connection `c` at most one PUBLISH, in every state
    satisfying the all-history invariants — so "the" first transmission of the message to `c` is well defined.
    (Non-shared: `PubQ0.noShared`.) -/
theorem C12_per_op_single_copy (s : Server) (hs : SyncInv s) (hw : WF s) (hcm : ConnMap s)
    (p i c : Nat) (t : Str) (h : O12.PubQ0 s p i c t) (dup retain : Bool) (payload : Str) (me : Nat) :
    (O12.pubsTo c (step s (.recv p (.publish 0 dup retain 0 t payload me none))).2).length ≤ 1 :=
  O12.publish_q0_single s hs hw hcm p i c t h dup retain payload me

/-- **one copy per routing call, a message of ANY QoS**: `publishToSubscribers` writes connection `c` at most one
    PUBLISH (`WF`, one connection per object, no outbound aliases, no shared subscription matching the topic). -/
theorem C12_routing_single_copy (s : Server) (hw : WF s) (hcd : ConnDistinct s) (hna : Q1.NoAliases s)
    (pk : Msg) (hig : pk.ignore = false) (ht : pk.type = 3)
    (hsh : (subscribers s.topics pk.topic).shared = []) (c : Nat) :
    (O12.pubsTo c (publishToSubscribers s pk).2).length ≤ 1 :=
  O12.routing_single s hw hcd hna pk hig ht hsh c

/-- **an immediate delivery of ANY QoS is transmitted by the routing call itself.**  The client object `k` (id `cid`,
    connection `c`, live) is entitled through the entry `(cid, sub)` of the subscriber map, and its delivery is
    immediate: the copy is QoS 0, or the client is `notDeferred` (the hypothesis of `C12_live_immediate`: no Receive
    Maximum or send quota left), below the in-flight limit, with a packet identifier available.  Then
    `publishToSubscribers s pk` writes `c` exactly one PUBLISH: the copy of `pk` (payload, topic, origin, dup 0). -/
theorem C12_routing_immediate_any_qos (s : Server) (hw : WF s) (hcd : ConnDistinct s) (hna : Q1.NoAliases s)
    (pk : Msg) (hig : pk.ignore = false) (ht : pk.type = 3)
    (hsh : (subscribers s.topics pk.topic).shared = []) (cid : Str) (k : Nat) (sub : Sub) (pid : Nat)
    (hreg : (cid, k) ∈ s.clients) (hopen : (getObj s k).isOpen = true) (hinl : (getObj s k).inline = false)
    (hpeer : (getObj s k).peerGone = false) (hsub : (cid, sub) ∈ (subscribers s.topics pk.topic).subs)
    (hacl : aclOk s cid pk.topic false = true) (hnl : (sub.noLocal && pk.origin == cid) = false)
    (himm : shapeQos s.caps sub pk.qos = 0 ∨
      (notDeferred (getObj s k) ∧ (getObj s k).inflight.length < s.caps.maximumInflight ∧
        nextPacketID (getObj s k) s.caps.maximumPacketID = some pid)) :
    ∃ m, O12.pubsTo (getObj s k).conn (publishToSubscribers s pk).2 = [m] ∧ m.payload = pk.payload ∧
      m.topic = pk.topic ∧ m.origin = pk.origin ∧ m.dup = false :=
  (O12.routing_first_tx s hw hcd hna pk hig ht hsh (getObj s k).conn).1
    ⟨cid, k, sub, hreg, rfl, hopen, hinl, hpeer, hsub, hacl, hnl,
      himm.imp id (fun h => ⟨pid, O12.sent_of_notDeferred s k pid h.2.1 h.2.2 h.1⟩)⟩

/-- **the stream of QoS 0 flows.**  For a labelled history (`O12.Labelled c`: every op is an accepted QoS 0 PUBLISH
    to which `c` is entitled — label `some (publisher id, payload)` — or writes `c` no PUBLISH — label `none`) from a
    reachable state: the (origin, payload) pairs `c` is written are EXACTLY the labelled publishes in publish order,
    all QoS 0 first transmissions; and per publisher `o`, the payloads `c` is written from `o` are exactly the
    payloads of `o`'s publishes, in order. -/
theorem C12_qos0_stream_order (caps : Caps) (c : Nat) (s : Server) (ops : List Op) (ls : List (Option (Str × Str)))
    (h : O12.Labelled c s ops ls) (hr : ReachSeq caps s) (hseq : SeqOps ops) (hf : OpsFresh s ops) :
    (O12.pubsTo c (O12.flat s ops)).map (fun m => (m.origin, m.payload)) = ls.filterMap id ∧
    (∀ m ∈ O12.pubsTo c (O12.flat s ops), m.qos = 0 ∧ m.dup = false) ∧
    ∀ o : Str, ((O12.pubsTo c (O12.flat s ops)).filter (fun m => m.origin == o)).map (·.payload) =
      ((ls.filterMap id).filter (fun x => x.1 == o)).map (·.2) :=
  ⟨(O12.qos0_stream caps c s ops ls h hr hseq hf).1, (O12.qos0_stream caps c s ops ls h hr hseq hf).2,
    O12.qos0_stream_of caps c s ops ls h hr hseq hf⟩

end Mochi.Broker

/-! ### Non-vacuity: two publishers interleaved, one subscriber, a third client subscribing in between -/
namespace Mochi.Broker
open Mochi.Topics

/-- `s` (connection 1) subscribes `a`; `p` (connection 2) and `q` (connection 3) connect; `p` publishes `01`, `q`
    publishes `09`, `z` (connection 4) connects and subscribes `a` too, `p` publishes `02` — all QoS 0 on topic `a` -/
def h12History : List Op :=
  [.connect 1 { ver := 4, id := [115] },
   .recv 1 (.subscribe 1 0 [{ filter := [97] }]),
   .connect 2 { ver := 4, id := [112] },
   .connect 3 { ver := 5, id := [113] },
   .recv 2 (.publish 0 false false 0 [97] [1] 0 none),
   .recv 3 (.publish 0 false false 0 [97] [9] 0 none),
   .connect 4 { ver := 4, id := [122] },
   .recv 4 (.subscribe 1 0 [{ filter := [97] }]),
   .recv 2 (.publish 0 false false 0 [97] [2] 0 none)]

theorem h12_seq : SeqOps h12History ∧ OpsFresh (init {}) h12History := by decide

/-- the hypotheses of `C12_history_order_partial` hold for `p`'s two publishes (ops 4 and 8, client object 2) and the
    receiver `s` (connection 1) … -/
theorem h12_pub4 : O12.PubQ0 (run (init {}) (h12History.take 4)) 2 2 1 [97] :=
  ⟨by decide, ⟨by decide, by decide, by decide, by decide, by decide, by decide, by decide, by decide, by decide⟩,
    by decide, Or.inl (by decide)⟩

theorem h12_pub8 : O12.PubQ0 (run (init {}) (h12History.take 8)) 2 2 1 [97] :=
  ⟨by decide, ⟨by decide, by decide, by decide, by decide, by decide, by decide, by decide, by decide, by decide⟩,
    by decide, Or.inl (by decide)⟩

/-- … `s` is entitled to both (read off the outputs through `publish_q0_stream`) … -/
theorem h12_entitled :
    EntitledF03 (run (init {}) (h12History.take 4)) (inboundMsg (run (init {}) (h12History.take 4)) 2 0 false false 0 [97] [1] 0) 1 ∧
    EntitledF03 (run (init {}) (h12History.take 8)) (inboundMsg (run (init {}) (h12History.take 8)) 2 0 false false 0 [97] [2] 0) 1 := by
  obtain ⟨a1, a2, a3, _⟩ := (O12.reach_take (ReachSeq.init (caps := {})) h12History h12_seq.1 h12_seq.2 4).inv
  obtain ⟨b1, b2, b3, _⟩ := (O12.reach_take (ReachSeq.init (caps := {})) h12History h12_seq.1 h12_seq.2 8).inv
  constructor
  · apply Classical.byContradiction
    intro hn
    have := (O12.publish_q0_stream _ a1 a2 a3 2 2 1 [97] h12_pub4 false false [1] 0).2 hn
    revert this
    decide
  · apply Classical.byContradiction
    intro hn
    have := (O12.publish_q0_stream _ b1 b2 b3 2 2 1 [97] h12_pub8 false false [2] 0).2 hn
    revert this
    decide

/-- … so the theorem applies: `01` is transmitted to `s` before `02` — with `q`'s `09` and `z`'s SUBSCRIBE in between -/
theorem h12_order : ∃ m₁ m₂ A B C, O12.CopyQ0 m₁ [1] [112] ∧ O12.CopyQ0 m₂ [2] [112] ∧
    O12.pubsTo 1 (O12.flat (init {}) h12History) = A ++ m₁ :: B ++ m₂ :: C := by
  obtain ⟨m₁, m₂, A, B, C, _, _, c1, c2, e⟩ := C12_history_order_partial {} (init {}) ReachSeq.init h12History
    h12_seq.1 h12_seq.2 2 1 4 8 2 2 [97] false false false false [1] [2] 0 0 rfl rfl (by decide)
    h12_pub4 h12_pub8 h12_entitled.1 h12_entitled.2
  exact ⟨m₁, m₂, A, B, C, c1, c2, e⟩

/-- the conclusion, visible: what `s` (connection 1) and `z` (connection 4) are written, in order -/
example : (O12.pubsTo 1 (O12.flat (init {}) h12History)).map (fun m => (m.origin, m.payload)) =
      [([112], [1]), ([113], [9]), ([112], [2])] ∧
    (O12.pubsTo 4 (O12.flat (init {}) h12History)).map (fun m => (m.origin, m.payload)) = [([112], [2])] ∧
    ((O12.pubsTo 1 (O12.flat (init {}) h12History)).filter (fun m => m.origin == [112])).map (·.payload) = [[1], [2]] := by
  decide

end Mochi.Broker

/-! ### Non-vacuity of the generic order theorem for copies of QoS 1 (immediate: the subscriber has no Receive Maximum) -/
namespace Mochi.Broker
open Mochi.Topics

/-- `s` (connection 1, MQTT 3.1.1: no Receive Maximum, so `notDeferred`) subscribes `a` at QoS 1; `p` (connection 2)
    publishes `01` then `02` at QoS 1, a PINGREQ of `s` in between -/
def h12History1 : List Op :=
  [.connect 1 { ver := 4, id := [115] },
   .recv 1 (.subscribe 1 0 [{ filter := [97], qos := 1 }]),
   .connect 2 { ver := 4, id := [112] },
   .recv 2 (.publish 1 false false 1 [97] [1] 0 none),
   .recv 1 .pingreq,
   .recv 2 (.publish 1 false false 2 [97] [2] 0 none)]

theorem h12_singleton {α} (l : List α) (d : α) (h : l.length = 1) : l = [l.headD d] := by
  match l, h with
  | [x], _ => rfl

/-- each publishing op writes `s` exactly one PUBLISH, a QoS 1 first transmission (dup 0), so
    `C12_history_order_of_first_tx` applies: `01` before `02` on connection 1 -/
theorem h12_order_qos1 : ∃ m₁ m₂ A B C,
    (m₁.payload = [1] ∧ m₁.qos = 1 ∧ m₁.dup = false) ∧ (m₂.payload = [2] ∧ m₂.qos = 1 ∧ m₂.dup = false) ∧
    O12.pubsTo 1 (O12.flat (init {}) h12History1) = A ++ m₁ :: B ++ m₂ :: C := by
  have h₁ : O12.pubsTo 1 (step (run (init {}) (h12History1.take 3)) (.recv 2 (.publish 1 false false 1 [97] [1] 0 none))).2 =
      [(O12.pubsTo 1 (step (run (init {}) (h12History1.take 3)) (.recv 2 (.publish 1 false false 1 [97] [1] 0 none))).2).headD {}] :=
    h12_singleton _ _ (by decide)
  have h₂ : O12.pubsTo 1 (step (run (init {}) (h12History1.take 5)) (.recv 2 (.publish 1 false false 2 [97] [2] 0 none))).2 =
      [(O12.pubsTo 1 (step (run (init {}) (h12History1.take 5)) (.recv 2 (.publish 1 false false 2 [97] [2] 0 none))).2).headD {}] :=
    h12_singleton _ _ (by decide)
  obtain ⟨A, B, C, e⟩ := C12_history_order_of_first_tx (init {}) h12History1 3 5 _ _ 1 _ _ rfl rfl (by decide) h₁ h₂
  exact ⟨_, _, A, B, C, by decide, by decide, e⟩

example : (O12.pubsTo 1 (O12.flat (init {}) h12History1)).map (fun m => (m.payload, m.qos, m.id)) =
    [([1], 1, 1), ([2], 1, 2)] := by decide

end Mochi.Broker

#print axioms Mochi.Broker.C12_history_order_partial
#print axioms Mochi.Broker.C12_history_order_of_first_tx
#print axioms Mochi.Broker.C12_per_op_single_copy
#print axioms Mochi.Broker.C12_routing_single_copy
#print axioms Mochi.Broker.C12_routing_immediate_any_qos
#print axioms Mochi.Broker.C12_qos0_stream_order
#print axioms Mochi.Broker.h12_order
#print axioms Mochi.Broker.h12_order_qos1

/-! ## The in-flight store is handed out oldest first (M14, `Model/InflOrder.lean`)

The positive half of the boundary F12 draws: messages created in DIFFERENT seconds are resent (session resumption:
`GetAll`) and released (flow control: `NextImmediate`) in creation order, for every store — whatever the packet ids
(the 65535 → 1 wrap included) and however large the creation times. Before fix `fix: in-flight messages are ordered
by their full creation time` the comparator truncated `Created` to 16 bits and this failed across every multiple of
65536 seconds (`inflorder` suite: `Inflight.GetAll(0) returned packet 65534 (created 65536) before packet 65532
(created 65535)`). -/

open Mochi.InflOrder in
/-- for every store: two collected records with different creation times come out older first -/
theorem C12_inflight_older_first (s : Store) (imm : Bool) (a b : Rec)
    (ha : a ∈ candidates s imm) (hb : b ∈ candidates s imm) (hlt : a.created < b.created) :
    ∃ A B C, getAll s imm = A ++ a :: B ++ b :: C :=
  sorted_older_first _ (getAll_sorted s imm) a b ((mem_getAll s imm a).mpr ha) ((mem_getAll s imm b).mpr hb) hlt

open Mochi.InflOrder in
/-- for every store: `getAll` returns exactly the collected records, sorted by creation time -/
theorem C12_inflight_getAll_sorted_perm (s : Store) (imm : Bool) :
    (getAll s imm).Perm (candidates s imm) ∧ (getAll s imm).Pairwise (fun a b => a.created ≤ b.created) :=
  ⟨getAll_perm s imm, getAll_sorted s imm⟩

open Mochi.InflOrder in
/-- for every store: the deferred message released next is one than which no deferred message is older, and
    there is one whenever a message is deferred -/
theorem C12_next_immediate_is_oldest (s : Store) :
    (∀ r, nextImmediate s = some r → r ∈ candidates s true ∧ ∀ x ∈ candidates s true, r.created ≤ x.created) ∧
    (nextImmediate s = none ↔ candidates s true = []) :=
  ⟨fun r h => nextImmediate_minimal s r h, nextImmediate_none s⟩

open Mochi.InflOrder in
/-- non-vacuity, at the boundary the code used to get wrong: ids straddle the packet-id wrap, creation times
    straddle 65536 -/
def inflWrapStore : Store := (set (set (set [] ⟨65535, 65535, -1⟩).1 ⟨1, 65536, -1⟩).1 ⟨2, 65534, 0⟩).1

open Mochi.InflOrder in
example : (getAll inflWrapStore false).map (·.id) = [2, 65535, 1] ∧
    (nextImmediate inflWrapStore).map (·.id) = some 65535 := by decide

open Mochi.InflOrder in
/-- the other side of the boundary, and the link to M3: when all collected records were created in the same second,
    EVERY permutation of them is sorted by creation time — the program leaves their order to Go's map iteration and
    an unstable sort, which is why M3 resolves the resend and the deferred release by a free seed there (F12) -/
theorem C12_equal_seconds_any_order (s : Store) (imm : Bool) (l : List Rec) (hp : l.Perm (candidates s imm))
    (heq : ∀ a ∈ candidates s imm, ∀ b ∈ candidates s imm, a.created = b.created) :
    l.Pairwise fun a b => a.created ≤ b.created := by
  apply List.pairwise_of_forall_mem_list
  intro a ha b hb
  have := heq a (hp.mem_iff.mp ha) b (hp.mem_iff.mp hb)
  omega

open Mochi.InflOrder in
/-- the store behaves like the Go map it models, for every sequence of `Set` / `Delete`: at most one record per packet
    id, `Set` replaces exactly the record of its id, `Delete` removes exactly that id -/
theorem C12_inflight_store_is_a_map (s : Store) (h : UniqueIds s) (r : Rec) (id : Nat) :
    UniqueIds (set s r).1 ∧ UniqueIds (del s id).1 ∧
    (∀ x, x ∈ (set s r).1 ↔ x = r ∨ (x ∈ s ∧ x.id ≠ r.id)) ∧ (∀ x, x ∈ (del s id).1 ↔ x ∈ s ∧ x.id ≠ id) :=
  ⟨set_unique s r h, del_unique s id h, mem_set s r, mem_del s id⟩

open Mochi.InflOrder in
/-- the boundary from the determined side: when the collected records were created in pairwise DIFFERENT seconds, the
    answer is unique — every list that is a permutation of the collected records and sorted by creation time (that is
    everything the correspondence driver accepts from `Inflight.GetAll` / `getAll`) IS the model's `getAll`. Together
    with `C12_equal_seconds_any_order`: the driver's acceptance set is a singleton exactly off F12's boundary. -/
theorem C12_distinct_seconds_unique_order (s : Store) (imm : Bool) (l : List Rec) (hp : l.Perm (candidates s imm))
    (hs : l.Pairwise fun a b => a.created ≤ b.created)
    (hne : ∀ a ∈ candidates s imm, ∀ b ∈ candidates s imm, a.created = b.created → a = b) :
    l = getAll s imm := by
  refine List.Perm.eq_of_pairwise (le := fun a b : Rec => a.created ≤ b.created) ?_ hs (getAll_sorted s imm)
    (hp.trans (getAll_perm s imm).symm)
  intro a b ha hb hab hba
  exact hne a (hp.mem_iff.mp ha) b ((mem_getAll s imm b).mp hb) (by omega)

open Mochi.InflOrder in
/-- the same for the deferred release: with pairwise different creation seconds among the deferred records, the
    record `NextImmediate` returns is THE oldest one — any deferred record that no deferred record is older than is it -/
theorem C12_next_immediate_unique (s : Store) (r x : Rec) (h : nextImmediate s = some r)
    (hx : x ∈ candidates s true) (hmin : ∀ y ∈ candidates s true, x.created ≤ y.created)
    (hne : ∀ a ∈ candidates s true, ∀ b ∈ candidates s true, a.created = b.created → a = b) : x = r := by
  have hr := nextImmediate_minimal s r h
  exact hne x hx r hr.1 (by have := hr.2 x hx; have := hmin r hr.1; omega)

open Mochi.InflOrder in
/-- non-vacuity: the wrap store's records have pairwise different creation seconds, so its resend order is forced -/
example : ∀ a ∈ candidates inflWrapStore false, ∀ b ∈ candidates inflWrapStore false, a.created = b.created → a = b := by
  decide

open Mochi.InflOrder in
/-- an operation on the in-flight store -/
inductive InflOp where
  | set (r : Rec)
  | del (id : Nat)

open Mochi.InflOrder in
/-- the store after a sequence of `Set` / `Delete` calls -/
def inflRun (s : Store) (ops : List InflOp) : Store :=
  ops.foldl (fun st op => match op with | .set r => (set st r).1 | .del id => (del st id).1) s

open Mochi.InflOrder in
/-- every store REACHABLE from the empty one by any sequence of `Set` / `Delete` holds at most one record per packet
    id: the hypothesis of `C12_inflight_store_is_a_map` is met by every reachable store -/
theorem C12_inflight_reachable_unique (ops : List InflOp) : UniqueIds (inflRun [] ops) := by
  suffices h : ∀ s, UniqueIds s → UniqueIds (inflRun s ops) from h [] (by simp [UniqueIds])
  induction ops with
  | nil => intro s h; exact h
  | cons op ops ih =>
    intro s h
    cases op with
    | set r => exact ih _ (set_unique s r h)
    | del id => exact ih _ (del_unique s id h)

open Mochi.InflOrder in
/-- the last operation decides: after `… ; Set r` the store holds `r` and no other record of its id; after
    `… ; Delete id` it holds no record of that id — for every reachable store -/
theorem C12_inflight_last_op (ops : List InflOp) (r : Rec) (id : Nat) :
    (∀ x ∈ inflRun [] (ops ++ [.set r]), x.id = r.id → x = r) ∧ r ∈ inflRun [] (ops ++ [.set r]) ∧
    (∀ x ∈ inflRun [] (ops ++ [.del id]), x.id ≠ id) := by
  simp only [inflRun, List.foldl_append, List.foldl_cons, List.foldl_nil]
  refine ⟨fun x hx hid => ?_, (mem_set _ r r).mpr (Or.inl rfl), fun x hx => ((mem_del _ id x).mp hx).2⟩
  rcases (mem_set _ r x).mp hx with h | ⟨_, h⟩
  · exact h
  · exact absurd hid h

open Mochi.InflOrder in
/-- what `GetAll` / `getAll(true)` hand out never names one packet id twice: in every store with one record per id
    (hence in every reachable store, `C12_inflight_reachable_unique`) the ids of the returned records are pairwise
    different — a resend after session resumption cannot transmit two packets under one identifier -/
theorem C12_inflight_getAll_ids_nodup (s : Store) (imm : Bool) (h : UniqueIds s) :
    ((getAll s imm).map (·.id)).Nodup := by
  have hp : ((getAll s imm).map (·.id)).Perm ((candidates s imm).map (·.id)) := (getAll_perm s imm).map _
  refine hp.nodup_iff.mpr ?_
  unfold candidates
  exact (List.filter_sublist.map _).nodup h

open Mochi.InflOrder in
theorem C12_inflight_reachable_getAll_ids_nodup (ops : List InflOp) (imm : Bool) :
    ((getAll (inflRun [] ops) imm).map (·.id)).Nodup :=
  C12_inflight_getAll_ids_nodup _ imm (C12_inflight_reachable_unique ops)

#print axioms C12_inflight_reachable_getAll_ids_nodup
#print axioms C12_inflight_reachable_unique
#print axioms C12_inflight_last_op
#print axioms C12_distinct_seconds_unique_order
#print axioms C12_next_immediate_unique
#print axioms C12_inflight_store_is_a_map
#print axioms C12_equal_seconds_any_order
#print axioms C12_inflight_older_first
#print axioms C12_inflight_getAll_sorted_perm
#print axioms C12_next_immediate_is_oldest

/-! ## History level, publishes of QoS 1 and QoS 2: the first transmission of an IMMEDIATE delivery is written by the publishing op

Lemmas: `Mochi/Lemmas/BrokerOrderQos.lean` (namespace `O12q`).  `O12q.AcceptedQ1 s i id t` / `AcceptedQ2 s i id t`: the
gates of the publish (live network client, valid non-empty topic, identifier ≠ 0, receive quota, write permission, no
in-flight record under the identifier, no hook mode, the broker grants the QoS).  `O12q.RecvImm s pk c cid k pid`: the
RECEIVER — client object `k`, registered under `cid`, live on connection `c`, holds a matching plain subscription of
QoS ≥ 1, may read the topic, is not excluded by No Local, and its delivery is immediate: `notDeferred (getObj s k)`,
fewer in-flight records than the limit, the packet identifier `pid` available.  `O12q.FirstTx m payload topic origin q`:
`m` carries payload, topic and origin, `dup = false`, and `1 ≤ m.qos ≤ q`. -/
namespace Mochi.Broker
open Mochi.Topics

/-- the field `notDef` of `O12q.RecvImm` is `notDeferred` -/
theorem C12_recvImm_notDeferred {s : Server} {pk : Msg} {c : Nat} {cid : Str} {k pid : Nat}
    (h : O12q.RecvImm s pk c cid k pid) : notDeferred (getObj s k) := h.notDef

/-- **the QoS 1 PUBLISH op, decomposed.**  For an accepted QoS 1 publish (`O12q.AcceptedQ1`) on the connection of client
    object `i` in a well-formed state, with `rs` the state with the retained store updated and `m = inboundMsg …`:
    the op's output is `[PUBACK (reason QosCodes[1]) to the publisher] ++ (publishToSubscribers rs m).2 ++ tail`, `tail`
    — at most two outputs — writing only to the PUBLISHER's own connection (releases of its own deferred messages);
    hence every other connection `c` sees, as PUBLISH packets of the op, exactly those of the ONE routing call. -/
theorem C12_publish_qos1_op_outputs (s : Server) (hw : WF s) (conn i : Nat) (dup retain : Bool) (id : Nat)
    (topic payload : Str) (me : Nat) (hc : assocGet s.connOf conn = some i) (h : O12q.AcceptedQ1 s i id topic) :
    (∃ tail, (step s (.recv conn (.publish 1 dup retain id topic payload me none))).2 =
        [Out.wrote (getObj s i).conn (.ack (getObj s i).ver 4 id 1)] ++
          (publishToSubscribers (retainedState s (inboundMsg s i 1 dup retain id topic payload me))
            (inboundMsg s i 1 dup retain id topic payload me)).2 ++ tail ∧
      tail.length ≤ 2 ∧ ∀ x ∈ tail, ∃ pk, x = Out.wrote (getObj s i).conn pk) ∧
    ∀ c, (getObj s i).conn ≠ c →
      O12.pubsTo c (step s (.recv conn (.publish 1 dup retain id topic payload me none))).2 =
        O12.pubsTo c (publishToSubscribers (retainedState s (inboundMsg s i 1 dup retain id topic payload me))
          (inboundMsg s i 1 dup retain id topic payload me)).2 :=
  ⟨O12q.step_recv_publish_q1_outputs s hw conn i dup retain id topic payload me hc h,
   fun c hne => O12q.pubsTo_step_q1 s hw conn i dup retain id topic payload me hc h c hne⟩

/-- **C12 on histories, publishes of QoS 1 — restricted (hence `_partial`).**  `s`: any state reached without schedule
    ops (`ReachSeq`); `ops`: ANY history without schedule ops (fresh connection numbers), of any length, with arbitrary
    ops of other clients in between.  If the `i`-th and the `j`-th op (`i < j`) are PUBLISH packets of QoS 1 on
    connection `p` to the same topic `t`, each accepted in the state before it (`O12q.PubQ1`: the gates `AcceptedQ1`,
    no shared subscription matching `t`, and the publisher's own release tail cannot write to `c`: `c` is not the
    publisher's connection, or — the publisher subscribed to its own topic — the publisher is `O12q.Calm`: it holds no
    deferred message or has no send quota), no registered client has outbound topic aliases in those two states, and the receiver on connection `c` is entitled through a subscription of
    QoS ≥ 1 with its delivery IMMEDIATE in the state before each op (`O12q.RecvImm`: `notDeferred`, below the in-flight
    limit, a packet identifier available — the hypothesis of `C12_routing_immediate_any_qos`), then
    * op `i` writes `c` EXACTLY ONE PUBLISH `m₁`, op `j` exactly one `m₂` — in the publishing step itself;
    * they are the copies of the two messages (payload, topic, the publisher's id as origin), FIRST transmissions
      (`dup = false`), both of QoS 1;
    * on `c`'s stream `m₁` comes before `m₂`: `pubsTo c (flat s ops) = A ++ m₁ :: B ++ m₂ :: C`.

    FULL statement (not proved): the same with outbound topic aliases (`Q1.NoAliases` is a hypothesis of the routing
    theorem `publishToSubscribers_writes_exact_qos`), with matching shared subscriptions for OTHER receivers, inbound
    topic aliases and hook modes, and for histories with schedule ops (for those the generic
    `C12_history_order_of_first_tx` applies once the two singleton facts are known).  A publisher that receives its
    own messages AND holds a deferred message with send quota left is excluded by `PubQ1.own`: there the op's release
    tail does write a PUBLISH to `c` — a deferred release, F12.
    DEFERRED deliveries and RESENDS are out by F12: the property is false there
    (`C12_deferred_release_counterexample`, `C12_resend_counterexample`). -/
theorem C12_history_order_qos1_partial (caps : Caps) (s : Server) (hr : ReachSeq caps s) (ops : List Op) (hseq : SeqOps ops)
    (hf : OpsFresh s ops) (p c i j k₁ k₂ id₁ id₂ : Nat) (t : Str) (d₁ r₁ d₂ r₂ : Bool) (pay₁ pay₂ : Str) (me₁ me₂ : Nat)
    (hi : ops[i]? = some (.recv p (.publish 1 d₁ r₁ id₁ t pay₁ me₁ none)))
    (hj : ops[j]? = some (.recv p (.publish 1 d₂ r₂ id₂ t pay₂ me₂ none))) (hij : i < j)
    (n₁ : Q1.NoAliases (run s (ops.take i))) (n₂ : Q1.NoAliases (run s (ops.take j)))
    (g₁ : O12q.PubQ1 (run s (ops.take i)) p k₁ c id₁ t) (g₂ : O12q.PubQ1 (run s (ops.take j)) p k₂ c id₂ t)
    (cid₁ cid₂ : Str) (o₁ o₂ pid₁ pid₂ : Nat)
    (e₁ : O12q.RecvImm (run s (ops.take i)) (inboundMsg (run s (ops.take i)) k₁ 1 d₁ r₁ id₁ t pay₁ me₁) c cid₁ o₁ pid₁)
    (e₂ : O12q.RecvImm (run s (ops.take j)) (inboundMsg (run s (ops.take j)) k₂ 1 d₂ r₂ id₂ t pay₂ me₂) c cid₂ o₂ pid₂) :
    ∃ m₁ m₂ A B C,
      O12.pubsTo c (step (run s (ops.take i)) (.recv p (.publish 1 d₁ r₁ id₁ t pay₁ me₁ none))).2 = [m₁] ∧
      O12.pubsTo c (step (run s (ops.take j)) (.recv p (.publish 1 d₂ r₂ id₂ t pay₂ me₂ none))).2 = [m₂] ∧
      (O12q.FirstTx m₁ pay₁ t (getObj (run s (ops.take i)) k₁).id 1 ∧ m₁.qos = 1) ∧
      (O12q.FirstTx m₂ pay₂ t (getObj (run s (ops.take j)) k₂).id 1 ∧ m₂.qos = 1) ∧
      O12.pubsTo c (O12.flat s ops) = A ++ m₁ :: B ++ m₂ :: C :=
  O12q.history_order_q1 caps s hr ops hseq hf p c i j k₁ k₂ id₁ id₂ t d₁ r₁ d₂ r₂ pay₁ pay₂ me₁ me₂ hi hj hij n₁ n₂ g₁ g₂
    cid₁ cid₂ o₁ o₂ pid₁ pid₂ e₁ e₂

end Mochi.Broker

/-! ### Non-vacuity: a QoS 1 subscriber without Receive Maximum, two QoS 1 publishes of one client, other ops in between -/
namespace Mochi.Broker
open Mochi.Topics

/-- `s` (connection 1, MQTT 3.1.1: Receive Maximum unset, so `notDeferred`) subscribes `a` at QoS 1; `p` (connection 2)
    publishes `01` (op 3); `q` (connection 3) connects and publishes `09`; `s` acknowledges `01`; `p` publishes `02`
    (op 7) — all QoS 1 on topic `a` -/
def h12HistoryQ1 : List Op :=
  [.connect 1 { ver := 4, id := [115] },
   .recv 1 (.subscribe 1 0 [{ filter := [97], qos := 1 }]),
   .connect 2 { ver := 4, id := [112] },
   .recv 2 (.publish 1 false false 1 [97] [1] 0 none),
   .connect 3 { ver := 5, id := [113] },
   .recv 3 (.publish 1 false false 7 [97] [9] 0 none),
   .recv 1 (.puback 1 0),
   .recv 2 (.publish 1 false false 2 [97] [2] 0 none)]

theorem h12q_seq : SeqOps h12HistoryQ1 ∧ OpsFresh (init {}) h12HistoryQ1 := by decide

theorem h12q_noAliases : Q1.NoAliases (run (init {}) (h12HistoryQ1.take 3)) ∧
    Q1.NoAliases (run (init {}) (h12HistoryQ1.take 7)) :=
  ⟨fun id i h => (by decide : ∀ e ∈ (run (init {}) (h12HistoryQ1.take 3)).clients,
      (getObj (run (init {}) (h12HistoryQ1.take 3)) e.2).tam = 0) (id, i) h,
   fun id i h => (by decide : ∀ e ∈ (run (init {}) (h12HistoryQ1.take 7)).clients,
      (getObj (run (init {}) (h12HistoryQ1.take 7)) e.2).tam = 0) (id, i) h⟩

/-- the hypotheses of `C12_history_order_qos1_partial` hold for `p`'s two publishes (ops 3 and 7, client object 2,
    identifiers 1 and 2) and the receiver `s` (connection 1) … -/
theorem h12q_pub3 : O12q.PubQ1 (run (init {}) (h12HistoryQ1.take 3)) 2 2 1 1 [97] :=
  ⟨by decide, ⟨by decide, by decide, by decide, by decide, by decide, by decide, by decide, by decide, by decide,
    by decide, by decide⟩, by decide, Or.inr (by decide)⟩

theorem h12q_pub7 : O12q.PubQ1 (run (init {}) (h12HistoryQ1.take 7)) 2 2 1 2 [97] :=
  ⟨by decide, ⟨by decide, by decide, by decide, by decide, by decide, by decide, by decide, by decide, by decide,
    by decide, by decide⟩, by decide, Or.inr (by decide)⟩

/-- … `s` (client object 1, id `s`) is the receiver, its delivery immediate both times: no Receive Maximum, no record /
    the acknowledged record gone, packet identifiers 1 and 3 available … -/
theorem h12q_recv3 : O12q.RecvImm (run (init {}) (h12HistoryQ1.take 3))
    (inboundMsg (run (init {}) (h12HistoryQ1.take 3)) 2 1 false false 1 [97] [1] 0) 1 [115] 1 1 :=
  ⟨by decide, by decide, by decide, by decide, by decide,
    ⟨{ filter := [97], qos := 1 }, ⟨by decide, by decide⟩, by decide⟩, by decide,
    fun h => absurd h.1 (by decide), Or.inl (by decide), by decide, by decide⟩

theorem h12q_recv7 : O12q.RecvImm (run (init {}) (h12HistoryQ1.take 7))
    (inboundMsg (run (init {}) (h12HistoryQ1.take 7)) 2 1 false false 2 [97] [2] 0) 1 [115] 1 3 :=
  ⟨by decide, by decide, by decide, by decide, by decide,
    ⟨{ filter := [97], qos := 1 }, ⟨by decide, by decide⟩, by decide⟩, by decide,
    fun h => absurd h.1 (by decide), Or.inl (by decide), by decide, by decide⟩

/-- … so the theorem applies: `01` is transmitted to `s` before `02`, each exactly once in its publishing op, QoS 1,
    dup 0 — with `q`'s connect and publish and `s`'s PUBACK in between -/
theorem h12q_order : ∃ m₁ m₂ A B C,
    (O12q.FirstTx m₁ [1] [97] [112] 1 ∧ m₁.qos = 1) ∧ (O12q.FirstTx m₂ [2] [97] [112] 1 ∧ m₂.qos = 1) ∧
    O12.pubsTo 1 (O12.flat (init {}) h12HistoryQ1) = A ++ m₁ :: B ++ m₂ :: C := by
  obtain ⟨m₁, m₂, A, B, C, _, _, c1, c2, e⟩ := C12_history_order_qos1_partial {} (init {}) ReachSeq.init h12HistoryQ1
    h12q_seq.1 h12q_seq.2 2 1 3 7 2 2 1 2 [97] false false false false [1] [2] 0 0 rfl rfl (by decide)
    h12q_noAliases.1 h12q_noAliases.2 h12q_pub3 h12q_pub7 [115] [115] 1 1 1 3 h12q_recv3 h12q_recv7
  exact ⟨m₁, m₂, A, B, C, c1, c2, e⟩

/-- the conclusion, visible: what `s` (connection 1) is written, in order (origin, payload, QoS, packet id, dup) -/
example : (O12.pubsTo 1 (O12.flat (init {}) h12HistoryQ1)).map (fun m => (m.origin, m.payload, m.qos, m.id, m.dup)) =
    [([112], [1], 1, 1, false), ([113], [9], 1, 2, false), ([112], [2], 1, 3, false)] := by decide

end Mochi.Broker

/-! ### Non-vacuity of the case `c` = the publisher's own connection (`PubQ1.own`, left alternative) -/
namespace Mochi.Broker
open Mochi.Topics

/-- the publisher receives its own messages: `p` (connection 2, MQTT 5, Receive Maximum 5) subscribes `a` at QoS 1 and
    publishes `01` (op 2) and `02` (op 4) at QoS 1, a PINGREQ in between -/
def h12HistoryOwn : List Op :=
  [.connect 2 { ver := 5, id := [112], rm := some 5 },
   .recv 2 (.subscribe 1 0 [{ filter := [97], qos := 1 }]),
   .recv 2 (.publish 1 false false 1 [97] [1] 0 none),
   .recv 2 .pingreq,
   .recv 2 (.publish 1 false false 2 [97] [2] 0 none)]

theorem h12o_seq : SeqOps h12HistoryOwn ∧ OpsFresh (init {}) h12HistoryOwn := by decide

theorem h12o_noLocal (n : Nat)
    (hd : ((assocGet (subscribers (run (init {}) (h12HistoryOwn.take n)).topics [97]).subs [112]).map (·.noLocal)) =
      some false) :
    ¬ ∃ sub, MatchingSub (run (init {}) (h12HistoryOwn.take n)).topics [97] [112] sub ∧ sub.noLocal = true := by
  intro hex
  have hx := (O12.reach_take (ReachSeq.init (caps := {})) h12HistoryOwn h12o_seq.1 h12o_seq.2 n).inv.1.idx
  obtain ⟨sub', hg, hn'⟩ := (hasSub_subscribers_idx mergeOr_noLocal _ hx [97] (by decide) (by decide) [112]).mpr hex
  rw [hg] at hd
  simp only [Option.map_some] at hd
  have hn'' : sub'.noLocal = true := hn'
  rw [hn''] at hd
  cases hd

theorem h12o_noAliases : Q1.NoAliases (run (init {}) (h12HistoryOwn.take 2)) ∧
    Q1.NoAliases (run (init {}) (h12HistoryOwn.take 4)) :=
  ⟨fun id i h => (by decide : ∀ e ∈ (run (init {}) (h12HistoryOwn.take 2)).clients,
      (getObj (run (init {}) (h12HistoryOwn.take 2)) e.2).tam = 0) (id, i) h,
   fun id i h => (by decide : ∀ e ∈ (run (init {}) (h12HistoryOwn.take 4)).clients,
      (getObj (run (init {}) (h12HistoryOwn.take 4)) e.2).tam = 0) (id, i) h⟩

/-- the publisher (client object 1, connection 2 = the receiving connection) holds no deferred message: `Calm` -/
theorem h12o_pub2 : O12q.PubQ1 (run (init {}) (h12HistoryOwn.take 2)) 2 1 2 1 [97] :=
  ⟨by decide, ⟨by decide, by decide, by decide, by decide, by decide, by decide, by decide, by decide, by decide,
    by decide, by decide⟩, by decide, Or.inl (Or.inl (by decide))⟩

theorem h12o_pub4 : O12q.PubQ1 (run (init {}) (h12HistoryOwn.take 4)) 2 1 2 2 [97] :=
  ⟨by decide, ⟨by decide, by decide, by decide, by decide, by decide, by decide, by decide, by decide, by decide,
    by decide, by decide⟩, by decide, Or.inl (Or.inl (by decide))⟩

theorem h12o_recv2 : O12q.RecvImm (run (init {}) (h12HistoryOwn.take 2))
    (inboundMsg (run (init {}) (h12HistoryOwn.take 2)) 1 1 false false 1 [97] [1] 0) 2 [112] 1 1 :=
  ⟨by decide, by decide, by decide, by decide, by decide,
    ⟨{ filter := [97], qos := 1 }, ⟨by decide, by decide⟩, by decide⟩, by decide,
    fun h => h12o_noLocal 2 (by decide) h.2, Or.inr (by decide), by decide, by decide⟩

theorem h12o_recv4 : O12q.RecvImm (run (init {}) (h12HistoryOwn.take 4))
    (inboundMsg (run (init {}) (h12HistoryOwn.take 4)) 1 1 false false 2 [97] [2] 0) 2 [112] 1 2 :=
  ⟨by decide, by decide, by decide, by decide, by decide,
    ⟨{ filter := [97], qos := 1 }, ⟨by decide, by decide⟩, by decide⟩, by decide,
    fun h => h12o_noLocal 4 (by decide) h.2, Or.inr (by decide), by decide, by decide⟩

/-- the theorem applies with `c` = the publisher's own connection: `01` before `02`, each written once by its op -/
theorem h12o_order : ∃ m₁ m₂ A B C,
    (O12q.FirstTx m₁ [1] [97] [112] 1 ∧ m₁.qos = 1) ∧ (O12q.FirstTx m₂ [2] [97] [112] 1 ∧ m₂.qos = 1) ∧
    O12.pubsTo 2 (O12.flat (init {}) h12HistoryOwn) = A ++ m₁ :: B ++ m₂ :: C := by
  obtain ⟨m₁, m₂, A, B, C, _, _, c1, c2, e⟩ := C12_history_order_qos1_partial {} (init {}) ReachSeq.init h12HistoryOwn
    h12o_seq.1 h12o_seq.2 2 2 2 4 1 1 1 2 [97] false false false false [1] [2] 0 0 rfl rfl (by decide)
    h12o_noAliases.1 h12o_noAliases.2 h12o_pub2 h12o_pub4 [112] [112] 1 1 1 2 h12o_recv2 h12o_recv4
  exact ⟨m₁, m₂, A, B, C, c1, c2, e⟩

end Mochi.Broker

/-! ### QoS 2: the routing happens at the PUBLISH op (`C08_accepted_qos2_shape`), not at PUBREL -/
namespace Mochi.Broker
open Mochi.Topics

/-- **the QoS 2 PUBLISH op, decomposed.**  For an accepted QoS 2 publish (`AcceptedQ2`, `Props/C08.lean`) on the
    connection of client object `i`, with `fs = pubrecFiled (retainedState s m) i id` (retained store updated, the PUBREC
    record filed with the publisher) and `m = inboundMsg …`: the op's output is
    `[PUBREC 0x00 to the publisher] ++ (publishToSubscribers fs m).2 ++ tail`, `tail` — at most two outputs — writing
    only to the PUBLISHER's own connection; every other connection `c` sees, as PUBLISH packets of the op, exactly those
    of the ONE routing call. -/
theorem C12_publish_qos2_op_outputs (s : Server) (conn i : Nat) (dup retain : Bool) (id : Nat)
    (topic payload : Str) (me : Nat) (hc : assocGet s.connOf conn = some i) (h : AcceptedQ2 s i id topic) :
    (∃ tail, (step s (.recv conn (.publish 2 dup retain id topic payload me none))).2 =
        [Out.wrote (getObj s i).conn (.ack (getObj s i).ver 5 id 0)] ++
          (publishToSubscribers (pubrecFiled (retainedState s (inboundMsg s i 2 dup retain id topic payload me)) i id)
            (inboundMsg s i 2 dup retain id topic payload me)).2 ++ tail ∧
      tail.length ≤ 2 ∧ ∀ x ∈ tail, ∃ pk, x = Out.wrote (getObj s i).conn pk) ∧
    ∀ c, (getObj s i).conn ≠ c →
      O12.pubsTo c (step s (.recv conn (.publish 2 dup retain id topic payload me none))).2 =
        O12.pubsTo c (publishToSubscribers
          (pubrecFiled (retainedState s (inboundMsg s i 2 dup retain id topic payload me)) i id)
          (inboundMsg s i 2 dup retain id topic payload me)).2 :=
  ⟨O12q.step_recv_publish_q2_outputs s conn i dup retain id topic payload me hc h,
   fun c hne => O12q.pubsTo_step_q2 s conn i dup retain id topic payload me hc h c hne⟩

/-- **C12 on histories, publishes of QoS 2 — restricted (hence `_partial`).**  As `C12_history_order_qos1_partial`, for
    two accepted QoS 2 PUBLISH packets (`O12q.PubQ2`: gates `AcceptedQ2`) of one connection `p` on one topic `t` —
    whatever happens to the two inbound exchanges in between (PUBREL or not) —: each publishing op (the PUBLISH itself)
    writes the receiver `c` EXACTLY ONE PUBLISH, the copy of its message, a first transmission (`dup = false`) of
    QoS 1 or 2 (`O12q.FirstTx … 2`), and `m₁` precedes `m₂` on `c`'s stream.
    Restrictions and the FULL statement: as for `C12_history_order_qos1_partial`, and additionally `c` must not be the
    publisher's own connection (`PubQ2.other`): the routing state holds the PUBREC record in the PUBLISHER's in-flight
    list, so for a publisher receiving its own message the immediacy hypotheses (in-flight limit, next packet
    identifier) would have to be stated on that state — not done. -/
theorem C12_history_order_qos2_partial (caps : Caps) (s : Server) (hr : ReachSeq caps s) (ops : List Op) (hseq : SeqOps ops)
    (hf : OpsFresh s ops) (p c i j k₁ k₂ id₁ id₂ : Nat) (t : Str) (d₁ r₁ d₂ r₂ : Bool) (pay₁ pay₂ : Str) (me₁ me₂ : Nat)
    (hi : ops[i]? = some (.recv p (.publish 2 d₁ r₁ id₁ t pay₁ me₁ none)))
    (hj : ops[j]? = some (.recv p (.publish 2 d₂ r₂ id₂ t pay₂ me₂ none))) (hij : i < j)
    (n₁ : Q1.NoAliases (run s (ops.take i))) (n₂ : Q1.NoAliases (run s (ops.take j)))
    (g₁ : O12q.PubQ2 (run s (ops.take i)) p k₁ c id₁ t) (g₂ : O12q.PubQ2 (run s (ops.take j)) p k₂ c id₂ t)
    (cid₁ cid₂ : Str) (o₁ o₂ pid₁ pid₂ : Nat)
    (e₁ : O12q.RecvImm (run s (ops.take i)) (inboundMsg (run s (ops.take i)) k₁ 2 d₁ r₁ id₁ t pay₁ me₁) c cid₁ o₁ pid₁)
    (e₂ : O12q.RecvImm (run s (ops.take j)) (inboundMsg (run s (ops.take j)) k₂ 2 d₂ r₂ id₂ t pay₂ me₂) c cid₂ o₂ pid₂) :
    ∃ m₁ m₂ A B C,
      O12.pubsTo c (step (run s (ops.take i)) (.recv p (.publish 2 d₁ r₁ id₁ t pay₁ me₁ none))).2 = [m₁] ∧
      O12.pubsTo c (step (run s (ops.take j)) (.recv p (.publish 2 d₂ r₂ id₂ t pay₂ me₂ none))).2 = [m₂] ∧
      O12q.FirstTx m₁ pay₁ t (getObj (run s (ops.take i)) k₁).id 2 ∧
      O12q.FirstTx m₂ pay₂ t (getObj (run s (ops.take j)) k₂).id 2 ∧
      O12.pubsTo c (O12.flat s ops) = A ++ m₁ :: B ++ m₂ :: C :=
  O12q.history_order_q2 caps s hr ops hseq hf p c i j k₁ k₂ id₁ id₂ t d₁ r₁ d₂ r₂ pay₁ pay₂ me₁ me₂ hi hj hij n₁ n₂ g₁ g₂
    cid₁ cid₂ o₁ o₂ pid₁ pid₂ e₁ e₂

/-- `s` (connection 1, MQTT 3.1.1) subscribes `a` at QoS 2; `p` (connection 2) publishes `01` at QoS 2 (op 3) and
    completes the exchange (PUBREL); `s` answers PUBREC; `p` publishes `02` at QoS 2 (op 6) -/
def h12HistoryQ2 : List Op :=
  [.connect 1 { ver := 4, id := [115] },
   .recv 1 (.subscribe 1 0 [{ filter := [97], qos := 2 }]),
   .connect 2 { ver := 4, id := [112] },
   .recv 2 (.publish 2 false false 1 [97] [1] 0 none),
   .recv 2 (.pubrel 1 0),
   .recv 1 (.pubrec 1 0),
   .recv 2 (.publish 2 false false 2 [97] [2] 0 none)]

theorem h12q2_seq : SeqOps h12HistoryQ2 ∧ OpsFresh (init {}) h12HistoryQ2 := by decide

theorem h12q2_noAliases : Q1.NoAliases (run (init {}) (h12HistoryQ2.take 3)) ∧
    Q1.NoAliases (run (init {}) (h12HistoryQ2.take 6)) :=
  ⟨fun id i h => (by decide : ∀ e ∈ (run (init {}) (h12HistoryQ2.take 3)).clients,
      (getObj (run (init {}) (h12HistoryQ2.take 3)) e.2).tam = 0) (id, i) h,
   fun id i h => (by decide : ∀ e ∈ (run (init {}) (h12HistoryQ2.take 6)).clients,
      (getObj (run (init {}) (h12HistoryQ2.take 6)) e.2).tam = 0) (id, i) h⟩

theorem h12q2_pub3 : O12q.PubQ2 (run (init {}) (h12HistoryQ2.take 3)) 2 2 1 1 [97] :=
  ⟨by decide, ⟨by decide, by decide, by decide, by decide, by decide, by decide, by decide, by decide, by decide,
    by decide, by decide⟩, by decide, by decide⟩

theorem h12q2_pub6 : O12q.PubQ2 (run (init {}) (h12HistoryQ2.take 6)) 2 2 1 2 [97] :=
  ⟨by decide, ⟨by decide, by decide, by decide, by decide, by decide, by decide, by decide, by decide, by decide,
    by decide, by decide⟩, by decide, by decide⟩

theorem h12q2_recv3 : O12q.RecvImm (run (init {}) (h12HistoryQ2.take 3))
    (inboundMsg (run (init {}) (h12HistoryQ2.take 3)) 2 2 false false 1 [97] [1] 0) 1 [115] 1 1 :=
  ⟨by decide, by decide, by decide, by decide, by decide,
    ⟨{ filter := [97], qos := 2 }, ⟨by decide, by decide⟩, by decide⟩, by decide,
    fun h => absurd h.1 (by decide), Or.inl (by decide), by decide, by decide⟩

theorem h12q2_recv6 : O12q.RecvImm (run (init {}) (h12HistoryQ2.take 6))
    (inboundMsg (run (init {}) (h12HistoryQ2.take 6)) 2 2 false false 2 [97] [2] 0) 1 [115] 1 2 :=
  ⟨by decide, by decide, by decide, by decide, by decide,
    ⟨{ filter := [97], qos := 2 }, ⟨by decide, by decide⟩, by decide⟩, by decide,
    fun h => absurd h.1 (by decide), Or.inl (by decide), by decide, by decide⟩

/-- the theorem applies: `01` before `02` on connection 1, each written once by its PUBLISH op, dup 0 -/
theorem h12q2_order : ∃ m₁ m₂ A B C, O12q.FirstTx m₁ [1] [97] [112] 2 ∧ O12q.FirstTx m₂ [2] [97] [112] 2 ∧
    O12.pubsTo 1 (O12.flat (init {}) h12HistoryQ2) = A ++ m₁ :: B ++ m₂ :: C := by
  obtain ⟨m₁, m₂, A, B, C, _, _, c1, c2, e⟩ := C12_history_order_qos2_partial {} (init {}) ReachSeq.init h12HistoryQ2
    h12q2_seq.1 h12q2_seq.2 2 1 3 6 2 2 1 2 [97] false false false false [1] [2] 0 0 rfl rfl (by decide)
    h12q2_noAliases.1 h12q2_noAliases.2 h12q2_pub3 h12q2_pub6 [115] [115] 1 1 1 2 h12q2_recv3 h12q2_recv6
  exact ⟨m₁, m₂, A, B, C, c1, c2, e⟩

example : (O12.pubsTo 1 (O12.flat (init {}) h12HistoryQ2)).map (fun m => (m.origin, m.payload, m.qos, m.id, m.dup)) =
    [([112], [1], 2, 1, false), ([112], [2], 2, 2, false)] := by decide

end Mochi.Broker

#print axioms Mochi.Broker.C12_publish_qos1_op_outputs
#print axioms Mochi.Broker.C12_history_order_qos1_partial
#print axioms Mochi.Broker.h12q_order
#print axioms Mochi.Broker.C12_publish_qos2_op_outputs
#print axioms Mochi.Broker.C12_history_order_qos2_partial
#print axioms Mochi.Broker.h12q2_order
#print axioms Mochi.Broker.h12o_order
