import Mochi.Lemmas.Reader
import Mochi.Props.C27
/-!
# C28 — No client byte stream can crash the broker or disturb other clients

"Whatever bytes one network client sends, at any point of its session, the broker process keeps
running, and that connection is either served or closed. Concurrently connected well-behaved clients
keep receiving correct service. A packet larger than the configured maximum packet size is refused
before its body is processed."

Models: the reader (`Model/Reader.lean`: `Client.ReadFixedHeader`, `Client.ReadPacket`, the loop of
`Client.Read`, `Server.readConnectionPacket`) over the codec M1 and the variable byte integer M7; the
sequential broker M3 (`receivePacket`, `recvOn`) for what happens to a decoded packet.

"Keeps running" is: no modelled Go panic site (raw index / slice expression) is reachable from the bytes
of a connection — `attachClient` has no `recover()`, so a panic in a connection goroutine would end the
process.  Memory exhaustion, goroutine leaks, scheduler starvation and runtime faults are not modelled.

Finding F28 (`C28_size_before_body_counterexample`): the size test of `ReadFixedHeader` is
`Remaining + 1 > MaximumPacketSize`; it counts one byte for the fixed header where the packet has
`1 + (1…4)` — packets of up to `MaximumPacketSize + 4` bytes are accepted and their bodies read.
-/
namespace Mochi.Reader
open Mochi.Codec Mochi.Varint

/-! ## the reader never panics -/

theorem fixedHeaderDecode_np (b : Nat) : fixedHeaderDecode b ≠ .error .panic := by
  unfold fixedHeaderDecode
  simp only []
  split
  · split
    · simp [err]
    · split <;> simp [err]
  · split
    · split <;> simp [err]
    · split <;> simp [err]

/-- the event is the Go-panic outcome -/
def ReadEvent.isPanic : ReadEvent → Bool
  | .error (.header .panic) => true
  | .error (.body .panic) => true
  | _ => false

theorem readFixedHeader_np (m : Nat) (bs : List Nat) : readFixedHeader m bs ≠ .error (.header .panic) := by
  cases bs with
  | nil => simp [readFixedHeader]
  | cons b rest =>
    simp only [readFixedHeader]
    split
    · rename_i e he
      intro h; injection h with h; injection h with h
      exact fixedHeaderDecode_np b (by rw [he, h])
    · split
      · simp
      · simp
      · split <;> simp

theorem readFixedHeader_no_body_err (m : Nat) (bs : List Nat) (e : DErr) : readFixedHeader m bs ≠ .error (.body e) := by
  cases bs with
  | nil => simp [readFixedHeader]
  | cons b rest =>
    simp only [readFixedHeader]
    split
    · simp
    · split
      · simp
      · simp
      · split <;> simp

theorem readPacket_np (ver : Nat) (fh : FixedHeader) (bs : List Nat) : readPacket ver fh bs ≠ .error .panic := by
  unfold readPacket
  split
  · simp
  · split
    · simp
    · rename_i e he
      intro h; injection h with h
      exact C27_no_panic ver fh _ (by rw [he, h])

theorem readStreamFuel_np (cfg : Cfg) (ver : Nat) (fuel : Nat) (bs : List Nat) :
    ∀ ev ∈ (readStreamFuel cfg ver fuel bs).1, ev.isPanic = false := by
  induction fuel generalizing bs with
  | zero => intro ev h; simp [readStreamFuel] at h; subst h; rfl
  | succ fuel ih =>
    simp only [readStreamFuel]
    cases hfh : readFixedHeader cfg.maxPacketSize bs with
    | needMore => intro ev h; simp at h; subst h; rfl
    | error e =>
      intro ev h; simp at h; subst h
      cases e with
      | header d =>
        cases d with
        | panic => exact absurd hfh (readFixedHeader_np _ _)
        | code n => rfl
      | varint => rfl
      | tooLarge => rfl
      | body d => exact absurd hfh (readFixedHeader_no_body_err _ _ d)
      | notConnect => rfl
    | ok fh used =>
      simp only []
      cases hpk : readPacket ver fh (bs.drop used) with
      | needMore => intro ev h; simp at h; subst h; rfl
      | error e =>
        intro ev h; simp at h; subst h
        cases e with
        | panic => exact absurd hpk (readPacket_np _ _ _)
        | code n => rfl
      | ok pk =>
        intro ev h
        simp only [List.mem_cons] at h
        rcases h with rfl | h
        · rfl
        · exact ih _ ev h

/-- **C28 (reader): no byte stream makes the read loop panic** — for every configuration, every protocol
    version and every byte stream, none of the events of `Client.Read` is a Go panic (from
    `C27_no_panic` for the body decoders; the reader's own slice `p[:]` is always in range). -/
theorem C28_reader_no_panic (cfg : Cfg) (ver : Nat) (bs : List Nat) :
    ∀ ev ∈ (readStream cfg ver bs).1, ev.isPanic = false :=
  readStreamFuel_np cfg ver bs.length bs

theorem readErr_np_of_fh (m : Nat) (bs : List Nat) (e : ReadErr) (h : readFixedHeader m bs = .error e) :
    (ReadEvent.error e).isPanic = false := by
  cases e with
  | header d =>
    cases d with
    | panic => exact absurd h (readFixedHeader_np _ _)
    | code n => rfl
  | varint => rfl
  | tooLarge => rfl
  | body d => exact absurd h (readFixedHeader_no_body_err _ _ d)
  | notConnect => rfl

theorem readConnection_np (cfg : Cfg) (bs : List Nat) (e : ReadErr) (h : readConnection cfg bs = .error e) :
    (ReadEvent.error e).isPanic = false := by
  unfold readConnection at h
  cases hfh : readFixedHeader cfg.maxPacketSize bs with
  | needMore => simp [hfh] at h
  | error e' =>
    simp only [hfh] at h
    injection h with h; subst h
    exact readErr_np_of_fh _ _ _ hfh
  | ok fh used =>
    simp only [hfh] at h
    split at h
    · injection h with h; subst h; rfl
    · cases hpk : readPacket defaultVersion fh (bs.drop used) with
      | needMore => simp [hpk] at h
      | ok pk => simp [hpk] at h
      | error d =>
        simp only [hpk] at h
        injection h with h; subst h
        cases d with
        | panic => exact absurd hpk (readPacket_np _ _ _)
        | code n => rfl

/-- the same for the first packet of a connection (`readConnectionPacket`) and the whole session -/
theorem C28_session_no_panic (cfg : Cfg) (bs : List Nat) :
    ∀ ev ∈ (readSession cfg bs).1, ev.isPanic = false := by
  unfold readSession
  cases hc : readConnection cfg bs with
  | needMore => intro ev h; simp at h; subst h; rfl
  | error e => intro ev h; simp at h; subst h; exact readConnection_np cfg bs e hc
  | connect pk rest =>
    intro ev h
    simp only [List.mem_cons] at h
    rcases h with rfl | h
    · rfl
    · exact C28_reader_no_panic cfg _ _ ev h

/-! ## the reader consumes a prefix, packet by packet -/

/-- **C28 (reader): progress and framing.** The events of the read loop are the `packet` events of a
    list of frames followed by exactly one final event (`needMore` or `error` — so nothing follows an
    error: the connection is closed); each frame is `[type/flags] ++ varint(remaining) ++ body` with
    `body.length = remaining`, decoding to the packet handed to the handler; and the stream is exactly
    the concatenation of the frames followed by the unconsumed tail (no overread, no byte skipped). -/
theorem C28_reader_progress (cfg : Cfg) (ver : Nat) (bs : List Nat) :
    ∃ (frames : List Frame) (last : ReadEvent),
      (readStream cfg ver bs).1 = frames.map (fun f => ReadEvent.packet f.pk) ++ [last] ∧
      last.isFinal = true ∧ (∀ f ∈ frames, f.Decodes ver) ∧
      bs = frames.flatMap Frame.bytes ++ (readStream cfg ver bs).2 :=
  readStreamFuel_frames cfg ver bs.length bs

/-- the loop always terminates: any fuel ≥ the stream length gives the same result (each packet
    consumes at least two bytes, `readFixedHeader_used`) -/
theorem C28_reader_terminates (cfg : Cfg) (ver : Nat) (fuel : Nat) (bs : List Nat) (h : bs.length ≤ fuel) :
    readStreamFuel cfg ver fuel bs = readStream cfg ver bs :=
  readStreamFuel_stable cfg ver fuel bs h

/-- non-vacuity: a PINGREQ, a v4 PUBLISH "a"/"hi" and a truncated SUBSCRIBE: two frames, then `needMore`
    with the three bytes of the incomplete packet left -/
example : (readStream {} 4 [0xC0, 0, 0x30, 5, 0, 1, 0x61, 0x68, 0x69, 0x82, 9, 0]).2 = [0x82, 9, 0] ∧
    ((readStream {} 4 [0xC0, 0, 0x30, 5, 0, 1, 0x61, 0x68, 0x69, 0x82, 9, 0]).1.map ReadEvent.isFinal) = [false, false, true] := by
  decide

/-- a malformed header ends the stream: nothing after `F3` is looked at -/
example : (readStream {} 4 [0xC0, 0, 0xF3, 0, 0xC0, 0]).1.map ReadEvent.isFinal = [false, true] ∧
    (readStream {} 4 [0xC0, 0, 0xF3, 0, 0xC0, 0]).2 = [0xF3, 0, 0xC0, 0] := by
  decide

/-! ## the maximum packet size -/

/-- the property's sentence, at full strength, for one packet at the head of the stream: header byte
    `hb`, length bytes `lenBytes` (a complete variable byte integer `n`), anything after: if the
    packet's TOTAL size `1 + lenBytes.length + n` exceeds a configured maximum, `ReadFixedHeader`
    answers `ErrPacketTooLarge`. -/
def SizeBeforeBody (max hb : Nat) (lenBytes rest : List Nat) : Prop :=
  ∀ fh n, fixedHeaderDecode hb = .ok fh → decodeLength lenBytes = .ok (n, lenBytes.length) →
    max > 0 → 1 + lenBytes.length + n > max →
    readFixedHeader max (hb :: (lenBytes ++ rest)) = .error .tooLarge

/-- **F28**: with `MaximumPacketSize = 4` the five-byte PUBLISH `30 03 00 01 61` is accepted (the test
    compares `Remaining + 1 = 4` with the limit and ignores the length byte) -/
theorem C28_size_before_body_counterexample : ¬ SizeBeforeBody 4 0x30 [3] [0, 1, 0x61] := by
  intro h
  have := h { type := 3 } 3 rfl rfl (by decide) (by decide)
  exact absurd this (by decide)

/-- and the accepted packet is read and handed to the handler -/
example : (readStream { maxPacketSize := 4 } 4 [0x30, 3, 0, 1, 0x61]).1.map ReadEvent.isFinal = [false, true] := by
  decide

/-- what the code guarantees (1): a packet whose remaining length alone reaches the limit
    (`remaining + 1 > max`) is refused by `ReadFixedHeader`, whatever follows the fixed header — the
    body bytes are not looked at, they need not even have arrived. -/
theorem C28_size_before_body_partial (max hb : Nat) (lenBytes rest : List Nat) (fh : FixedHeader) (n : Nat)
    (hfh : fixedHeaderDecode hb = .ok fh) (hlen : decodeLength lenBytes = .ok (n, lenBytes.length))
    (hmax : max > 0) (hbig : n + 1 > max) :
    readFixedHeader max (hb :: (lenBytes ++ rest)) = .error .tooLarge := by
  simp only [readFixedHeader, hfh, decodeLength_append lenBytes rest _ hlen]
  rw [toUint32_of_le n (decodeLength_le_max _ _ _ hlen)]
  simp [hmax, hbig]

/-- … and the read loop then ends with that error as its only event: no packet is delivered -/
theorem C28_size_refused_stream (cfg : Cfg) (ver hb : Nat) (lenBytes rest : List Nat) (fh : FixedHeader) (n : Nat)
    (hfh : fixedHeaderDecode hb = .ok fh) (hlen : decodeLength lenBytes = .ok (n, lenBytes.length))
    (hmax : cfg.maxPacketSize > 0) (hbig : n + 1 > cfg.maxPacketSize) :
    (readStream cfg ver (hb :: (lenBytes ++ rest))).1 = [.error .tooLarge] := by
  rw [readStream_step, C28_size_before_body_partial _ hb lenBytes rest fh n hfh hlen hmax hbig]

/-- what the code guarantees (2), the exact bound: an accepted fixed header has
    `remaining + 1 ≤ max`, so the whole packet (`used` header bytes + `remaining`) is at most
    `max + 4` bytes — `max + 1` with a one-byte length, up to `max + 4` with a padded four-byte one. -/
theorem C28_size_accepted_bound (max : Nat) (bs : List Nat) (fh : FixedHeader) (used : Nat)
    (h : readFixedHeader max bs = .ok fh used) (hmax : max > 0) :
    fh.remaining + 1 ≤ max ∧ used + fh.remaining ≤ max + 4 := by
  obtain ⟨b, rest, fh0, n, bu, rfl, _, hd, rfl, rfl, hsz⟩ := readFixedHeader_ok max bs fh used h
  have := decodeLength_bytes rest n bu hd
  simp only []
  constructor <;> omega

/-- the bound is attained: limit 4, remaining length 3 written in four bytes: 8 = 4 + 4 bytes accepted -/
example : readFixedHeader 4 [0x30, 0x83, 0x80, 0x80, 0x00, 0, 1, 0x61] = .ok { type := 3, remaining := 3 } 5 := by
  decide

/-- non-vacuity of the partial theorem: limit 4, remaining length 4 is refused although no body byte follows -/
example : readFixedHeader 4 (0x30 :: ([4] ++ [])) = .error .tooLarge :=
  C28_size_before_body_partial 4 0x30 [4] [] { type := 3 } 4 rfl rfl (by decide) (by decide)

/-- without a configured maximum nothing is refused for its size -/
example : readFixedHeader 0 [0x30, 0xFF, 0xFF, 0xFF, 0x7F] = .ok { type := 3, remaining := 268435455 } 5 := by
  decide

end Mochi.Reader
