import Mochi.Lemmas.Reader
import Mochi.Lemmas.SessionFrame
import Mochi.Props.C27
import Mochi.Props.C07
/-!
# C28 — No client byte stream can crash the broker or disturb other clients

"Whatever bytes one network client sends, at any point of its session, the broker process keeps
running, and that connection is either served or closed. Concurrently connected well-behaved clients
keep receiving correct service. A packet larger than the configured maximum packet size is refused
before its body is processed."

Models: the reader (`Model/Reader.lean`: `Client.ReadFixedHeader`, `Client.ReadPacket`, the loop of
`Client.Read`, `Server.readConnectionPacket`) over the codec M1 and the variable byte integer M7; the
sequential broker M3 (`receivePacket`, `recvOn`) for what happens to a decoded packet.

"Keeps running" is: no modelled Go panic site (raw index / slice expression) is reachable from the bytes
of a connection — `attachClient` has no `recover()`, so a panic in a connection goroutine would end the
process.  Memory exhaustion, goroutine leaks, scheduler starvation and runtime faults are not modelled.

The broker-side theorems (second half of the file) are over M3 and `Model/Session.lean` (the glue from
decoded packets of ANY type and from raw byte chunks into M3); they are frame theorems: who can change
what.  `SessEq a b` (`Lemmas/BrokerFrame.lean`) says two client objects agree on everything except the
five fields a PUBLISH delivered TO the client may change (`inflight`, `sendQuota`, `packetID`, `aliasOut`,
`aliasCursor`).  Not covered (what keeps `C28_isolation` short of "the session of c' is untouched"): the
topic index entries of the other client (M2's trie) — only the object's own `subs` list and its
Clients-map entry are shown unchanged — and everything that is not sequential (M4).

The size clause is proved at full strength (`C28_size_before_body`): the size test of `ReadFixedHeader`
is `Remaining + bu + 1 > MaximumPacketSize`, the packet's total encoded size (`bu` = the 1…4 length
bytes).  (Former finding F28, repaired in the code: the test was `Remaining + 1 > MaximumPacketSize`
and packets of up to `MaximumPacketSize + 4` bytes were accepted and their bodies read.)
-/
namespace Mochi.Reader
open Mochi.Codec Mochi.Varint

/-! ## the reader never panics -/

theorem fixedHeaderDecode_np (b : Nat) : fixedHeaderDecode b ≠ .error .panic := by
  unfold fixedHeaderDecode
  simp only []
  split
  · split
    · simp [err]
    · split <;> simp [err]
  · split
    · split <;> simp [err]
    · split <;> simp [err]

/-- the event is the Go-panic outcome -/
def ReadEvent.isPanic : ReadEvent → Bool
  | .error (.header .panic) => true
  | .error (.body .panic) => true
  | _ => false

theorem readFixedHeader_np (m : Nat) (bs : List Nat) : readFixedHeader m bs ≠ .error (.header .panic) := by
  cases bs with
  | nil => simp [readFixedHeader]
  | cons b rest =>
    simp only [readFixedHeader]
    split
    · rename_i e he
      intro h; injection h with h; injection h with h
      exact fixedHeaderDecode_np b (by rw [he, h])
    · split
      · simp
      · simp
      · split <;> simp

theorem readFixedHeader_no_body_err (m : Nat) (bs : List Nat) (e : DErr) : readFixedHeader m bs ≠ .error (.body e) := by
  cases bs with
  | nil => simp [readFixedHeader]
  | cons b rest =>
    simp only [readFixedHeader]
    split
    · simp
    · split
      · simp
      · simp
      · split <;> simp

theorem readPacket_np (ver : Nat) (fh : FixedHeader) (bs : List Nat) : readPacket ver fh bs ≠ .error .panic := by
  unfold readPacket
  split
  · simp
  · split
    · simp
    · rename_i e he
      intro h; injection h with h
      exact C27_no_panic ver fh _ (by rw [he, h])

theorem readStreamFuel_np (cfg : Cfg) (ver : Nat) (fuel : Nat) (bs : List Nat) :
    ∀ ev ∈ (readStreamFuel cfg ver fuel bs).1, ev.isPanic = false := by
  induction fuel generalizing bs with
  | zero => intro ev h; simp [readStreamFuel] at h; subst h; rfl
  | succ fuel ih =>
    simp only [readStreamFuel]
    cases hfh : readFixedHeader cfg.maxPacketSize bs with
    | needMore => intro ev h; simp at h; subst h; rfl
    | error e =>
      intro ev h; simp at h; subst h
      cases e with
      | header d =>
        cases d with
        | panic => exact absurd hfh (readFixedHeader_np _ _)
        | code n => rfl
      | varint => rfl
      | tooLarge => rfl
      | body d => exact absurd hfh (readFixedHeader_no_body_err _ _ d)
      | notConnect => rfl
    | ok fh used =>
      simp only []
      cases hpk : readPacket ver fh (bs.drop used) with
      | needMore => intro ev h; simp at h; subst h; rfl
      | error e =>
        intro ev h; simp at h; subst h
        cases e with
        | panic => exact absurd hpk (readPacket_np _ _ _)
        | code n => rfl
      | ok pk =>
        intro ev h
        simp only [List.mem_cons] at h
        rcases h with rfl | h
        · rfl
        · exact ih _ ev h

/-- **C28 (reader): no byte stream makes the read loop panic** — for every configuration, every protocol
    version and every byte stream, none of the events of `Client.Read` is a Go panic (from
    `C27_no_panic` for the body decoders; the reader's own slice `p[:]` is always in range). -/
theorem C28_reader_no_panic (cfg : Cfg) (ver : Nat) (bs : List Nat) :
    ∀ ev ∈ (readStream cfg ver bs).1, ev.isPanic = false :=
  readStreamFuel_np cfg ver bs.length bs

theorem readErr_np_of_fh (m : Nat) (bs : List Nat) (e : ReadErr) (h : readFixedHeader m bs = .error e) :
    (ReadEvent.error e).isPanic = false := by
  cases e with
  | header d =>
    cases d with
    | panic => exact absurd h (readFixedHeader_np _ _)
    | code n => rfl
  | varint => rfl
  | tooLarge => rfl
  | body d => exact absurd h (readFixedHeader_no_body_err _ _ d)
  | notConnect => rfl

theorem readConnection_np (cfg : Cfg) (bs : List Nat) (e : ReadErr) (h : readConnection cfg bs = .error e) :
    (ReadEvent.error e).isPanic = false := by
  unfold readConnection at h
  cases hfh : readFixedHeader cfg.maxPacketSize bs with
  | needMore => simp [hfh] at h
  | error e' =>
    simp only [hfh] at h
    injection h with h; subst h
    exact readErr_np_of_fh _ _ _ hfh
  | ok fh used =>
    simp only [hfh] at h
    split at h
    · injection h with h; subst h; rfl
    · cases hpk : readPacket defaultVersion fh (bs.drop used) with
      | needMore => simp [hpk] at h
      | ok pk => simp [hpk] at h
      | error d =>
        simp only [hpk] at h
        injection h with h; subst h
        cases d with
        | panic => exact absurd hpk (readPacket_np _ _ _)
        | code n => rfl

/-- the same for the first packet of a connection (`readConnectionPacket`) and the whole session -/
theorem C28_session_no_panic (cfg : Cfg) (bs : List Nat) :
    ∀ ev ∈ (readSession cfg bs).1, ev.isPanic = false := by
  unfold readSession
  cases hc : readConnection cfg bs with
  | needMore => intro ev h; simp at h; subst h; rfl
  | error e => intro ev h; simp at h; subst h; exact readConnection_np cfg bs e hc
  | connect pk rest =>
    intro ev h
    simp only [List.mem_cons] at h
    rcases h with rfl | h
    · rfl
    · exact C28_reader_no_panic cfg _ _ ev h

/-! ## the reader consumes a prefix, packet by packet -/

/-- **C28 (reader): progress and framing.** The events of the read loop are the `packet` events of a
    list of frames followed by exactly one final event (`needMore` or `error` — so nothing follows an
    error: the connection is closed); each frame is `[type/flags] ++ varint(remaining) ++ body` with
    `body.length = remaining`, decoding to the packet handed to the handler; and the stream is exactly
    the concatenation of the frames followed by the unconsumed tail (no overread, no byte skipped). -/
theorem C28_reader_progress (cfg : Cfg) (ver : Nat) (bs : List Nat) :
    ∃ (frames : List Frame) (last : ReadEvent),
      (readStream cfg ver bs).1 = frames.map (fun f => ReadEvent.packet f.pk) ++ [last] ∧
      last.isFinal = true ∧ (∀ f ∈ frames, f.Decodes ver) ∧
      bs = frames.flatMap Frame.bytes ++ (readStream cfg ver bs).2 :=
  readStreamFuel_frames cfg ver bs.length bs

/-- the loop always terminates: any fuel ≥ the stream length gives the same result (each packet
    consumes at least two bytes, `readFixedHeader_used`) -/
theorem C28_reader_terminates (cfg : Cfg) (ver : Nat) (fuel : Nat) (bs : List Nat) (h : bs.length ≤ fuel) :
    readStreamFuel cfg ver fuel bs = readStream cfg ver bs :=
  readStreamFuel_stable cfg ver fuel bs h

/-- non-vacuity: a PINGREQ, a v4 PUBLISH "a"/"hi" and a truncated SUBSCRIBE: two frames, then `needMore`
    with the three bytes of the incomplete packet left -/
example : (readStream {} 4 [0xC0, 0, 0x30, 5, 0, 1, 0x61, 0x68, 0x69, 0x82, 9, 0]).2 = [0x82, 9, 0] ∧
    ((readStream {} 4 [0xC0, 0, 0x30, 5, 0, 1, 0x61, 0x68, 0x69, 0x82, 9, 0]).1.map ReadEvent.isFinal) = [false, false, true] := by
  decide

/-- a malformed header ends the stream: nothing after `F3` is looked at -/
example : (readStream {} 4 [0xC0, 0, 0xF3, 0, 0xC0, 0]).1.map ReadEvent.isFinal = [false, true] ∧
    (readStream {} 4 [0xC0, 0, 0xF3, 0, 0xC0, 0]).2 = [0xF3, 0, 0xC0, 0] := by
  decide

/-! ## the maximum packet size -/

/-- the property's sentence, at full strength, for one packet at the head of the stream: header byte
    `hb`, length bytes `lenBytes` (a complete variable byte integer `n`), anything after: if the
    packet's TOTAL size `1 + lenBytes.length + n` exceeds a configured maximum, `ReadFixedHeader`
    answers `ErrPacketTooLarge`. -/
def SizeBeforeBody (max hb : Nat) (lenBytes rest : List Nat) : Prop :=
  ∀ fh n, fixedHeaderDecode hb = .ok fh → decodeLength lenBytes = .ok (n, lenBytes.length) →
    max > 0 → 1 + lenBytes.length + n > max →
    readFixedHeader max (hb :: (lenBytes ++ rest)) = .error .tooLarge

/-- **C28 (size), at full strength**: a packet whose TOTAL encoded size — header byte, length bytes and
    `remaining` — exceeds the configured maximum is refused by `ReadFixedHeader` with
    `ErrPacketTooLarge`, whatever follows the fixed header: the body bytes are not looked at, they need
    not even have arrived.  (`uint32(Remaining+bu+1)` cannot wrap: `Remaining ≤ 268435455`, `bu ≤ 4`.) -/
theorem C28_size_before_body (max hb : Nat) (lenBytes rest : List Nat) : SizeBeforeBody max hb lenBytes rest := by
  intro fh n hfh hlen hmax hbig
  have hb4 := (decodeLength_bytes lenBytes n _ hlen).2.1
  simp only [readFixedHeader, hfh, decodeLength_append lenBytes rest _ hlen]
  rw [toUint32_of_le n _ (decodeLength_le_max _ _ _ hlen) hb4]
  have hbig' : n + lenBytes.length + 1 > max := by omega
  simp [hmax, hbig']

/-- … and the read loop then ends with that error as its only event: no packet is delivered -/
theorem C28_size_refused_stream (cfg : Cfg) (ver hb : Nat) (lenBytes rest : List Nat) (fh : FixedHeader) (n : Nat)
    (hfh : fixedHeaderDecode hb = .ok fh) (hlen : decodeLength lenBytes = .ok (n, lenBytes.length))
    (hmax : cfg.maxPacketSize > 0) (hbig : 1 + lenBytes.length + n > cfg.maxPacketSize) :
    (readStream cfg ver (hb :: (lenBytes ++ rest))).1 = [.error .tooLarge] := by
  rw [readStream_step, C28_size_before_body _ hb lenBytes rest fh n hfh hlen hmax hbig]

/-- the converse, the exact bound: an accepted fixed header announces a packet whose whole size
    (`used` header bytes + `remaining`) is at most the configured maximum. -/
theorem C28_size_accepted_bound (max : Nat) (bs : List Nat) (fh : FixedHeader) (used : Nat)
    (h : readFixedHeader max bs = .ok fh used) (hmax : max > 0) :
    used + fh.remaining ≤ max := by
  obtain ⟨b, rest, fh0, n, bu, rfl, _, hd, rfl, rfl, hsz⟩ := readFixedHeader_ok max bs fh used h
  simp only []
  omega

/-- the former witness of F28: with `MaximumPacketSize = 4` the five-byte PUBLISH `30 03 00 01 61` (the old
    test compared `Remaining + 1 = 4` with the limit) is now refused, as an instance of the theorem … -/
example : readFixedHeader 4 (0x30 :: ([3] ++ [0, 1, 0x61])) = .error .tooLarge :=
  C28_size_before_body 4 0x30 [3] [0, 1, 0x61] { type := 3 } 3 rfl rfl (by decide) (by decide)

/-- … the read loop delivers nothing … -/
example : (readStream { maxPacketSize := 4 } 4 [0x30, 3, 0, 1, 0x61]).1 = [.error .tooLarge] := by
  decide

/-- … and non-vacuity of the bound: a packet of EXACTLY the limit (the same five bytes, limit 5) is accepted,
    read and handed to the handler -/
example : readFixedHeader 5 [0x30, 3, 0, 1, 0x61] = .ok { type := 3, remaining := 3 } 2 ∧
    (readStream { maxPacketSize := 5 } 4 [0x30, 3, 0, 1, 0x61]).1.map ReadEvent.isFinal = [false, true] := by
  decide

/-- padded length bytes count: remaining length 3 written in four bytes is an 8-byte packet — accepted with
    limit 8, refused with limit 7 (the unrepaired test accepted it with limit 4) -/
example : readFixedHeader 8 [0x30, 0x83, 0x80, 0x80, 0x00, 0, 1, 0x61] = .ok { type := 3, remaining := 3 } 5 ∧
    readFixedHeader 7 [0x30, 0x83, 0x80, 0x80, 0x00, 0, 1, 0x61] = .error .tooLarge := by
  decide

/-- refused before the body: limit 4, remaining length 4 is refused although no body byte follows -/
example : readFixedHeader 4 (0x30 :: ([4] ++ [])) = .error .tooLarge :=
  C28_size_before_body 4 0x30 [4] [] { type := 3 } 4 rfl rfl (by decide) (by decide)

/-- without a configured maximum nothing is refused for its size -/
example : readFixedHeader 0 [0x30, 0xFF, 0xFF, 0xFF, 0x7F] = .ok { type := 3, remaining := 268435455 } 5 := by
  decide

end Mochi.Reader

/-! ## the broker: served or closed, and isolation (M3 + `Model/Session.lean`) -/

namespace Mochi.Broker
open Mochi.Topics Mochi.Session Mochi.Reader

/-- **C28: served or closed** — one inbound packet on an open network connection `c` (client object `i`)
    leaves the connection open, or a `closed c` output is emitted: never a half-dead connection. -/
theorem C28_served_or_closed (s : Server) (c : Nat) (pk : InPk) (b : Bool) (i : Nat)
    (hc : assocGet s.connOf c = some i) (hconn : (getObj s i).conn = c) (hin : (getObj s i).inline = false)
    (hopen : (getObj s i).isOpen = true) :
    (getObj (recvOn s c pk b).1 i).isOpen = true ∨ Out.closed c ∈ (recvOn s c pk b).2 :=
  recvOn_served_or_closed' s c pk b i hc hconn hin hopen

/-- … and when the handler returns an error (`receivePacket`'s error path: refused packet, protocol
    violation, quota exceeded …) the connection IS closed -/
theorem C28_error_closes (s : Server) (c : Nat) (pk : InPk) (b : Bool) (i : Nat) (code : Nat)
    (hc : assocGet s.connOf c = some i) (hconn : (getObj s i).conn = c) (hin : (getObj s i).inline = false)
    (hopen : (getObj s i).isOpen = true) (hst : (getObj s i).stopped = false)
    (herr : (receivePacket s i pk).2.2 = some code) : Out.closed c ∈ (recvOn s c pk b).2 :=
  recvOn_error_closes s c pk b i code hc hconn hin hopen hst herr

/-- … and a served connection gets its required response: PINGREQ → PINGRESP (the other request types:
    `Props/C07.lean`, handler by handler) -/
theorem C28_served_ping (s : Server) (i : Nat) (hopen : (getObj s i).isOpen = true)
    (hpg : (getObj s i).peerGone = false) :
    ∃ rest, (receivePacket s i .pingreq).2.1 = .wrote (getObj s i).conn .pingresp :: rest :=
  C07_pingreq s i hopen hpg

/-- **C28: isolation** — one inbound packet on connection `c` (object `i`) does not create or remove a
    client object, does not touch the connection table, and leaves every OTHER client object `j`
    unchanged up to the five delivery fields: in particular its `isOpen`, `stopped`, `subs`, `will`, `id`,
    `ver`, receive quota and inbound aliases — whatever the packet is; and the Clients-map entry of every
    other client id stays what it was (so no packet on `c` can take over or expire another client's
    session; a CONNECT takeover is a different op, `connect`). -/
theorem C28_isolation (s : Server) (c : Nat) (pk : InPk) (b : Bool) (i j : Nat)
    (hc : assocGet s.connOf c = some i) (hij : j ≠ i) :
    SessEq (getObj s j) (getObj (recvOn s c pk b).1 j) ∧
    (recvOn s c pk b).1.objs.length = s.objs.length ∧
    (recvOn s c pk b).1.connOf = s.connOf ∧
    ((getObj s j).id ≠ (getObj s i).id →
      assocGet (recvOn s c pk b).1.clients (getObj s j).id = assocGet s.clients (getObj s j).id) :=
  ⟨recvOn_isolation s c pk b i j hc hij, recvOn_objs_length s c pk b, recvOn_connOf s c pk b,
   fun hid => recvOn_clients_other s c pk b i _ hc (Ne.symm hid)⟩

/-- the fields the property names, spelled out -/
theorem C28_isolation_fields (s : Server) (c : Nat) (pk : InPk) (b : Bool) (i j : Nat)
    (hc : assocGet s.connOf c = some i) (hij : j ≠ i) :
    let s' := (recvOn s c pk b).1
    (getObj s' j).isOpen = (getObj s j).isOpen ∧ (getObj s' j).stopped = (getObj s j).stopped ∧
    (getObj s' j).subs = (getObj s j).subs ∧ (getObj s' j).will = (getObj s j).will ∧
    (getObj s' j).id = (getObj s j).id ∧ (getObj s' j).conn = (getObj s j).conn ∧
    (getObj s' j).recvQuota = (getObj s j).recvQuota := by
  have h := recvOn_isolation s c pk b i j hc hij
  exact ⟨h.isOpen.symm, h.stopped.symm, h.subs.symm, h.will.symm, h.id.symm, h.conn.symm, h.recvQuota.symm⟩

/-- **C28, from bytes**: the same for a whole chunk of ARBITRARY BYTES arriving on connection `c` — read
    by the reader model at the client's protocol version, every decoded packet of every type (second
    CONNECT, AUTH and the server-only types included) handled as `receivePacket`/`processPacket` do, a
    read error ending the connection as `attachClient` does: every other client object is unchanged up
    to the delivery fields, no object appears or disappears, other ids keep their Clients-map entry. -/
theorem C28_stream_isolation (cfg : Cfg) (s : Server) (c : Nat) (bytes : List Nat) (i j : Nat)
    (hc : assocGet s.connOf c = some i) (hij : j ≠ i) :
    SessEq (getObj s j) (getObj (feed cfg s c bytes).1 j) ∧
    (feed cfg s c bytes).1.objs.length = s.objs.length ∧
    (feed cfg s c bytes).1.connOf = s.connOf ∧
    ((getObj s j).id ≠ (getObj s i).id →
      assocGet (feed cfg s c bytes).1.clients (getObj s j).id = assocGet s.clients (getObj s j).id) :=
  have h := feed_frame cfg s c bytes i hc
  ⟨h.other j hij, h.len, h.connOf, fun hid => h.clients _ hid⟩

/-- **C28, from bytes: served or closed** — after any chunk of bytes the connection is as open as it
    was, or `closed c` was emitted -/
theorem C28_stream_served_or_closed (cfg : Cfg) (s : Server) (c : Nat) (bytes : List Nat) (i : Nat)
    (hc : assocGet s.connOf c = some i) (hconn : (getObj s i).conn = c) (hin : (getObj s i).inline = false)
    (hopen : (getObj s i).isOpen = true) :
    (getObj (feed cfg s c bytes).1 i).isOpen = true ∨ Out.closed c ∈ (feed cfg s c bytes).2 := by
  rcases (feed_frame cfg s c bytes i hc).live_or_closed hin with ⟨h1, _⟩ | h
  · exact Or.inl (h1.trans hopen)
  · exact Or.inr (hconn ▸ h)

/-! non-vacuity: two MQTT 5 clients `a` (connection 1, object 1) and `b` (connection 2, object 2) -/

def twoClients : Server :=
  (connect (connect (init {}) 1 { ver := 5, id := [97] }).1 2 { ver := 5, id := [98] }).1

example : assocGet twoClients.connOf 1 = some 1 ∧ (getObj twoClients 1).conn = 1 ∧
    (getObj twoClients 1).inline = false ∧ (getObj twoClients 1).isOpen = true ∧
    (getObj twoClients 1).stopped = false ∧ (getObj twoClients 2).id ≠ (getObj twoClients 1).id := by
  decide

/-- the error path is inhabited: a PUBLISH with a wildcard topic name is refused (0x82) … -/
example : (receivePacket twoClients 1 (.publish 0 false false 0 [97, 47, 35] [120] 0 none)).2.2 = some 0x82 := by
  decide

/-- … and, from bytes: client `a` sends a CONNACK (`20 02 00 00`): its connection is closed, `b` stays open -/
example : Out.closed 1 ∈ (feed {} twoClients 1 [0x20, 2, 0, 0]).2 ∧
    (getObj (feed {} twoClients 1 [0x20, 2, 0, 0]).1 2).isOpen = true := by
  decide

/-- a served chunk: PINGREQ + SUBSCRIBE `x` from `a`: PINGRESP and SUBACK written, connection open -/
example : (feed {} twoClients 1 [0xC0, 0, 0x82, 7, 0, 1, 0, 0, 1, 120, 0]).2 =
    [.wrote 1 .pingresp, .wrote 1 (.suback 5 1 [0])] ∧
    (getObj (feed {} twoClients 1 [0xC0, 0, 0x82, 7, 0, 1, 0, 0, 1, 120, 0]).1 1).isOpen = true := by
  decide

end Mochi.Broker
