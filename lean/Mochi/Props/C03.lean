import Mochi.Model.Broker
import Mochi.Lemmas.Gather
import Mochi.Lemmas.BrokerDelivery
import Mochi.Lemmas.BrokerPublishOp
import Mochi.Lemmas.BrokerQosDelivery
/-!
# C03 — Every published message reaches exactly the entitled subscribers, once each

Proved over the model:
* (any index, topic, selection of shared members) the subscriber map `publishToSubscribers` iterates has **one entry
  per client id** — after gathering over any number of overlapping subscriptions and after merging the selected shared
  subscriptions — and each entry makes at most one write; the two gates of `publishToClient` (No Local, read permission);
* **the delivery theorem** (second half of this file; lemmas in `Mochi/Lemmas/BrokerDelivery.lean`): for a message that
  is QoS 0 after shaping and whose topic no shared subscription matches, the connections written a PUBLISH are exactly
  the entitled ones, each at most once — at state level (`publishToSubscribers_writes_exact`), with the subscriber map
  replaced by the declarative matcher over the index entries (`C03_delivery_exact_state_partial`), and in every state
  reached by ops without schedule ops and configuration changes (`C03_delivery_exact_reach_partial`,
  `C03_delivery_exact_seq_partial`), where "holds a matching entry" is also read off the session.
The statement is made with the model's merge of No Local (`EntitledF03`); C03 as stated (`C03_delivery_full`, with
`EntitledSpec`) is FALSE of the model and of the broker — `C03_delivery_full_false_F03`, recorded finding F03:
`Subscription.Merge` ORs No Local, so a client holding a No Local and a plain subscription that both match its own
publish gets nothing.  Outside that situation both notions agree (`C03_delivery_exact_reach_spec_partial`), and
soundness needs no proviso (`C03_delivery_sound_reach_partial`).
* **from the op to the recipients** (last part of this file; lemmas in `Mochi/Lemmas/BrokerPublishOp.lean`): the op a
  client performs — `step s (.recv conn (.publish 0 …))`, i.e. `recvOn` → `receivePacket` → `publishValidate` →
  `processPublish` (topic validity, receive quota, write ACL, in-flight bookkeeping, hook mode, retain) →
  `publishToSubscribers` → `nextImmediate` → barrier PINGREQ — and `step s (.inlinePublish …)`: for an ACCEPTED
  publish (`AcceptedQ0` / `AcceptedInline`, decidable hypotheses on the state before the op) the whole op IS that one
  call (`step_recv_publish_accepted`, `step_inlinePublish_accepted`), so it writes a PUBLISH to exactly the entitled
  connections, entitlement read in the state before the op (`recv_publish_delivery_exact`,
  `inline_publish_delivery_exact`, `C03_publish_op_exact_reach_partial`, `C03_publish_op_exact_seq_partial`); without
  the hypothesis that the publisher holds no deferred message the op writes, after these deliveries, at most two
  releases of the publisher's own deferred messages to the publisher (`recv_publish_delivery_exact_releases`).
Excluded (partial): shared subscriptions matching the topic, deliveries of QoS > 0 (in-flight limit, packet ids, send
quota), the topic bytes under topic aliases, schedule ops (concurrent handlers); for the op theorems also: an
inbound topic alias, a publish-hook mode for the topic, an in-flight record under the packet id, a publisher that
itself holds a deferred message (the op would then also release one to the publisher: `nextImmediate`).
End to end the correspondence oracle checks the same on every run.
-/
namespace Mochi.Broker
open Mochi.Topics

theorem nodup_assocSet {β} (m : List (Str × β)) (k : Str) (v : β) (h : (m.map Prod.fst).Nodup) :
    ((assocSet m k v).map Prod.fst).Nodup := by
  induction m with
  | nil => simp [assocSet]
  | cons x xs ih =>
    obtain ⟨a, b⟩ := x
    simp only [List.map_cons, List.nodup_cons] at h
    unfold assocSet
    by_cases hx : a = k
    · subst hx; simp [h.1, h.2]
    · simp only [hx, if_false, List.map_cons, List.nodup_cons]
      refine ⟨?_, ih h.2⟩
      intro hm
      rw [mem_keys_assocSet] at hm
      rcases hm with hm | hm
      · exact hx hm
      · exact h.1 hm

theorem nodup_gatherSubOne (topic : Str) (m : List (Str × Sub)) (e : Str × Sub) (h : (m.map Prod.fst).Nodup) :
    ((gatherSubOne topic m e).map Prod.fst).Nodup := by
  unfold gatherSubOne
  split
  · exact h
  · split <;> exact nodup_assocSet _ _ _ h

theorem nodup_gatherStep (ns : List Node) (topic : Str) (acc : Subscribers) (g : Gather)
    (h : (acc.subs.map Prod.fst).Nodup) : ((gatherStep ns topic acc g).subs.map Prod.fst).Nodup := by
  cases g with
  | subs p =>
    simp only [gatherStep]
    split
    · exact h
    · rename_i n _
      simp only []
      generalize n.subs = es
      induction es generalizing acc with
      | nil => simpa using h
      | cons e rest ih =>
        simp only [List.foldl_cons]
        exact ih { acc with subs := gatherSubOne topic acc.subs e } (nodup_gatherSubOne topic acc.subs e h)
  | shared p => simp only [gatherStep]; (repeat' split) <;> exact h
  | inline p => simp only [gatherStep]; (repeat' split) <;> exact h

/-- the gathered subscriber map has one entry per client, however many of its subscriptions match -/
theorem C03_one_entry_per_client (x : Index) (topic : Str) : ((subscribers x topic).subs.map Prod.fst).Nodup := by
  unfold subscribers
  split
  · simp
  · generalize scanVisits x.nodes [] (splitLevels topic) = L
    suffices ∀ acc : Subscribers, (acc.subs.map Prod.fst).Nodup → ((L.foldl (gatherStep x.nodes topic) acc).subs.map Prod.fst).Nodup from
      this {} (by simp)
    induction L with
    | nil => intro acc h; simpa using h
    | cons g rest ih => intro acc h; exact ih _ (nodup_gatherStep x.nodes topic acc g h)

/-- merging the selected shared subscriptions keeps one entry per client -/
theorem C03_merge_one_entry (subs sel : List (Str × Sub)) (h : (subs.map Prod.fst).Nodup) :
    ((mergeSharedSelected subs sel).map Prod.fst).Nodup := by
  unfold mergeSharedSelected
  induction sel generalizing subs with
  | nil => simpa using h
  | cons e rest ih =>
    simp only [List.foldl_cons]
    apply ih
    split <;> exact nodup_assocSet _ _ _ h

/-- one delivery call writes at most one packet -/
theorem C03_write_at_most_one (s : Server) (i : Nat) (m : Msg) : (writeMsg s i m).length ≤ 1 := by
  unfold writeMsg
  simp only []
  split
  · simp
  · split <;> simp

/-- No Local: the publisher's own message is not delivered through a No Local subscription -/
theorem C03_no_local (s : Server) (i : Nat) (sub : Sub) (fwd : Bool) (pk : Msg)
    (hnl : sub.noLocal = true) (ho : pk.origin = (getObj s i).id) : publishToClient s i sub fwd pk = (s, []) := by
  unfold publishToClient; simp [hnl, ho]

/-- F03 (recorded): merging ORs No Local -/
theorem C03_merge_nolocal_counterexample :
    (({ filter := [97, 47, 35], noLocal := true } : Sub).merge { filter := [97, 47, 98] }).noLocal = true ∧
    (({ filter := [97, 47, 98] } : Sub).merge { filter := [97, 47, 35], noLocal := true }).noLocal = true := by decide

/-- F06d (fixed in `TopicsIndex.Unsubscribe`): a shared filter without a topic part (`$share`, `$share/group`)
    names no subscription — `Unsubscribe` leaves the index alone and reports that nothing existed (before the fix it
    sought the particle named like the group and deleted the member entry of `$share/<group>/<group>`) -/
theorem C03_unsubscribe_share_without_topic_is_noop (x : Index) (filter client : Str)
    (hs : isShare (isolate (splitLevels filter) 0).1 = true) (hn : (isolate (splitLevels filter) 1).2 = false) :
    unsubscribe x filter client = (x, false) := by
  unfold unsubscribe
  simp only [hs, hn, Bool.not_false, Bool.and_self, if_true]

/-- non-vacuity: client `x` holds `$share/g/g`; `Unsubscribe("$share/g", "x")` reports `false` and the index still
    holds the entry (same particles, same member of group `g`) -/
example :
    let t := (subscribe {} [120] { filter := [36, 115, 104, 97, 114, 101, 47, 103, 47, 103] }).1
    (unsubscribe t [36, 115, 104, 97, 114, 101, 47, 103] [120]).2 = false ∧
    (unsubscribe t [36, 115, 104, 97, 114, 101, 47, 103] [120]).1.nodes = t.nodes ∧
    (unsubscribe t [36, 115, 104, 97, 114, 101, 47, 103] [120]).1.retained = t.retained ∧
    t.nodes.map (fun n => (n.path, n.shared.map (fun g => (g.1, g.2.map (·.1))))) = [([[103]], [([103], [[120]])])] ∧
    -- the full filter does remove it
    (unsubscribe t [36, 115, 104, 97, 114, 101, 47, 103, 47, 103] [120]).2 = true ∧
    (unsubscribe t [36, 115, 104, 97, 114, 101, 47, 103, 47, 103] [120]).1.nodes = [] := by decide

/-! ## Exactly the entitled connections are written a publish (state level)

`EntitledVia s pk subs n`, `IsCopy`, `pubConn`, `ConnDistinct`: `Mochi/Lemmas/BrokerDelivery.lean`. -/

/-- **Step 1.**  For a state `s` with the tables well-formed (`WF`, kept by every history) and one connection per
    client object (`ConnDistinct`), an application message `pk` (PUBLISH, not marked "ignore" by the publish hook) that
    is QoS 0 after shaping (its QoS is 0, or that of every entry of the subscriber map is) and no shared subscription
    matching its topic:

    * a PUBLISH is written to connection `n` **iff** `n` is the connection of a client object registered under its
      id that is open, not inline, whose peer is not gone, that has an entry in the subscriber map
      `(subscribers s.topics pk.topic).subs`, may read the topic, and whose MERGED subscription does not exclude it
      by No Local (`EntitledVia`; the merge ORs No Local over all matching subscriptions of the client: F03);
    * connection `n` is written **at most one** PUBLISH;
    * every output is an inline delivery or a copy of the message (payload, QoS 0, origin; the topic bytes may be
      replaced by a topic alias). -/
theorem publishToSubscribers_writes_exact (s : Server) (hw : WF s) (hcd : ConnDistinct s) (pk : Msg)
    (hig : pk.ignore = false) (ht : pk.type = 3)
    (hq : pk.qos = 0 ∨ ∀ cs ∈ (subscribers s.topics pk.topic).subs, cs.2.qos = 0)
    (hsh : (subscribers s.topics pk.topic).shared = []) (n : Nat) :
    ((∃ ver m me, Out.wrote n (.publish ver m me) ∈ (publishToSubscribers s pk).2) ↔
      EntitledVia s pk (subscribers s.topics pk.topic).subs n) ∧
    ((publishToSubscribers s pk).2.filterMap pubConn).count n ≤ 1 ∧
    ∀ x ∈ (publishToSubscribers s pk).2, (∃ id, x = Out.inline id pk.topic pk.payload) ∨ IsCopy pk x := by
  obtain ⟨h1, h2⟩ := publishToSubscribers_pubConns s pk (fun id i h => (hw.clients_valid id i h).1) hig ht hq hsh
  refine ⟨?_, ?_, h2⟩
  · rw [← mem_pubConns, h1]
    exact mem_recipients s hw pk _ n
  · rw [h1]
    exact List.nodup_iff_count.mp
      (recipients_nodup s hw hcd pk _ (C03_one_entry_per_client s.topics pk.topic)) n

/-! ## … lifted to the declarative matcher (state level)

`EntitledF03`, `EntitledSpec`, `MixedNoLocal`, `MatchingSub`: `Mochi/Lemmas/BrokerDelivery.lean`. -/

/-- **Step 2.**  "has an entry in the subscriber map" becomes "the index holds a plain subscription of the client
    whose filter `specMatch`es the topic" (C01's scan exactness, re-proved for every structurally sound index
    `IdxOK` — `hasSub_subscribers_idx`), and the No Local option of the merged subscription becomes "SOME matching
    subscription of the client has No Local" (F03): `EntitledF03`.  Topic: non-empty, no level `#` (PUBLISH topics
    contain no wildcard: `publishValidate`). -/
theorem C03_delivery_exact_state_partial (s : Server) (hw : WF s) (hcd : ConnDistinct s) (hx : IdxOK s.topics)
    (pk : Msg) (hig : pk.ignore = false) (ht : pk.type = 3)
    (hq : pk.qos = 0 ∨ ∀ cs ∈ (subscribers s.topics pk.topic).subs, cs.2.qos = 0) (hne : pk.topic ≠ [])
    (hnh : ∀ t ∈ splitLevels pk.topic, t ≠ [hash]) (hsh : (subscribers s.topics pk.topic).shared = []) (n : Nat) :
    ((∃ ver m me, Out.wrote n (.publish ver m me) ∈ (publishToSubscribers s pk).2) ↔ EntitledF03 s pk n) ∧
    ((publishToSubscribers s pk).2.filterMap pubConn).count n ≤ 1 ∧
    ∀ x ∈ (publishToSubscribers s pk).2, (∃ id, x = Out.inline id pk.topic pk.payload) ∨ IsCopy pk x := by
  obtain ⟨h1, h2, h3⟩ := publishToSubscribers_writes_exact s hw hcd pk hig ht hq hsh n
  exact ⟨h1.trans (entitledVia_iff_F03 s hx pk hne hnh (C03_one_entry_per_client s.topics pk.topic) n), h2, h3⟩

/-- the same with the hypothesis of C01: the index is the result of a history of index operations -/
theorem C03_delivery_exact_runOps_partial (s : Server) (hw : WF s) (hcd : ConnDistinct s) (iops : List IOp)
    (hx : s.topics = runOps iops)
    (pk : Msg) (hig : pk.ignore = false) (ht : pk.type = 3)
    (hq : pk.qos = 0 ∨ ∀ cs ∈ (subscribers s.topics pk.topic).subs, cs.2.qos = 0) (hne : pk.topic ≠ [])
    (hnh : ∀ t ∈ splitLevels pk.topic, t ≠ [hash]) (hsh : (subscribers s.topics pk.topic).shared = []) (n : Nat) :
    ((∃ ver m me, Out.wrote n (.publish ver m me) ∈ (publishToSubscribers s pk).2) ↔ EntitledF03 s pk n) ∧
    ((publishToSubscribers s pk).2.filterMap pubConn).count n ≤ 1 :=
  let h := C03_delivery_exact_state_partial s hw hcd (hx ▸ idxOK_runOps iops) pk hig ht hq hne hnh hsh n
  ⟨h.1, h.2.1⟩

/-! ## … in every history without schedule ops

`SeqOps`: connects, inbound packets (SUBSCRIBE, UNSUBSCRIBE, PUBLISH, acks, DISCONNECT), dropped connections,
housekeeping ticks and the inline API — everything except the four schedule ops that park a handler. -/

/-- **C03 as stated** (kept visible; NOT proved — it is false of the model, see `C03_delivery_full_false_F03`):
    in any history, for every application message, a PUBLISH carrying it is written to connection `n` exactly when
    `n` is a connected client holding at least one matching subscription that it may read and whose No Local option
    does not exclude it (`EntitledSpec`), and at most once. -/
def C03_delivery_full : Prop :=
  ∀ (caps : Caps) (ops : List Op), OpsFresh (init caps) ops →
    ∀ (pk : Msg) (n : Nat), pk.type = 3 → pk.ignore = false →
      ((∃ ver m me, Out.wrote n (.publish ver m me) ∈ (publishToSubscribers (run (init caps) ops) pk).2) ↔
        EntitledSpec (run (init caps) ops) pk n) ∧
      ((publishToSubscribers (run (init caps) ops) pk).2.filterMap pubConn).count n ≤ 1

/-- **Step 3, on the invariants.**  The statement of steps 1/2 in every state that satisfies the three all-history
    invariants `SyncInv` (index and sessions agree), `WF` (the tables are maps), `ConnMap` (one connection per
    client object), plus the session reading of "holds a matching entry". -/
theorem C03_delivery_exact_inv_partial (s : Server) (hs : SyncInv s) (hw : WF s) (hcm : ConnMap s)
    (pk : Msg) (hig : pk.ignore = false) (ht : pk.type = 3)
    (hq : pk.qos = 0 ∨ ∀ c sub, MatchingSub s.topics pk.topic c sub → sub.qos = 0)
    (hne : pk.topic ≠ []) (hnh : ∀ t ∈ splitLevels pk.topic, t ≠ [hash])
    (hsh : (subscribers s.topics pk.topic).shared = []) (n : Nat) :
    ((∃ ver m me, Out.wrote n (.publish ver m me) ∈ (publishToSubscribers s pk).2) ↔ EntitledF03 s pk n) ∧
    (EntitledF03 s pk n ↔ EntitledSession s pk n) ∧
    ((publishToSubscribers s pk).2.filterMap pubConn).count n ≤ 1 ∧
    ∀ x ∈ (publishToSubscribers s pk).2, (∃ id, x = Out.inline id pk.topic pk.payload) ∨ IsCopy pk x := by
  have hq' := hq.imp id (merged_qos_zero s.topics hs.idx pk.topic hne hnh (C03_one_entry_per_client s.topics pk.topic))
  obtain ⟨h1, h2, h3⟩ := C03_delivery_exact_state_partial s hw hcm.distinct hs.idx pk hig ht hq' hne hnh hsh n
  exact ⟨h1, entitledF03_iff_session hs hw pk n, h2, h3⟩

/-- **Step 3 — `C03_delivery_exact_seq`, restricted (hence `_partial`).**  For every state `s` reached from
    `init caps` by ops that are not schedule ops (connection numbers fresh), interleaved with configuration changes
    (ACL denials, publish hook, authentication mode, seeds: `ReachSeq`), and every application message `pk` that is
    QoS 0 after shaping and whose topic no shared subscription of the index matches:

    1. a PUBLISH is written to connection `n` **iff** `EntitledF03 s pk n` — `n` is the connection of a client
       object registered under its id, open, not inline, peer not gone; the index holds a plain subscription of that
       id whose filter `specMatch`es the topic; the id may read the topic; and it is not the case that the id is the
       publisher and some matching subscription of it has No Local (the merge of F03);
    2. "the index holds a matching plain subscription of the id" is equivalent to "the registered session lists a
       plain filter that `specMatch`es the topic" (`EntitledSession`; `IndexSync` and `IndexSyncPlain`);
    3. connection `n` is written at most one PUBLISH;
    4. every output is an inline delivery or a copy of the message (payload, QoS 0, origin).

    Excluded: shared subscriptions matching the topic (`hsh`), deliveries of QoS > 0 (in-flight limit, packet
    identifiers, send quota — `hq`: the message is QoS 0, or every matching subscription of the index is), topic
    aliases as far as the topic BYTES of the copy go (conclusion 4 does not mention them), schedule ops (`ReachSeq`),
    and the No Local merge (1. states what the model does, not what C03 asks: F03). -/
theorem C03_delivery_exact_reach_partial (caps : Caps) (s : Server) (hr : ReachSeq caps s)
    (pk : Msg) (hig : pk.ignore = false) (ht : pk.type = 3)
    (hq : pk.qos = 0 ∨ ∀ c sub, MatchingSub s.topics pk.topic c sub → sub.qos = 0)
    (hne : pk.topic ≠ []) (hnh : ∀ t ∈ splitLevels pk.topic, t ≠ [hash])
    (hsh : (subscribers s.topics pk.topic).shared = []) (n : Nat) :
    ((∃ ver m me, Out.wrote n (.publish ver m me) ∈ (publishToSubscribers s pk).2) ↔ EntitledF03 s pk n) ∧
    (EntitledF03 s pk n ↔ EntitledSession s pk n) ∧
    ((publishToSubscribers s pk).2.filterMap pubConn).count n ≤ 1 ∧
    ∀ x ∈ (publishToSubscribers s pk).2, (∃ id, x = Out.inline id pk.topic pk.payload) ∨ IsCopy pk x :=
  C03_delivery_exact_inv_partial s hr.inv.1 hr.inv.2.1 hr.inv.2.2.1 pk hig ht hq hne hnh hsh n

/-- the same for `s := run (init caps) ops`, `ops` a history without schedule ops (no configuration change: no
    ACL denial is ever in force in such a state — use `C03_delivery_exact_reach_partial` for those) -/
theorem C03_delivery_exact_seq_partial (caps : Caps) (ops : List Op) (hseq : SeqOps ops)
    (hf : OpsFresh (init caps) ops) (pk : Msg) (hig : pk.ignore = false) (ht : pk.type = 3)
    (hq : pk.qos = 0 ∨ ∀ c sub, MatchingSub (run (init caps) ops).topics pk.topic c sub → sub.qos = 0)
    (hne : pk.topic ≠ []) (hnh : ∀ t ∈ splitLevels pk.topic, t ≠ [hash])
    (hsh : (subscribers (run (init caps) ops).topics pk.topic).shared = []) (n : Nat) :
    ((∃ ver m me, Out.wrote n (.publish ver m me) ∈ (publishToSubscribers (run (init caps) ops) pk).2) ↔
      EntitledF03 (run (init caps) ops) pk n) ∧
    (EntitledF03 (run (init caps) ops) pk n ↔ EntitledSession (run (init caps) ops) pk n) ∧
    ((publishToSubscribers (run (init caps) ops) pk).2.filterMap pubConn).count n ≤ 1 ∧
    ∀ x ∈ (publishToSubscribers (run (init caps) ops) pk).2,
      (∃ id, x = Out.inline id pk.topic pk.payload) ∨ IsCopy pk x :=
  C03_delivery_exact_reach_partial caps _ (ReachSeq.init.run ops hseq hf) pk hig ht hq hne hnh hsh n

/-- outside the F03 situation (the publisher holds a matching subscription with No Local AND a matching one without)
    the recipients are exactly those C03 names -/
theorem C03_delivery_exact_reach_spec_partial (caps : Caps) (s : Server) (hr : ReachSeq caps s)
    (pk : Msg) (hig : pk.ignore = false) (ht : pk.type = 3)
    (hq : pk.qos = 0 ∨ ∀ c sub, MatchingSub s.topics pk.topic c sub → sub.qos = 0)
    (hne : pk.topic ≠ []) (hnh : ∀ t ∈ splitLevels pk.topic, t ≠ [hash])
    (hsh : (subscribers s.topics pk.topic).shared = []) (hmix : ¬ MixedNoLocal s pk) (n : Nat) :
    ((∃ ver m me, Out.wrote n (.publish ver m me) ∈ (publishToSubscribers s pk).2) ↔ EntitledSpec s pk n) ∧
    ((publishToSubscribers s pk).2.filterMap pubConn).count n ≤ 1 := by
  obtain ⟨h1, _, h3, _⟩ := C03_delivery_exact_reach_partial caps s hr pk hig ht hq hne hnh hsh n
  exact ⟨h1.trans (entitledF03_iff_spec hmix n), h3⟩

/-- soundness holds without the F03 proviso: whoever is written the message is entitled in the sense of C03 -/
theorem C03_delivery_sound_reach_partial (caps : Caps) (s : Server) (hr : ReachSeq caps s)
    (pk : Msg) (hig : pk.ignore = false) (ht : pk.type = 3)
    (hq : pk.qos = 0 ∨ ∀ c sub, MatchingSub s.topics pk.topic c sub → sub.qos = 0)
    (hne : pk.topic ≠ []) (hnh : ∀ t ∈ splitLevels pk.topic, t ≠ [hash])
    (hsh : (subscribers s.topics pk.topic).shared = []) (n : Nat)
    (h : ∃ ver m me, Out.wrote n (.publish ver m me) ∈ (publishToSubscribers s pk).2) : EntitledSpec s pk n :=
  ((C03_delivery_exact_reach_partial caps s hr pk hig ht hq hne hnh hsh n).1.mp h).spec

/-! ## Non-vacuity

Three kinds of subscriber (an MQTT 3.1.1 client, MQTT 5 clients, an inline subscriber), overlapping plain
subscriptions (`a/#`, `a/+`, `a/b`), a No Local subscription of the publisher, a read-ACL denial, a closed session. -/

/-- `x` (MQTT 3.1.1, connection 1): `a/#`.  `y` (MQTT 5, connection 2): `a/+` and `a/b` — two matches, one copy.
    Inline subscriber 7: `a/b`.  `p` (connection 3, the publisher): `a/b` with No Local.  `z` (connection 4): `a/#`, but
    denied to read `a/b` (configured below).  `w` (connection 5, session expiry 100): `a/b`, then its connection is
    lost — the session stays, closed. -/
def c03History : List Op :=
  [.connect 1 { ver := 4, id := [120] },
   .recv 1 (.subscribe 1 0 [{ filter := [97, 47, 35] }]),
   .connect 2 { ver := 5, id := [121] },
   .recv 2 (.subscribe 1 0 [{ filter := [97, 47, 43] }, { filter := [97, 47, 98] }]),
   .inlineSubscribe 7 [97, 47, 98],
   .connect 3 { ver := 5, id := [112] },
   .recv 3 (.subscribe 1 0 [{ filter := [97, 47, 98], noLocal := true }]),
   .connect 4 { ver := 5, id := [122] },
   .recv 4 (.subscribe 1 0 [{ filter := [97, 47, 35] }]),
   .connect 5 { ver := 5, id := [119], clean := false, sei := some 100 },
   .recv 5 (.subscribe 1 0 [{ filter := [97, 47, 98] }]),
   .drop 5]

/-- the state after the history, with the read denial `(z, a/b)` configured (`bk.acl` of the harness) -/
def c03State : Server := { run (init {}) c03History with aclDeny := [([122], [97, 47, 98], false)] }

/-- `p` publishes `a/b`, QoS 0 -/
def c03Msg : Msg := { topic := [97, 47, 98], payload := [1], origin := [112] }

theorem c03State_reach : ReachSeq {} c03State :=
  (ReachSeq.init.run c03History (by decide) (by decide)).config ⟨rfl, rfl, rfl, rfl, rfl, rfl, rfl, rfl⟩

/-- the hypotheses of `C03_delivery_exact_reach_partial` hold … -/
example : c03Msg.ignore = false ∧ c03Msg.type = 3 ∧ c03Msg.qos = 0 ∧ c03Msg.topic ≠ [] ∧
    (∀ t ∈ splitLevels c03Msg.topic, t ≠ [hash]) ∧ (subscribers c03State.topics c03Msg.topic).shared = [] := by decide
/-- … all six sessions are registered, five entries of the subscriber map (one per client id, `y` once) … -/
example : c03State.clients.map (·.1) = [inlineID, [120], [121], [112], [122], [119]] := by decide
example : (subscribers c03State.topics c03Msg.topic).subs.map (·.1) = [[121], [112], [119], [120], [122]] := by decide
/-- … and the publish reaches exactly connections 2 and 1, each once, and the inline subscriber: three outputs -/
example : (publishToSubscribers c03State c03Msg).2.filterMap pubConn = [2, 1] := by decide
example : (publishToSubscribers c03State c03Msg).2.length = 3 ∧
    Out.inline 7 [97, 47, 98] [1] ∈ (publishToSubscribers c03State c03Msg).2 := by decide

/-- a QoS 1 message is covered too: every matching subscription is QoS 0 -/
example : (∀ cs ∈ (subscribers c03State.topics c03Msg.topic).subs, cs.2.qos = 0) ∧
    (publishToSubscribers c03State { c03Msg with qos := 1, id := 9 }).2.filterMap pubConn = [2, 1] := by decide

/-- the theorem, instantiated: `x` and `y` are entitled (read off the outputs), the publisher (No Local), `z` (read
    denial) and `w` (closed) are not -/
example : EntitledF03 c03State c03Msg 1 ∧ EntitledF03 c03State c03Msg 2 ∧ ¬ EntitledF03 c03State c03Msg 3 ∧
    ¬ EntitledF03 c03State c03Msg 4 ∧ ¬ EntitledF03 c03State c03Msg 5 := by
  have h := fun n => (C03_delivery_exact_reach_partial {} c03State c03State_reach c03Msg rfl rfl (Or.inl rfl) (by decide)
    (by decide) (by decide) n).1
  have ho : (publishToSubscribers c03State c03Msg).2.filterMap pubConn = [2, 1] := by decide
  refine ⟨(h 1).mp (mem_pubConns.mp (by rw [ho]; decide)), (h 2).mp (mem_pubConns.mp (by rw [ho]; decide)), ?_, ?_, ?_⟩ <;>
  · intro e
    have := mem_pubConns.mpr ((h _).mpr e)
    rw [ho] at this
    revert this
    decide

/-- F03, as a history: `p` holds `a/#` with No Local and `a/b` without; it publishes `a/b` -/
def f03History : List Op :=
  [.connect 1 { ver := 5, id := [112] },
   .recv 1 (.subscribe 1 0 [{ filter := [97, 47, 35], noLocal := true }]),
   .recv 1 (.subscribe 2 0 [{ filter := [97, 47, 98] }])]

/-- `p` is entitled in the sense of C03 (through `a/b`), and is written nothing: **C03 as stated is false of the model
    (and of the broker: recorded finding F03)** -/
theorem C03_delivery_full_false_F03 : ¬ C03_delivery_full := by
  intro h
  have h1 := (h {} f03History (by decide) { topic := [97, 47, 98], payload := [1], origin := [112] } 1 rfl rfl).1
  have hs : EntitledSpec (run (init {}) f03History) { topic := [97, 47, 98], payload := [1], origin := [112] } 1 :=
    ⟨[112], 1, by decide, by decide, by decide, by decide, by decide, by decide, { filter := [97, 47, 98] },
      ⟨by decide, by decide⟩, by decide⟩
  obtain ⟨ver, m, me, hm⟩ := h1.mpr hs
  have ho : (publishToSubscribers (run (init {}) f03History)
      { topic := [97, 47, 98], payload := [1], origin := [112] }).2 = [] := by decide
  rw [ho] at hm
  cases hm

/-- … while the restricted theorem applies to that very state and says so: the F03 situation is present, `p` is not
    entitled in the model's sense -/
example : MixedNoLocal (run (init {}) f03History) { topic := [97, 47, 98], payload := [1], origin := [112] } :=
  ⟨{ filter := [97, 47, 35], noLocal := true }, { filter := [97, 47, 98] }, ⟨by decide, by decide⟩, rfl,
    ⟨by decide, by decide⟩, rfl⟩

/-! ## From the OPERATION to the recipients

The theorems above speak about the call `publishToSubscribers s pk`.  The ones below speak about the op a client
performs: `step s (.recv conn (.publish …))` (`recvOn` → `receivePacket` → `publishValidate` → `processPublish`
→ … → `publishToSubscribers`, then `nextImmediate` and the barrier PINGREQ) and `step s (.inlinePublish …)`.
Lemmas: `Mochi/Lemmas/BrokerPublishOp.lean` (`processPublish_accepted_shape`, `step_recv_publish_accepted`). -/

/-- **Item 2 — from the op to the recipients.**  `s`: any state satisfying the three all-history invariants
    (`SyncInv`, `WF`, `ConnMap`: every `ReachSeq` state does).  The op: client object `i`, on connection `conn`, sends
    `PUBLISH(QoS 0, dup, retain, topic, payload, message expiry me)`, no topic alias, and the publish is accepted
    (`AcceptedQ0`: connection alive, topic valid, receive quota, write permission, no in-flight record under id 0, no
    publish-hook mode for the topic, the publisher has no deferred message).  No shared subscription of the index
    matches the topic.  Then, with `pk = inboundMsg …` (origin = the publisher's client id) and `out` = everything
    the op writes:

    1. connection `n` is written a PUBLISH by the op **iff** `EntitledF03 s pk n` — entitlement in the state BEFORE
       the op (retaining does not change it);
    2. … iff the registered session lists a matching plain filter (`EntitledSession`);
    3. connection `n` is written at most one PUBLISH;
    4. every output of the op is an inline delivery of `(topic, payload)` or a copy of the message (PUBLISH, type 3,
       the payload, QoS 0, the publisher's id as origin, dup 0, packet id 0) — nothing else: no ack, no release of a
       deferred message, no PINGRESP in the projection, no `closed`. -/
theorem recv_publish_delivery_exact (s : Server) (hs : SyncInv s) (hw : WF s) (hcm : ConnMap s)
    (conn i : Nat) (dup retain : Bool) (topic payload : Str) (me : Nat)
    (hc : assocGet s.connOf conn = some i) (h : AcceptedQ0 s i topic)
    (hsh : (subscribers s.topics topic).shared = []) (n : Nat) :
    ((∃ ver m mes, Out.wrote n (.publish ver m mes) ∈
        (step s (.recv conn (.publish 0 dup retain 0 topic payload me none))).2) ↔
      EntitledF03 s (inboundMsg s i 0 dup retain 0 topic payload me) n) ∧
    (EntitledF03 s (inboundMsg s i 0 dup retain 0 topic payload me) n ↔
      EntitledSession s (inboundMsg s i 0 dup retain 0 topic payload me) n) ∧
    ((step s (.recv conn (.publish 0 dup retain 0 topic payload me none))).2.filterMap pubConn).count n ≤ 1 ∧
    ∀ x ∈ (step s (.recv conn (.publish 0 dup retain 0 topic payload me none))).2,
      (∃ id, x = Out.inline id topic payload) ∨ IsCopy (inboundMsg s i 0 dup retain 0 topic payload me) x := by
  have hnh := no_hash_level topic h.valid
  have hsh' := (retainedState_shared s (inboundMsg s i 0 dup retain 0 topic payload me) hs.idx topic h.nonempty hnh).mpr hsh
  obtain ⟨is, iw, ic⟩ := retainedState_inv (inboundMsg s i 0 dup retain 0 topic payload me) hs hw hcm
  rw [step_recv_publish_accepted s conn i dup retain topic payload me hc h hsh']
  obtain ⟨h1, h2, h3, h4⟩ := C03_delivery_exact_inv_partial _ is iw ic (inboundMsg s i 0 dup retain 0 topic payload me)
    rfl rfl (Or.inl rfl) h.nonempty hnh hsh' n
  rw [entitledF03_retainedState] at h1 h2
  rw [entitledSession_retainedState] at h2
  exact ⟨h1, h2, h3, h4⟩

/-- **Item 3 — the inline API.**  `step s (.inlinePublish topic payload retain qos)` (`Server.Publish`): the inline
    client (object 0) passes the topic-validity and write-ACL gates unexamined; `AcceptedInline` asks for what still
    applies (no wildcard, non-empty topic, its receive quota, no publish-hook mode, no deferred message of its own).
    The message must be QoS 0 after shaping: `qos = 0`, or every matching plain subscription of the index is QoS 0.
    Conclusions as in `recv_publish_delivery_exact`, for `inlineMsg …` (origin = the inline client's id). -/
theorem inline_publish_delivery_exact (s : Server) (hs : SyncInv s) (hw : WF s) (hcm : ConnMap s)
    (topic payload : Str) (retain : Bool) (qos : Nat) (h : AcceptedInline s topic)
    (hq : qos = 0 ∨ ∀ c sub, MatchingSub s.topics topic c sub → sub.qos = 0)
    (hsh : (subscribers s.topics topic).shared = []) (n : Nat) :
    ((∃ ver m mes, Out.wrote n (.publish ver m mes) ∈ (step s (.inlinePublish topic payload retain qos)).2) ↔
      EntitledF03 s (inlineMsg s topic payload retain qos) n) ∧
    (EntitledF03 s (inlineMsg s topic payload retain qos) n ↔
      EntitledSession s (inlineMsg s topic payload retain qos) n) ∧
    ((step s (.inlinePublish topic payload retain qos)).2.filterMap pubConn).count n ≤ 1 ∧
    ∀ x ∈ (step s (.inlinePublish topic payload retain qos)).2,
      (∃ id, x = Out.inline id topic payload) ∨ IsCopy (inlineMsg s topic payload retain qos) x := by
  have hnh := no_hash_level_of_noWild topic h.noWild
  have hsh' := (retainedState_shared s (inlineMsg s topic payload retain qos) hs.idx topic h.nonempty hnh).mpr hsh
  obtain ⟨is, iw, ic⟩ := retainedState_inv (inlineMsg s topic payload retain qos) hs hw hcm
  have hq' : (inlineMsg s topic payload retain qos).qos = 0 ∨
      ∀ c sub, MatchingSub (retainedState s (inlineMsg s topic payload retain qos)).topics topic c sub → sub.qos = 0 :=
    hq.imp (inlineMsg_fields s topic payload retain qos).2.2.2.2.2
      (fun g c sub hm => g c sub ((matchingSub_congr (retainedState_quiet s _).plain topic c sub).mp hm))
  rw [step_inlinePublish_accepted s topic payload retain qos h
    (hq'.imp id (merged_qos_zero _ is.idx topic h.nonempty hnh (C03_one_entry_per_client _ topic))) hsh']
  obtain ⟨h1, h2, h3, h4⟩ := C03_delivery_exact_inv_partial _ is iw ic (inlineMsg s topic payload retain qos)
    rfl rfl hq' h.nonempty hnh hsh' n
  rw [entitledF03_retainedState] at h1 h2
  rw [entitledSession_retainedState] at h2
  exact ⟨h1, h2, h3, h4⟩

/-- what items 2/3 conclude about the outputs `out` of one publish op routing the message `pk` in state `s`
    (entitlement read in the state BEFORE the op): a PUBLISH is written to connection `n` iff `n` is entitled; that is
    also readable off the session; at most one PUBLISH per connection; every output is an inline delivery or a copy of
    the message -/
def DeliversExactly (s : Server) (pk : Msg) (out : List Out) (n : Nat) : Prop :=
  ((∃ ver m mes, Out.wrote n (.publish ver m mes) ∈ out) ↔ EntitledF03 s pk n) ∧
  (EntitledF03 s pk n ↔ EntitledSession s pk n) ∧
  (out.filterMap pubConn).count n ≤ 1 ∧
  ∀ x ∈ out, (∃ id, x = Out.inline id pk.topic pk.payload) ∨ IsCopy pk x

/-- **Item 2 without the hypothesis on deferred messages** (`PublishGates` instead of `AcceptedQ0`): the outputs of
    the op are `o ++ r` where `o` is delivered exactly as in item 2 and `r` — at most two outputs — are releases of
    deferred messages of the PUBLISHER: possible only if the publisher has send quota and holds, before the op, an
    in-flight message `m` with `expiry < 0`; the output is `writeMsg` of `m` on the publisher's own connection. -/
theorem recv_publish_delivery_exact_releases (s : Server) (hs : SyncInv s) (hw : WF s) (hcm : ConnMap s)
    (conn i : Nat) (dup retain : Bool) (topic payload : Str) (me : Nat)
    (hc : assocGet s.connOf conn = some i) (h : PublishGates s i topic)
    (hsh : (subscribers s.topics topic).shared = []) :
    ∃ o r, (step s (.recv conn (.publish 0 dup retain 0 topic payload me none))).2 = o ++ r ∧
      (∀ n, DeliversExactly s (inboundMsg s i 0 dup retain 0 topic payload me) o n) ∧ r.length ≤ 2 ∧
      ∀ x ∈ r, (getObj s i).sendQuota > 0 ∧ ∃ m ∈ (getObj s i).inflight, m.expiry < 0 ∧ x ∈ writeMsg s i m := by
  have hnh := no_hash_level topic h.valid
  have hsh' := (retainedState_shared s (inboundMsg s i 0 dup retain 0 topic payload me) hs.idx topic h.nonempty hnh).mpr hsh
  obtain ⟨is, iw, ic⟩ := retainedState_inv (inboundMsg s i 0 dup retain 0 topic payload me) hs hw hcm
  obtain ⟨r, h1, h2, h3⟩ := step_recv_publish_releases s conn i dup retain topic payload me hc h hsh'
  refine ⟨_, r, h1, fun n => ?_, h2, h3⟩
  obtain ⟨g1, g2, g3, g4⟩ := C03_delivery_exact_inv_partial _ is iw ic (inboundMsg s i 0 dup retain 0 topic payload me)
    rfl rfl (Or.inl rfl) h.nonempty hnh hsh' n
  rw [entitledF03_retainedState] at g1 g2
  rw [entitledSession_retainedState] at g2
  exact ⟨g1, g2, g3, g4⟩

/-- **Item 4, on reachable states.**  In every state `s` reached from `init caps` by ops that are not schedule ops,
    interleaved with configuration changes (`ReachSeq`): the NEXT op, if it is an accepted QoS 0 PUBLISH of a network
    client (`AcceptedQ0`) or an accepted inline publish that is QoS 0 after shaping (`AcceptedInline`), on a topic that
    no shared subscription matches, writes a PUBLISH to exactly the entitled connections, once each, and nothing
    else but inline deliveries. -/
theorem C03_publish_op_exact_reach_partial (caps : Caps) (s : Server) (hr : ReachSeq caps s) :
    (∀ (conn i : Nat) (dup retain : Bool) (topic payload : Str) (me : Nat),
      assocGet s.connOf conn = some i → AcceptedQ0 s i topic → (subscribers s.topics topic).shared = [] →
      ∀ n, DeliversExactly s (inboundMsg s i 0 dup retain 0 topic payload me)
        (step s (.recv conn (.publish 0 dup retain 0 topic payload me none))).2 n) ∧
    (∀ (topic payload : Str) (retain : Bool) (qos : Nat),
      AcceptedInline s topic → (qos = 0 ∨ ∀ c sub, MatchingSub s.topics topic c sub → sub.qos = 0) →
      (subscribers s.topics topic).shared = [] →
      ∀ n, DeliversExactly s (inlineMsg s topic payload retain qos)
        (step s (.inlinePublish topic payload retain qos)).2 n) :=
  ⟨fun conn i dup retain topic payload me hc h hsh n =>
     recv_publish_delivery_exact s hr.inv.1 hr.inv.2.1 hr.inv.2.2.1 conn i dup retain topic payload me hc h hsh n,
   fun topic payload retain qos h hq hsh n =>
     inline_publish_delivery_exact s hr.inv.1 hr.inv.2.1 hr.inv.2.2.1 topic payload retain qos h hq hsh n⟩

/-- **Item 4 — `C03_publish_op_exact_seq`, restricted (hence `_partial`).**  For every history `ops` from
    `init caps` without schedule ops (connection numbers fresh), the statement of items 2 and 3 for the op applied
    NEXT, in the state `run (init caps) ops`.  Restrictions: QoS 0 after shaping; no topic alias on the inbound
    packet; no shared subscription matching the topic; the publish-hook mode of the topic is none; the publisher
    holds no deferred message of its own; no schedule ops in the history; entitlement with the No Local merge of F03. -/
theorem C03_publish_op_exact_seq_partial (caps : Caps) (ops : List Op) (hseq : SeqOps ops)
    (hf : OpsFresh (init caps) ops) :
    (∀ (conn i : Nat) (dup retain : Bool) (topic payload : Str) (me : Nat),
      assocGet (run (init caps) ops).connOf conn = some i → AcceptedQ0 (run (init caps) ops) i topic →
      (subscribers (run (init caps) ops).topics topic).shared = [] →
      ∀ n, DeliversExactly (run (init caps) ops) (inboundMsg (run (init caps) ops) i 0 dup retain 0 topic payload me)
        (step (run (init caps) ops) (.recv conn (.publish 0 dup retain 0 topic payload me none))).2 n) ∧
    (∀ (topic payload : Str) (retain : Bool) (qos : Nat),
      AcceptedInline (run (init caps) ops) topic →
      (qos = 0 ∨ ∀ c sub, MatchingSub (run (init caps) ops).topics topic c sub → sub.qos = 0) →
      (subscribers (run (init caps) ops).topics topic).shared = [] →
      ∀ n, DeliversExactly (run (init caps) ops) (inlineMsg (run (init caps) ops) topic payload retain qos)
        (step (run (init caps) ops) (.inlinePublish topic payload retain qos)).2 n) :=
  C03_publish_op_exact_reach_partial caps _ (ReachSeq.init.run ops hseq hf)

/-! ### Non-vacuity of the op theorems: `p` (connection 3, object 3) publishes `a/b` as the NEXT op of `c03History` -/

/-- the op: PUBLISH QoS 0 `a/b`, payload `01`, on connection 3 -/
def c03Op (retain : Bool) : Op := .recv 3 (.publish 0 false retain 0 [97, 47, 98] [1] 0 none)

/-- connection 3 is client object 3, and the publish is accepted -/
theorem c03_accepted : assocGet c03State.connOf 3 = some 3 ∧ AcceptedQ0 c03State 3 [97, 47, 98] :=
  ⟨by decide, ⟨by decide, by decide, by decide, by decide, by decide, by decide, by decide, by decide, by decide⟩,
    by decide⟩

/-- the message the op routes is `c03Msg` up to the stamps `processPublish` puts on it (creation time, MQTT version,
    expiry time from the broker's maximum message expiry) -/
example : inboundMsg c03State 3 0 false false 0 [97, 47, 98] [1] 0 =
    { c03Msg with created := NOW, ver := 5, expiry := NOW + 86400 } := by decide

/-- the op writes a PUBLISH to connections 2 and 1, once each, and delivers to the inline subscriber: three
    outputs, nothing else (no PINGRESP of the barrier in the projection, no release) — with and without retain; with
    retain the message is stored -/
example : (step c03State (c03Op false)).2.filterMap pubConn = [2, 1] ∧ (step c03State (c03Op false)).2.length = 3 ∧
    Out.inline 7 [97, 47, 98] [1] ∈ (step c03State (c03Op false)).2 ∧
    (step c03State (c03Op true)).2.filterMap pubConn = [2, 1] ∧ (step c03State (c03Op true)).2.length = 3 ∧
    (step c03State (c03Op false)).1.rmsgs.map (·.1) = [] ∧
    (step c03State (c03Op true)).1.rmsgs.map (·.1) = [[97, 47, 98]] := by decide

/-- the op theorem, instantiated: `x`, `y` entitled; the publisher (No Local), `z` (read denial), `w` (closed) not -/
example : ∀ retain, EntitledF03 c03State (inboundMsg c03State 3 0 false retain 0 [97, 47, 98] [1] 0) 1 ∧
    EntitledF03 c03State (inboundMsg c03State 3 0 false retain 0 [97, 47, 98] [1] 0) 2 ∧
    ¬ EntitledF03 c03State (inboundMsg c03State 3 0 false retain 0 [97, 47, 98] [1] 0) 3 ∧
    ¬ EntitledF03 c03State (inboundMsg c03State 3 0 false retain 0 [97, 47, 98] [1] 0) 4 ∧
    ¬ EntitledF03 c03State (inboundMsg c03State 3 0 false retain 0 [97, 47, 98] [1] 0) 5 := by
  intro retain
  have h := fun n => ((C03_publish_op_exact_reach_partial {} c03State c03State_reach).1 3 3 false retain [97, 47, 98]
    [1] 0 c03_accepted.1 c03_accepted.2 (by decide) n).1
  have ho : (step c03State (.recv 3 (.publish 0 false retain 0 [97, 47, 98] [1] 0 none))).2.filterMap pubConn = [2, 1] := by
    cases retain <;> decide
  refine ⟨(h 1).mp (mem_pubConns.mp (by rw [ho]; decide)), (h 2).mp (mem_pubConns.mp (by rw [ho]; decide)), ?_, ?_, ?_⟩ <;>
  · intro e
    have := mem_pubConns.mpr ((h _).mpr e)
    rw [ho] at this
    revert this
    decide

/-- the hypothesis "every matching plain subscription is QoS 0" can be checked on the (computable) subscriber map -/
theorem matching_qos_zero_of_merged (x : Index) (hx : IdxOK x) (topic : Str) (hne : topic ≠ [])
    (hnh : ∀ t ∈ splitLevels topic, t ≠ [hash]) (h : ∀ cs ∈ (subscribers x topic).subs, cs.2.qos = 0) :
    ∀ c sub, MatchingSub x topic c sub → sub.qos = 0 := by
  intro c sub hm
  by_cases hz : sub.qos = 0
  · exact hz
  · obtain ⟨sub', hg, hq⟩ := (hasSub_subscribers_idx mergeOr_qosPos x hx topic hne hnh c).mpr
      ⟨sub, hm, Nat.pos_of_ne_zero hz⟩
    have h0 : sub'.qos = 0 := h _ (assocGet_mem _ _ _ hg)
    have hq' : sub'.qos > 0 := hq
    omega

/-- the inline publish as the next op: accepted, same recipients (the inline client is nobody's No Local origin) -/
theorem c03_inline_accepted : AcceptedInline c03State [97, 47, 98] :=
  ⟨by decide, by decide, by decide, by decide, by decide, by decide⟩

/-- QoS 0 and QoS 1 (every matching subscription is QoS 0): connections 2, 3 (`p` itself: the origin is the inline
    client, No Local does not apply) and 1 -/
example : (step c03State (.inlinePublish [97, 47, 98] [1] false 0)).2.filterMap pubConn = [2, 3, 1] ∧
    (step c03State (.inlinePublish [97, 47, 98] [1] false 1)).2.filterMap pubConn = [2, 3, 1] ∧
    EntitledF03 c03State (inlineMsg c03State [97, 47, 98] [1] false 1) 3 ∧
    ¬ EntitledF03 c03State (inlineMsg c03State [97, 47, 98] [1] false 1) 4 := by
  have hq : ∀ c sub, MatchingSub c03State.topics [97, 47, 98] c sub → sub.qos = 0 :=
    matching_qos_zero_of_merged _ c03State_reach.inv.1.idx _ (by decide) (by decide) (by decide)
  have h := fun n => ((C03_publish_op_exact_reach_partial {} c03State c03State_reach).2 [97, 47, 98] [1] false 1
    c03_inline_accepted (Or.inr hq) (by decide) n).1
  have ho : (step c03State (.inlinePublish [97, 47, 98] [1] false 1)).2.filterMap pubConn = [2, 3, 1] := by decide
  refine ⟨by decide, ho, (h 3).mp (mem_pubConns.mp (by rw [ho]; decide)), ?_⟩
  intro e
  have := mem_pubConns.mpr ((h _).mpr e)
  rw [ho] at this
  revert this
  decide

end Mochi.Broker

/-! ## Publications of ANY QoS: who is written, and what excuses a missing receiver

Lemmas: `Mochi/Lemmas/BrokerQosDelivery.lean` (namespace `Q1`).  `Q1.verdict s i` classifies a delivery of QoS > 0 to
client object `i` on the state BEFORE the publish: `limit` (in-flight limit reached), `exhausted` (no packet identifier),
`deferred pid` (send quota 0 under a Receive Maximum: stored, `expiry = -1`), `sent pid` (stored and written) —
`publishToClientCore_qos_shape` (`Props/C10.lean`).  `Q1.ServedVia s pk subs n`: `EntitledVia s pk subs n` through an
entry `(cid, sub)` whose copy is QoS 0 or whose delivery is in case `sent`.  `Q1.entryObj s i sub pk`: the receiving
object after its entry (unchanged / the deferred record appended / the sent record appended and one unit of send quota
taken).  `Q1.NoAliases s`: no registered client has outbound topic aliases. -/
namespace Mochi.Broker
open Mochi.Topics

/-- **Item 3.**  `WF s`, `ConnDistinct s`, no matching shared subscription, no outbound aliases; `pk` an application
    message of ANY QoS.  1. connection `n` is written a PUBLISH **iff** it is entitled (`EntitledVia`) AND (the copy is
    QoS 0 OR the delivery is in case (d)): `Q1.ServedVia`;  2. at most one PUBLISH per connection;  3. the object of
    every registered entry of the subscriber map ends exactly as its verdict says (`Q1.entryObj`, computed on the state
    BEFORE the publish: each entry sees its own object untouched by the others), every other object is unchanged;
    4. every output is an inline delivery or an output of a registered entry, and every output of an entry is there. -/
theorem publishToSubscribers_writes_exact_qos (s : Server) (hw : WF s) (hcd : ConnDistinct s) (hna : Q1.NoAliases s)
    (pk : Msg) (hig : pk.ignore = false) (ht : pk.type = 3)
    (hsh : (subscribers s.topics pk.topic).shared = []) (n : Nat) :
    ((∃ ver m me, Out.wrote n (.publish ver m me) ∈ (publishToSubscribers s pk).2) ↔
      Q1.ServedVia s pk (subscribers s.topics pk.topic).subs n) ∧
    ((publishToSubscribers s pk).2.filterMap pubConn).count n ≤ 1 ∧
    (∀ cid i sub, (cid, i) ∈ s.clients → (cid, sub) ∈ (subscribers s.topics pk.topic).subs →
      getObj (publishToSubscribers s pk).1 i = Q1.entryObj s i sub (stamped s pk) ∧
      ∀ x ∈ Q1.entryOut s i sub (stamped s pk), x ∈ (publishToSubscribers s pk).2) ∧
    (∀ k, (∀ cs ∈ (subscribers s.topics pk.topic).subs, assocGet s.clients cs.1 ≠ some k) →
      getObj (publishToSubscribers s pk).1 k = getObj s k) ∧
    (∀ x ∈ (publishToSubscribers s pk).2, (∃ id, x = Out.inline id pk.topic pk.payload) ∨
      ∃ cid i sub, (cid, i) ∈ s.clients ∧ (cid, sub) ∈ (subscribers s.topics pk.topic).subs ∧
        x ∈ Q1.entryOut s i sub (stamped s pk)) := by
  have hnd := C03_one_entry_per_client s.topics pk.topic
  obtain ⟨h1, h2, h3, h4, h5⟩ := Q1.subscribers_exact s hw hna pk hig ht hsh hnd
  refine ⟨?_, ?_, ?_, h3, ?_⟩
  · rw [← mem_pubConns, h1]
    exact Q1.mem_recipientsQ s hw pk _ n
  · rw [h1]
    exact List.nodup_iff_count.mp (Q1.recipientsQ_nodup s hw hcd pk _ hnd) n
  · intro cid i sub hm hs
    have hg := assocGet_of_mem_nodup _ _ _ hw.clients_nodup hm
    exact ⟨h2 (cid, sub) hs i hg, h5 (cid, sub) hs i hg⟩
  · intro x hx
    rcases h4 x hx with h | ⟨cs, hcs, i, hi, hxi⟩
    · exact Or.inl h
    · exact Or.inr ⟨cs.1, i, cs.2, assocGet_mem _ _ _ hi, hcs, hxi⟩

/-- **the excuses, spelled out.**  An ENTITLED client (registered as `(cid, i)`, live, entry `(cid, sub)` of the
    subscriber map passing No Local and the read permission) whose copy has QoS > 0:
    (a)/(b) verdict `limit` / `exhausted`: its object is unchanged — nothing stored, nothing written by its entry;
    (c) verdict `deferred pid`: nothing written by its entry; the copy is the LAST record of its in-flight list, with
        `expiry = -1`, send quota unchanged;
    (d) verdict `sent pid`: its entry writes exactly the copy; the copy is the last record of its in-flight list; send
        quota − 1.  ("No missing receiver unless a flow-control / limit excuse applies": the oracle's rule.) -/
theorem C03_missing_receiver_excused (s : Server) (hw : WF s) (hcd : ConnDistinct s) (hna : Q1.NoAliases s)
    (pk : Msg) (hig : pk.ignore = false) (ht : pk.type = 3)
    (hsh : (subscribers s.topics pk.topic).shared = [])
    (cid : Str) (i : Nat) (sub : Sub) (hm : (cid, i) ∈ s.clients) (hs : (cid, sub) ∈ (subscribers s.topics pk.topic).subs)
    (hp : Q1.passes s i sub pk = true) (hq : shapeQos s.caps sub pk.qos > 0) :
    match Q1.verdict s i with
    | .limit => getObj (publishToSubscribers s pk).1 i = getObj s i ∧ Q1.entryOut s i sub (stamped s pk) = []
    | .exhausted => getObj (publishToSubscribers s pk).1 i = getObj s i ∧
        (Q1.entryOut s i sub (stamped s pk)).filterMap pubConn = []
    | .deferred pid => Q1.entryOut s i sub (stamped s pk) = [] ∧
        (getObj (publishToSubscribers s pk).1 i).inflight =
          (getObj s i).inflight ++ [{ Q1.copyOf s i sub (stamped s pk) pid with expiry := -1 }] ∧
        (getObj (publishToSubscribers s pk).1 i).sendQuota = (getObj s i).sendQuota
    | .sent pid =>
        (Q1.liveB s i = true → Q1.entryOut s i sub (stamped s pk) =
          [.wrote (getObj s i).conn (.publish (getObj s i).ver (Q1.copyOf s i sub (stamped s pk) pid)
            (decide ((Q1.copyOf s i sub (stamped s pk) pid).expiry > 0) ||
             decide ((Q1.copyOf s i sub (stamped s pk) pid).msgExpiry > 0)))]) ∧
        (getObj (publishToSubscribers s pk).1 i).inflight =
          (getObj s i).inflight ++ [Q1.copyOf s i sub (stamped s pk) pid] ∧
        (getObj (publishToSubscribers s pk).1 i).sendQuota = (getObj s i).sendQuota - 1 := by
  obtain ⟨ho, _⟩ := (publishToSubscribers_writes_exact_qos s hw hcd hna pk hig ht hsh 0).2.2.1 cid i sub hm hs
  have hp' : Q1.passes s i sub (stamped s pk) = true := by
    unfold Q1.passes at hp ⊢
    rw [(stamped_fields s pk).1, (stamped_fields s pk).2.2.2.2]; exact hp
  have hq' : shapeQos s.caps sub (stamped s pk).qos > 0 := by rw [(stamped_fields s pk).2.2.1]; exact hq
  have eo : Q1.entryObj s i sub (stamped s pk) = Q1.verdictObj s i sub (stamped s pk) (Q1.verdict s i) := by
    unfold Q1.entryObj; rw [if_pos hp', if_pos hq']
  have eu : Q1.entryOut s i sub (stamped s pk) =
      if Q1.liveB s i = true then Q1.verdictOut s i sub (stamped s pk) (Q1.verdict s i)
      else (Q1.verdictOut s i sub (stamped s pk) (Q1.verdict s i)).filter (fun o => (pubConn o).isNone) := by
    unfold Q1.entryOut; rw [if_pos hp', if_pos hq']
  rw [ho, eo, eu]
  cases Q1.verdict s i with
  | limit => exact ⟨rfl, by cases Q1.liveB s i <;> rfl⟩
  | exhausted => exact ⟨rfl, by cases Q1.liveB s i <;> rfl⟩
  | deferred pid => exact ⟨by cases Q1.liveB s i <;> rfl, rfl, rfl⟩
  | sent pid => exact ⟨fun hl => by rw [if_pos hl]; rfl, rfl, rfl⟩

end Mochi.Broker

/-! ### Non-vacuity (item 5): a QoS 1 publication to three QoS 1 subscribers — served, deferred, at the limit -/
namespace Mochi.Broker
open Mochi.Topics

/-- `x` (MQTT 3.1.1, connection 1), `y` (MQTT 5, connection 2, Receive Maximum 1), `z` (MQTT 5, connection 3)
    subscribe `a/b` at QoS 1 (`z` also `c`); `p` (connection 4) publishes `a/b` at QoS 1: all three hold the copy in
    flight; `x` acknowledges; `p` publishes `c` at QoS 1: `z` holds two.  The broker's in-flight limit is 2. -/
def q1History : List Op :=
  [.connect 1 { ver := 4, id := [120] },
   .recv 1 (.subscribe 1 0 [{ filter := [97, 47, 98], qos := 1 }]),
   .connect 2 { ver := 5, id := [121], rm := some 1 },
   .recv 2 (.subscribe 1 0 [{ filter := [97, 47, 98], qos := 1 }]),
   .connect 3 { ver := 5, id := [122] },
   .recv 3 (.subscribe 1 0 [{ filter := [97, 47, 98], qos := 1 }, { filter := [99], qos := 1 }]),
   .connect 4 { ver := 5, id := [112] },
   .recv 4 (.publish 1 false false 1 [97, 47, 98] [1] 0 none),
   .recv 1 (.puback 1 0),
   .recv 4 (.publish 1 false false 2 [99] [2] 0 none)]

def q1State : Server := run (init { maximumInflight := 2 }) q1History

/-- the next publication: `a/b`, QoS 1, by `p` -/
def q1Msg : Msg := { topic := [97, 47, 98], payload := [3], qos := 1, id := 3, origin := [112] }

theorem q1State_reach : ReachSeq { maximumInflight := 2 } q1State :=
  ReachSeq.init.run q1History (by decide) (by decide)

theorem q1State_noAliases : Q1.NoAliases q1State :=
  fun id i h => (by decide : ∀ e ∈ q1State.clients, (getObj q1State e.2).tam = 0) (id, i) h

/-- the hypotheses of `publishToSubscribers_writes_exact_qos` hold in `q1State` for `q1Msg` … -/
example : q1Msg.ignore = false ∧ q1Msg.type = 3 ∧ (subscribers q1State.topics q1Msg.topic).shared = [] ∧
    (subscribers q1State.topics q1Msg.topic).subs.map (fun cs => (cs.1, cs.2.qos)) = [([120], 1), ([121], 1), ([122], 1)] ∧
    q1State.clients = [(inlineID, 0), ([120], 1), ([121], 2), ([122], 3), ([112], 4)] := by decide

/-- … the three deliveries are in cases (d), (c) and (a): `x` is served under identifier 2, `y` has used its Receive
    Maximum of 1 (send quota 0), `z` holds 2 = `maximumInflight` records … -/
example : Q1.verdict q1State 1 = .sent 2 ∧ Q1.verdict q1State 2 = .deferred 2 ∧ Q1.verdict q1State 3 = .limit ∧
    (getObj q1State 2).sendQuota = 0 ∧ (getObj q1State 2).maxSend = 1 ∧ (getObj q1State 3).inflight.length = 2 := by
  decide

/-- … only connection 1 is written; `y`'s copy is stored deferred (`expiry = -1`) under the fresh identifier 2 next to
    its record 1; `z`'s object is unchanged and the dropped counter moved; `x` holds the copy under identifier 2 -/
example : (publishToSubscribers q1State q1Msg).2.filterMap pubConn = [1] ∧
    (getObj (publishToSubscribers q1State q1Msg).1 2).inflight.map (fun m => (m.id, m.qos, decide (m.expiry = -1))) =
      [(1, 1, false), (2, 1, true)] ∧
    (getObj (publishToSubscribers q1State q1Msg).1 3).inflight.map (·.id) = (getObj q1State 3).inflight.map (·.id) ∧
    (publishToSubscribers q1State q1Msg).1.info.inflightDropped = q1State.info.inflightDropped + 1 ∧
    (getObj (publishToSubscribers q1State q1Msg).1 1).inflight.map (fun m => (m.id, m.qos, m.dup)) = [(2, 1, false)] := by
  decide

/-- the theorem, instantiated: connection 1 is served; 2 and 3 are ENTITLED but not served -/
example : Q1.ServedVia q1State q1Msg (subscribers q1State.topics q1Msg.topic).subs 1 ∧
    ¬ Q1.ServedVia q1State q1Msg (subscribers q1State.topics q1Msg.topic).subs 2 ∧
    ¬ Q1.ServedVia q1State q1Msg (subscribers q1State.topics q1Msg.topic).subs 3 ∧
    EntitledVia q1State q1Msg (subscribers q1State.topics q1Msg.topic).subs 2 ∧
    EntitledVia q1State q1Msg (subscribers q1State.topics q1Msg.topic).subs 3 := by
  have hr := q1State_reach.inv
  have h := fun n => (publishToSubscribers_writes_exact_qos q1State hr.2.1 hr.2.2.1.distinct q1State_noAliases q1Msg
    rfl rfl (by decide) n).1
  have ho : (publishToSubscribers q1State q1Msg).2.filterMap pubConn = [1] := by decide
  refine ⟨(h 1).mp (mem_pubConns.mp (by rw [ho]; decide)), ?_, ?_,
    ⟨[121], 2, { filter := [97, 47, 98], qos := 1, idents := some [([97, 47, 98], 0)] }, by decide, by decide, by decide,
      by decide, by decide, by decide, by decide, by decide⟩,
    ⟨[122], 3, { filter := [97, 47, 98], qos := 1, idents := some [([97, 47, 98], 0)] }, by decide, by decide, by decide,
      by decide, by decide, by decide, by decide, by decide⟩⟩ <;>
  · intro e
    have := mem_pubConns.mpr ((h _).mpr e)
    rw [ho] at this
    revert this
    decide

end Mochi.Broker

/-! ### Item 4 (partial): from the accepted publish op of QoS 0 / QoS 1 to the served connections -/
namespace Mochi.Broker
open Mochi.Topics

theorem q1_noAliases_retainedState {s : Server} (pk : Msg) (h : Q1.NoAliases s) : Q1.NoAliases (retainedState s pk) := by
  intro id i hm
  rw [getObj_retainedState]
  exact h id i (by rw [← (retainedState_quiet s pk).clients]; exact hm)

/-- **Item 4, restricted (hence `_partial`).**  In every state `s` reached by ops without schedule ops and
    configuration changes (`ReachSeq`) in which no registered client has outbound aliases, with `rs` the state with the
    retained store updated (`retainedState s m`; it IS `s` when the retain flag is off) and `m = inboundMsg …`:
    1. the accepted QoS 0 PUBLISH op (`AcceptedQ0`, `step_recv_publish_accepted`) writes a PUBLISH to connection `n`
       iff `n` is served (`Q1.ServedVia`: entitled, and the copy — QoS 0 here — needs no excuse), at most once;
    2. the accepted QoS 1 PUBLISH (`processPublish_accepted_qos1`: live network client, valid topic, receive quota
       within its maximum, write permission, no record under the identifier, no hook mode, the broker grants QoS 1):
       the handler writes the PUBACK to the publisher FIRST, then a PUBLISH to connection `n` iff `n` is entitled AND
       (its copy is QoS 0 OR its delivery is in case (d)), at most once; entitled clients in cases (a)–(c) are
       accounted for by `C03_missing_receiver_excused` applied to `rs`.
    Not covered (remains): the release tail of the QoS 1 op (`nextImmediate` for the publisher after the routing and
    after the barrier PINGREQ), the QoS 2 op (`C08_accepted_qos2_shape`: the routing state is `pubrecFiled rs i id`),
    and reading the subscriber map of `rs` off the index of `s` (`EntitledF03`). -/
theorem C03_publish_op_exact_any_qos_partial (caps : Caps) (s : Server) (hr : ReachSeq caps s) (hna : Q1.NoAliases s) :
    (∀ (conn i : Nat) (dup retain : Bool) (topic payload : Str) (me : Nat),
      assocGet s.connOf conn = some i → AcceptedQ0 s i topic → (subscribers s.topics topic).shared = [] →
      ∀ n, ((∃ ver m mes, Out.wrote n (.publish ver m mes) ∈
              (step s (.recv conn (.publish 0 dup retain 0 topic payload me none))).2) ↔
            Q1.ServedVia (retainedState s (inboundMsg s i 0 dup retain 0 topic payload me))
              (inboundMsg s i 0 dup retain 0 topic payload me)
              (subscribers (retainedState s (inboundMsg s i 0 dup retain 0 topic payload me)).topics topic).subs n) ∧
          ((step s (.recv conn (.publish 0 dup retain 0 topic payload me none))).2.filterMap pubConn).count n ≤ 1) ∧
    (∀ (i : Nat) (dup retain : Bool) (id : Nat) (topic payload : Str) (me : Nat),
      (getObj s i).isOpen = true → (getObj s i).peerGone = false → (getObj s i).inline = false →
      isValidFilter topic true = true → (getObj s i).recvQuota ≠ 0 → (getObj s i).recvQuota ≤ (getObj s i).maxRecv →
      aclOk s (getObj s i).id topic true = true → flGet (getObj s i) id = none → topic ≠ [] →
      assocGet s.pubHook topic = none → 1 ≤ s.caps.maximumQos → (subscribers s.topics topic).shared = [] →
      (∃ rest, (processPublish s i 1 dup retain id topic payload me none).2.1 =
          Out.wrote (getObj s i).conn (.ack (getObj s i).ver 4 id 1) :: rest ∧
        ∀ n, ((∃ ver m mes, Out.wrote n (.publish ver m mes) ∈ rest) ↔
            Q1.ServedVia (retainedState s (inboundMsg s i 1 dup retain id topic payload me))
              (inboundMsg s i 1 dup retain id topic payload me)
              (subscribers (retainedState s (inboundMsg s i 1 dup retain id topic payload me)).topics topic).subs n) ∧
          (rest.filterMap pubConn).count n ≤ 1)) := by
  obtain ⟨hs, hw, hcm, _⟩ := hr.inv
  refine ⟨fun conn i dup retain topic payload me hc h hsh n => ?_,
    fun i dup retain id topic payload me hopen hpeer hin hv hrq hmax hacl hfl hne hhook hmq hsh => ?_⟩
  · have hnh := no_hash_level topic h.valid
    have hsh' := (retainedState_shared s (inboundMsg s i 0 dup retain 0 topic payload me) hs.idx topic h.nonempty hnh).mpr hsh
    obtain ⟨_, iw, ic⟩ := retainedState_inv (inboundMsg s i 0 dup retain 0 topic payload me) hs hw hcm
    rw [step_recv_publish_accepted s conn i dup retain topic payload me hc h hsh']
    obtain ⟨g1, g2, _⟩ := publishToSubscribers_writes_exact_qos _ iw ic.distinct (q1_noAliases_retainedState _ hna)
      (inboundMsg s i 0 dup retain 0 topic payload me) rfl rfl hsh' n
    exact ⟨g1, g2⟩
  · have hnh := no_hash_level topic hv
    have hsh' := (retainedState_shared s (inboundMsg s i 1 dup retain id topic payload me) hs.idx topic hne hnh).mpr hsh
    obtain ⟨_, iw, ic⟩ := retainedState_inv (inboundMsg s i 1 dup retain id topic payload me) hs hw hcm
    rw [processPublish_accepted_qos1 s i dup retain id topic payload me hopen hpeer hin hv hrq hmax hacl hfl hne hhook hmq]
    refine ⟨_, rfl, fun n => ?_⟩
    obtain ⟨g1, g2, _⟩ := publishToSubscribers_writes_exact_qos _ iw ic.distinct (q1_noAliases_retainedState _ hna)
      (inboundMsg s i 1 dup retain id topic payload me) rfl rfl hsh' n
    exact ⟨g1, g2⟩

/-- non-vacuity: in `q1State` the NEXT op of `p` — PUBLISH QoS 1 `a/b` — writes the PUBACK, then one PUBLISH, to
    connection 1 only (`y` deferred, `z` at the limit) -/
example : (step q1State (.recv 4 (.publish 1 false false 3 [97, 47, 98] [3] 0 none))).2.map
      (fun o => match o with | .wrote n p => (n, p.render) | _ => (0, "")) =
    [(4, "PUBACK:id3:rc01"), (1, "PUB:q1:d0:r0:id2:t=612f62:p=03:si=:ta=-:me0")] := by decide

end Mochi.Broker

#print axioms Mochi.Broker.publishToSubscribers_writes_exact
#print axioms Mochi.Broker.C03_delivery_exact_state_partial
#print axioms Mochi.Broker.C03_delivery_exact_runOps_partial
#print axioms Mochi.Broker.C03_delivery_exact_inv_partial
#print axioms Mochi.Broker.C03_delivery_exact_reach_partial
#print axioms Mochi.Broker.C03_delivery_exact_seq_partial
#print axioms Mochi.Broker.C03_delivery_exact_reach_spec_partial
#print axioms Mochi.Broker.C03_delivery_sound_reach_partial
#print axioms Mochi.Broker.C03_delivery_full_false_F03
#print axioms Mochi.Broker.c03State_reach
#print axioms Mochi.Broker.recv_publish_delivery_exact
#print axioms Mochi.Broker.inline_publish_delivery_exact
#print axioms Mochi.Broker.C03_publish_op_exact_reach_partial
#print axioms Mochi.Broker.C03_publish_op_exact_seq_partial
#print axioms Mochi.Broker.c03_accepted
#print axioms Mochi.Broker.recv_publish_delivery_exact_releases
#print axioms Mochi.Broker.publishToSubscribers_writes_exact_qos
#print axioms Mochi.Broker.C03_missing_receiver_excused
#print axioms Mochi.Broker.C03_publish_op_exact_any_qos_partial
