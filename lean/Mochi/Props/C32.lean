import Mochi.Lemmas.Locks
import Mochi.Gen.LockGraph
/-!
# C32 — The broker never deadlocks (lock part)

`Mochi.Gen.lockFuncs` is regenerated from the broker's source on every check (tie A, `go/cmd/vextract`):
one program over lock events per function, method and function literal that touches a
`sync.Mutex`/`sync.RWMutex` directly or through static calls inside the module.

* `C32_no_reentrant` / `C32_lock_order`: the two executable checkers accept the generated data (kernel
  evaluation, `decide +kernel`).  When the source contains a nested acquisition of one lock — e.g. a
  method that holds `RLock` and calls a method of the same receiver that takes `RLock` again — the first
  obligation evaluates to `false` and this module stops building; `vextract -report` names the site.
* `C32_no_self_deadlock`, `C32_no_wait_cycle`: the semantic statements, obtained from the soundness
  theorems of `Mochi/Lemmas/Locks.lean` (proved for every function list, by induction on executions).

What is *not* covered (named in DESIGN.md §7 C32): blocking on channels, `WaitGroup`, `sync.Once/Cond`,
`net.Conn` writes performed under the client mutex, user hooks and every other interface call or call of
a function value (`callUnknown`: assumed to take no broker lock), panics; aliasing is by name (see the
header of `Mochi/Model/Locks.lean`).
-/
namespace Mochi.Locks
open Mochi.Gen

/-- no function holds a lock and acquires the same lock of the same object again, directly or through
calls of any depth (in particular no read lock is taken twice) -/
theorem C32_no_reentrant : noSelfNesting lockFuncs = true := by decide +kernel

/-- the "holds L1 while acquiring L2" relation on lock classes goes up a rank function: it is acyclic -/
theorem C32_lock_order : lockOrderAcyclic lockFuncs = true := by decide +kernel

/-- in every reachable state of any number of threads running the broker's lock programs, no thread is
about to request a lock it already holds -/
theorem C32_no_self_deadlock :
    ∀ cfg, Reachable lockFuncs cfg → ∀ t ∈ cfg, ¬ SelfDeadlockStep t :=
  noSelfNesting_sound lockFuncs C32_no_reentrant

/-- no reachable state contains a cycle of threads each waiting for a lock held by the next -/
theorem C32_no_wait_cycle : ∀ cfg, Reachable lockFuncs cfg → ¬ WaitCycle cfg :=
  lockOrderAcyclic_sound lockFuncs C32_lock_order

/-! ## Non-vacuity: the checkers reject the defect pattern and accept its repair -/

/-- class 0: `Inflight.RWMutex` -/
private def inflightLock : LockRef := ⟨[], 0⟩

/-- `GetAll` takes the read lock of its receiver -/
private def getAll : Func :=
  { id := 0, name := "(*Inflight).GetAll", acq := [inflightLock],
    body := .seq (.acquire inflightLock .R) (.deferRelease inflightLock .R) }

/-- `NextImmediate` holds the read lock and calls `GetAll` on the same receiver -/
private def nextImmediateBad : Func :=
  { id := 1, name := "(*Inflight).NextImmediate", acq := [inflightLock],
    body := .seq (.acquire inflightLock .R) (.seq (.deferRelease inflightLock .R) (.call 0 RecvRel.same)) }

/-- repaired: the filtering is done by an unexported helper that takes no lock -/
private def getAllUnlocked : Func := { id := 2, name := "(*Inflight).getAll", acq := [], body := .skip }
private def nextImmediateGood : Func :=
  { id := 1, name := "(*Inflight).NextImmediate", acq := [inflightLock],
    body := .seq (.acquire inflightLock .R) (.seq (.deferRelease inflightLock .R) (.call 2 RecvRel.same)) }

example : noSelfNesting [getAll, nextImmediateBad] = false := by decide
example : lockOrderAcyclic [getAll, nextImmediateBad] = false := by decide
example : noSelfNesting [getAll, getAllUnlocked, nextImmediateGood] = true := by decide
example : lockOrderAcyclic [getAll, getAllUnlocked, nextImmediateGood] = true := by decide

/-- the same call on *another* object of the class … -/
private def nextImmediateOther : Func := {
  id := 1, name := "(*Inflight).NextImmediate",
  acq := [inflightLock, ⟨[.other], 0⟩],
  body := .seq (.acquire inflightLock .R) (.seq (.deferRelease inflightLock .R) (.call 0 [.other])) }

/-- … is not a nested acquisition of one lock … -/
example : noSelfNesting [getAll, nextImmediateOther] = true := by decide
/-- … but it is an edge from the class to itself, which the order check refuses -/
example : lockOrderAcyclic [getAll, nextImmediateOther] = false := by decide

/-- a lock taken in one branch and a call in the other are not nested; an explicit unlock ends the hold -/
private def branches : Func := {
  id := 3, name := "branches", acq := [inflightLock],
  body := .seq (.alt (.seq (.acquire inflightLock .W) (.release inflightLock .W)) (.call 0 []))
               (.seq (.acquire inflightLock .R) (.seq (.release inflightLock .R) (.call 0 []))) }
example : noSelfNesting [getAll, branches] = true := by decide

/-- fail closed: a wrong summary, an `unknown` event, a return with a lock that no defer releases -/
example : noSelfNesting [getAll, { nextImmediateGood with acq := [] }] = false := by decide
example : noSelfNesting [{ id := 0, name := "f", acq := [], body := .unknown "x.mu.TryLock()" }] = false := by decide
private def earlyReturn : Func := {
  id := 0, name := "f", acq := [inflightLock],
  body := .seq (.acquire inflightLock .W) (.seq (.alt .ret .skip) (.release inflightLock .W)) }
example : noSelfNesting [earlyReturn] = false := by decide

/-- the semantics is not empty: the bad pair really produces a thread that requests the lock it holds -/
example : ∃ cfg, Reachable [getAll, nextImmediateBad] cfg ∧ ∃ t ∈ cfg, SelfDeadlockStep t := by
  refine ⟨[⟨[.acq ⟨[], 0⟩ .R], [.acq ⟨[], 0⟩ .R]⟩], ?_, _, List.mem_singleton.2 rfl, ⟨[], 0⟩, .R, [], rfl, ?_⟩
  · refine .step (cfg := [⟨[], [.acq ⟨[], 0⟩ .R, .acq ⟨[], 0⟩ .R]⟩]) (.init ?_)
      (Step.acq (pre := []) (post := []) (d := []) (fun u hu => by cases hu))
    intro t ht
    rw [List.mem_singleton.1 ht]
    refine ⟨rfl, 1, [], .call (f := nextImmediateBad) rfl ?_⟩
    -- acquire; (deferRelease; call GetAll → its acquire)
    have h1 : Pre [getAll, nextImmediateBad] [] (.call 0 RecvRel.same) [.acq ⟨[], 0⟩ .R] :=
      .call (f := getAll) rfl (.seqL (.full .acquire))
    exact .seqR (t1 := [.acq ⟨[], 0⟩ .R]) (t2 := [.acq ⟨[], 0⟩ .R]) .acquire
      (.seqR (t1 := []) (d1 := [⟨[], 0⟩]) .deferRelease h1)
  · simp [Thread.held, heldAfter]

end Mochi.Locks
