import Mochi.Lemmas.BrokerSurviveDefs
/-!
# C09 — a concrete history for the survival statement (non-vacuity), and two counterexamples

* `c09History`: a QoS 2 delivery to a persistent session that survives a lost connection, a resumption
  (PUBLISH resent with DUP), the PUBREC (record becomes the PUBREL), a take-over (PUBREL resent, no
  PUBLISH) and is ended by — and only by — the PUBCOMP.  Everything is checked by `decide`.
* `C09_deferred_release_counterexample` (finding F09): a record deferred by flow control (`expiry = -1`) is
  DELETED when it is released by `nextImmediate`: `Holds` without its `0 ≤ expiry` clause (`HoldsAny`) does
  not survive an op that is not `Ends`.
* `C09_sched_*`: what the schedule ops do to `Holds`.
-/
namespace Mochi.Broker
open Mochi.Topics

/-! ### 1. the history -/

/-- the subscriber's CONNECT: MQTT 5, Clean Start 0, Session Expiry Interval 100 -/
def c09S : Connect := { ver := 5, clean := false, id := [115], sei := some 100 }

def c09History : List Op :=
  [.connect 1 c09S,                                                   -- 0  S connects
   .recv 1 (.subscribe 1 0 [{ filter := [116], qos := 2 }]),          -- 1  S subscribes to "t" with QoS 2
   .connect 2 { ver := 5, id := [112] },                              -- 2  P connects
   .recv 2 (.publish 2 false false 1 [116] [97] 0 none),              -- 3  P publishes QoS 2 "a": S gets PUBLISH id 1
   .drop 1,                                                           -- 4  S's connection is lost
   .recv 2 (.publish 1 false false 2 [116] [98] 0 none),              -- 5  P publishes QoS 1 "b" (queued for S, id 2)
   .connect 3 c09S,                                                   -- 6  S resumes: PUBLISH 1 resent with DUP
   .recv 3 (.pubrec 1 0),                                             -- 7  S: PUBREC 1 — the record becomes PUBREL
   .connect 4 c09S,                                                   -- 8  S is taken over: PUBREL 1 resent
   .recv 4 (.pubcomp 1 0)]                                            -- 9  S: PUBCOMP 1 — the exchange ends

/-- the state after the first `n` ops -/
def c09St (n : Nat) : Server := run (init {}) (c09History.take n)

set_option maxRecDepth 100000 in
theorem C09_demo_fresh : OpsFresh (init {}) c09History := by decide

set_option maxRecDepth 100000 in
theorem C09_demo_schedOK : OpsSchedOK (init {}) c09History := by decide

set_option maxRecDepth 100000 in
/-- before the delivery (prefixes 0 … 3) the session holds no record -/
theorem C09_demo_not_holds_before :
    ¬ Holds (run (init {}) (c09History.take 0)) [115] 1 [97] ∧
    ¬ Holds (run (init {}) (c09History.take 1)) [115] 1 [97] ∧
    ¬ Holds (run (init {}) (c09History.take 2)) [115] 1 [97] ∧
    ¬ Holds (run (init {}) (c09History.take 3)) [115] 1 [97] := by decide

set_option maxRecDepth 100000 in
/-- from the delivery (prefix 4) up to just before the PUBCOMP (prefix 9) the session holds the record -/
theorem C09_demo_holds :
    Holds (run (init {}) (c09History.take 4)) [115] 1 [97] ∧
    Holds (run (init {}) (c09History.take 5)) [115] 1 [97] ∧
    Holds (run (init {}) (c09History.take 6)) [115] 1 [97] ∧
    Holds (run (init {}) (c09History.take 7)) [115] 1 [97] ∧
    Holds (run (init {}) (c09History.take 8)) [115] 1 [97] ∧
    Holds (run (init {}) (c09History.take 9)) [115] 1 [97] := by decide

set_option maxRecDepth 100000 in
/-- after the PUBCOMP it does not -/
theorem C09_demo_not_holds_after : ¬ Holds (run (init {}) c09History) [115] 1 [97] := by decide

set_option maxRecDepth 100000 in
/-- the record is the PUBLISH up to the PUBREC and the PUBREL after it -/
theorem C09_demo_record_types :
    (flGet (getObj (c09St 4) 1) 1).map (·.type) = some 3 ∧
    (flGet (getObj (c09St 7) 3) 1).map (·.type) = some 3 ∧
    (flGet (getObj (c09St 8) 3) 1).map (·.type) = some 6 ∧
    (flGet (getObj (c09St 9) 4) 1).map (·.type) = some 6 ∧
    flGet (getObj (c09St 10) 4) 1 = none := by decide

set_option maxRecDepth 100000 in
/-- none of the ops before the PUBCOMP may end the exchange … -/
theorem C09_demo_not_ends :
    ∀ n ∈ List.range 9, ¬ Ends (run (init {}) (c09History.take n)) [115] 1 (c09History.getD n (.tick "" 0)) := by
  decide

set_option maxRecDepth 100000 in
/-- … and the PUBCOMP may -/
theorem C09_demo_ends :
    Ends (run (init {}) (c09History.take 9)) [115] 1 (.recv 4 (.pubcomp 1 0)) := by decide

/-- is this output a PUBLISH with packet identifier `id` written to connection `conn`? -/
def isPublishTo (conn id : Nat) : Out → Bool
  | .wrote c (.publish _ m _) => c == conn && m.id == id
  | _ => false

set_option maxRecDepth 100000 in
/-- the resuming CONNECT (connection 3) resends PUBLISH 1 with DUP set and the payload -/
theorem C09_demo_resume_resends_dup :
    (step (run (init {}) (c09History.take 6)) (.connect 3 c09S)).2.any (fun o =>
      match o with
      | .wrote 3 (.publish 5 m _) => m.dup && m.id == 1 && m.payload == [97] && m.qos == 2
      | _ => false) = true := by decide

set_option maxRecDepth 100000 in
/-- the first delivery (op 3) wrote it to connection 1 without DUP -/
theorem C09_demo_first_delivery_no_dup :
    (step (run (init {}) (c09History.take 3)) (.recv 2 (.publish 2 false false 1 [116] [97] 0 none))).2.any (fun o =>
      match o with
      | .wrote 1 (.publish 5 m _) => !m.dup && m.id == 1 && m.payload == [97] && m.qos == 2
      | _ => false) = true := by decide

set_option maxRecDepth 100000 in
/-- the PUBREC (op 7) is answered with PUBREL 1 -/
theorem C09_demo_pubrec_answered :
    Out.wrote 3 (.ack 5 6 1 0) ∈ (step (run (init {}) (c09History.take 7)) (.recv 3 (.pubrec 1 0))).2 := by decide

set_option maxRecDepth 100000 in
/-- the take-over CONNECT (connection 4) resends PUBREL 1 and no PUBLISH 1 -/
theorem C09_demo_takeover_resends_pubrel :
    Out.wrote 4 (.ack 5 6 1 0) ∈ (step (run (init {}) (c09History.take 8)) (.connect 4 c09S)).2 ∧
    (step (run (init {}) (c09History.take 8)) (.connect 4 c09S)).2.any (isPublishTo 4 1) = false := by decide

/-- the ops named in the statements above are the ops of the history -/
theorem C09_demo_ops :
    c09History.getD 3 (.tick "" 0) = .recv 2 (.publish 2 false false 1 [116] [97] 0 none) ∧
    c09History.getD 6 (.tick "" 0) = .connect 3 c09S ∧
    c09History.getD 7 (.tick "" 0) = .recv 3 (.pubrec 1 0) ∧
    c09History.getD 8 (.tick "" 0) = .connect 4 c09S ∧
    c09History.getD 9 (.tick "" 0) = .recv 4 (.pubcomp 1 0) ∧ c09History.length = 10 :=
  ⟨rfl, rfl, rfl, rfl, rfl, rfl⟩

/-! ### 2. F09 -/

def HoldsAny (s : Server) (cid : Str) (k : Nat) (p : Str) : Prop :=
  ∃ i, assocGet s.clients cid = some i ∧ ∃ m, flGet (getObj s i) k = some m ∧ ((m.type = 3 ∧ m.payload = p) ∨ m.type = 6)

instance (s : Server) (cid : Str) (k : Nat) (p : Str) : Decidable (HoldsAny s cid k p) :=
  match h : assocGet s.clients cid with
  | some i =>
    match h' : flGet (getObj s i) k with
    | some m =>
      if h'' : (m.type = 3 ∧ m.payload = p) ∨ m.type = 6 then isTrue ⟨i, h, m, h', h''⟩
      else isFalse (by rintro ⟨i', hi, m', hm, hr⟩; rw [h] at hi; cases hi; rw [h'] at hm; cases hm; exact h'' hr)
    | none => isFalse (by rintro ⟨i', hi, m', hm, _⟩; rw [h] at hi; cases hi; rw [h'] at hm; cases hm)
  | none => isFalse (by rintro ⟨i', hi, _⟩; rw [h] at hi; cases hi)

def f09History : List Op :=
  [.connect 1 { ver := 5, clean := false, id := [115], sei := some 100, rm := some 1 },
   .recv 1 (.subscribe 1 0 [{ filter := [116], qos := 1 }]),
   .connect 2 { ver := 5, id := [112] },
   .recv 2 (.publish 1 false false 1 [116] [97] 0 none),
   .recv 2 (.publish 1 false false 2 [116] [98] 0 none)]

/-- the state after the five ops: PUBLISH 1 delivered, PUBLISH 2 deferred -/
def f09St : Server := run (init {}) f09History


/-- **F09**: before the PUBACK the session has, under packet identifier 2, the PUBLISH with payload "b", deferred by
    Receive Maximum 1 (`expiry = -1`): `Holds` does not count it, `HoldsAny` (= `Holds` without the `0 ≤ expiry`
    clause) does.  The PUBACK of packet 1 is not an op that may end exchange 2 — yet it releases the deferred
    message (`nextImmediate`): it is written and DELETED from the in-flight list, `HoldsAny` is lost. -/
theorem C09_deferred_release_counterexample :
    OpsFresh (init {}) f09History ∧ OpsSchedOK (init {}) f09History ∧
    assocGet (run (init {}) f09History).clients [115] = some 1 ∧
    (flGet (getObj (run (init {}) f09History) 1) 2).map (fun m => (m.type, m.payload, m.expiry)) = some (3, [98], -1) ∧
    ¬ Holds (run (init {}) f09History) [115] 2 [98] ∧
    HoldsAny (run (init {}) f09History) [115] 2 [98] ∧
    ¬ Ends (run (init {}) f09History) [115] 2 (.recv 1 (.puback 1 0)) ∧
    SchedOK (run (init {}) f09History) (.recv 1 (.puback 1 0)) ∧
    ¬ HoldsAny (step (run (init {}) f09History) (.recv 1 (.puback 1 0))).1 [115] 2 [98] ∧
    flGet (getObj (step (run (init {}) f09History) (.recv 1 (.puback 1 0))).1 1) 2 = none ∧
    (step (run (init {}) f09History) (.recv 1 (.puback 1 0))).2.any (fun o =>
      match o with
      | .wrote 1 (.publish 5 m _) => m.id == 2 && m.payload == [98] && !m.dup
      | _ => false) = true := by decide

/-! ### 3. schedule ops

Explored (with `#eval`, a depth-first search over all op sequences of length ≤ 4 from an alphabet of 40 ops —
`connectHold` stage 1 / 2 and `connect` for S's client id with and without a session expiry interval, MQTT 3, with a
will; `drop`, `dropHold`, `dropHoldEarly`, `release`, `recv`, `recvCut` on S's connection and on the parked ones;
ticks — from four base states in which S holds the record; about 2·10⁶ steps, `SchedOK` respected or not): NO step
with `Holds s ∧ ¬ Ends s op ∧ ¬ Holds (step s op).1`.  `Ends` is wide enough to cover the schedules `SchedOK`
forbids: `EndsDrop` / `EndsRecv` / `EndsParked` look at the client id of the object of the connection, registered or
not.  Below: the depth-1 part of that search as a `decide` statement, and the one notable schedule. -/

/-- a CONNECT for S's client id WITHOUT a session expiry interval: its session ends with its connection -/
def c09S0 : Connect := { ver := 5, clean := false, id := [115] }

/-- schedules applied to the state in which S (connection 1) holds the record -/
def c09SchedPrefixes : List (List Op) :=
  [[],
   [.connectHold 5 c09S0 1],                    -- a second CONNECT for S's id, parked in the authentication hook
   [.connectHold 5 c09S 1],
   [.connectHold 5 c09S0 2],                    -- … parked after `Clients.Add`: it has inherited the session
   [.connectHold 5 c09S 2],
   [.dropHold 1],                               -- S's handler parked before its session clean-up
   [.dropHoldEarly 1],                          -- … right after its read loop
   [.dropHoldEarly 1, .connectHold 5 c09S 1],
   [.dropHold 1, .connectHold 5 c09S0 2],
   [.connectHold 5 c09S0 1, .connectHold 6 c09S 2]]

def c09SchedOps : List Op :=
  [.connectHold 6 c09S 1, .connectHold 6 c09S 2, .connectHold 6 c09S0 1, .connectHold 6 c09S0 2,
   .connect 7 c09S, .connect 7 c09S0,
   .drop 1, .drop 5, .drop 6, .dropHold 1, .dropHold 5, .dropHold 6, .dropHoldEarly 1, .dropHoldEarly 5, .dropHoldEarly 6,
   .release 1, .release 5, .release 6,
   .recv 1 (.pubrec 1 0), .recv 5 (.pubrec 1 0), .recv 5 .pingreq, .recv 5 (.disconnect 0 none),
   .recv 5 (.disconnect 4 none), .recv 2 (.publish 1 false false 3 [116] [99] 0 none),
   .recvCut 1 .pingreq, .recvCut 5 .pingreq, .tick "inflight" 1000001, .tick "clients" 1000001]

set_option maxRecDepth 100000 in
/-- no counterexample among these schedules, whether they respect `SchedOK` or not: an op that is not `Ends` keeps
    the record -/
theorem C09_sched_no_counterexample :
    ∀ pre ∈ c09SchedPrefixes, ∀ op ∈ c09SchedOps,
      OpFresh (run (init {}) (c09History.take 4 ++ pre)) op →
      Holds (run (init {}) (c09History.take 4 ++ pre)) [115] 1 [97] →
      Ends (run (init {}) (c09History.take 4 ++ pre)) [115] 1 op ∨
      Holds (step (run (init {}) (c09History.take 4 ++ pre)) op).1 [115] 1 [97] := by decide

set_option maxRecDepth 100000 in
/-- the notable schedule (it violates `SchedOK`: a parked handler does not read): a second CONNECT for S's client id,
    without a session expiry interval, is parked in the authentication hook — nothing is registered for it — and its
    connection is dropped: its clean-up removes the registration of S's session (object 1, which still has the
    record), so `Holds` is lost; `Ends` counts this `drop` (`EndsDrop` looks at the client id of the object of the
    connection), so this is not a counterexample to the survival statement -/
theorem C09_sched_parked_drop_unregisters :
    Holds (run (init {}) (c09History.take 4 ++ [.connectHold 5 c09S0 1])) [115] 1 [97] ∧
    ¬ SchedOK (run (init {}) (c09History.take 4 ++ [.connectHold 5 c09S0 1])) (.drop 5) ∧
    Ends (run (init {}) (c09History.take 4 ++ [.connectHold 5 c09S0 1])) [115] 1 (.drop 5) ∧
    ¬ Holds (step (run (init {}) (c09History.take 4 ++ [.connectHold 5 c09S0 1])) (.drop 5)).1 [115] 1 [97] ∧
    assocGet (step (run (init {}) (c09History.take 4 ++ [.connectHold 5 c09S0 1])) (.drop 5)).1.clients [115] = none ∧
    Rec (getObj (step (run (init {}) (c09History.take 4 ++ [.connectHold 5 c09S0 1])) (.drop 5)).1 1) 1 [97] := by
  decide

set_option maxRecDepth 100000 in
/-- the same CONNECT released instead (this respects `SchedOK`): it takes the session over, the record moves to its
    object (3) and is resent with DUP; not `Ends`, and `Holds` is kept -/
theorem C09_sched_parked_release_keeps :
    OpsSchedOK (init {}) (c09History.take 4 ++ [.connectHold 5 c09S0 1, .release 5]) ∧
    ¬ Ends (run (init {}) (c09History.take 4 ++ [.connectHold 5 c09S0 1])) [115] 1 (.release 5) ∧
    Holds (step (run (init {}) (c09History.take 4 ++ [.connectHold 5 c09S0 1])) (.release 5)).1 [115] 1 [97] ∧
    (step (run (init {}) (c09History.take 4 ++ [.connectHold 5 c09S0 1])) (.release 5)).2.any (fun o =>
      match o with
      | .wrote 5 (.publish 5 m _) => m.dup && m.id == 1 && m.payload == [97]
      | _ => false) = true := by decide

set_option maxRecDepth 100000 in
/-- non-vacuity of `C09_sched_no_counterexample`: S holds the record after each of the schedules -/
theorem C09_sched_prefixes_hold :
    ∀ pre ∈ c09SchedPrefixes, OpsFresh (init {}) (c09History.take 4 ++ pre) ∧
      Holds (run (init {}) (c09History.take 4 ++ pre)) [115] 1 [97] := by decide

end Mochi.Broker
