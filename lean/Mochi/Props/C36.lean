import Mochi.Lemmas.Shutdown
/-!
# C36 — Shutdown closes every connection and waits for all handlers

"When the server is closed, every connected client is disconnected (MQTT 5 clients receive DISCONNECT
0x8B) and its connection closed, every listener stops accepting, and the close call returns only after
every connection handler has finished. This holds for any schedule of connections being established
concurrently with shutdown."

Model M4b (`Model/Shutdown.lean`): the closer executes `Server.Close` → `Listeners.CloseAll` → per
listener `TCP.Close` (`end` flag, `closeListenerClients`: snapshot `Clients.GetByListener`, then
`DisconnectClient` = write DISCONNECT, `cl.Stop`), `ClientsWg.Wait()`, hooks; each accepted connection
executes `TCP.Serve`'s `end` test and `attachClient` statement by statement; peers may close connections
at any time. Everything below is for **every** number of listeners (visited in any order), **every**
number of connections of any protocol version on any listener and **every** schedule (`List Ev`).

Proved (invariant `Inv`, `Lemmas/Shutdown.lean`, by induction over the schedule):
* `C36_registered_before_snapshot_closed` — a handler that executed `Clients.Add` before the closer
  enumerated its listener's clients is, when `Close` has returned, stopped (connection closed,
  MQTT 5: written DISCONNECT 0x8B unless its peer had closed the connection first) and finished;
* `C36_returns_only_when_counted_done` — when `Close` has returned, every handler that executed
  `ClientsWg.Add(1)` before `Wait` returned has executed `ClientsWg.Done()` and finished;
* `C36_listeners_stopped` — when `Close` has returned every listener has `end = 1` and its net listener
  closed, and a connection still waiting at the `end` test is dropped, never served;
* `C36_full_safety_partial` — the property's safety half for every handler outside the two findings.

The full property is **false** of the code, in three ways (F36a and F36b are replayed on the real broker
by forced schedules of the `shutdown` correspondence suite on every run; F36c by a race loop):
* `C36_late_registration_counterexample` (F36a) — `ClientsWg.Add(1)` … `Clients.Add` are executed inside
  the handler, not under any lock shared with `Close`: a handler that passes `Clients.Add` after the
  snapshot is never disconnected. `Close` blocks in `Wait` for as long as that client chooses to stay,
  and the client is being served (CONNACK written) by a broker whose `done` channel is closed and whose
  listeners have ended. No step of the broker changes that state.
* `C36_uncounted_handler_counterexample` (F36b) — `TCP.Serve` spawns the goroutine, the goroutine adds
  itself to the wait group: `Wait` succeeds while a spawned handler has not yet executed `Add(1)`;
  `Close` returns (hooks stopped) and the handler then runs its whole program against the closed server.
* `C36_wait_reuse_panic_counterexample` (F36c) — the same uncounted handler executing `Add(1)` between
  the `Done` that releases the sleeping `Wait` and `Wait` waking up: the Go runtime panics inside
  `Server.Close` ("WaitGroup is reused before previous Wait has returned"). Reproduced on the real
  broker by the `sd.race` stress op (a race, not a forced schedule).
-/
namespace Mochi.Shutdown

/-- connections as `TCP.Serve` obtains them from `Accept`: (listener, protocol version) -/
def conns (cs : List (Nat × Nat)) : List H := cs.map fun c => { lis := c.1, ver := c.2 }

/-- the system at the moment nothing has run: listeners `order` (in the order `CloseAll` will visit
    them), connections `cs` -/
def boot (order : List Nat) (cs : List (Nat × Nat)) : Sys := start order (conns cs)

theorem inv_boot (order : List Nat) (cs : List (Nat × Nat)) : Inv order (boot order cs) := by
  apply inv_start
  intro h hh
  simp only [conns, List.mem_map] at hh
  obtain ⟨c, _, rfl⟩ := hh
  simp

theorem inv_reach (order : List Nat) (cs : List (Nat × Nat)) (sched : List Ev) :
    Inv order (run (boot order cs) sched) := inv_run order sched _ (inv_boot order cs)

theorem returned_waitPassed {order : List Nat} {s : Sys} (hI : Inv order s) (hr : s.cpc = .returned) :
    s.waitPassed = true := hI.waitLate.2 (by simp [hr, afterWait])

/-- **Clients registered before the snapshot are disconnected, closed and waited for.** -/
theorem C36_registered_before_snapshot_closed (order : List Nat) (cs : List (Nat × Nat)) (sched : List Ev) :
    let s := run (boot order cs) sched
    s.cpc = .returned → ∀ h ∈ s.hs, h.lis ∈ order → h.regBeforeSnap = true →
      h.stopped = true ∧
      (h.ver ≥ 5 → Out.disconnect 0x8B ∈ h.out ∨ h.peerClosed = true) ∧
      h.pc = .finished := by
  intro s hr h hh hl hreg
  have hI : Inv order s := inv_reach order cs sched
  obtain ⟨i, hi⟩ := List.mem_iff_getElem?.1 hh
  have hH := hI.hinv i h hi
  have hw := returned_waitPassed hI hr
  have hsn := (hI.allSnap hw h.lis hl).1
  have hst : h.stopped = true := by
    rcases hH.pend hreg hsn with h1 | h1
    · exact h1
    · simp [hr, pendingFor] at h1
  exact ⟨hst, hH.goodS hst, hH.waitF hw (hH.regAdd hreg hl)⟩

/-- **`Close` returns only after every handler that had counted itself has finished.** -/
theorem C36_returns_only_when_counted_done (order : List Nat) (cs : List (Nat × Nat)) (sched : List Ev) :
    let s := run (boot order cs) sched
    s.cpc = .returned → ∀ h ∈ s.hs, h.addBeforeWait = true → h.pc = .finished := by
  intro s hr h hh hab
  have hI : Inv order s := inv_reach order cs sched
  obtain ⟨i, hi⟩ := List.mem_iff_getElem?.1 hh
  exact (hI.hinv i h hi).waitF (returned_waitPassed hI hr) hab

/-- **Every listener has stopped accepting**: `end` is set, the net listener is closed, and a
    connection that `Accept` had already returned is dropped at the `end` test (no handler is spawned). -/
theorem C36_listeners_stopped (order : List Nat) (cs : List (Nat × Nat)) (sched : List Ev) :
    let s := run (boot order cs) sched
    s.cpc = .returned → ∀ l ∈ order, l ∈ s.ended ∧ l ∈ s.netClosed ∧
      ∀ i h, s.hs[i]? = some h → h.lis = l → h.pc = .endTest →
        ((stepHandler s i).hs[i]?.map (·.pc)) = some .dropped := by
  intro s hr l hl
  have hI : Inv order s := inv_reach order cs sched
  have hall := hI.allSnap (returned_waitPassed hI hr) l hl
  refine ⟨hall.2.1, hall.2.2, ?_⟩
  intro i h hi hlis hpc
  have hlt := lt_of_getElem? hi
  have hc : s.ended.contains h.lis = true := by
    rw [hlis]; simpa using hall.2.1
  have hstep : stepHandler s i = { s with hs := s.hs.set i { h with pc := .dropped } } := by
    unfold stepHandler
    rw [hi]
    simp only [hpc, hc, if_true]
  rw [hstep]
  simp [hlt]

/-- the clause of the property about one connection: closed, handler finished, MQTT 5 told why -/
def ClosedOne (h : H) : Prop :=
  h.stopped = true ∧ h.pc = .finished ∧
  (h.ver ≥ 5 → Out.connack ∈ h.out → Out.disconnect 0x8B ∈ h.out ∨ h.peerClosed = true)

/-- **C36 as its text states it, safety half**: when `Close` has returned every spawned handler has
    finished with its connection closed (MQTT 5 clients that were connected: DISCONNECT 0x8B) and every
    listener has stopped. -/
def C36_full_safety (order : List Nat) (cs : List (Nat × Nat)) (sched : List Ev) : Prop :=
  let s := run (boot order cs) sched
  s.cpc = .returned → (∀ h ∈ s.hs, h.pc.spawned = true → ClosedOne h) ∧ (∀ l ∈ order, l ∈ s.ended ∧ l ∈ s.netClosed)

/-- **C36 as its text states it, progress half**: once `Close` has been called, the broker's own steps
    (no peer has to leave) bring it to return with every client disconnected. -/
def C36_full_progress (order : List Nat) (cs : List (Nat × Nat)) (sched : List Ev) : Prop :=
  let s := run (boot order cs) sched
  s.cpc ≠ .closeDone → ∃ ext : List Ev, (∀ e ∈ ext, e.isPeer = false) ∧ (run s ext).cpc = .returned

/-- what holds outside the two findings: a handler that counted itself before `Wait` returned
    (not F36b) and, if it registered, registered before the snapshot (not F36a) -/
theorem C36_full_safety_partial (order : List Nat) (cs : List (Nat × Nat)) (sched : List Ev) :
    let s := run (boot order cs) sched
    s.cpc = .returned → ∀ h ∈ s.hs, h.lis ∈ order →
      h.addBeforeWait = true → (h.registered = true → h.regBeforeSnap = true) →
      h.stopped = true ∧ h.pc = .finished ∧
      (h.ver ≥ 5 → h.registered = true → Out.disconnect 0x8B ∈ h.out ∨ h.peerClosed = true) := by
  intro s hr h hh hl hab hreg
  have hI : Inv order s := inv_reach order cs sched
  obtain ⟨i, hi⟩ := List.mem_iff_getElem?.1 hh
  have hH := hI.hinv i h hi
  have hfin := hH.waitF (returned_waitPassed hI hr) hab
  have hst := hH.fin (Or.inr hfin)
  exact ⟨hst, hfin, fun hv _ => hH.goodS hst hv⟩

/-! ## Non-vacuity: the hypotheses are reached, with real interleaving -/

/-- two listeners closed in the order 1, 0; an MQTT 5 client on listener 0 and an MQTT 3.1.1 client on
    listener 1 are established while `Close` is already under way (listener 1 being closed), a third
    connection arrives too late and is dropped; `Close` returns, both clients registered before their
    snapshot, were written DISCONNECT (0x8B for MQTT 5), are stopped and finished -/
def okSched : List Ev :=
  [.handler 0, .handler 0, .handler 0, .handler 0, .handler 0, .handler 0, .handler 0,    -- c0 up to Clients.Add
   .handler 1, .handler 1,                                                                -- c1: end test, Add(1)
   .closer, .closer,                                                                      -- close(done); end[1] = 1
   .handler 1, .handler 1, .handler 1, .handler 1, .handler 1, .handler 1, .handler 1,    -- c1 registered, CONNACK, reading
   .handler 2,                                                                            -- c2 on listener 1: dropped
   .closer, .closer, .closer,                                                             -- snapshot [1]; DISCONNECT; Stop
   .handler 0, .handler 0,                                                                -- c0: CONNACK, reading
   .closer, .closer, .closer,                                                             -- net close 1; end[0] = 1; snapshot [0]
   .handler 1, .handler 1,                                                                -- c1: read loop ends, teardown
   .closer, .closer, .closer, .closer, .closer, .closer, .closer,                         -- DISCONNECT c0; Stop; net close; Wait: blocked
   .handler 1, .handler 0, .handler 0, .handler 0,                                        -- Done, Done
   .closer, .closer]                                                                      -- Wait returns; hooks; return

example :
    let s := run (boot [1, 0] [(0, 5), (1, 4), (1, 5)]) okSched
    s.cpc = .returned ∧ s.wg = 0 ∧
    s.hs.map (fun h => (h.pc, h.regBeforeSnap, h.addBeforeWait, h.stopped, h.out)) =
      [(.finished, true, true, true, [.connack, .disconnect 0x8B]),
       (.finished, true, true, true, [.connack, .disconnect 0]),
       (.dropped, false, false, false, [])] := by decide

/-- the same run satisfies the full statement: the findings need their particular windows -/
example : C36_full_safety [1, 0] [(0, 5), (1, 4), (1, 5)] okSched := by
  unfold C36_full_safety ClosedOne; decide

/-- `Wait` really blocks: one step before the last `Done` the closer is still waiting -/
example : (run (boot [1, 0] [(0, 5), (1, 4), (1, 5)]) (okSched.take 39 ++ [.closer, .closer])).cpc = .wgBlocked := by decide

/-! ## F36a — a client registered after the snapshot is never disconnected -/

/-- handler parked inside the authentication hook (counted, not yet registered) while `Close` runs to
    `Wait`; then it registers, is acknowledged and reads -/
def lateSched : List Ev :=
  [.handler 0, .handler 0, .handler 0,                                  -- end test, Add(1), CONNECT read
   .closer, .closer, .closer, .closer, .closer, .closer, .closer,       -- close(done) … snapshot [] … net close; Wait: blocked
   .handler 0, .handler 0, .handler 0, .handler 0, .handler 0,          -- auth, counter, inherit, Clients.Add, CONNACK
   .handler 0, .closer]                                                 -- read loop: blocked; Wait: blocked

def lateState : Sys := run (boot [0] [(0, 5)]) lateSched

def lateLit : Sys :=
    { cpc := .wgBlocked, todoL := [], done := true, ended := [0], netClosed := [0], wg := 1, waiting := true,
      hooksStopped := false,
      hs := [{ lis := 0, ver := 5, pc := .readLoop, registered := true, stopped := false, peerClosed := false,
               out := [.connack], regBeforeSnap := false, addBeforeWait := true }],
      snapshotted := [0], waitPassed := false }

theorem lateState_eq : lateState = lateLit := by decide

theorem run_cons (s : Sys) (e : Ev) (rest : List Ev) : run s (e :: rest) = run (step s e) rest := rfl

theorem lateLit_stuck (ext : List Ev) (hext : ∀ e ∈ ext, e.isPeer = false) : run lateLit ext = lateLit := by
  induction ext with
  | nil => rfl
  | cons e rest ih =>
    have he : step lateLit e = lateLit := by
      have hp := hext e (by simp)
      cases e with
      | closer => decide
      | peerClose i => simp [Ev.isPeer] at hp
      | closerNext c => simp [step, closerNext, lateLit]
      | handler i =>
        cases i with
        | zero => decide
        | succ n => simp [step, stepHandler, lateLit]
    rw [run_cons, he]
    exact ih (fun e' h' => hext e' (by simp [h']))

/-- no step of the broker moves the late state: the closer waits for the handler, the handler waits for
    its client -/
theorem lateState_stuck (ext : List Ev) (hext : ∀ e ∈ ext, e.isPeer = false) : run lateState ext = lateState := by
  rw [lateState_eq]; exact lateLit_stuck ext hext

/-- **F36a.** The progress half of C36 fails: after `lateSched` the MQTT 5 client holds a CONNACK from a
    broker whose `done` channel is closed and whose listener has ended, it was never written a
    DISCONNECT, its connection is open, and whatever the broker does from here `Close` does not return —
    it returns only if the client itself leaves. -/
theorem C36_late_registration_counterexample :
    ¬ C36_full_progress [0] [(0, 5)] lateSched ∧
    (lateState.done = true ∧ lateState.ended = [0] ∧ lateState.cpc = .wgBlocked ∧
     lateState.hs.map (fun h => (h.pc, h.registered, h.regBeforeSnap, h.stopped, h.out)) =
       [(.readLoop, true, false, false, [.connack])]) ∧
    (∀ ext : List Ev, (∀ e ∈ ext, e.isPeer = false) → run lateState ext = lateState) ∧
    (run lateState [.peerClose 0, .handler 0, .handler 0, .handler 0, .closer, .closer]).cpc = .returned := by
  refine ⟨?_, by decide, lateState_stuck, by decide⟩
  intro hp
  obtain ⟨ext, hext, hret⟩ := hp (by decide)
  have hstuck : run (run (boot [0] [(0, 5)]) lateSched) ext = lateState := lateState_stuck ext hext
  rw [hstuck] at hret
  revert hret
  decide

/-! ## F36b — `Close` returns while a spawned handler has not yet counted itself -/

/-- the listener's `end` test passes and the goroutine is spawned; `Close` runs from start to return
    before that goroutine executes its first statement, `ClientsWg.Add(1)` -/
def uncountedSched : List Ev :=
  [.handler 0,                                                                   -- end test passed: goroutine spawned
   .closer, .closer, .closer, .closer, .closer, .closer, .closer, .closer, .closer]  -- … Wait: counter 0; hooks; return

/-- **F36b.** The safety half of C36 fails: `Close` has returned (hooks stopped) and the handler of an
    accepted connection has not finished — it has not even started; run on, it executes its whole
    program against the closed server: the client is acknowledged and served, nothing will disconnect it. -/
theorem C36_uncounted_handler_counterexample :
    ¬ C36_full_safety [0] [(0, 5)] uncountedSched ∧
    (let s := run (boot [0] [(0, 5)]) uncountedSched
     s.cpc = .returned ∧ s.hooksStopped = true ∧ s.wg = 0 ∧
     s.hs.map (fun h => (h.pc, h.addBeforeWait, h.stopped)) = [(.wgAdd, false, false)]) ∧
    (let s := run (boot [0] [(0, 5)]) (uncountedSched ++
        [.handler 0, .handler 0, .handler 0, .handler 0, .handler 0, .handler 0, .handler 0, .handler 0, .closer])
     s.cpc = .returned ∧ s.wg = 1 ∧
     s.hs.map (fun h => (h.pc, h.registered, h.addBeforeWait, h.stopped, h.out)) =
       [(.readLoop, true, false, false, [.connack])]) := by
  refine ⟨?_, by decide, by decide⟩
  unfold C36_full_safety ClosedOne
  decide

/-! ## F36c — the same window makes `Close` panic -/

theorem stepHandler_cpc (s : Sys) (i : Nat) : (stepHandler s i).cpc = s.cpc := by
  unfold stepHandler
  cases s.hs[i]? with
  | none => rfl
  | some h =>
    simp only
    cases h.pc <;> simp only <;> (try split) <;> rfl

/-- after the panic nothing brings `Close` to return -/
theorem panicked_absorbing (s : Sys) (h : s.cpc = .panicked) (ext : List Ev) : (run s ext).cpc = .panicked := by
  induction ext generalizing s with
  | nil => exact h
  | cons e rest ih =>
    rw [run_cons]
    apply ih
    cases e with
    | closer => simp [step, stepCloser, h]
    | handler i => simp [step, stepHandler_cpc, h]
    | peerClose i =>
      simp only [step, peerClose]
      cases s.hs[i]? with
      | none => exact h
      | some u => simp only; split <;> exact h
    | closerNext c => simp [step, closerNext, h]

/-- an established client and a second connection whose goroutine is spawned but has not yet counted
    itself; `Close` disconnects the first and sleeps in `Wait`; the first handler's `Done` brings the
    counter to 0 and releases the waiter; before the waiter runs, the second handler executes `Add(1)` -/
def reuseSched : List Ev :=
  [.handler 0, .handler 0, .handler 0, .handler 0, .handler 0, .handler 0, .handler 0, .handler 0,   -- c0 established, reading
   .handler 1,                                                                                       -- c1: end test passed, spawned
   .closer, .closer, .closer, .closer, .closer, .closer, .closer, .closer, .closer,                   -- … DISCONNECT c0, Stop … Wait: asleep
   .handler 0, .handler 0, .handler 0,                                                                -- c0: teardown, Done: counter 0, waiter released
   .handler 1,                                                                                        -- c1: Add(1)
   .closer]                                                                                           -- Wait wakes: counter 1

/-- **F36c.** `Server.Close` panics ("sync: WaitGroup is reused before previous Wait has returned"): the
    uncounted handler of F36b adds itself between the `Done` that releases `Wait` and `Wait` waking up.
    The process dies inside `Close`; hooks are never stopped. (Reproduced on the real broker by a race
    loop, not by a forced schedule: the window is inside `sync.WaitGroup`.) -/
theorem C36_wait_reuse_panic_counterexample :
    (let s := run (boot [0] [(0, 5), (0, 5)]) reuseSched
     s.cpc = .panicked ∧ s.hooksStopped = false ∧ s.wg = 1 ∧
     s.hs.map (fun h => (h.pc, h.addBeforeWait, h.out)) =
       [(.finished, true, [.connack, .disconnect 0x8B]), (.readConnect, true, [])]) ∧
    ¬ C36_full_progress [0] [(0, 5), (0, 5)] reuseSched := by
  refine ⟨by decide, ?_⟩
  intro hp
  obtain ⟨ext, _, hret⟩ := hp (by decide)
  have := panicked_absorbing (run (boot [0] [(0, 5), (0, 5)]) reuseSched) (by decide) ext
  rw [this] at hret
  exact absurd hret (by decide)

/-- both findings need the window: the same connection established before `Close` is called is
    disconnected with 0x8B, closed and waited for -/
example :
    let s := run (boot [0] [(0, 5)])
      ([.handler 0, .handler 0, .handler 0, .handler 0, .handler 0, .handler 0, .handler 0, .handler 0, .handler 0] ++
       [.closer, .closer, .closer, .closer, .closer, .closer, .closer] ++ [.handler 0, .handler 0, .handler 0] ++
       [.closer, .closer, .closer])
    s.cpc = .returned ∧ s.hs.map (fun h => (h.pc, h.stopped, h.out)) = [(.finished, true, [.connack, .disconnect 0x8B])] := by
  decide

end Mochi.Shutdown

#print axioms Mochi.Shutdown.C36_registered_before_snapshot_closed
#print axioms Mochi.Shutdown.C36_returns_only_when_counted_done
#print axioms Mochi.Shutdown.C36_listeners_stopped
#print axioms Mochi.Shutdown.C36_full_safety_partial
#print axioms Mochi.Shutdown.C36_late_registration_counterexample
#print axioms Mochi.Shutdown.C36_uncounted_handler_counterexample
#print axioms Mochi.Shutdown.C36_wait_reuse_panic_counterexample
