import Mochi.Model.Broker
import Mochi.Lemmas.BrokerWill
import Mochi.Props.C03
/-!
# C16 — Will messages are published exactly when the protocol requires

Model: `sendLWT`, `detach` (the end of `attachClient`), `processDisconnect`, `tickWills`.
Schedules of the old connection's teardown against a resuming connection (known finding F16a) are
the concurrency model's subject.

For every state reachable by a sequential history (`ReachSeq`; lemmas in `Mochi/Lemmas/BrokerWill.lean`):
* `C16_drop_publishes_will_iff` — connection loss: outputs = will fan-out + will event iff flag ∧ delay = 0; with a
  delay the will is registered in `willDelayed`; without a will nothing; `C16_drop_will_receivers_partial` — who
  receives it (`DeliversExactly`, restrictions of the C03 delivery theorem);
* `C16_disconnect_iff` — DISCONNECT: every reason but 0x04 discards the will and the registered delayed will; 0x04 as a
  connection loss; restricted to packets that are not the protocol error of
  `C16_disconnect_violation_publishes_will` (Go: server.go:1431-1434);
* `C16_delayed_will_iff` — the tick is the fold over the due entries (each once, removed); an admitted CONNECT of the
  id removes the entry (sequential half of "a resumption cancels it"; F16a: `C16_cancelled_by_resume_counterexample`);
* `C16_will_at_most_once_seq` — at most once, as state-level facts;
* non-vacuity: `c16History` (will client dropped, delayed will cancelled / published, DISCONNECT, take-over).
-/
namespace Mochi.Broker
open Mochi.Topics

/-- a client without a will never has one published -/
theorem C16_no_will (s : Server) (i : Nat) (h : (getObj s i).will.flag = false) : sendLWT s i = (s, []) := by
  unfold sendLWT; simp [h]

/-- after a normal DISCONNECT the will is discarded: the read loop ends without error and the will is
    cleared, so it can never be published later -/
theorem C16_normal_disconnect_clears (s : Server) (i : Nat) (h : i < s.objs.length) :
    (getObj (modObj s i (fun c => { c with will := {} })) i).will.flag = false := by
  simp [modObj, getObj, setObj, h]

/-- a normal DISCONNECT (reason ≠ 0x04, no expiry change) ends the connection without error -/
theorem C16_disconnect_normal (s : Server) (i rc : Nat) (h : rc ≠ 0x04) :
    (processDisconnect s i rc none).2.2 = none := by
  unfold processDisconnect
  have : (rc == 4) = false := by simpa using h
  simp [this]

/-- DISCONNECT with reason 0x04 ends the connection *with* an error, which makes `attachClient`
    publish the will -/
theorem C16_disconnect_with_will (s : Server) (i : Nat) : (processDisconnect s i 0x04 none).2.2 = some 0x04 := by
  unfold processDisconnect; simp

/-- with a will delay the will is registered for later, not published now -/
theorem C16_delay_registers (s : Server) (i : Nat) (hf : (getObj s i).will.flag = true) (hd : (getObj s i).will.delay > 0) :
    (sendLWT s i).2 = [] ∧ (assocGet (sendLWT s i).1.willDelayed (getObj s i).id).isSome = true := by
  unfold sendLWT
  simp only [hf, Bool.not_true, Bool.false_eq_true, if_false, hd, if_true]
  constructor
  · trivial
  · generalize s.willDelayed = m
    induction m with
    | nil => simp [assocSet, assocGet]
    | cons x xs ih =>
      obtain ⟨a, b⟩ := x
      unfold assocSet
      by_cases hx : a = (getObj s i).id
      · simp [hx, assocGet]
      · simp only [hx, if_false, assocGet]
        exact ih

example : (processDisconnect (init {}) 0 0 none).2.2 = none := by decide

end Mochi.Broker

namespace Mochi.Broker

def runSrv (s : Server) (ops : List Op) : Server := ops.foldl (fun s op => (step s op).1) s

/-- **F16a (schedule).** Client `c1` (will delay 50 s, session expiry 100 s) loses its connection; its
    handler is parked right after the read loop; the same id reconnects with Clean Start 0 (session
    present — `willDelayed.Delete` runs); the old handler resumes and registers the delayed will; when
    the delay has elapsed the housekeeping publishes the will although the session was resumed.
    (Replayed on the real broker on every run: corpus/C16.) -/
theorem C16_cancelled_by_resume_counterexample :
    let s := runSrv (init {})
      [.connect 1 { ver := 5, clean := false, id := [99, 49], sei := some 100,
                    will := some { topic := [120], payload := [119], delay := 50 } },
       .dropHoldEarly 1,
       .connect 2 { ver := 5, clean := false, id := [99, 49], sei := some 100 },
       .release 1]
    s.willDelayed.length = 1 ∧ ((tickWills s (NOW + 3000)).2.filter fun o => match o with | .event _ => true | _ => false).length = 1 := by
  decide

/-- in the sequential order (the old handler finishes before the reconnect) the will is cancelled -/
example :
    let s := runSrv (init {})
      [.connect 1 { ver := 5, clean := false, id := [99, 49], sei := some 100,
                    will := some { topic := [120], payload := [119], delay := 50 } },
       .drop 1,
       .connect 2 { ver := 5, clean := false, id := [99, 49], sei := some 100 }]
    s.willDelayed.length = 0 := by decide

end Mochi.Broker

/-! ## C16 for every sequential history: connection loss -/
namespace Mochi.Broker
open Mochi.Topics

/-- what a will publication writes: the fan-out of the will message (`publishToSubscribers`, in the state with the
    retained store updated if the will is retained), then the event that marks the publication -/
def willOutputs (s : Server) (c : Client) : List Out :=
  (publishToSubscribers (retainedState s (willMsg c)) (willMsg c)).2 ++ [willEvent c.id]

/-- the invariants of a reachable state carry over to the state in which the handler learns that the peer is gone -/
theorem peerLost_inv {s : Server} (hs : SyncInv s) (hw : WF s) (hcm : ConnMap s) (i : Nat) :
    SyncInv (peerLost s i) ∧ WF (peerLost s i) ∧ ConnMap (peerLost s i) :=
  ⟨hs.of_quiet ((Quiet.refl s).mod i _ (by qc_rfl)), hw.of_good ((Good.refl s).mod i _ (by cw_rfl)),
    hcm.of_ck (CK.mod s i _ (fun _ => rfl) (fun _ => rfl))⟩

/-- **C16, connection loss (item 1).**  `s` reachable by a sequential history; `c` = client object `i`, a network
    client whose handler is in its read loop (not stopped); the op is the loss of `c`'s connection.  Then:

    * will flag set and no will delay: the outputs of the op are EXACTLY the fan-out of the will message followed by
      the will event (`willOutputs`; the close of the connection itself is not in the projection of a `drop`: the peer
      closed it); the will flag of the object is cleared and the object is stopped;
    * will flag set and a will delay: nothing is written, the will is registered in `willDelayed` under the client id,
      stamped with the time it becomes due;
    * no will: nothing is written, `willDelayed` is unchanged;
    * hence: the will event appears iff flag ∧ delay = 0, and a PUBLISH is written to anybody only then. -/
theorem C16_drop_publishes_will_iff (caps : Caps) (s : Server) (hr : ReachSeq caps s) (i : Nat)
    (hi : i < s.objs.length) (hin : (getObj s i).inline = false) (hst : (getObj s i).stopped = false) :
    let c := getObj s i
    let r := step s (.drop c.conn)
    (c.will.flag = true ∧ c.will.delay = 0 → r.2 = willOutputs (peerLost s i) c) ∧
    (c.will.flag = true ∧ c.will.delay > 0 →
      r.2 = [] ∧ r.1.willDelayed = assocSet s.willDelayed c.id (delayedWillMsg c)) ∧
    (c.will.flag = false → r.2 = [] ∧ r.1.willDelayed = s.willDelayed) ∧
    (willEvent c.id ∈ r.2 ↔ c.will.flag = true ∧ c.will.delay = 0) ∧
    ((∃ n ver m me, Out.wrote n (.publish ver m me) ∈ r.2) → c.will.flag = true ∧ c.will.delay = 0) := by
  intro c r
  obtain ⟨_, hw, hcm, _⟩ := hr.inv
  obtain ⟨e1, e2⟩ := step_drop_live s i hi hst hin (hcm i hi hin)
  have eo := getObj_peerLost_self s i hi
  have hwill : (getObj (peerLost s i) i).will = c.will := by rw [eo]
  have hid : (getObj (peerLost s i) i).id = c.id := by rw [eo]
  have hmsg := willMsg_peerLost s i hi
  have now : c.will.flag = true ∧ c.will.delay = 0 → r.2 = willOutputs (peerLost s i) c := by
    intro ⟨hf, hd⟩
    show (step s (.drop (getObj s i).conn)).2 = _
    rw [e1, sendLWT_now _ i (by rw [hwill]; exact hf) (by rw [hwill]; exact hd), hmsg, hid]
    show List.filter _ (_ ++ _) = _
    refine FanOut.filter_closed (FanOut.append (publishToSubscribers_fan _ (willMsg c) rfl) ?_) _
    intro x hx
    simp at hx
    subst hx
    rfl
  have delayed : c.will.flag = true ∧ c.will.delay > 0 →
      r.2 = [] ∧ r.1.willDelayed = assocSet s.willDelayed c.id (delayedWillMsg c) := by
    intro ⟨hf, hd⟩
    have e := sendLWT_delayed (peerLost s i) i (by rw [hwill]; exact hf) (by rw [hwill]; exact hd)
    constructor
    · show (step s (.drop (getObj s i).conn)).2 = _
      rw [e1, e]; rfl
    · show (step s (.drop (getObj s i).conn)).1.willDelayed = _
      rw [e2, e, eo]; rfl
  have nowill : c.will.flag = false → r.2 = [] ∧ r.1.willDelayed = s.willDelayed := by
    intro hf
    have e := sendLWT_noflag (peerLost s i) i (by rw [hwill]; exact hf)
    constructor
    · show (step s (.drop (getObj s i).conn)).2 = _
      rw [e1, e]; rfl
    · show (step s (.drop (getObj s i).conn)).1.willDelayed = _
      rw [e2, e]; rfl
  have cases3 : (c.will.flag = true ∧ c.will.delay = 0) ∨ r.2 = [] := by
    by_cases hf : c.will.flag = true
    · by_cases hd : c.will.delay = 0
      · exact Or.inl ⟨hf, hd⟩
      · exact Or.inr (delayed ⟨hf, Nat.pos_of_ne_zero hd⟩).1
    · exact Or.inr (nowill (by simpa using hf)).1
  refine ⟨now, delayed, nowill, ⟨fun h => ?_, fun h => ?_⟩, fun ⟨n, ver, m, me, h⟩ => ?_⟩
  · rcases cases3 with h' | h'
    · exact h'
    · rw [h'] at h; cases h
  · rw [now h]
    exact List.mem_append_right _ List.mem_cons_self
  · rcases cases3 with h' | h'
    · exact h'
    · rw [h'] at h; cases h

/-- **C16, connection loss: WHO receives the will** (restricted as the delivery theorem of C03 is: QoS 0 after
    shaping, a will topic that is non-empty and has no `#` level — will topics are not validated by the broker —, and no
    shared subscription matching it; for share groups see `C06_delivery_exact_reach_partial`).  The outputs of the op
    are `o ++ [will event]` where `o` is delivered exactly: a PUBLISH is written to connection `n` iff `n` is entitled
    in the state in which the peer is marked gone (so never to the lost connection itself), once, and everything else
    in `o` is an inline delivery. -/
theorem C16_drop_will_receivers_partial (caps : Caps) (s : Server) (hr : ReachSeq caps s) (i : Nat)
    (hi : i < s.objs.length) (hin : (getObj s i).inline = false) (hst : (getObj s i).stopped = false)
    (hf : (getObj s i).will.flag = true) (hd : (getObj s i).will.delay = 0)
    (hq : (getObj s i).will.qos = 0 ∨
      ∀ cid sub, MatchingSub s.topics (getObj s i).will.topic cid sub → sub.qos = 0)
    (hne : (getObj s i).will.topic ≠ []) (hnh : ∀ t ∈ splitLevels (getObj s i).will.topic, t ≠ [hash])
    (hsh : (subscribers s.topics (getObj s i).will.topic).shared = []) :
    ∃ o, (step s (.drop (getObj s i).conn)).2 = o ++ [willEvent (getObj s i).id] ∧
      ∀ n, DeliversExactly (peerLost s i) (willMsg (getObj s i)) o n := by
  obtain ⟨hs, hw, hcm, _⟩ := hr.inv
  obtain ⟨ps, pw, pc⟩ := peerLost_inv hs hw hcm i
  obtain ⟨is, iw, ic⟩ := retainedState_inv (willMsg (getObj s i)) ps pw pc
  refine ⟨_, (C16_drop_publishes_will_iff caps s hr i hi hin hst).1 ⟨hf, hd⟩, fun n => ?_⟩
  have hsh' : (subscribers (retainedState (peerLost s i) (willMsg (getObj s i))).topics
      (willMsg (getObj s i)).topic).shared = [] :=
    (retainedState_shared (peerLost s i) (willMsg (getObj s i)) ps.idx _ hne hnh).mpr hsh
  obtain ⟨g1, g2, g3, g4⟩ := C03_delivery_exact_inv_partial _ is iw ic (willMsg (getObj s i)) rfl rfl
    (hq.imp id (fun h cid sub hm => h cid sub
      ((matchingSub_congr (retainedState_quiet (peerLost s i) _).plain _ cid sub).mp hm)))
    hne hnh hsh' n
  rw [entitledF03_retainedState] at g1 g2
  rw [entitledSession_retainedState] at g2
  exact ⟨g1, g2, g3, g4⟩

/-! ## C16 for every sequential history: DISCONNECT -/

/-- **C16, DISCONNECT (item 2).**  `s` reachable by a sequential history; `c` = client object `i`, a network client
    with an open connection; the op is a DISCONNECT packet on `c`'s connection with reason code `rc` and (MQTT 5,
    optional) session expiry interval `sei`; the packet is not the protocol error "session expiry raised from zero"
    (`seiViolation`, see `C16_disconnect_violation_publishes_will`).  An MQTT 3 DISCONNECT has no reason code: `rc = 0`.

    * `rc ≠ 0x04` (0x00 and every other reason code): the outputs are exactly the close of the connection — no will
      event, no PUBLISH to anybody —, the delayed will registered under the id is removed, the will of the object is
      cleared and the object is stopped;
    * `rc = 0x04`: as a connection loss (item 1) — with the will flag set and no delay the outputs are exactly the
      will's fan-out and event, then the close; with a delay the will is registered in `willDelayed`; without a will
      nothing but the close.
    * hence: the will event appears iff `rc = 0x04 ∧ flag ∧ delay = 0`. -/
theorem C16_disconnect_iff (caps : Caps) (s : Server) (hr : ReachSeq caps s) (i rc : Nat) (sei : Option Nat)
    (hi : i < s.objs.length) (hin : (getObj s i).inline = false) (hopen : (getObj s i).isOpen = true)
    (hv : seiViolation (getObj s i) sei = false) :
    let c := getObj s i
    let r := step s (.recv c.conn (.disconnect rc sei))
    (rc ≠ 0x04 → r.2 = [.closed c.conn] ∧ r.1.willDelayed = assocDel s.willDelayed c.id ∧
      (getObj r.1 i).will.flag = false ∧ (getObj r.1 i).stopped = true) ∧
    (rc = 0x04 →
      (c.will.flag = true ∧ c.will.delay = 0 →
        r.2 = willOutputs (discState s i sei) c ++ [.closed c.conn]) ∧
      (c.will.flag = true ∧ c.will.delay > 0 →
        r.2 = [.closed c.conn] ∧ r.1.willDelayed = assocSet s.willDelayed c.id (delayedWillMsg c)) ∧
      (c.will.flag = false → r.2 = [.closed c.conn] ∧ r.1.willDelayed = s.willDelayed)) ∧
    (willEvent c.id ∈ r.2 ↔ rc = 0x04 ∧ c.will.flag = true ∧ c.will.delay = 0) := by
  intro c r
  obtain ⟨hs, hw, hcm, _⟩ := hr.inv
  have hst : (getObj s i).stopped = false := by
    have := hs.os i
    rw [hopen] at this
    simpa using this.symm
  have hc := hcm i hi hin
  have normal := fun hrc => step_disconnect_normal s i rc sei hi hrc hv hopen hst hin hc
  have g := getObj_discState s i sei hi
  have k := discObj_keep c sei
  have hmsg : willMsg (getObj (discState s i sei) i) = willMsg c := by
    rw [g]; unfold willMsg; rw [k.will, k.id]
  have hdm : delayedWillMsg (getObj (discState s i sei) i) = delayedWillMsg c := by
    rw [g]; unfold delayedWillMsg willMsg; rw [k.will, k.id]
  have withWill : rc = 0x04 →
      (c.will.flag = true ∧ c.will.delay = 0 → r.2 = willOutputs (discState s i sei) c ++ [.closed c.conn]) ∧
      (c.will.flag = true ∧ c.will.delay > 0 →
        r.2 = [.closed c.conn] ∧ r.1.willDelayed = assocSet s.willDelayed c.id (delayedWillMsg c)) ∧
      (c.will.flag = false → r.2 = [.closed c.conn] ∧ r.1.willDelayed = s.willDelayed) := by
    intro hrc
    subst hrc
    obtain ⟨e1, e2⟩ := step_disconnect_with_will s i sei hi hv hopen hst hin hc
    refine ⟨fun ⟨hf, hd⟩ => ?_, fun ⟨hf, hd⟩ => ?_, fun hf => ?_⟩
    · show (step s (.recv (getObj s i).conn (.disconnect 0x04 sei))).2 = _
      rw [e1, sendLWT_now _ i (by rw [g, k.will]; exact hf) (by rw [g, k.will]; exact hd), hmsg, g, k.id]
      rfl
    · have e := sendLWT_delayed (discState s i sei) i (by rw [g, k.will]; exact hf) (by rw [g, k.will]; exact hd)
      constructor
      · show (step s (.recv (getObj s i).conn (.disconnect 0x04 sei))).2 = _
        rw [e1, e]; rfl
      · show (step s (.recv (getObj s i).conn (.disconnect 0x04 sei))).1.willDelayed = _
        rw [e2, e, hdm, g, k.id]; rfl
    · have e := sendLWT_noflag (discState s i sei) i (by rw [g, k.will]; exact hf)
      constructor
      · show (step s (.recv (getObj s i).conn (.disconnect 0x04 sei))).2 = _
        rw [e1, e]; rfl
      · show (step s (.recv (getObj s i).conn (.disconnect 0x04 sei))).1.willDelayed = _
        rw [e2, e]; rfl
  refine ⟨normal, withWill, ⟨fun h => ?_, fun ⟨hrc, hf, hd⟩ => ?_⟩⟩
  · have hne : willEvent c.id ≠ .closed c.conn := by unfold willEvent; intro h; cases h
    by_cases hrc : rc = 0x04
    · obtain ⟨w1, w2, w3⟩ := withWill hrc
      by_cases hf : c.will.flag = true
      · by_cases hd : c.will.delay = 0
        · exact ⟨hrc, hf, hd⟩
        · rw [(w2 ⟨hf, Nat.pos_of_ne_zero hd⟩).1] at h
          simp at h; exact absurd h hne
      · rw [(w3 (by simpa using hf)).1] at h
        simp at h; exact absurd h hne
    · rw [(normal hrc).1] at h
      simp at h; exact absurd h hne
  · rw [((withWill hrc).1 ⟨hf, hd⟩)]
    unfold willOutputs
    simp

/-- the restriction `seiViolation = false` of `C16_disconnect_iff` is needed: a DISCONNECT with reason 0x00 that raises
    the session expiry interval from zero is a protocol error (Go behaviour, not a model artefact: server.go:1431-1434
    `processDisconnect` returns `ErrProtocolViolationZeroNonZeroExpiry`), the read loop ends with an error and the will IS published — the
    behaviour MQTT 5 §3.14.2.2.2 / §3.1.2.5 prescribes for a protocol error. -/
theorem C16_disconnect_violation_publishes_will :
    let s := runSrv (init {})
      [.connect 1 { ver := 5, id := [99, 49], will := some { topic := [120], payload := [119] } }]
    seiViolation (getObj s 1) (some 10) = true ∧
    willEvent [99, 49] ∈ (step s (.recv 1 (.disconnect 0 (some 10)))).2 := by
  decide

/-! ## C16: delayed wills, and at most once -/

/-- **C16, delayed wills (item 3).**  For every state `s` and time `t`, the housekeeping op `tick "wills" t`:

    1. is the fold of `publishDue` over `dueWills s t` — the registered delayed wills with `t > expiry`, in the order
       of the table: every due will is handled exactly once, no other entry is touched;
    2. one due entry `e` writes the fan-out of its message (`publishToSubscribers`), then the will event iff the client
       id is still registered; it leaves the Clients map alone and removes the entries of that id from `willDelayed`;
    3. afterwards `willDelayed` holds exactly the entries whose id is not the id of a due entry — when `willDelayed`
       is a map (one entry per id, as `assocSet` / `assocDel` keep it): exactly the entries not yet due;
    4. if nothing is due, nothing is written and nothing changes.

    And the sequential half of "a resumption in time cancels it":

    5. after an admitted CONNECT (`connect`: `attachClient` up to the read loop; admitted = `refuseCode … = none`) no
       entry of `willDelayed` has the client id of the CONNECT, whatever was registered before — it was removed
       (`admitC`), and no later tick can publish it (1.).  The schedule-dependent half is the recorded finding
       F16a: `C16_cancelled_by_resume_counterexample`. -/
theorem C16_delayed_will_iff (s : Server) (t : Int) :
    (step s (.tick "wills" t) = (dueWills s t).foldl publishDue (s, [])) ∧
    (∀ (acc : Server × List Out) (e : Str × Msg),
      (publishDue acc e).2 = acc.2 ++ (publishToSubscribers acc.1 e.2).2 ++
        (if (assocGet acc.1.clients e.1).isSome then [willEvent e.1] else []) ∧
      (publishDue acc e).1.clients = acc.1.clients ∧
      (publishDue acc e).1.willDelayed = assocDel acc.1.willDelayed e.1) ∧
    ((∀ e, e ∈ (step s (.tick "wills" t)).1.willDelayed ↔ e ∈ s.willDelayed ∧ ∀ d ∈ dueWills s t, d.1 ≠ e.1) ∧
     ((s.willDelayed.map (·.1)).Nodup →
       ∀ e, e ∈ (step s (.tick "wills" t)).1.willDelayed ↔ e ∈ s.willDelayed ∧ ¬ t > e.2.expiry)) ∧
    ((∀ e ∈ s.willDelayed, ¬ t > e.2.expiry) → step s (.tick "wills" t) = (s, [])) ∧
    (∀ (conn : Nat) (k : Connect),
      refuseCode { s with objs := s.objs ++ [parseConnect s conn k], connOf := s.connOf ++ [(conn, s.objs.length)] } k
        (parseConnect s conn k) = none →
      ∀ e ∈ (connect s conn k).1.willDelayed, e.1 ≠ k.id) := by
  rw [step_tick_wills]
  exact ⟨tickWills_eq s t, publishDue_out, ⟨(tickWills_willDelayed s t).2, tickWills_willDelayed_nodup s t⟩,
    tickWills_nothing_due s t, connect_admitted_willDelayed s⟩

/-- **C16, at most once (item 3), as state-level facts** (a count over a whole history would have to tell the wills of
    successive connections of one client id apart; the event carries the id only).  `s` reachable by a sequential
    history, `c` = live network client object `i`:

    1. after the loss of its connection the object is stopped; if the will was published at once (flag, no delay) the
       will flag of the object is cleared — so `sendLWT` for this object writes nothing (`C16_no_will`); with a delay
       the will is in `willDelayed` under the id (`C16_drop_publishes_will_iff`), one entry per id;
    2. a stopped object's handler is gone: `drop`, `recv`, `recvCut` on its connection do nothing, and a CONNECT of the
       same client id finds no live handler to take over (no `detach`, hence no `sendLWT`, for it);
    3. a delayed will that the tick published is removed by that tick: no entry of its id is left, so no later tick
       publishes it again (`C16_delayed_will_iff` 1. and 3.). -/
theorem C16_will_at_most_once_seq (caps : Caps) (s : Server) (hr : ReachSeq caps s) :
    (∀ i, i < s.objs.length → (getObj s i).inline = false → (getObj s i).stopped = false →
      (getObj (step s (.drop (getObj s i).conn)).1 i).stopped = true ∧
      ((getObj s i).will.flag = true → (getObj s i).will.delay = 0 →
        (getObj (step s (.drop (getObj s i).conn)).1 i).will.flag = false ∧
        sendLWT (step s (.drop (getObj s i).conn)).1 i = ((step s (.drop (getObj s i).conn)).1, []))) ∧
    (∀ conn i, assocGet s.connOf conn = some i → (getObj s i).stopped = true →
      step s (.drop conn) = (s, []) ∧ (∀ pk, step s (.recv conn pk) = (s, [])) ∧
      (∀ pk, step s (.recvCut conn pk) = (s, [])) ∧
      (∀ j (k : Connect), assocGet s.clients k.id = some i → (admitA s j k).2.2.2 = none)) ∧
    (∀ t e, e ∈ dueWills s t → ∀ t', ∀ d ∈ dueWills (step s (.tick "wills" t)).1 t', d.1 ≠ e.1) := by
  obtain ⟨hs, hw, hcm, _⟩ := hr.inv
  refine ⟨fun i hi hin hst => ?_, fun conn i hc hst => ?_, fun t e he t' d hd => ?_⟩
  · obtain ⟨a, b⟩ := step_drop_live_obj s i hi hst hin (hcm i hi hin)
    exact ⟨a, fun hf hd => ⟨b hf hd, sendLWT_noflag _ i (b hf hd)⟩⟩
  · have hop : (getObj s i).isOpen = false := by rw [hs.os i, hst]; rfl
    obtain ⟨a, b, c⟩ := step_stopped_noop s conn i hc hst hop
    exact ⟨a, b, c, fun j k hk => admitA_stopped_no_takeover s j k i hk hst⟩
  · rw [step_tick_wills] at hd
    unfold dueWills at hd
    have hm := (List.mem_filter.mp hd).1
    exact fun h => ((tickWills_willDelayed s t).2 d).mp hm |>.2 e he h.symm

end Mochi.Broker

/-! ## Non-vacuity: a subscriber, a will client, a client with a delayed will -/
namespace Mochi.Broker
open Mochi.Topics

/-- `s` (connection 1, object 1) subscribes to `x`; `c1` (connection 2, object 2) has the will `x ← w`, no delay; `c2`
    (connection 3, object 3, session expiry 100 s) has the will `x ← d` with a delay of 50 s -/
def c16History : List Op :=
  [.connect 1 { ver := 5, id := [115] },
   .recv 1 (.subscribe 1 0 [{ filter := [120] }]),
   .connect 2 { ver := 5, id := [99, 49], will := some { topic := [120], payload := [119] } },
   .connect 3 { ver := 5, clean := false, id := [99, 50], sei := some 100,
                will := some { topic := [120], payload := [100], delay := 50 } }]

def c16State : Server := run (init {}) c16History

theorem c16State_reach : ReachSeq {} c16State := ReachSeq.init.run c16History (by decide) (by decide)

/-- the hypotheses of the theorems hold for objects 2 and 3 -/
example : 2 < c16State.objs.length ∧ (getObj c16State 2).inline = false ∧ (getObj c16State 2).stopped = false ∧
    (getObj c16State 2).isOpen = true ∧ (getObj c16State 2).conn = 2 ∧ (getObj c16State 2).will.flag = true ∧
    (getObj c16State 2).will.delay = 0 ∧ (getObj c16State 3).conn = 3 ∧ (getObj c16State 3).will.delay = 50 := by decide

/-- **the will client is dropped**: its will reaches the subscriber on connection 1, then the will event; nothing else -/
example : (step c16State (.drop 2)).2.filterMap pubConn = [1] ∧ (step c16State (.drop 2)).2.length = 2 ∧
    willEvent [99, 49] ∈ (step c16State (.drop 2)).2 ∧ (step c16State (.drop 2)).1.willDelayed.length = 0 := by decide

/-- `C16_drop_publishes_will_iff` instantiated: the outputs are the will outputs -/
example : (step c16State (.drop 2)).2 = willOutputs (peerLost c16State 2) (getObj c16State 2) :=
  (C16_drop_publishes_will_iff {} c16State c16State_reach 2 (by decide) (by decide) (by decide)).1 ⟨by decide, by decide⟩

/-- … and who receives it (`C16_drop_will_receivers_partial` instantiated) -/
example : ∃ o, (step c16State (.drop 2)).2 = o ++ [willEvent [99, 49]] ∧
    ∀ n, DeliversExactly (peerLost c16State 2) (willMsg (getObj c16State 2)) o n :=
  C16_drop_will_receivers_partial {} c16State c16State_reach 2 (by decide) (by decide) (by decide) (by decide) (by decide)
    (Or.inl (by decide)) (by decide) (by decide) (by decide)

/-- **a delayed will**: the drop writes nothing and registers the will, due at `NOW + 50` -/
example : (step c16State (.drop 3)).2 = [] ∧
    (step c16State (.drop 3)).1.willDelayed.map (fun e => (e.1, e.2.expiry)) = [([99, 50], NOW + 50)] := by decide

/-- **… cancelled by a resumption in time**: the CONNECT of the same client id removes it, nothing but the CONNACK
    (session present) is written, and the tick after the delay publishes nothing -/
example :
    let s1 := (step c16State (.drop 3)).1
    let r := step s1 (.connect 4 { ver := 5, clean := false, id := [99, 50], sei := some 100 })
    r.2 = [.wrote 4 (.connack 5 true 0 1024 2 none)] ∧ r.1.willDelayed.length = 0 ∧
    (step r.1 (.tick "wills" (NOW + 3000))).2 = [] := by decide

/-- **… published by the tick once the delay has elapsed** (not before), reaching the subscriber; the entry is removed,
    a second tick publishes nothing -/
example :
    let s1 := (step c16State (.drop 3)).1
    (step s1 (.tick "wills" (NOW + 50))).2 = [] ∧
    (step s1 (.tick "wills" (NOW + 51))).2.filterMap pubConn = [1] ∧
    willEvent [99, 50] ∈ (step s1 (.tick "wills" (NOW + 51))).2 ∧
    (step s1 (.tick "wills" (NOW + 51))).1.willDelayed.length = 0 ∧
    (step (step s1 (.tick "wills" (NOW + 51))).1 (.tick "wills" (NOW + 52))).2 = [] := by decide

/-- **DISCONNECT**: reason 0x00 closes the connection and writes nothing else; reason 0x04 publishes the will -/
example : (step c16State (.recv 2 (.disconnect 0 none))).2 = [.closed 2] ∧
    (step c16State (.recv 2 (.disconnect 4 none))).2.filterMap pubConn = [1] ∧
    willEvent [99, 49] ∈ (step c16State (.recv 2 (.disconnect 4 none))).2 := by decide

/-- `C16_disconnect_iff` instantiated -/
example : (step c16State (.recv 2 (.disconnect 0 none))).2 = [.closed 2] :=
  ((C16_disconnect_iff {} c16State c16State_reach 2 0 none (by decide) (by decide) (by decide) (by decide)).1
    (by decide)).1

/-- **a take-over**: the CONNECT of `c1` on connection 4 while connection 2 is live: DISCONNECT 0x8E and close on
    connection 2, the CONNACK on 4, then the old connection's will reaches the subscriber (a take-over publishes the
    will) -/
example :
    let r := step c16State (.connect 4 { ver := 5, id := [99, 49] })
    r.2.take 3 = [.wrote 2 (.disconnect 5 0x8E), .closed 2, .wrote 4 (.connack 5 false 0 1024 2 none)] ∧
    r.2.filterMap pubConn = [1] ∧ willEvent [99, 49] ∈ r.2 ∧ r.2.length = 5 := by decide

end Mochi.Broker

#print axioms Mochi.Broker.C16_drop_publishes_will_iff
#print axioms Mochi.Broker.C16_drop_will_receivers_partial
#print axioms Mochi.Broker.C16_disconnect_iff
#print axioms Mochi.Broker.C16_disconnect_violation_publishes_will
#print axioms Mochi.Broker.C16_delayed_will_iff
#print axioms Mochi.Broker.C16_will_at_most_once_seq
#print axioms Mochi.Broker.c16State_reach
