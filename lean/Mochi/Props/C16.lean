import Mochi.Model.Broker
/-!
# C16 — Will messages are published exactly when the protocol requires

Model: `sendLWT`, `detach` (the end of `attachClient`), `processDisconnect`, `tickWills`.
Schedules of the old connection's teardown against a resuming connection (known finding F16a) are
the concurrency model's subject.
-/
namespace Mochi.Broker
open Mochi.Topics

/-- a client without a will never has one published -/
theorem C16_no_will (s : Server) (i : Nat) (h : (getObj s i).will.flag = false) : sendLWT s i = (s, []) := by
  unfold sendLWT; simp [h]

/-- after a normal DISCONNECT the will is discarded: the read loop ends without error and the will is
    cleared, so it can never be published later -/
theorem C16_normal_disconnect_clears (s : Server) (i : Nat) (h : i < s.objs.length) :
    (getObj (modObj s i (fun c => { c with will := {} })) i).will.flag = false := by
  simp [modObj, getObj, setObj, h]

/-- a normal DISCONNECT (reason ≠ 0x04, no expiry change) ends the connection without error -/
theorem C16_disconnect_normal (s : Server) (i rc : Nat) (h : rc ≠ 0x04) :
    (processDisconnect s i rc none).2.2 = none := by
  unfold processDisconnect
  have : (rc == 4) = false := by simpa using h
  simp [this]

/-- DISCONNECT with reason 0x04 ends the connection *with* an error, which makes `attachClient`
    publish the will -/
theorem C16_disconnect_with_will (s : Server) (i : Nat) : (processDisconnect s i 0x04 none).2.2 = some 0x04 := by
  unfold processDisconnect; simp

/-- with a will delay the will is registered for later, not published now -/
theorem C16_delay_registers (s : Server) (i : Nat) (hf : (getObj s i).will.flag = true) (hd : (getObj s i).will.delay > 0) :
    (sendLWT s i).2 = [] ∧ (assocGet (sendLWT s i).1.willDelayed (getObj s i).id).isSome = true := by
  unfold sendLWT
  simp only [hf, Bool.not_true, Bool.false_eq_true, if_false, hd, if_true]
  constructor
  · trivial
  · generalize s.willDelayed = m
    induction m with
    | nil => simp [assocSet, assocGet]
    | cons x xs ih =>
      obtain ⟨a, b⟩ := x
      unfold assocSet
      by_cases hx : a = (getObj s i).id
      · simp [hx, assocGet]
      · simp only [hx, if_false, assocGet]
        exact ih

example : (processDisconnect (init {}) 0 0 none).2.2 = none := by decide

end Mochi.Broker

namespace Mochi.Broker

def runSrv (s : Server) (ops : List Op) : Server := ops.foldl (fun s op => (step s op).1) s

/-- **F16a (schedule).** Client `c1` (will delay 50 s, session expiry 100 s) loses its connection; its
    handler is parked right after the read loop; the same id reconnects with Clean Start 0 (session
    present — `willDelayed.Delete` runs); the old handler resumes and registers the delayed will; when
    the delay has elapsed the housekeeping publishes the will although the session was resumed.
    (Replayed on the real broker on every run: corpus/C16.) -/
theorem C16_cancelled_by_resume_counterexample :
    let s := runSrv (init {})
      [.connect 1 { ver := 5, clean := false, id := [99, 49], sei := some 100,
                    will := some { topic := [120], payload := [119], delay := 50 } },
       .dropHoldEarly 1,
       .connect 2 { ver := 5, clean := false, id := [99, 49], sei := some 100 },
       .release 1]
    s.willDelayed.length = 1 ∧ ((tickWills s (NOW + 3000)).2.filter fun o => match o with | .event _ => true | _ => false).length = 1 := by
  decide

/-- in the sequential order (the old handler finishes before the reconnect) the will is cancelled -/
example :
    let s := runSrv (init {})
      [.connect 1 { ver := 5, clean := false, id := [99, 49], sei := some 100,
                    will := some { topic := [120], payload := [119], delay := 50 } },
       .drop 1,
       .connect 2 { ver := 5, clean := false, id := [99, 49], sei := some 100 }]
    s.willDelayed.length = 0 := by decide

end Mochi.Broker
