import Mochi.Lemmas.BrokerInbound
/-!
# C08 — a concrete history (non-vacuity), and the cases behind the clauses of `InEnds` / `RetransmitGates`

* `c08History`: a subscriber S on "t"; a persistent publisher P sends QoS 2 PUBLISH 7 "a", retransmits it (DUP) on
  the same connection, loses the connection, reconnects (session present), retransmits again on the NEW connection,
  sends PUBREL 7 and gets PUBCOMP 7.  S receives exactly ONE copy.  Everything is checked by `decide`.
* `C08_pubrec_from_client_counterexample` (F10): a PUBREC 7 FROM the client (success code) while its inbound exchange 7
  is open replaces the PUBREC record by a PUBREL record (and is answered PUBREL 7); the next retransmission of
  PUBLISH 7 is then forwarded a SECOND time.  This is why `InEnds` lists PUBREC `k` whatever its reason code.
* `C08_quota_counterexample`: with Receive Maximum 1 the retransmission is answered DISCONNECT 0x93 — the quota test of
  `processPublish` (server.go:890-892) comes before the duplicate test (server.go:920-925).  This is why
  `RetransmitGates` asks for receive quota.
* `C08_qos1_same_id`: a QoS 1 PUBLISH under the identifier of the open exchange is answered PUBREC 0x91 too and
  dropped (the duplicate test does not look at the QoS).
-/
namespace Mochi.Broker
open Mochi.Topics

/-- the publisher's CONNECT: MQTT 5, Clean Start 0, Session Expiry Interval 100 -/
def c08P : Connect := { ver := 5, clean := false, id := [112], sei := some 100 }

def c08History : List Op :=
  [.connect 1 { ver := 5, id := [115] },                              -- 0  S connects
   .recv 1 (.subscribe 1 0 [{ filter := [116], qos := 0 }]),          -- 1  S subscribes to "t"
   .connect 2 c08P,                                                   -- 2  P connects (object 2)
   .recv 2 (.publish 2 false false 7 [116] [97] 0 none),              -- 3  P: PUBLISH q2 id 7 "a" — PUBREC 0x00, S gets "a"
   .recv 2 (.publish 2 true false 7 [116] [97] 0 none),               -- 4  P retransmits (DUP): PUBREC 0x91, nothing to S
   .drop 2,                                                           -- 5  P's connection is lost
   .connect 3 c08P,                                                   -- 6  P reconnects: session present (object 3)
   .recv 3 (.publish 2 true false 7 [116] [97] 0 none),               -- 7  P retransmits on the new connection: PUBREC 0x91
   .recv 3 (.pubrel 7 0)]                                             -- 8  P: PUBREL 7 — PUBCOMP 7, the exchange is closed

/-- the state after the first `n` ops -/
def c08St (n : Nat) : Server := run (init {}) (c08History.take n)

/-- all outputs of a history, op by op -/
def q08_outs (s : Server) : List Op → List Out
  | [] => []
  | op :: ops => (step s op).2 ++ q08_outs (step s op).1 ops

/-- is this output a PUBLISH with payload `p` written to connection `conn`? -/
def q08_isCopy (conn : Nat) (p : Str) : Out → Bool
  | .wrote c (.publish _ m _) => c == conn && m.payload == p
  | _ => false

set_option maxRecDepth 100000 in
theorem C08_demo_fresh : OpsFresh (init {}) c08History := by decide

set_option maxRecDepth 100000 in
theorem C08_demo_schedOK : OpsSchedOK (init {}) c08History := by decide

set_option maxRecDepth 100000 in
/-- the first PUBLISH (op 3) is an accepted one: the hypotheses of `C08_accepted_qos2_shape` hold -/
theorem C08_demo_accepted :
    assocGet (c08St 3).connOf 2 = some 2 ∧ assocGet (c08St 3).clients [112] = some 2 ∧
    AcceptedQ2 (c08St 3) 2 7 [116] := by
  refine ⟨by decide, by decide, ⟨by decide, by decide, by decide, by decide, by decide, by decide, by decide, by decide,
    by decide, by decide, by decide⟩⟩

set_option maxRecDepth 100000 in
/-- the exchange is open from after the PUBLISH (prefix 4) to just before the PUBREL (prefix 8) — through the lost
    connection and the resumption — and only then -/
theorem C08_demo_open :
    ¬ InOpen (c08St 3) [112] 7 ∧
    InOpen (c08St 4) [112] 7 ∧ InOpen (c08St 5) [112] 7 ∧ InOpen (c08St 6) [112] 7 ∧ InOpen (c08St 7) [112] 7 ∧
    InOpen (c08St 8) [112] 7 ∧
    ¬ InOpen (c08St 9) [112] 7 := by decide

set_option maxRecDepth 100000 in
/-- no op between the PUBLISH and the PUBREL is in `InEnds` (the two retransmissions, the drop, the resumption):
    the hypothesis `hmid` of `C08_forwarded_exactly_once` -/
theorem C08_demo_noEnds : InNoEnds (c08St 4) [112] 7 ((c08History.drop 4).take 4) := by decide

set_option maxRecDepth 100000 in
/-- … and the PUBREL is -/
theorem C08_demo_pubrel_ends : InEnds (c08St 8) [112] 7 (.recv 3 (.pubrel 7 0)) := by decide

set_option maxRecDepth 100000 in
/-- the retransmissions (ops 4 and 7) pass `RetransmitGates` on the connection of the session's object -/
theorem C08_demo_retransmit_gates :
    assocGet (c08St 4).connOf 2 = some 2 ∧ assocGet (c08St 4).clients [112] = some 2 ∧
    RetransmitGates (c08St 4) 2 7 [116] ∧
    assocGet (c08St 7).connOf 3 = some 3 ∧ assocGet (c08St 7).clients [112] = some 3 ∧
    RetransmitGates (c08St 7) 3 7 [116] := by
  refine ⟨by decide, by decide, ⟨by decide, by decide, by decide, by decide, by decide, by decide, by decide, by decide⟩,
    by decide, by decide, ⟨by decide, by decide, by decide, by decide, by decide, by decide, by decide, by decide⟩⟩

set_option maxRecDepth 100000 in
/-- what the ops write: PUBREC 0x00 and the copy for S; PUBREC 0x91 alone, twice (on connection 2, then 3); the
    reconnect's CONNACK has session present and the PUBREC record is resent; PUBCOMP -/
theorem C08_demo_outputs :
    (step (c08St 3) (.recv 2 (.publish 2 false false 7 [116] [97] 0 none))).2.take 1 = [.wrote 2 (.ack 5 5 7 0)] ∧
    ((step (c08St 3) (.recv 2 (.publish 2 false false 7 [116] [97] 0 none))).2.drop 1).map (q08_isCopy 1 [97]) = [true] ∧
    (step (c08St 4) (.recv 2 (.publish 2 true false 7 [116] [97] 0 none))).2 = [.wrote 2 (.ack 5 5 7 0x91)] ∧
    (step (c08St 6) (.connect 3 c08P)).2 =
      [.wrote 3 (.connack 5 true 0 1024 2 none), .wrote 3 (.ack 5 5 7 0)] ∧
    (step (c08St 7) (.recv 3 (.publish 2 true false 7 [116] [97] 0 none))).2 = [.wrote 3 (.ack 5 5 7 0x91)] ∧
    (step (c08St 8) (.recv 3 (.pubrel 7 0))).2 = [.wrote 3 (.ack 5 7 7 0)] := by decide

set_option maxRecDepth 100000 in
/-- **the subscriber receives exactly one copy** over the whole history -/
theorem C08_demo_exactly_one_copy :
    ((q08_outs (init {}) c08History).filter (q08_isCopy 1 [97])).length = 1 := by decide

set_option maxRecDepth 100000 in
/-- the retransmissions change nothing at all in the broker -/
theorem C08_demo_retransmit_state :
    (step (c08St 4) (.recv 2 (.publish 2 true false 7 [116] [97] 0 none))).1.rmsgs = (c08St 4).rmsgs ∧
    (step (c08St 4) (.recv 2 (.publish 2 true false 7 [116] [97] 0 none))).1.objs.map (·.inflight) =
      (c08St 4).objs.map (·.inflight) := by decide

/-! ### the cases behind the definitions -/

set_option maxRecDepth 100000 in
/-- F10, inbound face: the client sends PUBREC 7 (success) while ITS exchange 7 is open — the broker answers PUBREL 7,
    the PUBREC record is replaced by a PUBREL record (`InOpen` is lost without a PUBREL from the client), and the next
    retransmission of PUBLISH 7 is accepted as new: S gets a SECOND copy.  Go: `processPubrec` (server.go:1214-1231)
    looks the identifier up in the one in-flight map and `Set`s the PUBREL over whatever is there. -/
theorem C08_pubrec_from_client_counterexample :
    InOpen (c08St 4) [112] 7 ∧
    InEnds (c08St 4) [112] 7 (.recv 2 (.pubrec 7 0)) ∧
    (step (c08St 4) (.recv 2 (.pubrec 7 0))).2 = [.wrote 2 (.ack 5 6 7 0)] ∧
    ¬ InOpen (step (c08St 4) (.recv 2 (.pubrec 7 0))).1 [112] 7 ∧
    ((q08_outs (c08St 4) [.recv 2 (.pubrec 7 0), .recv 2 (.publish 2 true false 7 [116] [97] 0 none)]).filter
      (q08_isCopy 1 [97])).length = 1 := by decide

/-- the history of `C08_quota_counterexample`: Receive Maximum 1 -/
def c08QuotaHistory : List Op :=
  [.connect 1 c08P,
   .recv 1 (.publish 2 false false 7 [116] [97] 0 none),
   .recv 1 (.publish 2 true false 7 [116] [97] 0 none)]

set_option maxRecDepth 100000 in
/-- with Receive Maximum 1 the open exchange holds the only unit of receive quota: the retransmission is answered
    DISCONNECT 0x93 (receive maximum exceeded), the connection is closed — the exchange stays open (the session
    persists) and nothing is forwarded.  Go: server.go:890-892 precedes server.go:920-925. -/
theorem C08_quota_counterexample :
    (step (run (init { receiveMaximum := 1 }) (c08QuotaHistory.take 1)) (.recv 1 (.publish 2 false false 7 [116] [97] 0 none))).2 =
      [.wrote 1 (.ack 5 5 7 0)] ∧
    InOpen (run (init { receiveMaximum := 1 }) (c08QuotaHistory.take 2)) [112] 7 ∧
    (getObj (run (init { receiveMaximum := 1 }) (c08QuotaHistory.take 2)) 1).recvQuota = 0 ∧
    (step (run (init { receiveMaximum := 1 }) (c08QuotaHistory.take 2)) (.recv 1 (.publish 2 true false 7 [116] [97] 0 none))).2 =
      [.wrote 1 (.disconnect 5 0x93), .closed 1] ∧
    InOpen (run (init { receiveMaximum := 1 }) c08QuotaHistory) [112] 7 := by decide

set_option maxRecDepth 100000 in
/-- a QoS 1 PUBLISH "b" under the identifier of the open exchange: answered PUBREC 0x91 (not PUBACK), not forwarded —
    the duplicate test of `processPublish` does not look at the QoS (server.go:920-925) -/
theorem C08_qos1_same_id :
    ¬ InEnds (c08St 4) [112] 7 (.recv 2 (.publish 1 false false 7 [116] [98] 0 none)) ∧
    (step (c08St 4) (.recv 2 (.publish 1 false false 7 [116] [98] 0 none))).2 = [.wrote 2 (.ack 5 5 7 0x91)] ∧
    InOpen (step (c08St 4) (.recv 2 (.publish 1 false false 7 [116] [98] 0 none))).1 [112] 7 := by decide

end Mochi.Broker
