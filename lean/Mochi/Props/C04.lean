import Mochi.Model.Broker
import Mochi.Lemmas.BrokerQosDelivery
/-!
# C04 — Delivered QoS, subscription identifiers and retain flag follow the options

Model: `shapeOut` (the shaping part of server.go `publishToClient`) and `grantedQos`
(`processSubscribe`).  Decision logic stated outright, for every publish, subscription (merged over
any number of matching subscriptions by `Sub.merge`) and server maximum.
Retained deliveries carry the subscription's identifier since the repair "fix: retained messages sent
on subscribe carry the subscription identifier" (before it `publishRetainedToClient` passed the raw
subscription whose `Identifiers` map is nil, cf. `C04_subids_none`).
-/
namespace Mochi.Broker
open Mochi.Topics

/-- delivered QoS = min(published QoS, subscription QoS, server maximum) -/
theorem C04_qos (caps : Caps) (ver : Nat) (sub : Sub) (fwd : Bool) (pk : Msg) :
    (shapeOut caps ver sub fwd pk).qos = min (min pk.qos sub.qos) caps.maximumQos := by
  simp only [shapeOut, shapeQos]
  split <;> split <;> omega

/-- merging subscriptions keeps the highest QoS: the QoS of the merged subscription is the maximum -/
theorem C04_merge_qos (a b : Sub) : (a.merge b).qos = max a.qos b.qos := by
  unfold Sub.merge; simp only []; split <;> omega

/-- QoS granted in SUBACK = requested QoS capped at the server maximum -/
theorem C04_suback (caps : Caps) (q : Nat) : grantedQos caps q = min q caps.maximumQos := by
  unfold grantedQos; split <;> omega

/-- live delivery clears the retain flag unless the (MQTT 5) subscription has Retain As Published;
    replayed retained messages keep it -/
theorem C04_retain_flag (caps : Caps) (ver : Nat) (hv : ver ≤ 5) (sub : Sub) (pk : Msg) :
    (shapeOut caps ver sub false pk).retain = (decide (ver = 5) && sub.rap && pk.retain) := by
  simp only [shapeOut, shapeRetain]
  cases hr : sub.rap <;> by_cases h5 : ver = 5 <;> simp_all <;> omega

/-- replayed retained messages keep the retain flag -/
theorem C04_retain_replay (caps : Caps) (ver : Nat) (sub : Sub) (pk : Msg) :
    (shapeOut caps ver sub true pk).retain = pk.retain := by
  simp [shapeOut, shapeRetain]

/-- the delivered identifiers are exactly the identifiers recorded in the merged subscription, sorted -/
theorem C04_subids (caps : Caps) (ver : Nat) (sub : Sub) (fwd : Bool) (pk : Msg) (ids : List (Str × Nat))
    (h : sub.idents = some ids) (hne : ids ≠ []) :
    (shapeOut caps ver sub fwd pk).subIds = (ids.map (·.2)).mergeSort := by
  have hl : ids.length > 0 := by cases ids <;> simp_all
  simp [shapeOut, shapeSubIds, h, hl]

/-- a subscription whose identifier map was never built (retained replay) delivers no identifier -/
theorem C04_subids_none (caps : Caps) (ver : Nat) (sub : Sub) (fwd : Bool) (pk : Msg) (h : sub.idents = none) :
    (shapeOut caps ver sub fwd pk).subIds = [] := by
  simp [shapeOut, shapeSubIds, h]

/-- non-vacuity -/
example : (shapeOut {} 5 { filter := [97], qos := 1 } false { qos := 2, retain := true }).qos = 1 := by decide
example : (shapeOut { maximumQos := 0 } 5 { filter := [97], qos := 2 } false { qos := 2 }).qos = 0 := by decide
example : (shapeOut {} 5 { filter := [97], qos := 1, rap := true } false { qos := 2, retain := true }).retain = true := by decide
example : (shapeOut {} 4 { filter := [97], qos := 1, rap := true } false { qos := 2, retain := true }).retain = false := by decide

end Mochi.Broker

/-! ## The copy that is actually WRITTEN at QoS > 0 carries the shaped QoS, retain flag and identifiers

`Q1.Live`, `Q1.verdict`, `Q1.copyOf`: `Mochi/Lemmas/BrokerQosDelivery.lean`; the classification itself is
`publishToClientCore_qos_shape` (`Props/C10.lean`). -/
namespace Mochi.Broker
open Mochi.Topics

/-- **Item 2.**  In case (d) of a delivery of QoS > 0 (`Q1.verdict s i = .sent pid`) to a live network client without
    outbound aliases, the ONE packet written is a PUBLISH whose QoS is `min (min pk.qos sub.qos) maximumQos`
    (`C04_qos`), whose retain flag and subscription identifiers are those of `shapeOut` (`C04_retain_flag`,
    `C04_subids`), with `dup = false`, the allocated identifier, topic and payload of the message. -/
theorem C04_delivered_qos_exact (s : Server) (i : Nat) (sub : Sub) (pk : Msg) (h : Q1.Live s i) (ht : pk.type = 3)
    (hq : shapeQos s.caps sub pk.qos > 0) (pid : Nat) (hv : Q1.verdict s i = .sent pid) :
    ∃ m me, (publishToClientCore s i sub false pk).2 = [.wrote (getObj s i).conn (.publish (getObj s i).ver m me)] ∧
      m.qos = min (min pk.qos sub.qos) s.caps.maximumQos ∧
      m.retain = (shapeOut s.caps (getObj s i).ver sub false pk).retain ∧
      m.retain = shapeRetain (getObj s i).ver sub false pk.retain ∧
      m.subIds = shapeSubIds sub ∧
      m.dup = false ∧ m.id = pid ∧ m.topic = pk.topic ∧ m.payload = pk.payload ∧ m.type = 3 := by
  have e := Q1.core_eq s i sub pk h ht hq
  unfold Q1.coreResult at e
  rw [hv] at e
  refine ⟨Q1.copyOf s i sub pk pid, _, by rw [e]; rfl, ?_, rfl, rfl, rfl, rfl, rfl, rfl, rfl, ht⟩
  exact C04_qos s.caps (getObj s i).ver sub false pk

/-- with an MQTT version ≤ 5 the retain flag of that copy is `ver = 5 ∧ rap ∧ pk.retain` -/
theorem C04_delivered_retain_exact (s : Server) (i : Nat) (sub : Sub) (pk : Msg) (pid : Nat)
    (hver : (getObj s i).ver ≤ 5) :
    (Q1.copyOf s i sub pk pid).retain = (decide ((getObj s i).ver = 5) && sub.rap && pk.retain) :=
  C04_retain_flag s.caps (getObj s i).ver hver sub pk

end Mochi.Broker

#print axioms Mochi.Broker.C04_delivered_qos_exact
