import Mochi.Model.Broker
import Mochi.Lemmas.BrokerIndexSync
/-!
# C15 — Expired or ended sessions leave nothing behind

Model: `sessionDue` / `tickClients` (server.go `clearExpiredClients`, after the repair "fix: expired
sessions are fully discarded…"), `detach` (end of `attachClient`), `processDisconnect`.
-/
namespace Mochi.Broker
open Mochi.Topics

/-- a session is due exactly when it is disconnected and its expiry interval — the client's own for an
    MQTT 5 session that set one, otherwise the server maximum — has elapsed -/
theorem C15_discard_iff (caps : Caps) (c : Client) (dt : Int) :
    sessionDue caps c dt = true ↔
      c.stopped = true ∧ NOW + (if c.ver = 5 ∧ c.fsei = true then (c.sei : Int) else caps.maxSessionExpiry) < dt := by
  unfold sessionDue
  by_cases h5 : c.ver = 5 <;> by_cases hf : c.fsei = true <;> simp_all

/-- a connected session is never due -/
theorem C15_connected_never (caps : Caps) (c : Client) (dt : Int) (h : c.stopped = false) :
    sessionDue caps c dt = false := by
  unfold sessionDue; simp [h]

/-- a DISCONNECT cannot raise a zero session expiry interval to non-zero: it is a protocol error and
    the stored interval is unchanged -/
theorem C15_no_zero_to_nonzero (s : Server) (i rc v : Nat) (hv : v > 0) (h0 : (getObj s i).sei = 0) :
    processDisconnect s i rc (some v) = (s, [], some 0x82) := by
  unfold processDisconnect
  simp [hv, h0]

/-- discarding a session removes every subscription of it from the index bookkeeping of the client
    object and every inflight message -/
theorem C15_nothing_left_inflight (s : Server) (i : Nat) : (getObj (clearInflights s i) i).inflight = [] ∨ s.objs.length ≤ i := by
  unfold clearInflights
  by_cases h : i < s.objs.length
  · left
    simp [getObj, setObj, h]
  · right; omega

example : sessionDue {} { stopped := true, ver := 5, fsei := true, sei := 10 } (NOW + 11) = true := by decide
example : sessionDue {} { stopped := true, ver := 5, fsei := true, sei := 10 } (NOW + 10) = false := by decide
example : sessionDue { maxSessionExpiry := 100 } { stopped := true, ver := 4 } (NOW + 101) = true := by decide

/-! ### no orphan subscriptions: the topic index and the sessions agree (`Mochi/Lemmas/BrokerIndexSync.lean`)

`IndexSync s`: every non-inline entry `(cid, filter)` of the topic index (plain or shared) belongs to a client
registered under `cid` whose object holds a subscription for `filter`. -/

/-- the unrestricted statement: no orphan index entry after ANY history with fresh connection numbers.
    False under some schedules: `C15_no_orphan_subscriptions_all_histories_false`. -/
def C15_no_orphan_subscriptions_all_histories : Prop :=
  ∀ (caps : Caps) (ops : List Op), OpsFresh (init caps) ops → IndexSync (run (init caps) ops)

/-- … for every history that respects the discipline of the schedule ops (`SchedOK`: no op on a connection whose
    handler is parked; no `clients` tick that expires a session whose handler is parked before its clean-up) -/
theorem C15_no_orphan_subscriptions_all_histories_partial (caps : Caps) (ops : List Op)
    (hf : OpsFresh (init caps) ops) (hok : OpsSchedOK (init caps) ops) : IndexSync (run (init caps) ops) :=
  IndexSync_run_partial caps ops hf hok

/-- … in particular for EVERY history without schedule ops (connect, recv, recvCut, drop, ticks, inline API) -/
theorem C15_no_orphan_subscriptions_seq (caps : Caps) (ops : List Op) (hseq : SeqOps ops)
    (hf : OpsFresh (init caps) ops) : IndexSync (run (init caps) ops) :=
  IndexSync_run_seq caps ops hseq hf

/-- the schedule that orphans an entry: client `x` (MQTT 5, Session Expiry 0) loses its connection and its handler
    is parked before the session clean-up (`attach.beforeCleanup`); `clearExpiredClients` removes the session; `x`
    connects again and subscribes to `a`; the parked handler runs on — its `Clients.Delete(cl.ID)` removes the NEW
    session from the Clients map, the subscription stays in the index -/
def orphanHistory : List Op :=
  [.connect 1 { ver := 5, id := [120], sei := some 0 },
   .dropHold 1,
   .tick "clients" (NOW + 1),
   .connect 2 { ver := 5, id := [120], sei := some 100 },
   .recv 2 (.subscribe 1 0 [{ filter := [97] }]),
   .release 1]

theorem C15_orphan_fresh : OpsFresh (init {}) orphanHistory := by decide

/-- the entry `(x, a)` is in the index, `x` is not in the Clients map -/
theorem C15_orphan_counterexample : ¬ IndexSync (run (init {}) orphanHistory) := by decide

theorem C15_no_orphan_subscriptions_all_histories_false : ¬ C15_no_orphan_subscriptions_all_histories :=
  fun h => C15_orphan_counterexample (h {} orphanHistory C15_orphan_fresh)

/-- the op that breaks the discipline is the `clients` tick (third op) -/
example : OpsSchedOK (init {}) (orphanHistory.take 2) := by decide
example : ¬ OpsSchedOK (init {}) (orphanHistory.take 3) := by decide
example : indexEntries (run (init {}) orphanHistory).topics = [([120], [97])] := by decide
example : (run (init {}) orphanHistory).clients = [(inlineID, 0)] := by decide

/-- what the orphan entry does: the connection is dropped, `x` connects a third time with Clean Start (connection
    3, never subscribes), `y` connects (connection 4) and publishes to `a`: connection 3 is written the PUBLISH -/
example :
    let s := run (init {}) (orphanHistory ++ [.drop 2, .connect 3 { ver := 5, id := [120], clean := true },
      .connect 4 { ver := 5, id := [121] }])
    (step s (.recv 4 (.publish 0 false false 0 [97] [112] 0 none))).2.any
      (fun o => match o with | .wrote 3 (.publish ..) => true | _ => false) = true := by decide

/-- other ways to orphan an entry are model artefacts excluded by `SchedOK` (a parked handler does not read, so the
    harness never applies an op to a parked connection): a `drop` on a connection parked in the authentication hook -/
example : ¬ IndexSync (run (init {})
    [.connect 1 { ver := 5, id := [120], sei := some 100 },
     .recv 1 (.subscribe 1 0 [{ filter := [97] }]),
     .connectHold 2 { ver := 5, id := [120], sei := some 0 } 1,
     .drop 2]) := by decide
/-- … or a SUBSCRIBE read on it -/
example : ¬ IndexSync (run (init {})
    [.connectHold 2 { ver := 5, id := [120], sei := some 0 } 1,
     .recv 2 (.subscribe 1 0 [{ filter := [97] }])]) := by decide

/-- once a session is no longer in the Clients map, none of its subscriptions is in the index: after
    `clearExpiredClients` (`tick "clients"`) at the end of any history (respecting `OpFresh`, `SchedOK`) every client id
    that is no longer registered has no entry -/
theorem C15_expired_session_leaves_no_subscription (caps : Caps) (ops : List Op) (t : Int)
    (hf : OpsFresh (init caps) (ops ++ [.tick "clients" t])) (hok : OpsSchedOK (init caps) (ops ++ [.tick "clients" t]))
    (cid : Str) (_hwas : ∃ i, (cid, i) ∈ (run (init caps) ops).clients)
    (hgone : ∀ i, (cid, i) ∉ (run (init caps) (ops ++ [.tick "clients" t])).clients) (f : Str) :
    (cid, f) ∉ indexEntries (run (init caps) (ops ++ [.tick "clients" t])).topics :=
  (IndexSync_run_partial caps _ hf hok).no_entry_of_unregistered cid hgone f

/-- the same for a session that ended in any other way (expiry 0 at disconnect, MQTT 3 clean session): in every
    reachable state an unregistered client id has no entry -/
theorem C15_ended_session_leaves_no_subscription (caps : Caps) (ops : List Op)
    (hf : OpsFresh (init caps) ops) (hok : OpsSchedOK (init caps) ops)
    (cid : Str) (hgone : ∀ i, (cid, i) ∉ (run (init caps) ops).clients) (f : Str) :
    (cid, f) ∉ indexEntries (run (init caps) ops).topics :=
  (IndexSync_run_partial caps _ hf hok).no_entry_of_unregistered cid hgone f

/-! non-vacuity: two clients `A` (Session Expiry 10) and `B`, plain and `$share` subscriptions, a takeover of `B` with
    Clean Start, `A`'s connection is dropped and its session expires at the tick -/
def demoA : Str := [65]
def demoB : Str := [66]
def demoShare : Str := [36, 115, 104, 97, 114, 101, 47, 103, 47, 97]   -- $share/g/a

def demoTakeover : List Op :=
  [.connect 1 { ver := 5, id := demoA, sei := some 10 },
   .recv 1 (.subscribe 1 0 [{ filter := [97] }, { filter := demoShare }]),
   .connect 2 { ver := 5, id := demoB, sei := some 100 },
   .recv 2 (.subscribe 1 0 [{ filter := [98] }]),
   .connect 3 { ver := 5, id := demoB, clean := true, sei := some 100 }]

def demoExpiry : List Op :=
  demoTakeover ++ [.recv 3 (.subscribe 1 0 [{ filter := [98] }]), .drop 1, .tick "clients" (NOW + 11)]

example : SeqOps demoExpiry := by decide
example : OpsFresh (init {}) demoExpiry := by decide
example : OpsSchedOK (init {}) demoExpiry := by decide
/-- before the takeover `B`'s entry is there -/
example : indexEntries (run (init {}) (demoTakeover.take 4)).topics =
    [(demoA, [97]), (demoA, demoShare), (demoB, [98])] := by decide
/-- before the tick `A` is registered and its two entries (plain and shared) are in the index, with `B`'s new one -/
example : (demoA, 1) ∈ (run (init {}) (demoExpiry.take 7)).clients := by decide
example : indexEntries (run (init {}) (demoExpiry.take 7)).topics =
    [(demoA, [97]), (demoA, demoShare), (demoB, [98])] := by decide
/-- after the tick `A` is gone from the Clients map and from the index; the index is not empty -/
example : ∀ i, (demoA, i) ∉ (run (init {}) demoExpiry).clients := by
  intro i h
  have : (run (init {}) demoExpiry).clients = [(inlineID, 0), (demoB, 3)] := by decide
  rw [this] at h
  simp [inlineID, demoA, demoB] at h
example : indexEntries (run (init {}) demoExpiry).topics = [(demoB, [98])] := by decide

/-! ### the converse: a registered session's plain subscriptions are all in the index -/

/-- (b) for plain filters, for every history respecting `OpFresh` and `SchedOK`: every plain filter a registered
    session holds a subscription for has its entry in the topic index (so the session does receive what it subscribed
    to — C03).  For `$share` filters the statement is false already sequentially:
    `IndexSyncConv_seq_false` (`Mochi/Lemmas/BrokerIndexSync.lean`). -/
theorem C15_plain_subscriptions_indexed_partial (caps : Caps) (ops : List Op)
    (hf : OpsFresh (init caps) ops) (hok : OpsSchedOK (init caps) ops) : IndexSyncPlain (run (init caps) ops) :=
  IndexSyncPlain_run_partial caps ops hf hok

theorem C15_plain_subscriptions_indexed_seq (caps : Caps) (ops : List Op) (hseq : SeqOps ops)
    (hf : OpsFresh (init caps) ops) : IndexSyncPlain (run (init caps) ops) :=
  IndexSyncPlain_run_seq caps ops hseq hf

example : IndexSyncPlain (run (init {}) demoExpiry) := by decide
example : IndexSyncConv (run (init {}) demoExpiry) := by decide

/-! the discipline `SchedOK` admits the schedules of the harness: a handler parked before its clean-up while the same
    client id reconnects (takeover of the parked session) and is released afterwards; a CONNECT parked in the
    authentication hook and one parked after `Clients.Add`, each released later; a handler parked right after its read
    loop; a `clients` tick while handlers are parked that expires none of them -/
def demoSchedule : List Op :=
  [.connect 1 { ver := 5, id := demoA, sei := some 0 },
   .recv 1 (.subscribe 1 0 [{ filter := [97] }, { filter := demoShare }]),
   .dropHold 1,
   .connect 2 { ver := 5, id := demoA, clean := false, sei := some 50 },
   .release 1,
   .connectHold 3 { ver := 5, id := demoB, sei := some 100 } 1,
   .tick "clients" (NOW + 5),
   .release 3,
   .recv 3 (.subscribe 1 0 [{ filter := [98] }]),
   .connectHold 4 { ver := 5, id := demoB, clean := false, sei := some 100 } 2,
   .dropHoldEarly 2,
   .release 4,
   .release 2,
   .tick "clients" (NOW + 100)]

example : ¬ SeqOps demoSchedule := by decide
example : OpsFresh (init {}) demoSchedule := by decide
example : OpsSchedOK (init {}) demoSchedule := by decide
/-- `A`'s session was resumed by connection 2 while the old handler was parked, lost its connection and expired at the
    last tick; `B`'s session was inherited by connection 4 -/
example : indexEntries (run (init {}) (demoSchedule.take 13)).topics =
    [(demoA, [97]), (demoA, demoShare), (demoB, [98])] := by decide
example : indexEntries (run (init {}) demoSchedule).topics = [(demoB, [98])] := by decide
example : (run (init {}) demoSchedule).clients = [(inlineID, 0), (demoB, 4)] := by decide

end Mochi.Broker
