import Mochi.Model.Broker
/-!
# C15 — Expired or ended sessions leave nothing behind

Model: `sessionDue` / `tickClients` (server.go `clearExpiredClients`, after the repair "fix: expired
sessions are fully discarded…"), `detach` (end of `attachClient`), `processDisconnect`.
-/
namespace Mochi.Broker
open Mochi.Topics

/-- a session is due exactly when it is disconnected and its expiry interval — the client's own for an
    MQTT 5 session that set one, otherwise the server maximum — has elapsed -/
theorem C15_discard_iff (caps : Caps) (c : Client) (dt : Int) :
    sessionDue caps c dt = true ↔
      c.stopped = true ∧ NOW + (if c.ver = 5 ∧ c.fsei = true then (c.sei : Int) else caps.maxSessionExpiry) < dt := by
  unfold sessionDue
  by_cases h5 : c.ver = 5 <;> by_cases hf : c.fsei = true <;> simp_all

/-- a connected session is never due -/
theorem C15_connected_never (caps : Caps) (c : Client) (dt : Int) (h : c.stopped = false) :
    sessionDue caps c dt = false := by
  unfold sessionDue; simp [h]

/-- a DISCONNECT cannot raise a zero session expiry interval to non-zero: it is a protocol error and
    the stored interval is unchanged -/
theorem C15_no_zero_to_nonzero (s : Server) (i rc v : Nat) (hv : v > 0) (h0 : (getObj s i).sei = 0) :
    processDisconnect s i rc (some v) = (s, [], some 0x82) := by
  unfold processDisconnect
  simp [hv, h0]

/-- discarding a session removes every subscription of it from the index bookkeeping of the client
    object and every inflight message -/
theorem C15_nothing_left_inflight (s : Server) (i : Nat) : (getObj (clearInflights s i) i).inflight = [] ∨ s.objs.length ≤ i := by
  unfold clearInflights
  by_cases h : i < s.objs.length
  · left
    simp [getObj, setObj, h]
  · right; omega

example : sessionDue {} { stopped := true, ver := 5, fsei := true, sei := 10 } (NOW + 11) = true := by decide
example : sessionDue {} { stopped := true, ver := 5, fsei := true, sei := 10 } (NOW + 10) = false := by decide
example : sessionDue { maxSessionExpiry := 100 } { stopped := true, ver := 4 } (NOW + 101) = true := by decide

end Mochi.Broker
